---------------------------- MODULE MC_Registries ----------------------------
(* Bounded instance of Registries for TLC.  One run, several modes (initial states):
     fields  every width W <= 8, every field <<lo, w>> inside it, every second disjoint field (W <= 6)
     flags   every header word 0..65535           rcode  every rcode 0..4095
     ehi     every EDNS high limb 0..65535        value  every <<registry, value>>
     text    every lexical text / word of the tier's universe, for every registry of the tier
     header  the header machine, MDepth calls     reg    the registration machine, MRDepth calls *)
EXTENDS Registries, RegistriesUniverse

CONSTANTS Modes, MDepth, MRDepth, ValueRegs,
          Slices, Slice                    \* the 65536-value sweeps can be cut into Slices residue classes (one TLC process each)
VARIABLES mode, x, steps
mvars == <<flags, ehi, elo, opt, regs, mode, x, steps>>
(* the header machine's universe: TLC needs ~10 ms per transition for the four frame properties, so the quick
   tier offers the small call universe from one initial word (the traces cover the full one) *)
MOps == IF Thorough THEN GOps ELSE SOps
MRcs == IF Thorough THEN GRcs ELSE SRcs
MNames == IF Thorough THEN ToSet(FlagNames) ELSE SNames
MVers == IF Thorough THEN GVers ELSE SVers
MELos == IF Thorough THEN GELos ELSE SELos
MInitFlags == {10629}

Idle == flags = 0 /\ ehi = 0 /\ elo = 0 /\ opt = FALSE /\ regs = <<>> /\ steps = 0
FieldItems == {<<W, lo, w, 0, 0>> : W \in 1..8, lo \in 0..7, w \in 1..8}
              \cup {<<W, lo, w, lo2, w2>> : W \in 1..6, lo \in 0..5, w \in 1..6, lo2 \in 0..5, w2 \in 1..6}
FieldOk(it) == /\ it[2] + it[3] <= it[1]
               /\ (it[5] > 0 => it[4] + it[5] <= it[1] /\ (it[4] >= it[2] + it[3] \/ it[2] >= it[4] + it[5]))
MCInit ==
    /\ mode \in Modes
    /\ \/ mode = "fields" /\ x \in {it \in FieldItems : FieldOk(it)} /\ Idle
       \/ mode \in {"flags", "ehi"} /\ x \in {v \in 0..65535 : v % Slices = Slice} /\ Idle
       \/ mode = "rcode" /\ x \in 0..4095 /\ Idle
       \/ mode = "value" /\ \E reg \in ValueRegs : x \in {<<reg, v>> : v \in {w \in 0..Max(reg) : w % Slices = Slice}} /\ Idle
       \/ mode = "text" /\ \E reg \in TextRegs : x \in {<<reg, s>> : s \in LexTexts \cup Words} /\ Idle
       \/ mode = "header" /\ x = 0 /\ flags \in MInitFlags /\ ehi = 0 /\ elo = 0 /\ opt = FALSE /\ regs = <<>> /\ steps = 0
       \/ mode = "reg" /\ x = 0 /\ Idle
MCNext == /\ \/ mode = "header" /\ steps < MDepth /\ HNext
             \/ mode = "reg" /\ steps < MRDepth /\ RNext
          /\ steps' = steps + 1 /\ UNCHANGED <<mode, x>>
MCSpec == MCInit /\ [][MCNext]_mvars

(* ------------------------------------------------------------------ constant-level sanity *)
AllFields(lay) == {lay[k][1] : k \in 1..Len(lay)}
Partition(lay) == /\ Width(lay) = 16
                  /\ MaskOf(UNION {BitsOf(MaskF(lay, n), 16) : n \in AllFields(lay)}) = 65535
                  /\ \A m, n \in AllFields(lay) : m # n => And(MaskF(lay, m), MaskF(lay, n), 16) = 0
(* the derived positions against the numbers everybody knows (dns.flags documents QR = 0x8000 ... CD = 0x0010,
   DO = 0x8000; "Flags Mask (excludes opcode and rcode)" 0x87F0; opcode bits 0x7800; rcode bits 0x000F) *)
LayoutLaws ==
    /\ Partition(Header) /\ Partition(EdnsHi) /\ Partition(EdnsLo)
    /\ <<MaskF(Header, "QR"), MaskF(Header, "AA"), MaskF(Header, "TC"), MaskF(Header, "RD"), MaskF(Header, "RA"), MaskF(Header, "Z"),
         MaskF(Header, "AD"), MaskF(Header, "CD")>> = <<32768, 1024, 512, 256, 128, 64, 32, 16>>
    /\ MaskF(Header, "OPCODE") = 30720 /\ MaskF(Header, "RCODE") = 15 /\ FlagsMask = 34800
    /\ MaskF(EdnsLo, "DO") = 32768 /\ MaskF(EdnsLo, "CO") = 16384 /\ MaskF(EdnsHi, "EXTRCODE") = 65280
    /\ FlagNames = <<"QR", "AA", "TC", "RD", "RA", "AD", "CD">> /\ EFlagNames = <<"DO", "CO">>
    /\ \A op \in 0..15 : OpcodeToFlags(op) = op * 2048
TablesSane == \A reg \in Tabled : TableSane(reg, Table(reg))
(* constant-level: checked once, as assumptions *)
ASSUME LayoutLaws
ASSUME TablesSane

(* ------------------------------------------------------------------ per-mode laws *)
FieldLaws == mode = "fields" =>
    LET W == x[1]  lo == x[2]  w == x[3]  lo2 == x[4]  w2 == x[5]
        N == Pow2(W)
        rest == N - 1 - FieldMask(lo, w)
    IN  \A y \in 0..(N - 1) :
          /\ MaskOf(BitsOf(y, W)) = y
          /\ Field(y, lo, w) * Pow2(lo) = And(y, FieldMask(lo, w), W)
          /\ WithField(y, lo, w, Field(y, lo, w)) = y
          /\ And(y, FieldMask(lo, w), W) + And(y, rest, W) = y /\ Or(And(y, FieldMask(lo, w), W), And(y, rest, W), W) = y
          /\ AndNot(y, FieldMask(lo, w), W) = And(y, rest, W)
          /\ \A v \in 0..(Pow2(w) - 1) :
               LET z == WithField(y, lo, w, v)
               IN  /\ z \in 0..(N - 1) /\ Field(z, lo, w) = v /\ And(z, rest, W) = And(y, rest, W)
                   /\ WithField(z, lo, w, Pow2(w) - 1 - v) = WithField(y, lo, w, Pow2(w) - 1 - v)
                   /\ (w2 > 0 => /\ Field(z, lo2, w2) = Field(y, lo2, w2)
                                 /\ \A v2 \in {0, Pow2(w2) - 1, Field(y, lo2, w2)} :
                                      WithField(WithField(y, lo, w, v), lo2, w2, v2) = WithField(WithField(y, lo2, w2, v2), lo, w, v))
HdrTok(f) == FlagTokens(Header, FlagNames, FlagsMask, f)
FlagsLaws == mode = "flags" =>
    LET f == x
        others == 65535 - MaskF(Header, "OPCODE")
        ht == HdrTok(f)
        et == FlagTokens(EdnsLo, EFlagNames, EFlagsMask, f)
    IN  /\ OpcodeToFlags(OpcodeFromFlags(f)) = And(f, MaskF(Header, "OPCODE"), 16)
        /\ IsUpdate(f) = (And(f, 30720, 16) = 10240)
        /\ \A op \in {0, 5, 15 - OpcodeFromFlags(f)} :
             LET g == Put(Header, "OPCODE", f, op)
             IN  OpcodeFromFlags(g) = op /\ And(g, others, 16) = And(f, others, 16) /\ HdrTok(g) = ht /\ RcodeFromFlags(g, 0) = RcodeFromFlags(f, 0)
        /\ \A r \in {0, 15 - (f % 16)} :
             LET g == Put(Header, "RCODE", f, r)
             IN  RcodeFromFlags(g, 0) = r /\ OpcodeFromFlags(g) = OpcodeFromFlags(f) /\ HdrTok(g) = ht /\ And(g, 65520, 16) = And(f, 65520, 16)
        /\ TokensToMask(Header, FlagNames, FlagsMask, ht) = And(f, FlagsMask, 16)
        /\ Split("  " \o Join(ht) \o " ") = ht
        /\ \A k \in 1..Len(ht) : TokenBit(Header, FlagNames, FlagsMask, Lower(ht[k])) = TokenBit(Header, FlagNames, FlagsMask, ht[k])
        /\ TokensToMask(EdnsLo, EFlagNames, EFlagsMask, et) = f /\ Split(Join(et)) = et
        /\ \A h \in {0, 255, 256, 65535} : RcodeToFlags(RcodeFromFlags(f, h)) = <<f % 16, h - (h % 256), 0>>
RcodeLaws == mode = "rcode" =>
    LET tf == RcodeToFlags(x)
    IN  /\ RcodeFromFlags(tf[1], tf[2]) = x /\ tf[1] \in 0..15 /\ tf[2] % 256 = 0 /\ tf[2] \in 0..65535 /\ tf[3] = 0
        /\ \A f \in FNoise, v \in VNoise : RcodeFromFlags(tf[1] + f, tf[2] + v) = x
        /\ (x < 16 <=> tf[2] = 0)
EhiLaws == mode = "ehi" =>
    /\ \A f \in {0, 65535, 33157} : RcodeFromFlags(f, x) = (x \div 256) * 16 + (f % 16)
    /\ Get(EdnsHi, "VERSION", x) = x % 256 /\ Put(EdnsHi, "EXTRCODE", x, 0) = x % 256
ValueLaws == mode = "value" =>
    LET reg == x[1]  v == x[2]
    IN  /\ LawRoundTrip(reg, Table(reg), v) /\ LawGeneric(reg, Table(reg), v)
        /\ (reg = "type" => LawDecimal(v))
        /\ LET nm == ToText(reg, Table(reg), v) IN (Lex(reg, nm)[1] = "generic") => nm = Generic(reg, v) \/ HasName(Table(reg), nm)
TextLaws == mode = "text" => LawCaseBlind(x[1], Table(x[1]), x[2]) /\ LawCanonical(x[1], Table(x[1]), x[2])
HeaderOK == mode = "header" => TypeOK
RegLaws == mode = "reg" => RegisteredRoundTrip /\ BuiltinsKept
=============================================================================
