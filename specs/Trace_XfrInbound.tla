-------------------------- MODULE Trace_XfrInbound --------------------------
(* Trace validation for C13.  One trace = one transfer fed to a real dns.xfr.Inbound.
   The script (request, base serial, initial zone as read back from the real zone, the
   messages as fed) is taken from the log; the client of XfrInbound processes it record by
   record (steps that consume no event) and every logged event -- one per message, `eof`,
   `exit` -- must be the model's EndOfMessage / Eof / Exit step with the logged values.

   Hard clauses (DESIGN section 3, C13):
     (i)   an error leaves the zone as it was and no transaction open
           [ErrorAfterCommit_surplus, ZoneUnchangedOnError, NoTxnLeftOpen]
     (ii)  no error and done: the zone equals the reference application of the delivered
           stream, with the target serial  [ConvergesToReference, TargetSerial, DoneFlag]
     (iii) what the reference rejects raises [Refuses_<why>]; a valid stream raises no error
           and reaches the server's version for every cut [ValidStreamAccepted, ConvergesToTarget]
   The exception class is free, except that the SOA-only UDP answer must be signalled with
   dns.xfr.UseTCP, the documented class dns.query.inbound_xfr's TCP fallback depends on
   [UseTcpSignalled].  Traces recorded through dns.query / dns.asyncquery inbound_xfr also
   carry the request that was sent: make_query / extract_serial_from_query must put the
   base serial into it [QueryCarriesBaseSerial]; and they carry what inbound_xfr itself
   raised: a transfer the model ends in error -- in particular a stream that ended (EOF on
   a message boundary or inside a message) before the transfer was done -- must come out of
   inbound_xfr as an exception [ErrorReported_<why>], a completed one must not
   [NoErrorForAppliedTransfer]; if inbound_xfr comes back without having finished, been
   refused or run out of stream (it never connected, say) and without raising, the zone must
   nevertheless be the server's version [ConvergesOrRaises].  Free: refusing a FAULTED stream that the reference would accept
   (then (i) applies).  With env XFR_STRICT=1 the free choices are pinned to the model and
   the state-machine attributes are compared after every message [StateVars] -- used to
   measure drift, never reported as a violation. *)
EXTENDS XfrInbound, VTrace

VARIABLES t, l
tvars == <<vars, t, l>>

Strict == "XFR_STRICT" \in DOMAIN IOEnv /\ IOEnv.XFR_STRICT = "1"
LZ(x) == ToSetOf(x)

TraceInit ==
    /\ RegInit
    /\ t \in 1..NTraces /\ l = 1
    /\ script = [req |-> Log[t].req, udp |-> Log[t].udp, base |-> Log[t].base, zone0 |-> LZ(Log[t].zone0),
                 msgs |-> Log[t].msgs, kind |-> Log[t].kind, fault |-> [k |-> Log[t].fault],
                 target |-> LZ(Log[t].target)]
    /\ mi = 1 /\ ri = 1 /\ phase = "idle"
    /\ c = ClientInit(script)

e == Ev(t)[l]
Adv == l' = l + 1 /\ t' = t
Stay == UNCHANGED <<t, l>>

(* steps of the model inside a message: no event *)
TInternal == (BeginMessage \/ RecordStep) /\ Stay

TMsg ==
    /\ e.op = "msg"
    /\ phase = "msg" /\ (c.err \/ (c.first # <<>> /\ ri > Len(Msg.rrs)))
    /\ LET udpEarly == ~c.err /\ script.udp /\ ~c.done
           modelErr == c.err \/ udpEarly
           why == IF c.err THEN c.why ELSE IF udpEarly THEN "early" ELSE ""
           implErr == e.res = "err"
       IN
       /\ Check(t, l, "MessageIndex", e.i = mi)
       /\ Check(t, l, "InitLoaded", LZ(Log[t].init) = script.zone0)
       /\ Check(t, l, "Refuses_" \o why, modelErr => implErr)
       /\ Check(t, l, "UseTcpSignalled", (why = "usetcp" /\ implErr) => e.exc = "UseTCP")
       /\ Check(t, l, "ValidStreamAccepted", (implErr /\ ~modelErr) => (script.fault.k # "none" /\ ~Strict))
       /\ c' = IF modelErr THEN [c EXCEPT !.err = TRUE, !.why = why]
               ELSE IF implErr THEN [c EXCEPT !.err = TRUE, !.why = "free"]
               ELSE c
       /\ Check(t, l, "DoneFlag", ~implErr => (e.ret = c.done))
       /\ Check(t, l, "StateVars", (Strict /\ ~implErr /\ e.stx) =>
                  e.st = <<c.incremental, c.expectingSoa, c.deleteMode, c.done, c.serial>>)
    /\ phase' = "idle" /\ mi' = mi + 1
    /\ UNCHANGED <<script, ri>> /\ Adv

TEof == /\ e.op = "eof" /\ Eof /\ Adv

TExit ==
    /\ e.op = "exit" /\ e.how \in Leaves /\ Exit(e.how)
    /\ LET z == LZ(e.zone) IN
       /\ Check(t, l, "ErrorAfterCommit_surplus",
                ~(c.err /\ c.why = "surplus" /\ z # script.zone0 /\ z = c.pending))
       /\ Check(t, l, "ZoneUnchangedOnError", c.err => z = script.zone0)
       /\ Check(t, l, "QueryCarriesBaseSerial", HasKey(Log[t], "sent") =>
                  (/\ Log[t].sent.rdtype = (IF script.req = "ixfr" THEN "IXFR" ELSE "AXFR")
                   /\ Log[t].sent.serial = script.base))
       /\ Check(t, l, "ErrorReported_" \o c.why, (HasKey(Log[t], "raised") /\ c.err) => Log[t].raised # "")
       /\ Check(t, l, "NoErrorForAppliedTransfer", (HasKey(Log[t], "raised") /\ ~c.err /\ c.done) => Log[t].raised = "")
       /\ Check(t, l, "NoTxnLeftOpen", e.open = 0 /\ ~e.wtxn /\ e.usable)
       /\ Check(t, l, "ConvergesToReference", (~c.err /\ c.done) => (Ref(script).ok /\ z = Ref(script).zone /\ z = c.zone))
       /\ Check(t, l, "TargetSerial", (~c.err /\ c.done) => (HasSoa(z) /\ SoaOf(z)[4] = script.msgs[1].rrs[1][4]))
       /\ Check(t, l, "ConvergesToTarget", (Unfaulted /\ Converging) => (~c.err /\ c.done /\ z = script.target))
    /\ Adv

(* inbound_xfr came back although the stream was neither finished nor refused nor exhausted (e.g. it never opened a
   connection): if it returned normally the zone must be the server's version; if it raised, (i) applies *)
TAbandon ==
    /\ e.op = "exit" /\ phase = "idle" /\ ~c.err /\ ~c.done
    /\ Check(t, l, "StreamAbandoned", HasKey(Log[t], "raised"))
    /\ Check(t, l, "ConvergesOrRaises", Log[t].raised = "" => LZ(e.zone) = script.target)
    /\ Check(t, l, "ZoneUnchangedOnError", Log[t].raised # "" => LZ(e.zone) = script.zone0)
    /\ Check(t, l, "NoTxnLeftOpen", e.open = 0 /\ ~e.wtxn /\ e.usable)
    /\ phase' = "exited" /\ UNCHANGED <<script, mi, ri, c>> /\ Adv

TraceNext ==
    /\ l <= Len(Ev(t))
    /\ \/ TInternal \/ TMsg \/ TEof \/ TExit \/ TAbandon

Accepted == Accepting(t, l)
=============================================================================
