SPECIFICATION MCSpec
CONSTANTS
  Ids = {7}
  FlagVals <- MCFlags
  RcodeVals <- MCRcodes
  Opcodes = {0, 5, 15}
  Levels = {0, 1}
  ExtVals = {0, 255}
  ZVals = {0, 32769}
  Payloads = {512, 4096}
  OptionSeqs <- MCOptionSeqs
  Pads = {0, 128}
  Frees <- MCFrees
  MaxCalls = 3
  QSel = "mid"
INVARIANT TypeOK
INVARIANT NoOptMeansDefaults
INVARIANT RcodeReadBack
INVARIANT RcodeNeedsOpt
INVARIANT EdnsOffIsOff
INVARIANT LevelReadBack
INVARIANT OpcodeReadBack
INVARIANT ResponseLaw
PROPERTY Frame
CHECK_DEADLOCK FALSE
