------------------------------ MODULE TtlRange ------------------------------
(* X02 - TTL text (dns.ttl), $GENERATE ranges (dns.grange), serial number arithmetic
   (dns.serial).  Written from: the docstring of dns.ttl.from_text ("The BIND 8 units
   syntax for TTLs (e.g. '1w6d4h3m10s') is supported ... raises dns.ttl.BadTTL: If the
   TTL is not well-formed"), the MAX_TTL comment (2^32 - 1), the BIND ARM description of
   $GENERATE ("range: This can be one of two forms: start-stop or start-stop/step. If the
   first form is used, then step is set to 1. ... start must not be larger than stop"),
   and RFC 1982 sections 3.1 / 3.2 / 4.

   Texts are sequences of character codes.  TLC integers are 32 bit, so numbers read
   from text are naturals of any size: little-endian base-10 digit sequences without a
   high-order zero (<<>> = 0).  32-bit serials are two limbs <<hi, lo>>. *)
EXTENDS Integers, Sequences, FiniteSets

SetMax(S) == CHOOSE x \in S : \A y \in S : y <= x
Rev(s) == [i \in 1..Len(s) |-> s[Len(s) + 1 - i]]

(* ------------------------------------------------------------------ big naturals *)
RECURSIVE BNorm(_)
BNorm(n) == IF n = <<>> THEN n
            ELSE IF n[Len(n)] = 0 THEN BNorm(SubSeq(n, 1, Len(n) - 1)) ELSE n
BOfDigits(d) == BNorm(Rev(d))                              \* d: decimal digits, big-endian
BOfCodes(cs) == BOfDigits([i \in 1..Len(cs) |-> cs[i] - 48])
BToCodes(n) == IF n = <<>> THEN <<48>> ELSE [i \in 1..Len(n) |-> 48 + n[Len(n) + 1 - i]]
RECURSIVE BOfInt(_)
BOfInt(k) == IF k = 0 THEN <<>> ELSE <<k % 10>> \o BOfInt(k \div 10)
RECURSIVE BToInt(_)
BToInt(n) == IF n = <<>> THEN 0 ELSE n[1] + 10 * BToInt(Tail(n))      \* only when n < 2^31
RECURSIVE BMulC(_, _, _)
BMulC(n, k, c) == IF n = <<>> THEN BOfInt(c)
                  ELSE LET v == n[1] * k + c IN <<v % 10>> \o BMulC(Tail(n), k, v \div 10)
BMul(n, k) == BNorm(BMulC(n, k, 0))                        \* k a TLC integer < 10^8
RECURSIVE BAddC(_, _, _)
BAddC(a, b, c) ==
    IF a = <<>> /\ b = <<>> THEN BOfInt(c)
    ELSE LET x == IF a = <<>> THEN 0 ELSE a[1]
             y == IF b = <<>> THEN 0 ELSE b[1]
             v == x + y + c
         IN  <<v % 10>> \o BAddC(IF a = <<>> THEN a ELSE Tail(a), IF b = <<>> THEN b ELSE Tail(b), v \div 10)
BAdd(a, b) == BAddC(a, b, 0)
BLess(a, b) == \/ Len(a) < Len(b)
               \/ Len(a) = Len(b) /\ \E i \in 1..Len(a) : a[i] < b[i] /\ \A j \in (i + 1)..Len(a) : a[j] = b[j]
BLeq(a, b) == a = b \/ BLess(a, b)

Ok(v) == <<"ok", v>>
Bad(k) == <<"bad", k>>
IsOk(r) == r[1] = "ok"
Digit(c) == c \in 48..57

(* ------------------------------------------------------------------ TTL text
   ttl  ::=  number  |  ( number unit )+          number ::= [0-9]+
   unit ::=  w | d | h | m | s   in either case   (weeks days hours minutes seconds)
   value = the number, or the sum of number * unit-length; well-formed and <= 2^32 - 1,
   else BadTTL. *)
Mult(c) == CASE c \in {119, 87} -> 604800
             [] c \in {100, 68} -> 86400
             [] c \in {104, 72} -> 3600
             [] c \in {109, 77} -> 60
             [] c \in {115, 83} -> 1
             [] OTHER -> 0
Unit(c) == Mult(c) # 0
MaxTTL == BOfDigits(<<4, 2, 9, 4, 9, 6, 7, 2, 9, 5>>)

(* the grammar as an automaton, one step per character *)
TInit == [st |-> "run", total |-> <<>>, cur |-> <<>>, have |-> FALSE, units |-> 0, kind |-> "-"]
TBad(s, k) == [s EXCEPT !.st = "bad", !.kind = k]
TClass(s, c) == IF Digit(c) THEN "Digit"
                ELSE IF Unit(c) THEN (IF s.have THEN "Unit" ELSE "UnitWithoutNumber")
                ELSE "BadCharacter"
TStep(s, c) ==
    IF s.st # "run" THEN s
    ELSE CASE TClass(s, c) = "Digit" -> [s EXCEPT !.cur = BNorm(<<c - 48>> \o @), !.have = TRUE]
           [] TClass(s, c) = "Unit"  -> [s EXCEPT !.total = BAdd(@, BMul(s.cur, Mult(c))), !.cur = <<>>,
                                                  !.have = FALSE, !.units = @ + 1]
           [] OTHER -> TBad(s, TClass(s, c))
TEnd(s) ==
    IF s.st = "bad" THEN Bad(s.kind)
    ELSE IF ~s.have /\ s.units = 0 THEN Bad("Empty")
    ELSE IF s.have /\ s.units > 0 THEN Bad("TrailingNumber")
    ELSE LET v == IF s.units = 0 THEN s.cur ELSE s.total
         IN  IF BLeq(v, MaxTTL) THEN Ok(v) ELSE Bad("TooBig")
RECURSIVE TFold(_, _, _)
TFold(s, text, i) == IF i > Len(text) THEN s ELSE TFold(TStep(s, text[i]), text, i + 1)
TtlParse(text) == TEnd(TFold(TInit, text, 1))

(* the same grammar by positions (no left-to-right state): every non-digit is a unit letter
   directly after a digit, the text ends with one, and each contributes the digit run before it *)
NonDigits(text) == {i \in 1..Len(text) : ~Digit(text[i])}
RunStart(text, i) == LET nd == {j \in NonDigits(text) : j < i} IN IF nd = {} THEN 1 ELSE SetMax(nd) + 1
UnitsForm(text) == /\ Len(text) \in NonDigits(text)
                   /\ \A i \in NonDigits(text) : Unit(text[i]) /\ i > 1 /\ Digit(text[i - 1])
RECURSIVE BSum(_, _)
BSum(text, P) == IF P = {} THEN <<>>
                 ELSE LET i == SetMax(P)
                      IN  BAdd(BMul(BOfCodes(SubSeq(text, RunStart(text, i), i - 1)), Mult(text[i])),
                               BSum(text, P \ {i}))
TtlDenote(text) ==
    IF text = <<>> THEN Bad("Malformed")
    ELSE IF NonDigits(text) = {} THEN (IF BLeq(BOfCodes(text), MaxTTL) THEN Ok(BOfCodes(text)) ELSE Bad("TooBig"))
    ELSE IF ~UnitsForm(text) THEN Bad("Malformed")
    ELSE LET v == BSum(text, NonDigits(text)) IN IF BLeq(v, MaxTTL) THEN Ok(v) ELSE Bad("TooBig")
SameVerdict(r, q) == IF IsOk(r) THEN r = q ELSE ~IsOk(q) /\ ((r[2] = "TooBig") <=> (q[2] = "TooBig"))
(* the documentation shows each unit once; a unit used twice ("1h1h") is left free *)
RepeatsUnit(text) == \E i, j \in NonDigits(text) : i < j /\ Mult(text[i]) = Mult(text[j])

(* ------------------------------------------------------------------ $GENERATE range
   range ::= number "-" number [ "/" number ] ;  step defaults to 1; start <= stop; step >= 1 *)
Dash == 45
Slash == 47
RInit == [st |-> "run", field |-> 1, cur |-> <<>>, start |-> <<>>, stop |-> <<>>, kind |-> "-"]
RBad(s, k) == [s EXCEPT !.st = "bad", !.kind = k]
RClass(s, c) == IF Digit(c) THEN "Digit"
                ELSE IF c = Dash THEN (IF s.field = 1 /\ s.cur # <<>> THEN "Dash" ELSE "BadDash")
                ELSE IF c = Slash THEN (IF s.field = 2 /\ s.cur # <<>> THEN "Slash" ELSE "BadSlash")
                ELSE "BadCharacter"
RStep(s, c) ==
    IF s.st # "run" THEN s
    ELSE CASE RClass(s, c) = "Digit" -> [s EXCEPT !.cur = Append(@, c)]
           [] RClass(s, c) = "Dash"  -> [s EXCEPT !.start = BOfCodes(s.cur), !.cur = <<>>, !.field = 2]
           [] RClass(s, c) = "Slash" -> [s EXCEPT !.stop = BOfCodes(s.cur), !.cur = <<>>, !.field = 3]
           [] OTHER -> RBad(s, RClass(s, c))
RFinish(start, stop, step) ==
    IF step = <<>> THEN Bad("ZeroStep")
    ELSE IF BLess(stop, start) THEN Bad("StartAfterStop")
    ELSE Ok(<<start, stop, step>>)
REnd(s) ==
    IF s.st = "bad" THEN Bad(s.kind)
    ELSE IF s.field = 1 THEN Bad("NoStop")
    ELSE IF s.cur = <<>> THEN Bad("MissingNumber")
    ELSE IF s.field = 2 THEN RFinish(s.start, BOfCodes(s.cur), <<1>>)
    ELSE RFinish(s.start, s.stop, BOfCodes(s.cur))
RECURSIVE RFold(_, _, _)
RFold(s, text, i) == IF i > Len(text) THEN s ELSE RFold(RStep(s, text[i]), text, i + 1)
RangeParse(text) == REnd(RFold(RInit, text, 1))

(* by positions: exactly one dash, at most one slash after it, digits around each *)
RangeDenote(text) ==
    LET N == Len(text)
        dashes == {i \in 1..N : text[i] = Dash}
        slashes == {i \in 1..N : text[i] = Slash}
    IN  IF \E i \in 1..N : ~Digit(text[i]) /\ text[i] # Dash /\ text[i] # Slash THEN Bad("Malformed")
        ELSE IF Cardinality(dashes) # 1 \/ Cardinality(slashes) > 1 THEN Bad("Malformed")
        ELSE LET i == SetMax(dashes)
                 j == IF slashes = {} THEN N + 1 ELSE SetMax(slashes)
             IN  IF i = 1 \/ j <= i + 1 \/ j = N THEN Bad("Malformed")
                 ELSE RFinish(BOfCodes(SubSeq(text, 1, i - 1)), BOfCodes(SubSeq(text, i + 1, j - 1)),
                              IF j > N THEN <<1>> ELSE BOfCodes(SubSeq(text, j + 1, N)))
(* BIND bounds the three numbers by 2^31 - 1; the library does not: free beyond *)
BindMax == BOfDigits(<<2, 1, 4, 7, 4, 8, 3, 6, 4, 7>>)
BeyondBind(r) == IsOk(r) /\ \E k \in 1..3 : BLess(BindMax, r[2][k])

(* ------------------------------------------------------------------ RFC 1982 serial numbers *)
RECURSIVE Pow2(_)
Pow2(n) == IF n = 0 THEN 1 ELSE 2 * Pow2(n - 1)
Space(bits) == 0..(Pow2(bits) - 1)
(* 3.1: "Serial numbers may be incremented by the addition of a positive integer n, where n
   is taken from the range of integers [0 .. (2^(SERIAL_BITS - 1) - 1)] ... s' = (s + n)
   modulo (2 ^ SERIAL_BITS) ... Addition of a value outside the range ... is undefined." *)
AddDefined(n, bits) == n \in 0..(Pow2(bits - 1) - 1)
SAdd(s, n, bits) == (s + n) % Pow2(bits)
(* 3.2: "s1 is said to be equal to s2 if and only if i1 is equal to i2 ... s1 is said to be
   less than s2 if, and only if, s1 is not equal to s2, and (i1 < i2 and i2 - i1 <
   2^(SERIAL_BITS - 1)) or (i1 > i2 and i1 - i2 > 2^(SERIAL_BITS - 1))" and symmetrically
   for greater than; a pair that is neither is undefined *)
SEq(i1, i2) == i1 = i2
SLt(i1, i2, bits) == i1 # i2 /\ (\/ (i1 < i2 /\ i2 - i1 < Pow2(bits - 1))
                                 \/ (i1 > i2 /\ i1 - i2 > Pow2(bits - 1)))
SGt(i1, i2, bits) == i1 # i2 /\ (\/ (i1 < i2 /\ i2 - i1 > Pow2(bits - 1))
                                 \/ (i1 > i2 /\ i1 - i2 < Pow2(bits - 1)))
SUndef(i1, i2, bits) == i1 # i2 /\ ~SLt(i1, i2, bits) /\ ~SGt(i1, i2, bits)

(* the same on two limbs of h bits each (bits = 2h), all intermediate values < 2^(h+1) *)
LVal(x, h) == x[1] * Pow2(h) + x[2]                       \* only for small h
LOf(v, h) == <<v \div Pow2(h), v % Pow2(h)>>
LSub(b, a, h) == LET lo == b[2] - a[2]                    \* (b - a) mod 2^(2h)
                     br == IF lo < 0 THEN 1 ELSE 0
                 IN  <<(b[1] - a[1] - br + 2 * Pow2(h)) % Pow2(h), (lo + Pow2(h)) % Pow2(h)>>
LAdd(a, n, h) == LET lo == a[2] + n[2]
                 IN  <<(a[1] + n[1] + lo \div Pow2(h)) % Pow2(h), lo % Pow2(h)>>
LAddDefined(n, h) == n[1] < Pow2(h - 1)                   \* n <= 2^(2h-1) - 1
LLt(a, b, h) == LET d == LSub(b, a, h) IN d # <<0, 0>> /\ d[1] < Pow2(h - 1)
LGt(a, b, h) == LLt(b, a, h)
LUndef(a, b, h) == LSub(b, a, h) = <<Pow2(h - 1), 0>>
=============================================================================
