--------------------------- MODULE MC_StreamFraming ---------------------------
(* Bounded instances: short frames, EVERY chunking of reads and writes. *)
EXTENDS StreamFraming

Bad(wf) == [GoodReply EXCEPT !.wf = wf]
MCMsgs == {GoodReply, [GoodReply EXCEPT !.idm = FALSE], Bad("badRdata"), Bad("trailing")}
MCCases(lens, qlens, deadlines) ==
    {[api |-> a, qlen |-> q, msg |-> m, L |-> L, pad |-> 0, v |-> 0, extra |-> x, it |-> it, deadline |-> d, tz |-> "-", qop |-> "QUERY", conn |-> "given"] :
       a \in {"send", "recv", "tcp"}, q \in qlens, m \in MCMsgs, L \in lens, x \in {0, 2}, it \in BOOLEAN,
       d \in deadlines}
MCQuick0 == MCCases({0, 1, 4}, {1}, {0, 5})
OwnConn(S) == {[c EXCEPT !.conn = "own", !.api = a] : c \in {x \in S : x.api = "tcp"}, a \in {"tcp", "tls"}}
MCQuick1 == MCQuick0 \cup ZeroTimeouts(MCQuick0)
MCQuick == MCQuick1 \cup OwnConn(MCQuick1)
MCThorough0 == MCCases({0, 1, 3, 6}, {1, 3}, {0, 3, 7})
MCThorough1 == MCThorough0 \cup ZeroTimeouts(MCThorough0)
MCThorough == MCThorough1 \cup OwnConn(MCThorough1)
MCLive0 == MCCases({0, 2}, {1}, {0, 3})
MCLive1 == MCLive0 \cup ZeroTimeouts(MCLive0)
MCLive == MCLive1 \cup OwnConn(MCLive1)
\* a frame longer than 255 octets: both length octets matter (no chunk enumeration here:
\* the state space is one path per chunking, so keep it to the generator)
=============================================================================
