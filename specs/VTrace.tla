------------------------------ MODULE VTrace ------------------------------
(* Shared plumbing of every trace-validation specification.

   The log (env TRACE_FILE) is ndjson: ONE LINE PER TRACE, a record with at least
   tid (string) and ev (sequence of event records).  A trace specification has the
   variables of the specification it validates plus  t  (index of the trace in Log) and
   l  (index of the next event); its initial predicate lets  t  range over all traces,
   so one TLC run (-workers 1) validates the whole batch, each trace from its own
   initial state.  A trace is ACCEPTED iff some behaviour consumes all its events;
   TLC register 3 collects the accepted trace indices, register 2 a (capped) list of
   <<t, l, clause>> diagnostics written by Check, naming the hard clause that failed. *)
EXTENDS Integers, Sequences, FiniteSets, TLC, TLCExt, Json, IOUtils

Log == ndJsonDeserialize(IOEnv.TRACE_FILE)
NTraces == Len(Log)
Ev(t) == Log[t].ev

RegInit == TLCSet(2, <<>>) /\ TLCSet(3, {})

Fail(t, l, id) ==
    /\ IF Len(TLCGet(2)) < 1500 THEN TLCSet(2, Append(TLCGet(2), <<t, l, id>>)) ELSE TRUE
    /\ FALSE

\* must be IF (not \/): inside a next-state relation TLC explores both disjuncts
Check(t, l, id, cond) == IF cond THEN TRUE ELSE Fail(t, l, id)

Accept(t) == TLCSet(3, TLCGet(3) \cup {t})

\* use as CONSTRAINT: records acceptance when every event of trace t was consumed
Accepting(t, l) == (l = Len(Ev(t)) + 1) => Accept(t)

\* one string per line: TLC's pretty printer wraps long tuples but never a string
Out(tag, v) == PrintT(tag \o " " \o ToJson(v))
Post == /\ Out("ACC", TLCGet(3))
        /\ Out("REJ", TLCGet(2))
        /\ Out("NTR", NTraces)

\* helpers for JSON values
ToSetOf(seq) == {seq[i] : i \in 1..Len(seq)}
HasKey(r, k) == k \in DOMAIN r
=============================================================================
