INIT TraceInit
NEXT TraceNext
CONSTANTS
  LowerTypes = {"NS", "MD", "MF", "CNAME", "SOA", "MB", "MG", "MR", "PTR", "MINFO", "MX", "RP", "AFSDB", "RT", "SIG", "PX", "NXT", "NAPTR", "KX", "SRV", "DNAME", "A6", "RRSIG"}
  ImmutableKinds = {"int", "bytes", "str", "bool", "float", "NoneType", "enum", "Name", "tuple", "frozenset", "Dict", "object", "absent"}
  Values = {}
CONSTRAINT Accepted
POSTCONDITION Post
CHECK_DEADLOCK FALSE
