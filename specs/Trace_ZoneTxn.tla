--------------------------- MODULE Trace_ZoneTxn ---------------------------
(* Trace validation for C10: every recorded call of a real transaction must be the
   corresponding ZoneTxn action from the current model state, and the recorded projection
   of the transaction / zone content must equal the model's. *)
EXTENDS ZoneTxn, VTrace

VARIABLES t, l
tvars == <<vars, t, l>>

Content(p) == [k \in {<<p[i][1], p[i][2]>> : i \in 1..Len(p)} |->
                 LET i == CHOOSE i \in 1..Len(p) : <<p[i][1], p[i][2]>> = k
                 IN [ttl |-> p[i][3], rds |-> ToSetOf(p[i][4])]]
Proj(w) == {<<k[1], k[2], w[k].ttl, w[k].rds>> : k \in DOMAIN w}
LogProj(p) == {<<p[i][1], p[i][2], p[i][3], ToSetOf(p[i][4])>> : i \in 1..Len(p)}
NormVal(v) == IF v[1] = "rds" THEN <<"rds", v[2], ToSetOf(v[3])>>
              ELSE IF v[1] \in {"names", "node"} THEN <<v[1], ToSetOf(v[2])>> ELSE v

TraceInit ==
    /\ RegInit
    /\ t \in 1..NTraces /\ l = 1
    /\ committed = Content(Log[t].init)
    /\ corigin = Log[t].origin /\ worigin = FALSE
    /\ working = <<>> /\ mode = "idle" /\ replacing = FALSE /\ nops = 0 /\ res = "ok" /\ val = <<"-">>

e == Ev(t)[l]
Adv == l' = l + 1 /\ t' = t
Outcome == Check(t, l, "Outcome", (res' = "refused") <=> (e.res = "err"))
(* the zone's own origin attribute, read from outside the transaction after every call *)
ZoneOrigin == Check(t, l, "OriginAtomic", e.zorigin = corigin')
State == /\ Check(t, l, "ReadYourWrites", LogProj(e.state) = Proj(working'))
         /\ ZoneOrigin

TInitEv == /\ e.op = "init"
           /\ Check(t, l, "InitLoaded", LogProj(e.zone) = Proj(committed))
           /\ UNCHANGED vars /\ Adv
TBegin == /\ e.op = "begin" /\ Begin(e.kind, e.repl)
          /\ Check(t, l, "BeginOk", e.res = "ok") /\ State /\ Adv
TAdd == /\ e.op = "add" /\ Add(e.inzone, e.name, e.type, e.ttl, ToSetOf(e.rds))
        /\ Outcome /\ State /\ Adv
TReplace == /\ e.op = "replace" /\ Replace(e.inzone, e.name, e.type, e.ttl, ToSetOf(e.rds))
            /\ Outcome /\ State /\ Adv
TDelName == /\ e.op = "delname" /\ DeleteName(e.exact, e.inzone, e.name)
            /\ Outcome /\ State /\ Adv
TOutZone == /\ e.op = "outzone" /\ DeleteName(FALSE, FALSE, "@")
            /\ Outcome /\ State /\ Adv
TDelType == /\ e.op = "deltype" /\ DeleteType(e.exact, e.inzone, e.name, e.type)
            /\ Outcome /\ State /\ Adv
TDelRds == /\ e.op = "delrds" /\ DeleteRdatas(e.exact, e.inzone, e.name, e.type, ToSetOf(e.rds))
           /\ Outcome /\ State /\ Adv
TSerial == /\ e.op = "serial"
           /\ UpdateSerial([neg |-> e.neg, value |-> e.value, relative |-> e.relative])
           /\ Outcome /\ State /\ Adv
TGet == /\ e.op = "get" /\ Get(e.inzone, e.name, e.type)
        /\ Outcome /\ Check(t, l, "ReadValue", NormVal(e.val) = val') /\ State /\ Adv
TExists == /\ e.op = "exists" /\ Exists(e.inzone, e.name)
           /\ Outcome /\ Check(t, l, "ReadValue", e.val = val') /\ State /\ Adv
TGetNode == /\ e.op = "getnode" /\ GetNode(e.inzone, e.name)
            /\ Outcome /\ Check(t, l, "ReadValue", NormVal(e.val) = val') /\ State /\ Adv
TNames == /\ e.op = "names" /\ IterNames
          /\ Outcome /\ Check(t, l, "ReadValue", NormVal(e.val) = val') /\ State /\ Adv
TChanged == /\ e.op = "changed" /\ e.res = "ok" /\ Changed(e.val[2])
            /\ State /\ Adv
TLearn == /\ e.op = "learn" /\ LearnOrigin /\ Outcome /\ State /\ Adv
TCallback == /\ e.op = "cbraise" /\ CallbackRaises
             /\ Outcome /\ State /\ Adv
TEnd == /\ e.op = "end"
        /\ IF e.how \in {"commit", "cm_commit"} THEN Commit ELSE Rollback
        /\ Check(t, l, "EndOk", e.res = "ok")
        /\ Check(t, l, "Atomic", LogProj(e.zone) = Proj(committed'))
        /\ ZoneOrigin
        /\ Adv
TAfter == /\ e.op = "after" /\ UseAfterEnd
          /\ Check(t, l, "EndedRefuses", \A i \in 1..Len(e.res) : e.res[i] = "err")
          /\ Check(t, l, "AtomicAfterEnd", LogProj(e.zone) = Proj(committed'))
          /\ Adv

TraceNext ==
    /\ l <= Len(Ev(t))
    /\ \/ TInitEv \/ TBegin \/ TAdd \/ TReplace \/ TDelName \/ TOutZone \/ TDelType \/ TDelRds
       \/ TSerial \/ TGet \/ TExists \/ TGetNode \/ TNames \/ TChanged \/ TLearn \/ TCallback \/ TEnd \/ TAfter

Accepted == Accepting(t, l)
=============================================================================
