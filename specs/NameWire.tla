------------------------------ MODULE NameWire ------------------------------
(* Wire form of domain names (RFC 1035 3.1, 4.1.4) - C01.

   A wire buffer is  [base |-> b, tail |-> <<octets>>] : b zero octets followed by tail
   (so that offsets around the 0x3FFF pointer limit need no 16 K literal); offsets are
   0-based.  First octet of a label:  0 root | 1..63 length | 64..191 reserved label type
   | 192..255 pointer, 14-bit target = (c - 192) * 256 + next octet.

   DECODER automaton:  variables  buf, start, pos, lowest, labels, total, hops, cons, status
     Label       1..63: append the label, move past it
     Pointer     enabled ONLY to a target strictly below `lowest` (the start offset and
                 every earlier target), which becomes the new `lowest`: strictly backwards
     Root        ends the name ("ok"), unless it is longer than MaxWire octets
     DFail(kind)  Truncated | BadLabelType | BadPointer | TooLong
   cons = octets the name occupies AT ITS OWN POSITION: up to and including the root
   octet, or the first pointer (RFC 1035 4.1.4: a name is a sequence of labels ending in
   a zero octet or in a pointer).

   ENCODER  Encode (plain) and WriteName (compression table: name |-> offset). *)
EXTENDS DnsName, TLC

WLen(w) == w.base + Len(w.tail)
At(w, i) == IF i < w.base THEN 0 ELSE w.tail[i - w.base + 1]               \* 0 <= i < WLen(w)
Slice(w, i, k) == [j \in 1..k |-> At(w, i + j - 1)]                         \* k octets from offset i
Plain(s) == [base |-> 0, tail |-> s]
PtrLimit == 16383                                                           \* 0x3FFF

VARIABLES buf, start, pos, lowest, labels, total, hops, cons, status
dvars == <<buf, start, pos, lowest, labels, total, hops, cons, status>>

DInit(w, s) == /\ buf = w /\ start = s /\ pos = s /\ lowest = s /\ labels = <<>> /\ total = 0
               /\ hops = 0 /\ cons = 0 /\ status = "run"

Running == status = "run"
CanRead(k) == pos + k <= WLen(buf)
Count == At(buf, pos)
Target == (Count - 192) * 256 + At(buf, pos + 1)
DFail(kind) == /\ status' = kind /\ UNCHANGED <<buf, start, pos, lowest, labels, total, hops, cons>>
IsErr(s) == s \notin {"run", "ok"}

Label == /\ Running /\ CanRead(1) /\ Count \in 1..63 /\ CanRead(1 + Count)
         /\ labels' = Append(labels, Slice(buf, pos + 1, Count))
         /\ total' = total + Count + 1
         /\ pos' = pos + 1 + Count
         /\ UNCHANGED <<buf, start, lowest, hops, cons, status>>
Pointer == /\ Running /\ CanRead(2) /\ Count >= 192
           /\ Target < lowest                                  \* the ONLY way to move backwards
           /\ pos' = Target /\ lowest' = Target /\ hops' = hops + 1
           /\ cons' = IF hops = 0 THEN pos + 2 - start ELSE cons
           /\ UNCHANGED <<buf, start, labels, total, status>>
RootL == /\ Running /\ CanRead(1) /\ Count = 0
         /\ labels' = Append(labels, <<>>)
         /\ total' = total + 1
         /\ cons' = IF hops = 0 THEN pos + 1 - start ELSE cons
         /\ status' = IF total + 1 > MaxWire THEN "TooLong" ELSE "ok"
         /\ UNCHANGED <<buf, start, pos, lowest, hops>>
FailTruncated == /\ Running
                 /\ \/ ~CanRead(1)
                    \/ CanRead(1) /\ Count \in 1..63 /\ ~CanRead(1 + Count)
                    \/ CanRead(1) /\ Count >= 192 /\ ~CanRead(2)
                 /\ DFail("Truncated")
FailLabelType == Running /\ CanRead(1) /\ Count \in 64..191 /\ DFail("BadLabelType")
FailPointer == Running /\ CanRead(2) /\ Count >= 192 /\ Target >= lowest /\ DFail("BadPointer")
(* a decoder may give up as soon as the labels read cannot fit any more, or only at the end *)
FailTooLong == Running /\ total + 1 > MaxWire /\ DFail("TooLong")

DNext == Label \/ Pointer \/ RootL \/ FailTruncated \/ FailLabelType \/ FailPointer \/ FailTooLong

(* safety: pointers go strictly backwards, hence decoding terminates *)
PointerBackwards == [][/\ lowest' <= lowest
                       /\ (hops' # hops => hops' = hops + 1 /\ lowest' < lowest /\ pos' = lowest' /\ pos' < pos)]_dvars
HopsBounded == lowest + hops <= start /\ lowest >= 0 /\ pos <= WLen(buf)
Measure == lowest * (WLen(buf) + 2) + (WLen(buf) - pos) + (IF Running THEN 1 ELSE 0)
Terminates == [][Measure' < Measure]_dvars

-----------------------------------------------------------------------------
(* the same decoder as a function: <<"ok", name, consumed>> or <<"err", kind>> *)
RECURSIVE DecodeFrom(_, _, _, _, _, _, _)
DecodeFrom(w, s, p, low, ls, tot, cn) ==
    IF p + 1 > WLen(w) THEN Err("Truncated")
    ELSE LET c == At(w, p) IN
         IF c = 0 THEN (IF tot + 1 > MaxWire THEN Err("TooLong")
                        ELSE <<"ok", Append(ls, <<>>), IF cn = 0 THEN p + 1 - s ELSE cn>>)
         ELSE IF c <= 63 THEN (IF p + 1 + c > WLen(w) THEN Err("Truncated")
                               ELSE IF tot + c + 2 > MaxWire THEN Err("TooLong")
                               ELSE DecodeFrom(w, s, p + 1 + c, low, Append(ls, Slice(w, p + 1, c)), tot + c + 1, cn))
         ELSE IF c <= 191 THEN Err("BadLabelType")
         ELSE IF p + 2 > WLen(w) THEN Err("Truncated")
         ELSE LET tg == (c - 192) * 256 + At(w, p + 1) IN
              IF tg >= low THEN Err("BadPointer")
              ELSE DecodeFrom(w, s, tg, tg, ls, tot, IF cn = 0 THEN p + 2 - s ELSE cn)
Decode(w, s) == IF s > WLen(w) THEN Err("Truncated") ELSE DecodeFrom(w, s, s, s, <<>>, 0, 0)

-----------------------------------------------------------------------------
(* encoder *)
RECURSIVE EncodeFrom(_, _)
EncodeFrom(n, i) == IF i > Len(n) THEN <<>> ELSE <<Len(n[i])>> \o n[i] \o EncodeFrom(n, i + 1)
Encode(n) == EncodeFrom(n, 1)                                   \* n absolute

(* Name.to_wire without a file: relative names need an absolute origin *)
FullName(n, origin) ==
    IF IsAbs(n) THEN Ok(n)
    ELSE IF origin[1] = "none" \/ ~IsAbs(origin[2]) THEN Err("NeedAbsoluteNameOrOrigin")
    ELSE Ok(n \o origin[2])
(* "no operation ever yields an encoded length over 255 octets; it raises instead": the
   relative name + origin is a name of its own and must be Valid (this is Derelativize) *)
ToWire(n, origin, canon) ==
    LET f == FullName(n, origin)
    IN  IF ~IsOk(f) THEN f
        ELSE IF ~Valid(f[2]) THEN Err("NameTooLong")
        ELSE Ok(Encode(IF canon THEN LowerAll(f[2]) ELSE f[2]))

(* Compression (RFC 1035 4.1.4).  The table maps (folded) names to the offset of an
   earlier occurrence.  Writing name n at offset p: labels are written literally until the
   remaining suffix is in the table - the LONGEST known suffix wins - and is replaced by a
   pointer; each literally written suffix of more than the root label is entered at its
   offset, provided a pointer can express it (offset <= 0x3FFF); the root never is. *)
Ptr(off) == <<192 + (off \div 256), off % 256>>
RECURSIVE WriteFrom(_, _, _, _, _)
WriteFrom(n, i, table, p, out) ==
    LET suf == SubSeq(n, i, Len(n))
        key == LowerAll(suf)
    IN  IF key \in DOMAIN table THEN <<out \o Ptr(table[key]), table>>
        ELSE LET t2 == IF Len(suf) > 1 /\ p <= PtrLimit THEN (key :> p) @@ table ELSE table
                 o2 == out \o <<Len(n[i])>> \o n[i]
             IN  IF n[i] = <<>> THEN <<o2, t2>>
                 ELSE WriteFrom(n, i + 1, t2, p + 1 + Len(n[i]), o2)
(* result: <<"ok", octets, table'>> or an error *)
WriteName(n, origin, table, p) ==
    LET f == FullName(n, origin)
    IN  IF ~IsOk(f) THEN f
        ELSE IF ~Valid(f[2]) THEN Err("NameTooLong")
        ELSE LET r == WriteFrom(f[2], 1, table, p, <<>>) IN <<"ok", r[1], r[2]>>

(* number of labels written literally in an encoding (the root label counts) *)
RECURSIVE LitFrom(_, _)
LitFrom(o, i) == IF i > Len(o) THEN 0
                 ELSE IF o[i] = 0 THEN 1
                 ELSE IF o[i] >= 192 THEN 0
                 ELSE 1 + LitFrom(o, i + 1 + o[i])
Literals(o) == LitFrom(o, 1)

(* C01 / C03 reading of "byte-identical under compression": what was written at offset p
   decodes, in the buffer it was written to, to the full name: literally written labels
   byte for byte, the suffix reached through a pointer as a DNS name (case-insensitively:
   the table is keyed that way by design), and it occupies exactly the octets written *)
WrittenDecodes(w, p, out, full) ==
    LET d == Decode(w, p)
    IN  /\ d[1] = "ok" /\ d[3] = Len(out)
        /\ SameName(d[2], full)
        /\ \A i \in 1..Literals(out) : d[2][i] = full[i]
(* table soundness: every entry is the offset (a pointer can express) of an occurrence *)
TableSound(w, table, p) ==
    \A k \in DOMAIN table : /\ table[k] <= PtrLimit /\ table[k] < p
                            /\ LET d == Decode(w, table[k]) IN d[1] = "ok" /\ LowerAll(d[2]) = k
=============================================================================
