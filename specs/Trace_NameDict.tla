--------------------------- MODULE Trace_NameDict ---------------------------
(* Trace validation for X03a: every recorded call on a real dns.namedict.NameDict must be
   the NameDict action from the current model state: same outcome, same result, same
   content afterwards; max_depth within the documented bounds; the final probe of every
   query name must be an allowed deepest match. *)
EXTENDS NameDict, VTrace

CONSTANT CheckItems    \* TRUE: max_depth_items must be the number of keys of depth max_depth
VARIABLES t, l
tvars == <<vars, t, l>>

AsMap(p) == [k \in {p[i][1] : i \in 1..Len(p)} |-> LET i == CHOOSE i \in 1..Len(p) : p[i][1] = k IN p[i][2]]
Proj(dd) == {<<k, dd[k]>> : k \in DOMAIN dd}

TraceInit ==
    /\ RegInit
    /\ t \in 1..NTraces /\ l = 1
    /\ d = AsMap(Log[t].ev[1].m) /\ ever = MaxLen(DOMAIN d)
    /\ nops = 0 /\ last = "init" /\ res = "ok" /\ val = NoVal

e == Ev(t)[l]
Adv == l' = l + 1 /\ t' = t
Outcome == Check(t, l, "Outcome", e.res = res')
Value == Check(t, l, "Value", e.val = val')
State == /\ Check(t, l, "Content", ToSetOf(e.st) = Proj(d') /\ Len(e.st) = Cardinality(DOMAIN d'))
         /\ Check(t, l, "Len", e.n = Cardinality(DOMAIN d'))
         /\ Check(t, l, "MaxDepthBounds", e.md \in MaxDepthAllowed(d', ever'))
         /\ (CheckItems => Check(t, l, "MaxDepthItems", e.mi = ItemsAtDepth(d', e.md)))

TInit == /\ e.op = "init" /\ UNCHANGED vars
         /\ Check(t, l, "Constructed", e.res = "ok") /\ State /\ Adv
TSet == e.op = "set" /\ Set(e.k, e.v) /\ Outcome /\ State /\ Adv
TSetBad == e.op = "setbad" /\ SetBad /\ Check(t, l, "KeysAreNames", e.res = "err") /\ State /\ Adv
TDel == e.op = "del" /\ Del(e.k) /\ Outcome /\ State /\ Adv
TPop == e.op = "pop" /\ Pop(e.k, e.v) /\ Outcome /\ Value /\ State /\ Adv
TSetDefault == e.op = "setdefault" /\ SetDefault(e.k, e.v) /\ Outcome /\ Value /\ State /\ Adv
TClear == e.op = "clear" /\ Clear /\ Outcome /\ State /\ Adv
TGet == e.op = "get" /\ Get(e.k) /\ Outcome /\ (e.res = "ok" => Value) /\ State /\ Adv
THas == e.op = "has" /\ Has(e.k) /\ Outcome /\ Value /\ State /\ Adv
\* the allowed results are a set: accepted iff the recorded result is one of them
TMatch == /\ e.op = "match"
          /\ Check(t, l, "DeepestMatch", e.val \in MatchResults(d, e.k))
          /\ Match(e.k) /\ val' = e.val
          /\ State /\ Adv
\* final probe: get_deepest_match of every query name, both spellings
TProbe == /\ e.op = "probe"
          /\ Check(t, l, "DeepestMatchAll",
                   \A i \in 1..Len(e.tab) : <<e.tab[i][2], e.tab[i][3], e.tab[i][4]>> \in MatchResults(d, e.tab[i][1]))
          /\ UNCHANGED vars /\ State /\ Adv

TraceNext ==
    /\ l <= Len(Ev(t))
    /\ \/ TInit \/ TSet \/ TSetBad \/ TDel \/ TPop \/ TSetDefault \/ TClear \/ TGet \/ THas \/ TMatch \/ TProbe

Accepted == Accepting(t, l)
=============================================================================
