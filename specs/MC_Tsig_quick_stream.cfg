SPECIFICATION Spec
CONSTANTS
  KeyNames = {"k1"}
  Secrets = {"s1"}
  Algs = {"hmac-sha384-192"}
  Fudges = {2}
  Skews <- MCSkews4
  Errors = {0}
  Kinds = {"stream"}
  MaxEnv = 3
  MaxFaults = 1
INVARIANT TypeOK
INVARIANT GenuineAccepted
INVARIANT AlteredRefused
INVARIANT UnsignedNeverOk
INVARIANT Window
INVARIANT Family
INVARIANT PeerReported
CHECK_DEADLOCK FALSE
