----------------------------- MODULE Gen_Dnssec -----------------------------
(* Emits one universe of DnssecUniverse (chosen by Kind), one input per line.  For these
   pure computations a behaviour is one input; only inputs are emitted. *)
EXTENDS DnssecUniverse, Json

CONSTANT Kind
VARIABLE x

Universe == CASE Kind = "canon"  -> CanonCases \cup NameCases
              [] Kind = "sig"    -> SigCases
              [] Kind = "sig0"   -> SigPart(0)
              [] Kind = "sig1"   -> SigPart(1)
              [] Kind = "sig2"   -> SigPart(2)
              [] Kind = "sig3"   -> SigPart(3)
              [] Kind = "key"    -> KeyCases \cup DsCases \cup Nsec3Cases
              [] Kind = "bitmap" -> BitmapCases
              [] Kind = "zone"   -> ZoneCases

GInit == x \in Universe
GNext == FALSE /\ x' = x
Emit == PrintT("BEH " \o ToJson(<<x>>))
=============================================================================
