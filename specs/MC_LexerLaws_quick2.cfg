INIT Init
NEXT Next
CONSTANTS
  Alphabet <- ClassTabAlphabet
  MaxLen = 4
  DialectSet <- LibDialects
INVARIANTS Relex RenderIdempotent UngetGet LeadingOnlyAdds CommentOnlyAdds TabsAreSpaces NoEolInParens ParensHideLines BalancedIffAccepted CommentsIgnored LeadingBlank
CHECK_DEADLOCK FALSE
