INIT Init
NEXT Next
CONSTANTS
  Alphabet <- ClassTabAlphabet
  MaxLen = 4
  DialectSet <- LibDialects
INVARIANTS Relex RenderIdempotent UngetGet LeadingOnlyAdds CommentOnlyAdds TabsAreSpaces NoEolInParens ParensHideLines BalancedIffAccepted
CHECK_DEADLOCK FALSE
