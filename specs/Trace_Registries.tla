--------------------------- MODULE Trace_Registries ---------------------------
(* Trace validation for X09.  Stateless events (independent evaluations of the real code):
     row    256 consecutive values of a registry: to_text, from_text(to_text), the generic form read
            back in both cases, make(value), make(text), is_metatype / is_singleton / is_metaclass
     text   from_text of one text and of its lower / upper / swapped case spellings
     oor    to_text / make / generic text of an integer at or beyond the edge of the range
     frow   256 header words: flags.to_text, from_text of it, opcode.from_flags, is_update, opcode.to_flags
     erow   256 EDNS low limbs under one high limb: edns_to_text, edns_from_text of it
     rcrow  256 rcodes: to_flags, from_flags of it, from_flags under noise in all other bits
     rcf / rce   rcode.from_flags over 256 header words / 256 EDNS high limbs
     ftext  flags.from_text / edns_from_text of a token sequence
   and two state machines (Registries.tla): hinit + calls on a Message header; register calls.
   Every logged result is recomputed from the specification.  Clause ids carry the value
   ("RoundTrip@type@23").  Strict = TRUE adds the drift-only clauses (tables, order, classes). *)
EXTENDS Registries, RegistriesUniverse, VTrace

CONSTANT Strict
VARIABLES t, l

e == Ev(t)[l]
Adv == l' = l + 1 /\ t' = t
Stay == UNCHANGED vars
C(id, cond) == Check(t, l, id, cond)
S(id, cond) == Strict => Check(t, l, id, cond)
At(id, reg, v) == id \o "@" \o reg \o "@" \o ToString(v)
IsErr(name) == Len(name) > 0 /\ Ch(name, 1) = "!"
B(p) == IF p THEN 1 ELSE 0
(* a quantified block of checks is evaluated as ONE expression (TLC unfolds an action-level \A recursively: 256
   entries overflow its stack) *)
Whole(p) == p = TRUE

(* ------------------------------------------------------------------ row *)
RowEntry(reg, k) ==
    LET v == e.lo + k - 1
        nm == e.name[k]
        x == Lex(reg, nm)
    IN  /\ C(At("ToTextTotal", reg, v), ~IsErr(nm) \/ (reg = "opcode" /\ ~Strict /\ nm = "!UnknownOpcode" /\ ~HasValue(OpcodeTable, v)))
        /\ IsErr(nm) \/
             /\ C(At("NameForm", reg, v), x[1] = "word" \/ (x[1] = "generic" /\ x[2] = v))
             /\ C(At("RoundTrip", reg, v), e.back[k] = v)
             /\ C(At("MakeText", reg, v), e.mkn[k] = v)
             /\ S(At("TableName", reg, v), reg \in Tabled => nm = ToText(reg, Table(reg), v))
             /\ S(At("GenericCanonical", reg, v), x[1] = "generic" => nm = Generic(reg, v))
        /\ C(At("MakeValue", reg, v), e.mk[k] = v)
        /\ IF reg \in GenericStated THEN C(At("GenericRead", reg, v), e.gen[k] = v) /\ C(At("GenericCaseBlind", reg, v), e.genl[k] = v)
           ELSE S(At("GenericReadUnstated", reg, v), e.gen[k] = v /\ e.genl[k] = v)
        /\ (reg = "type" =>
              /\ C(At("MetaType", reg, v), (v \in MetaTypesListed => e.meta[k] = 1) /\ (v \notin MetaTypeRange \cup MetaTypesListed => e.meta[k] = 0))
              /\ S(At("MetaTypeRange", reg, v), e.meta[k] = B(v \in MetaTypeRange \cup MetaTypesListed))
              /\ C(At("Singleton", reg, v), e.single[k] = B(v \in SingletonTypes)))
        /\ (reg = "class" => C(At("MetaClass", reg, v), e.meta[k] = B(v \in MetaClasses)))
        /\ (reg = "rcode" => S(At("TsigName", reg, v), e.tsig[k] = IF v = 16 THEN "BADSIG" ELSE nm))
TRow ==
    /\ e.op = "row"
    /\ LET n == Len(e.name)
       IN  /\ C("RowComplete@" \o e.reg, (HasKey(e, "part") \/ n = RowLen(e.reg, e.lo)) /\ e.lo + n - 1 <= Max(e.reg)
                                          /\ \A f \in {"back", "gen", "genl", "mk", "mkn"} : Len(e[f]) = n)
           /\ Whole(\A k \in 1..n : RowEntry(e.reg, k))
    /\ Adv /\ Stay

(* ------------------------------------------------------------------ text:  r = <<tag, value, canon | exception, again | code>> *)
TText ==
    /\ e.op = "text"
    /\ LET reg == e.reg
           x == Lex(reg, e.text)
           r == e.res[1]
           ok == r[1] = "ok"
           id(c) == c \o "@" \o reg
       IN  /\ C(id("ValueInRange"), ok => r[2] \in 0..Max(reg))
           /\ C(id("GenericDenotes"), ok /\ x[1] = "generic" => r[2] = x[2])
           /\ C(id("GenericRead"), x[1] = "generic" /\ reg \in GenericStated => ok)
           /\ S(id("GenericReadUnstated"), x[1] = "generic" => ok)
           /\ C(id("TooBigRefused"), x[1] = "toobig" => ~ok)
           /\ C(id("JunkRefused"), x[1] = "junk" => ~ok)
           /\ C(id("Canonical"), ok => r[4] = r[2] /\ ~IsErr(r[3]))
           /\ C(id("CaseBlind"), x[1] # "foreign" => \A k \in 2..Len(e.res) : e.res[k][1] = r[1] /\ e.res[k][2] = r[2])
           /\ C(id("ErrorClass"), ~ok /\ reg \in {"type", "class", "rcode", "opcode"} => r[4] \in {-1, -2})
           /\ S(id("ErrorClassExact"), ~ok /\ x[1] # "foreign" => r[4] = IF x[1] = "toobig" THEN -2 ELSE IF reg \in {"type", "class", "rcode", "opcode", "svcparam"} THEN -1 ELSE -2)
           /\ S(id("TableWord"), reg \in Tabled /\ x[1] # "foreign" =>
                  LET q == FromText(reg, Table(reg), e.text) IN (q[1] = "ok") = ok /\ (ok => r[2] = q[2] /\ r[3] = ToText(reg, Table(reg), q[2])))
           /\ S(id("ForeignRefused"), x[1] = "foreign" => ~ok)
    /\ Adv /\ Stay

(* ------------------------------------------------------------------ oor *)
TOor ==
    /\ e.op = "oor"
    /\ LET reg == e.reg
           inside == e.v \in 0..Max(reg)
           id(c) == c \o "@" \o reg
       IN  /\ C(id("ToTextRange"), IsErr(e.totext) = ~inside)
           /\ C(id("MakeRange"), IF inside THEN e.make = e.v ELSE e.make < 0)
           /\ C(id("GenericRange"), ~inside => e.gen < 0)
           /\ S(id("RangeErrorIsValueError"), ~inside => e.totext = "!ValueError" /\ e.make = -2 /\ e.gen = IF e.v < 0 THEN (IF reg \in {"type", "class", "rcode", "opcode", "svcparam"} THEN -1 ELSE -2) ELSE -2)
           /\ (reg = "rcode" /\ ~inside => C("RcodeToFlagsRange", e.toflags = "!ValueError"))
    /\ Adv /\ Stay

(* ------------------------------------------------------------------ flags rows *)
TokensOk(lay, names, mask, x, text) ==     \* the named flags shown are exactly the named flags set
    ToSet(Split(text)) \cap ToSet(names) = ToSet(KnownTokens(lay, names, And(x, mask, 16)))
TFRow ==
    /\ e.op = "frow"
    /\ C("FRowComplete", HasKey(e, "part") \/ (Len(e.text) = 256 /\ e.lo % 256 = 0))
    /\ Whole(\A k \in 1..Len(e.text) :
         LET f == e.lo + k - 1
             id(c) == c \o "@" \o ToString(f)
         IN  /\ C(id("FlagsTextNames"), ~IsErr(e.text[k]) /\ TokensOk(Header, FlagNames, FlagsMask, f, e.text[k]))
             /\ C(id("FlagsRoundTrip"), e.back[k] = And(f, FlagsMask, 16))
             /\ S(id("FlagsTextExact"), e.text[k] = Join(FlagTokens(Header, FlagNames, FlagsMask, f)))
             /\ C(id("OpcodeFromFlags"), e.opc[k] = OpcodeFromFlags(f))
             /\ C(id("IsUpdate"), e.upd[k] = B(IsUpdate(f)))
             /\ C(id("OpcodeToFlags"), e.opf[k] = And(f, MaskF(Header, "OPCODE"), 16) /\ e.opf[k] = OpcodeToFlags(e.opc[k])))
    /\ Adv /\ Stay
TERow ==
    /\ e.op = "erow"
    /\ C("ERowComplete", HasKey(e, "part") \/ (Len(e.text) = 256 /\ e.lo % 256 = 0))
    /\ Whole(\A k \in 1..Len(e.text) :
         LET f == e.lo + k - 1
             id(c) == c \o "@" \o ToString(f)
         IN  /\ C(id("EdnsTextNames"), ~IsErr(e.text[k]) /\ TokensOk(EdnsLo, EFlagNames, EFlagsMask, f, e.text[k]))
             /\ C(id("EdnsRoundTrip"), e.back[k] = f)
             /\ S(id("EdnsTextExact"), e.text[k] = Join(FlagTokens(EdnsLo, EFlagNames, EFlagsMask, f))))
    /\ Adv /\ Stay

(* ------------------------------------------------------------------ rcode <-> (flags, ednsflags) *)
TRcRow ==
    /\ e.op = "rcrow"
    /\ C("RcRowComplete", HasKey(e, "part") \/ (Len(e.back) = 256 /\ e.lo % 256 = 0 /\ e.lo + 255 <= 4095))
    /\ Whole(\A k \in 1..Len(e.back) :
         LET r == e.lo + k - 1
             id(c) == c \o "@" \o ToString(r)
         IN  /\ C(id("RcodeToFlags"), e.toflags[k] = RcodeToFlags(r))
             /\ C(id("RcodeFromToFlags"), e.back[k] = r)
             /\ C(id("RcodeFromFlagsNoise"), e.nres[k] = RcodeFromFlags(e.nin[k][1], e.nin[k][2]) /\ e.nres[k] = r))
    /\ Adv /\ Stay
TRcf ==
    /\ e.op = "rcf"
    /\ C("RcfRowComplete", HasKey(e, "part") \/ (Len(e.res) = 256 /\ e.lo % 256 = 0))
    /\ Whole(\A k \in 1..Len(e.res) : C("RcodeFromFlags@" \o ToString(e.lo + k - 1) \o "@" \o ToString(e.hi), e.res[k] = RcodeFromFlags(e.lo + k - 1, e.hi)))
    /\ Adv /\ Stay
TRce ==
    /\ e.op = "rce"
    /\ C("RceRowComplete", HasKey(e, "part") \/ (Len(e.res) = 256 /\ e.lo % 256 = 0))
    /\ Whole(\A k \in 1..Len(e.res) : C("RcodeFromEdns@" \o ToString(e.flags) \o "@" \o ToString(e.lo + k - 1), e.res[k] = RcodeFromFlags(e.flags, e.lo + k - 1)))
    /\ Adv /\ Stay

(* ------------------------------------------------------------------ flag texts
   a token is a known mnemonic (any case), or FLAGn: "n is the bit position" (whatsnew 2.9.0) - stated
   for the bits to_text renders that way, i.e. nameless bits inside the mask; any other n is free.
   TokenBit (RegistriesText): the bit (0..15), -1 free, -2 not a flag token at all *)
TFText ==
    /\ e.op = "ftext"
    /\ LET lay == IF e.which = "flags" THEN Header ELSE EdnsLo
           names == IF e.which = "flags" THEN FlagNames ELSE EFlagNames
           mask == IF e.which = "flags" THEN FlagsMask ELSE EFlagsMask
           toks == SelectSeq(e.toks, LAMBDA x : x # "")
           bits == [k \in 1..Len(toks) |-> TokenBit(lay, names, mask, toks[k])]
           defined == \A k \in 1..Len(toks) : bits[k] >= 0
           alien == \E k \in 1..Len(toks) : bits[k] = -2
           r == e.res[1]
           id(c) == c \o "@" \o e.which
       IN  /\ C(id("FlagsFromText"), defined => r[1] = "ok" /\ r[2] = MaskOf({bits[k] : k \in 1..Len(toks)}))
           /\ C(id("UnknownTokenRefused"), alien => r[1] = "err")
           /\ C(id("FlagsCanonical"), r[1] = "ok" /\ r[2] < 65536 => ~IsErr(r[3]) /\ r[4] = And(r[2], mask, 16))
           /\ S(id("SpacingBlind"), \A k \in 2..Len(e.res) : e.res[k][1] = r[1] /\ e.res[k][2] = r[2])
           /\ S(id("FlagsErrorIsDnsException"), r[1] = "err" => r[3] \in {"SyntaxError", "UnknownFlag"})
           /\ S(id("FlagsValueWithinMask"), ~alien => r[1] = "ok" /\ r[2] < 65536 /\ And(r[2], mask, 16) = r[2])
    /\ Adv /\ Stay

(* ------------------------------------------------------------------ the header of a Message *)
Observed(tag) ==
    /\ C("Header" \o tag \o "Flags", e.flags = flags')
    /\ C("Header" \o tag \o "EdnsFlags", e.e = <<ehi', elo'>>)
    /\ C("Header" \o tag \o "Opt", e.opt = opt')
    /\ C("Header" \o tag \o "Version", e.edns = Version')
    /\ C("Header" \o tag \o "Opcode", e.opcode = Opcode')
    /\ C("Header" \o tag \o "Rcode", e.rcode = Rcode')
    /\ C("Header" \o tag \o "FlagNames", TokensOk(Header, FlagNames, FlagsMask, flags', e.text) /\ TokensOk(EdnsLo, EFlagNames, EFlagsMask, elo', e.etext))
    /\ S("Header" \o tag \o "TextExact", e.text = Join(Tokens') /\ e.etext = Join(ETokens'))
THInit == /\ e.op = "hinit" /\ l = 1
          /\ flags' = e.f0 /\ ehi' = 0 /\ elo' = 0 /\ opt' = FALSE /\ regs' = regs
          /\ Observed("Init") /\ Adv
THCall(op, A) == /\ e.op = op /\ l > 1
                 /\ C("HeaderCallOk_" \o op, e.out = "ok")
                 /\ A /\ Observed("_" \o op \o "_") /\ Adv
THeader == \/ THCall("opcode", SetOpcode(e.a))
           \/ THCall("rcode", SetRcode(e.a))
           \/ THCall("raise", Raise(e.a))
           \/ THCall("clear", Clear(e.a))
           \/ THCall("dnssec", WantDnssec(e.a = 1))
           \/ THCall("edns", UseEdns(e.a, e.xr, e.lo))
           \/ THCall("noedns", NoEdns)

(* ------------------------------------------------------------------ register_type *)
PosIn(seq, x) == CHOOSE i \in 1..Len(seq) : seq[i] = x
TRegister ==
    /\ e.op = "register"
    /\ C("RegisterOk", e.out = "ok")
    /\ Register(e.v, e.text, e.single)
    /\ Whole(\A k \in 1..Len(regs') : CleanIn(regs', k) =>
         LET v == regs'[k][1]
             txt == regs'[k][2]
             id(c) == c \o "@" \o txt
         IN  /\ C(id("RegisteredToText"), Upper(e.totext[PosIn(e.qv, v)]) = Upper(txt))
             /\ C(id("RegisteredFromText"), e.fromtext[PosIn(e.qt, txt)] = v)
             /\ C(id("RegisteredFromTextUpper"), e.fromtext[PosIn(e.qt, Upper(txt))] = v)
             /\ C(id("RegisteredFromTextLower"), e.fromtext[PosIn(e.qt, Lower(txt))] = v)
             /\ C(id("RegisteredSingleton"), regs'[k][3] => e.isingle[PosIn(e.qv, v)] = 1))
    /\ C("BuiltinSingletons", \A i \in 1..Len(e.qv) : e.qv[i] \in SingletonTypes => e.isingle[i] = 1)
    /\ S("RegistryToText", \A i \in 1..Len(e.qv) : e.totext[i] = RToTextIn(regs', e.qv[i]) /\ e.name[i] = e.totext[i])
    /\ S("RegistryFromText", \A i \in 1..Len(e.qt) : LET q == RFromTextIn(regs', e.qt[i]) IN e.fromtext[i] = IF q[1] = "ok" THEN q[2] ELSE IF q[2] = "range" THEN -2 ELSE -1)
    /\ S("RegistrySingleton", \A i \in 1..Len(e.qv) : e.isingle[i] = B(RSingletonIn(regs', e.qv[i])))
    /\ Adv

TraceInit == RegInit /\ t \in 1..NTraces /\ l = 1 /\ flags = 0 /\ ehi = 0 /\ elo = 0 /\ opt = FALSE /\ regs = <<>>
TraceNext == l <= Len(Ev(t)) /\ (TRow \/ TText \/ TOor \/ TFRow \/ TERow \/ TRcRow \/ TRcf \/ TRce \/ TFText \/ THInit \/ THeader \/ TRegister)
Accepted == Accepting(t, l)
=============================================================================
