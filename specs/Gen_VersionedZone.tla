-------------------------- MODULE Gen_VersionedZone --------------------------
(* VersionedZone plus a history variable: every behaviour is one script of the
   environment's choices (which call, which arguments).  Behaviours of length GenDepth are
   printed as JSON; the driver replays them on dns.versioned.Zone and dns.btreezone.Zone.
   Expected results are NOT emitted: the oracle is Trace_VersionedZone. *)
EXTENDS VersionedZone, Json

CONSTANTS GenDepth,      \* number of calls in a script
          Ops,           \* which calls a script may contain
          InitKinds,     \* subset of {"fresh", "loaded"}: a new zone / a zone loaded by one replacement transaction
          InitContents,  \* contents of the loaded zone
          MaxCommits,    \* bound on commits per script
          CloseHows,     \* subset of {"commit", "rollback", "exit"}: how a read transaction is ended
          EndHows,       \* subset of {"commit", "exit"} / {"rollback", "raise"} used for write transactions
          IdOffsets,     \* reader(id=newest id + d) for d in IdOffsets (ids near the retained window)
          Styles         \* how the writer's calls are made: set of <<form, spelling>>, form in {"rdata", "rdataset",
                         \* "rrset"}, spelling of owner names in {"own" (the zone's relativity), "other" (absolute
                         \* names in a relativized zone and vice versa), "str" (text)}

VARIABLES hist,
          fin            \* the script is complete (simulation mode prints it exactly once)
gvars == <<vars, hist, fin>>

C(s, it) == [serial |-> s, items |-> it]
A1 == <<"a", 1>>
A2 == <<"a", 2>>
B1 == <<"b", 1>>
G1 == <<"g.d", 1>>      \* an address record BELOW the name d
D0 == <<"d", 0>>        \* an NS rdataset (a delegation, in a B-tree zone) AT the name d
(* a delegation appears above / disappears from above a name that exists already and is
   not written by that transaction (the B-tree zone re-flags it as glue / not glue) *)
GenContentsDeleg == {C(1, {G1}), C(2, {G1, D0}), C(3, {G1}), C(3, {G1, D0, A1})}
GenInitDeleg == {C(1, {G1}), C(2, {G1, D0})}
GenContentsTiny  == {C(1, {A1}), C(2, {A1})}
GenContentsSmall == {C(0, {}), C(1, {A1}), C(2, {A1})}
GenContentsMid   == {C(0, {}), C(1, {A1}), C(2, {A1}), C(2, {A1, A2, B1}), C(3, {B1}), C(3, {A2})}
GenContents      == GenContentsMid \cup {C(2, {A1, G1}), C(3, {A1, G1, D0})}
GenStyleOwn == {<<"rdata", "own">>}
GenStyleE2  == {<<"rdataset", "own">>, <<"rdata", "other">>}
GenStyleE2T == {<<"rdataset", "own">>, <<"rrset", "other">>, <<"rdata", "str">>}
GenStyleE3  == {<<"rdata", "own">>, <<"rdataset", "other">>}
GenStyleAll == {"rdata", "rdataset", "rrset"} \X {"own", "other", "str"}
GenNoOffsets == {}
GenIdOffsets == {-2, -1, 0, 1}
GenInitOne == {C(1, {A1})}
GenInitTwo == {C(1, {A1}), C(2, {A1, A2, B1})}

H(e) == hist' = Append(hist, e)

GInit ==
    \E k \in InitKinds :
       IF k = "fresh"
       THEN Init /\ fin = FALSE /\ hist = <<[op |-> "init", kind |-> "fresh", content |-> Empty]>>
       ELSE \E c \in InitContents :
              /\ versions = <<[id |-> 2, content |-> c]>>
              /\ allIds = <<1, 2>>
              /\ published = (1 :> Empty) @@ (2 :> c)
              /\ readers = <<>> /\ policy = <<"default">> /\ writer = NoWriter /\ res = "ok"
              /\ fin = FALSE
              /\ hist = <<[op |-> "init", kind |-> "loaded", content |-> c]>>

Free == Rids \ DOMAIN readers
NextRid == MinOf(Free)        \* handles are interchangeable: always take the least free one
Fresh == Len(allIds) = 1      \* nothing has been committed yet

GStep ==
    \/ /\ "open" \in Ops /\ Free # {} /\ OpenLatest(NextRid)
       /\ H([op |-> "open", how |-> "latest", rid |-> NextRid, arg |-> 0])
    \/ /\ "openid" \in Ops /\ Free # {}
       /\ \E n \in IdArgs \cup {Last(allIds) + d : d \in IdOffsets} :
             n > 0 /\ OpenById(NextRid, n) /\ H([op |-> "open", how |-> "id", rid |-> NextRid, arg |-> n])
    \/ /\ "openserial" \in Ops /\ Free # {}
       /\ \E s \in SerialArgs : OpenBySerial(NextRid, s) /\ H([op |-> "open", how |-> "serial", rid |-> NextRid, arg |-> s])
    \/ /\ "openboth" \in Ops /\ Free # {} /\ OpenBoth(NextRid)
       /\ H([op |-> "open", how |-> "both", rid |-> NextRid, arg |-> 1])
    \/ /\ "close" \in Ops
       /\ \E r \in DOMAIN readers, how \in CloseHows : CloseReader(r) /\ H([op |-> "close", rid |-> r, how |-> how])
    \/ /\ "begin" \in Ops
       /\ \E b \in BOOLEAN : BeginWrite(b) /\ H([op |-> "begin", repl |-> b])
    \/ /\ "stage" \in Ops
       /\ \E c \in Contents, st \in Styles : Stage(c) /\ H([op |-> "stage", content |-> c, form |-> st[1], sp |-> st[2]])
    \/ /\ "commit" \in Ops /\ Len(allIds) <= MaxCommits
       /\ \E how \in EndHows \cap {"commit", "exit"} :
            /\ CommitChanged(Last(allIds) + 1) \/ CommitUnchanged
            /\ H([op |-> "end", how |-> how])
    \* a commit during which the pruning predicate raises (the driver arms a one-shot fault in the
    \* predicate; if pruning never consults it the commit is an ordinary one).  The generator assumes
    \* the version gets published and nothing is pruned, and writes no more in this script.
    \/ /\ "commitfault" \in Ops /\ Len(allIds) <= MaxCommits
       /\ CommitFaulted(TRUE, Last(allIds) + 1, 1) /\ H([op |-> "end", how |-> "commit_fault"])
    \/ /\ "reuse" \in Ops /\ ReuseEndedWriter /\ H([op |-> "reuse"])
    \/ /\ "rollback" \in Ops
       /\ \E how \in EndHows \cap {"rollback", "raise"} : Rollback /\ H([op |-> "end", how |-> how])
    \/ /\ "setmax" \in Ops
       /\ \/ \E n \in MaxVersionArgs : SetMaxVersions(n) /\ H([op |-> "setmax", n |-> n])
          \/ SetUnlimited /\ H([op |-> "setmax_none"])
    \/ /\ "setpolicy" \in Ops
       /\ \/ \E p \in CustomPolicies : SetCustomPolicy(p) /\ H([op |-> "setpolicy", p |-> p])
          \/ SetDefaultPolicy /\ H([op |-> "setpolicy", p |-> "default"])
    \/ /\ "mutate" \in Ops
       /\ \E r \in DOMAIN readers : MutateThroughReader(r) /\ H([op |-> "mutate", rid |-> r])
    \/ /\ "zmutate" \in Ops /\ MutateZone /\ H([op |-> "zmutate"])
    \/ /\ "scribble" \in Ops
       /\ \E how \in {"add", "ttl", "clear"} : CallerReusesObjects /\ H([op |-> "scribble", how |-> how])

(* a finished script takes one `fin` step and then stutters *)
GNext == \/ Len(hist) <= GenDepth /\ GStep /\ fin' = FALSE
         \/ Len(hist) > GenDepth /\ fin' = TRUE /\ UNCHANGED <<vars, hist>>

GSpec == GInit /\ [][GNext]_gvars

(* simulation mode: TLC evaluates invariants on ALL successors of the current state before
   it picks one, so printing at the last call would print every possible last call;
   the `fin` step has a single successor: each simulated behaviour is printed once *)
Emit == fin => PrintT("BEH " \o ToJson(hist))

(* edge-cover mode: the configuration declares VIEW vars (so the history is not part of a
   state's identity: TLC explores each state of VersionedZone once, breadth first, and
   hist is a shortest script reaching it) and ACTION_CONSTRAINT EmitEdge, which TLC
   evaluates on EVERY transition it generates: each transition of the bounded model is
   printed as (shortest script to its source state) + (the call), so the driver executes
   every transition of the model at least once on the real zone. *)
EmitEdge == fin' \/ PrintT("BEH " \o ToJson(hist'))
=============================================================================
