INIT TraceInit
NEXT TraceNext
CONSTANTS
  MaxFaults = 0
  Kinds = {}
  PairBases = {}
CONSTRAINT Accepted
POSTCONDITION Post
CHECK_DEADLOCK FALSE
