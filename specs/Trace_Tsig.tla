----------------------------- MODULE Trace_Tsig -----------------------------
(* Trace validation for C14.  One trace = one exchange script (from Gen_Tsig) run on the
   real code.  Every event is the corresponding Tsig action; the observations are judged:

   Composition / VerifierComposition  the octets the library fed to HMAC when signing /
        validating equal Tsig!Digest concretised (TsigWire) from the octets of the message
        and the chain state (prior MAC, unsigned envelopes since) kept HERE, not by the code
   MacValue        the MAC on the wire = first MacBits(alg) bits of HMAC(secret, those octets),
                   the HMAC computed by Python's hmac module with the hash Tsig!HashOf names
   GenuineVerifies / AlteredRejected / UnsignedReported / Family / WindowEdge / PeerReported
                   outcome of dns.message.from_wire against the Tsig!Verdict automaton
   (FlipAccepted / FlipUnsigned are judged in the pass with C14_STRICT_TTL=0 only; the strict pass
    re-reads the flips just for TsigTtlCovered)
   FlipCoverage / FlipAccepted / FlipUnsigned / UnsignedFlipRejected
                   every single-bit flip of a genuine message: if from_wire reports the
                   flipped message as validly signed, its RFC-authenticated view must be
                   unchanged; if it reports it as unsigned, it must really have no TSIG RR *)
EXTENDS Tsig, TsigWire, VTrace

VARIABLES t, l,
          csprior, cspend,    \* signer's chain state, octets
          crprior, crpend,    \* receiver's chain state, octets
          cwire,              \* message in flight, octets
          csent,              \* the previous rendering as it left the signer, octets
          cdead               \* the real receiver refused a message
tvars == <<vars, t, l, csprior, cspend, crprior, crpend, cwire, csent, cdead>>

S == Log[t].start
e == Ev(t)[l]
Adv == l' = l + 1 /\ t' = t
CLen(m) == Len(m)
One(b) == IF b = <<>> THEN <<>> ELSE <<b>>

TraceInit ==
    /\ RegInit
    /\ t \in 1..NTraces /\ l = 1
    /\ kind = S.kind /\ skey = [name |-> S.key, secret |-> "s1", alg |-> S.alg] /\ fudge = S.fudge /\ serror = S.error
    /\ ring = {skey}
    /\ rreq = IF kind = "query" THEN <<>> ELSE <<ReqMac(skey)>>
    /\ sprior = rreq /\ rprior = rreq /\ spend = <<>> /\ rpend = <<>> /\ raccepted = 0
    /\ net = <<>> /\ sent = 0 /\ lastsigned = FALSE /\ mf = {} /\ cf = {} /\ skew = 0 /\ taint = FALSE
    /\ verdicts = <<>> /\ dead = FALSE
    /\ csprior = One(S.reqmac) /\ crprior = One(S.reqmac) /\ cspend = <<>> /\ crpend = <<>>
    /\ cwire = <<>> /\ csent = <<>> /\ cdead = FALSE

StrictTtl == IOEnv.C14_STRICT_TTL = "1"
CX(p, prior, pend) ==
    [prior |-> prior, pend |-> pend, origid |-> p.origid, head |-> p.head, ar |-> p.ar, body |-> p.body,
     owner |-> p.owner, class |-> p.class, ttl |-> IF StrictTtl THEN p.ttl ELSE <<0, 0, 0, 0>>, alg |-> p.alg, time |-> p.time, fudge |-> p.fudge,
     error |-> p.error, other |-> p.other]
Expected(p, prior, pend, first) == Flatten(Digest(CX(p, prior, pend), first, CLen))

(* what RFC 8945 authenticates in a message with a TSIG RR, as a value *)
(* The TTL of the TSIG RR is one of the digested "TSIG variables" of section 4.3.3 (source:
   TSIG RR, value MUST be 0).  StrictTtl: a receiver must not accept a message whose TSIG
   TTL was altered (reading adopted for the property); with C14_STRICT_TTL=0 the TTL is
   treated as not authenticated, so that everything ELSE is still judged on those traces. *)
AuthView(first, p) ==
    <<p.origid, p.head, p.ar, p.body, CanonWire(p.owner), p.class, CanonWire(p.alg), p.time, p.fudge, p.error, p.mac>>
      \o (IF first THEN <<p.other>> ELSE <<>>)
SameAuth(first, w1, w2) ==
    LET p1 == ParseMsg(w1) p2 == ParseMsg(w2)
    IN p2.ok /\ p2.tsig = "last" /\ AuthView(first, p2) = AuthView(first, p1)
SameTtl(first, w1, w2) == first => ParseMsg(w2).ttl = ParseMsg(w1).ttl

(* what is required of EVERY rendering the library signs (first or repeated) *)
SignedChecks(first, p, again) ==
    /\ Check(t, l, "SignOk", e.res = "ok")
    /\ Check(t, l, "SignedWellFormed",
             /\ p.ok /\ p.tsig = "last" /\ p.class = 255 /\ p.ttl = <<0, 0, 0, 0>>
             /\ CanonWire(p.owner) = S.keywire /\ CanonWire(p.alg) = S.algwire
             /\ p.fudge = fudge /\ p.error = serror /\ p.origid = e.origid /\ p.other = S.other)
    \* `again`: a repeated rendering needs no new HMAC computation when what RFC 8945 authenticates (and the MAC)
    \* is unchanged with respect to the previous rendering (e.g. only the header id changed)
    /\ Check(t, l, "Composition", e.dig = Expected(p, csprior, cspend, first) \/ (again /\ e.dig = <<>> /\ SameAuth(TRUE, csent, e.wire)))
    /\ Check(t, l, "MacValue", \/ (again /\ e.dig = <<>> /\ SameAuth(TRUE, csent, e.wire))
                               \/ /\ Len(e.hm) * 8 = FullBits(S.hash)
                                  /\ p.mac = SubSeq(e.hm, 1, MacBits(S.alg) \div 8))
    /\ csprior' = IF Multi THEN <<p.mac>> ELSE csprior
    /\ cspend' = <<>>

TSend ==
    /\ e.op = "send"
    /\ LET first == sent = 0 \/ ~Multi
           p == ParseMsg(e.wire)
       IN /\ Send(e.signed)
          /\ IF e.signed
             THEN SignedChecks(first, p, FALSE)
             ELSE /\ Check(t, l, "SignOk", e.res = "ok")
                  /\ Check(t, l, "UnsignedPlain", p.ok /\ p.tsig = "none")
                  /\ cspend' = Append(cspend, e.wire)
                  /\ csprior' = csprior
    /\ cwire' = e.wire /\ csent' = e.wire
    /\ UNCHANGED <<crprior, crpend, cdead>> /\ Adv

(* the same Message object rendered again (Tsig!Resign) *)
TResign ==
    /\ e.op = "resign"
    /\ LET first == ~Multi
           p == ParseMsg(e.wire)
           q == ParseMsg(csent)
       IN /\ Resign(e.mod)
          /\ SignedChecks(first, p, ~Multi)
          /\ Check(t, l, "EnvResignModified",
                   (p.ok /\ p.tsig = "last" /\ q.ok /\ q.tsig = "last") =>
                      /\ e.mod = "id" => (SubSeq(e.wire, 1, 2) # SubSeq(csent, 1, 2) /\ p.origid = q.origid)
                      /\ e.mod = "head" => p.head # q.head
                      /\ e.mod = "body" => p.body # q.body)
    /\ cwire' = e.wire /\ csent' = e.wire
    /\ UNCHANGED <<crprior, crpend, cdead>> /\ Adv

(* faults: the abstract action, and the driver's concretisation must really be one *)
TTamper ==
    /\ e.op = "tamper" /\ Tamper(e.region)
    /\ Check(t, l, "EnvTamperAltersAuth",
             net[1].pos = "none" \/ ~SameAuth(sent = 1 \/ ~Multi, cwire, e.wire) \/ e.region \in {"tsig.ttl", "tsig.other"})
    /\ cwire' = e.wire /\ UNCHANGED <<csprior, cspend, crprior, crpend, csent, cdead>> /\ Adv
TBenign ==
    /\ e.op = "benign" /\ Benign(e.what)
    /\ Check(t, l, "EnvBenignKeepsAuth", (ParseMsg(cwire).ok /\ ParseMsg(cwire).tsig = "last") => (SameAuth(TRUE, cwire, e.wire) /\ e.wire # cwire))
    /\ cwire' = e.wire /\ UNCHANGED <<csprior, cspend, crprior, crpend, csent, cdead>> /\ Adv
TMove ==
    /\ e.op = "move" /\ MoveTsig
    /\ Check(t, l, "EnvMoved", (ParseMsg(cwire).ok /\ ParseMsg(cwire).tsig = "last") => (ParseMsg(e.wire).ok /\ ParseMsg(e.wire).tsig = "misplaced"))
    /\ cwire' = e.wire /\ UNCHANGED <<csprior, cspend, crprior, crpend, csent, cdead>> /\ Adv
TStrip ==
    /\ e.op = "strip" /\ StripTsig
    /\ Check(t, l, "EnvStripped", (ParseMsg(cwire).ok /\ ParseMsg(cwire).tsig = "last") => (ParseMsg(e.wire).ok /\ ParseMsg(e.wire).tsig = "none"))
    /\ cwire' = e.wire /\ UNCHANGED <<csprior, cspend, crprior, crpend, csent, cdead>> /\ Adv
TConfig ==
    /\ e.op = "cfault" /\ ConfigFault(e.what)
    /\ crprior' = IF e.what \in {"wrongreqmac", "noreqmac"} THEN One(e.rmac) ELSE crprior
    /\ Check(t, l, "EnvReqMacDiffers", e.what \in {"wrongreqmac", "noreqmac"} => One(e.rmac) # crprior)
    /\ UNCHANGED <<csprior, cspend, crpend, cwire, csent, cdead>> /\ Adv
TSkew ==
    /\ e.op = "skew" /\ ClockSkew(e.d) /\ skew' = e.d
    /\ UNCHANGED <<csprior, cspend, crprior, crpend, cwire, csent, cdead>> /\ Adv

ClassLevel == {{"move"}, {"tsig.class"}, {"tsig.error"}, {"wrongkey"}, {"wrongname"}, {"wrongalg"},
               {"wrongreqmac"}, {"noreqmac"}}
RejectFamilies == {"FormErr", "Peer", "BadTime", "BadKey", "BadAlg", "BadSig", "OtherDns", "OtherExc"}

TDeliver ==
    /\ e.op = "deliver"
    /\ Deliver
    /\ IF cdead
       THEN /\ Check(t, l, "DeadStaysDead", e.out = "dead")
            /\ UNCHANGED <<crprior, crpend, cdead>>
       ELSE LET r == verdicts'[Len(verdicts')]
                v == r.v
                rfirst == RFirst
                p == ParseMsg(cwire)
                genuine == r.mf = {} /\ r.cf = {} /\ ~r.taint /\ serror = 0
            IN /\ Check(t, l, "GenuineVerifies", (v = "ok" /\ "tsig.ttl" \notin r.mf) => e.out = "ok")
               /\ Check(t, l, IF r.mf = {"tsig.ttl"} /\ r.cf = {} THEN "TsigTtlCovered" ELSE "AlteredRejected",
                        v \in Rejections => e.out \in RejectFamilies)
               /\ Check(t, l, "UnsignedReported", v = "unsigned" => e.out \in {"unsigned"} \cup RejectFamilies)
               /\ Check(t, l, "WindowEdge", (r.signed /\ genuine) => e.out = v)
               /\ Check(t, l, "PeerReported", (r.signed /\ serror # 0 /\ r.mf = {} /\ r.cf = {} /\ Abs(r.skew) <= fudge /\ ~r.taint) => e.out = "Peer")
               /\ Check(t, l, "Family", (r.signed /\ Abs(r.skew) <= fudge /\ serror = 0 /\ ~r.taint /\ (r.mf \cup r.cf) \in ClassLevel) => e.out = v)
               /\ Check(t, l, "VerifierComposition",
                        e.dig # <<>> => (p.ok /\ p.tsig = "last" /\ e.dig = Expected(p, crprior, crpend, rfirst)))
               /\ Check(t, l, "VerifierMac", (e.out = "ok") => (/\ e.dig # <<>> /\ p.mac = SubSeq(e.hm, 1, MacBits(S.alg) \div 8)))
               /\ IF r.signed /\ genuine /\ Abs(r.skew) <= fudge /\ Log[t].flips
                  THEN /\ Check(t, l, "FlipCoverage", e.nflips = 8 * Len(cwire))
                       /\ Check(t, l, "FlipAccepted", StrictTtl \/ \A i \in 1..Len(e.okbits) : SameAuth(rfirst, cwire, FlipBit(cwire, e.okbits[i])))
                       /\ Check(t, l, "TsigTtlCovered", StrictTtl => \A i \in 1..Len(e.okbits) : SameTtl(rfirst, cwire, FlipBit(cwire, e.okbits[i])))
                       /\ Check(t, l, "FlipUnsigned", StrictTtl \/ \A i \in 1..Len(e.unsbits) : LET q == ParseMsg(FlipBit(cwire, e.unsbits[i])) IN q.ok /\ q.tsig = "none")
                  ELSE TRUE
               /\ IF ~r.signed /\ genuine /\ Log[t].flips /\ e.out = "unsigned"
                  THEN /\ Check(t, l, "FlipCoverage", e.nflips = 8 * Len(cwire))
                       /\ Check(t, l, "UnsignedFlipRejected", e.ubad = <<>>)
                  ELSE TRUE
               /\ crprior' = IF e.out = "ok" /\ Multi /\ p.ok /\ p.tsig = "last" THEN <<p.mac>> ELSE crprior
               /\ crpend' = IF e.out = "ok" THEN <<>>
                            ELSE IF e.out = "unsigned" /\ Multi /\ raccepted > 0 THEN Append(crpend, cwire)
                            ELSE crpend
               /\ cdead' = (e.out \notin {"ok", "unsigned"})
    /\ UNCHANGED <<csprior, cspend, cwire, csent>> /\ Adv

TraceNext ==
    /\ l <= Len(Ev(t))
    /\ \/ TSend \/ TResign \/ TTamper \/ TBenign \/ TMove \/ TStrip \/ TConfig \/ TSkew \/ TDeliver

Accepted == Accepting(t, l)
=============================================================================
