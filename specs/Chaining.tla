------------------------------ MODULE Chaining ------------------------------
(* What a stub resolver extracts from one response (property C16, "the answer follows
   the CNAME chain (bounded length) with the minimum TTL").  Written from RFC 1034
   section 3.6.2 / 4.3.2 (CNAME processing), RFC 2308 section 5 (negative TTL = minimum
   of the SOA's TTL and its MINIMUM field, SOA of the closest enclosing zone in the
   authority section) and the documentation of dns.message.ChainingResult.

   Abstract response:
     [qr   |-> BOOLEAN,                 the QR flag (a response has it set)
      nq   |-> Nat,                     number of entries in the question section
      rcode|-> STRING,
      ans  |-> Seq([n, ty, ttl, tgt]),  answer RRsets: owner, type, TTL, CNAME target (<<>> otherwise)
      auth |-> Seq([n, ttl, min])]      SOA RRsets of the authority section: owner, TTL, MINIMUM
   A name is a sequence of labels; an absolute name ends with the empty label "".
   Name equality is plain equality here (the case-folding of DNS names belongs to C06).

   Resolve(m, qname, qtype) is
     [err |-> "" | "NotQueryResponse" | "FormError" | "ChainTooLong" | "AnswerForNXDOMAIN",
      cname  |-> canonical name (end of the chain),
      answer |-> index into m.ans of the answer RRset, 0 if there is none,
      ttl    |-> the TTL to cache the result with,
      hops   |-> number of CNAMEs followed]                                         *)
EXTENDS Integers, Sequences, FiniteSets

CONSTANT MaxChain      \* a chain that needs MaxChain or more CNAME links is refused (16)

MaxTTL == 2147483647   \* "nothing bounds it" (RFC 2181 section 8: the largest TTL); the driver logs larger values as this
Min2(a, b) == IF a < b THEN a ELSE b

(* index of the first RRset in ans with this owner and type, 0 if none *)
Find(ans, name, ty) ==
    LET S == {i \in 1..Len(ans) : ans[i].n = name /\ ans[i].ty = ty}
    IN IF S = {} THEN 0 ELSE CHOOSE i \in S : \A j \in S : i <= j

Parent(name) == Tail(name)
IsRoot(name) == name = <<"">>

(* the SOA of the closest enclosing zone: try the name itself, then each ancestor *)
RECURSIVE ClosestSoa(_, _)
ClosestSoa(auth, name) ==
    LET S == {i \in 1..Len(auth) : auth[i].n = name}
    IN IF S # {} THEN CHOOSE i \in S : \A j \in S : i <= j
       ELSE IF Len(name) <= 1 THEN 0
       ELSE ClosestSoa(auth, Parent(name))

NegativeTtl(m, name, sofar) ==
    LET i == ClosestSoa(m.auth, name)
    IN IF i = 0 THEN sofar ELSE Min2(sofar, Min2(m.auth[i].ttl, m.auth[i].min))

Err(e) == [err |-> e, cname |-> <<>>, answer |-> 0, ttl |-> 0, hops |-> 0]

RECURSIVE Walk(_, _, _, _, _)
Walk(m, name, qtype, count, ttl) ==
    IF count >= MaxChain THEN Err("ChainTooLong")
    ELSE LET a == Find(m.ans, name, qtype)
             c == IF qtype = "CNAME" THEN 0 ELSE Find(m.ans, name, "CNAME")
         IN IF a # 0 THEN
                IF m.rcode = "NXDOMAIN" THEN Err("AnswerForNXDOMAIN")
                ELSE [err |-> "", cname |-> name, answer |-> a, ttl |-> Min2(ttl, m.ans[a].ttl), hops |-> count]
            ELSE IF c # 0 THEN Walk(m, m.ans[c].tgt, qtype, count + 1, Min2(ttl, m.ans[c].ttl))
            ELSE [err |-> "", cname |-> name, answer |-> 0, ttl |-> NegativeTtl(m, name, ttl), hops |-> count]

Resolve(m, qname, qtype) ==
    IF ~m.qr THEN Err("NotQueryResponse")
    ELSE IF m.nq # 1 THEN Err("FormError")
    ELSE Walk(m, qname, qtype, 0, MaxTTL)

---------------------------------------------------------------------------
(* Laws checked by TLC over a universe of responses (MC_Chaining). *)

(* the names on the chain from qname, as far as CNAMEs of the answer section lead, at most k links *)
RECURSIVE Path(_, _, _, _)
Path(m, name, qtype, k) ==
    IF k = 0 \/ qtype = "CNAME" \/ Find(m.ans, name, qtype) # 0 \/ Find(m.ans, name, "CNAME") = 0
    THEN <<name>>
    ELSE <<name>> \o Path(m, m.ans[Find(m.ans, name, "CNAME")].tgt, qtype, k - 1)

LawsFor(m, qname, qtype) ==
    LET r == Resolve(m, qname, qtype)
        p == Path(m, qname, qtype, MaxChain)
    IN /\ r.err \in {"", "NotQueryResponse", "FormError", "ChainTooLong", "AnswerForNXDOMAIN"}
       /\ (r.err = "") =>
            /\ r.hops < MaxChain
            /\ r.hops = Len(p) - 1                       \* followed the whole chain
            /\ r.cname = p[Len(p)]                        \* canonical name = end of the chain
            /\ r.answer # 0 => /\ m.ans[r.answer].n = r.cname
                               /\ m.ans[r.answer].ty = qtype
                               /\ m.rcode # "NXDOMAIN"
            /\ r.answer = 0 => Find(m.ans, r.cname, qtype) = 0
            \* minimum TTL: no larger than any CNAME followed, than the answer, and for a
            \* negative result than the closest SOA's TTL and MINIMUM; and it is one of them
            /\ \A i \in 1..(Len(p) - 1) : r.ttl <= m.ans[Find(m.ans, p[i], "CNAME")].ttl
            /\ r.answer # 0 => r.ttl <= m.ans[r.answer].ttl
            /\ (r.answer = 0 /\ ClosestSoa(m.auth, r.cname) # 0) =>
                   LET s == m.auth[ClosestSoa(m.auth, r.cname)] IN r.ttl <= s.ttl /\ r.ttl <= s.min
            /\ r.ttl \in {MaxTTL} \cup {m.ans[i].ttl : i \in 1..Len(m.ans)}
                          \cup {m.auth[i].ttl : i \in 1..Len(m.auth)} \cup {m.auth[i].min : i \in 1..Len(m.auth)}
       /\ (m.qr /\ m.nq = 1 /\ Len(p) - 1 >= MaxChain) => r.err = "ChainTooLong"
       /\ (r.err = "ChainTooLong") => Len(p) - 1 >= MaxChain
       /\ (r.err = "AnswerForNXDOMAIN") => m.rcode = "NXDOMAIN" /\ Find(m.ans, p[Len(p)], qtype) # 0
=============================================================================
