INIT TraceInit
NEXT TraceNext
CONSTANTS
  MaxLabel = 63
  MaxWire = 255
  Strict = TRUE
CONSTRAINT Accepted
POSTCONDITION Post
CHECK_DEADLOCK FALSE
