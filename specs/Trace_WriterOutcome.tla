------------------------- MODULE Trace_WriterOutcome -------------------------
(* Second, protocol-independent oracle for C12: judges a recorded run only by what the
   PROPERTY says, from the API-level events and the projected state - not by the sequence of
   lock/event operations (that is Trace_WriterAdmission's job).  It is applied to the traces
   Trace_WriterAdmission rejects, so that a departure from the admission protocol is also
   reported by its consequence:

     MutualExclusion     writer() returned while another write transaction was open
     NoDeadlock          the run ended with unfinished threads none of which could move
                         (a lost wake-up shows up here; also "only timeouts keep it going")
     Terminates          step budget exhausted        NoCrash  uncaught exception
     AllAdmitted         some planned transaction never got its writer()/end
     SerialEquivalence   final content # committed transactions applied in admission order
     SerialRead          a transaction did not start from the serial prefix before it
     ReaderSnapshot      a reader saw names a and b disagree (half-applied transaction) or a
                         content that is not a prefix of the serial history
     PinnedRetained      a version pinned by an open reader is not among the retained ones *)
EXTENDS VTrace

VARIABLES t, l, lastwt, order, cnt, ended
ovars == <<lastwt, order, cnt, ended>>

Plan == Log[t].plan
Tag(th, k) == th * 10 + k
IsPrefix(a, b) == Len(a) <= Len(b) /\ \A i \in 1..Len(a) : a[i] = b[i]
Serial(S) == SelectSeq(order, LAMBDA z : z \in S)
WillCommit == {Tag(th, k) : th \in 1..Len(Plan), k \in 1..4} \cap
              {z \in {Tag(th, k) : th \in 1..Len(Plan), k \in 1..4} :
                  LET th == z \div 10  k == z % 10 IN k <= Len(Plan[th]) /\ Plan[th][k] = "commit"}

TraceInit == /\ RegInit /\ t \in 1..NTraces /\ l = 1
             /\ lastwt = 0 /\ order = <<>> /\ cnt = [th \in 1..4 |-> 0] /\ ended = [th \in 1..4 |-> 0]
e == Ev(t)[l]
Adv == l' = l + 1 /\ t' = t
Pinned(st) == Check(t, l, "PinnedRetained", \A q \in ToSetOf(st.rd) : q[2] \in ToSetOf(st.vids))

\* A write transaction is over when the zone says so (the projected owner of _write_txn at the
\* last lock operation), not when commit() has returned to its caller; the content a new
\* transaction starts from is the serial application of the earlier-admitted transactions
\* that were planned to commit (they are all over, by mutual exclusion).
OReturned == /\ e.op = "returned"
             /\ Check(t, l, "MutualExclusion", lastwt = e.t)
             /\ Check(t, l, "SerialRead", e.snap = Serial(WillCommit) /\ e.snapb = Serial(WillCommit))
             /\ cnt' = [cnt EXCEPT ![e.t] = @ + 1]
             /\ order' = Append(order, Tag(e.t, cnt[e.t] + 1))
             /\ UNCHANGED <<lastwt, ended>> /\ Adv
OEnded == /\ e.op = "ended"
          /\ ended' = [ended EXCEPT ![e.t] = @ + 1]
          /\ UNCHANGED <<lastwt, order, cnt>> /\ Adv
\* a reader may already see the transaction that is committing right now (its "ended" event
\* comes after the lock is released): any prefix of the serial history of the transactions
\* that are planned to commit is acceptable, a torn or reordered content is not
OReader == /\ e.op \in {"ropen", "rread"}
           /\ Check(t, l, "ReaderSnapshot", e.c = e.cb /\ IsPrefix(e.c, Serial(WillCommit)))
           /\ UNCHANGED ovars /\ Adv
OState == /\ e.op \in {"acquire", "release"} /\ Pinned(e.st) /\ lastwt' = e.st.wt
          /\ UNCHANGED <<order, cnt, ended>> /\ Adv
OFinal == /\ e.op = "final" /\ Pinned(e.st)
          /\ Check(t, l, "AllAdmitted", \A th \in 1..Len(Plan) : cnt[th] = Len(Plan[th]) /\ ended[th] = Len(Plan[th]))
          /\ Check(t, l, "SerialEquivalence", e.st.pub = Serial(WillCommit) /\ e.st.pubb = Serial(WillCommit)
                                              /\ e.st.lastc = Serial(WillCommit))
          /\ UNCHANGED ovars /\ Adv
OBad == \/ e.op = "deadlock" /\ Check(t, l, "NoDeadlock", FALSE) /\ UNCHANGED ovars /\ Adv
        \/ e.op = "budget" /\ Check(t, l, "Terminates", FALSE) /\ UNCHANGED ovars /\ Adv
        \/ e.op = "crash" /\ Check(t, l, "NoCrash:" \o e.exc, FALSE) /\ UNCHANGED ovars /\ Adv
        \/ e.op = "driver_crash" /\ Check(t, l, "DriverCrash", FALSE) /\ UNCHANGED ovars /\ Adv
Judged == {"returned", "ended", "ropen", "rread", "acquire", "release", "final", "deadlock", "budget", "crash", "driver_crash"}
OOther == e.op \notin Judged /\ UNCHANGED ovars /\ Adv

TraceNext == l <= Len(Ev(t)) /\ (OReturned \/ OEnded \/ OReader \/ OState \/ OFinal \/ OBad \/ OOther)
Accepted == Accepting(t, l)
=============================================================================
