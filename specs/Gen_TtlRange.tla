---------------------------- MODULE Gen_TtlRange ----------------------------
(* Emits one of the universes of TtlRangeUniverse (chosen by Kind), one element per
   line.  For these pure functions a behaviour is one input (for serial numbers: one row
   <<bits, a>>, which the driver pairs with every b / every amount of that width, and the
   trace specification demands the row to be complete). *)
EXTENDS TtlRangeUniverse, TLC, Json

CONSTANT Kind
VARIABLE x

Universe == CASE Kind = "ttl1" -> Ttl1
              [] Kind = "ttl2" -> Ttl2
              [] Kind = "ttl3" -> Ttl3
              [] Kind = "ttle" -> TtlEdge
              [] Kind = "make" -> Ttl1
              [] Kind = "via1" -> OneToken(Ttl1)
              [] Kind = "via2" -> OneToken(Ttl2)
              [] Kind = "via3" -> OneToken(ViaTtl3)
              [] Kind = "viae" -> OneToken(TtlEdge)
              [] Kind = "srow" -> SRows
              [] Kind = "s32cmp" -> S32Pairs
              [] Kind = "s32add" -> S32Vals \X S32Amounts

GInit == IF Kind = "range" THEN InRangeShort(x)
         ELSE IF Kind = "rangemid" THEN InRangeMid(x)
         ELSE IF Kind = "rangelong" THEN InRangeLong(x)
         ELSE x \in Universe
GNext == FALSE /\ x' = x
Emit == PrintT("BEH " \o ToJson(<<x>>))
=============================================================================
