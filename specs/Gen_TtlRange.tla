---------------------------- MODULE Gen_TtlRange ----------------------------
(* Emits one of the universes of TtlRangeUniverse (chosen by Kind), one element per
   line.  For these pure functions a behaviour is one input (for serial numbers: one row
   <<bits, a>>, which the driver pairs with every b / every amount of that width, and the
   trace specification demands the row to be complete). *)
EXTENDS TtlRangeUniverse, TLC, Json

CONSTANT Kind
VARIABLE x

Universe == CASE Kind = "ttl" -> TtlTexts
              [] Kind = "make" -> Ttl1
              [] Kind = "via" -> TtlViaTexts
              [] Kind = "range" -> RangeTexts
              [] Kind = "srow" -> SRows
              [] Kind = "s32cmp" -> S32Pairs
              [] Kind = "s32add" -> S32Vals \X S32Amounts

GInit == x \in Universe
GNext == FALSE /\ x' = x
Emit == PrintT("BEH " \o ToJson(<<x>>))
=============================================================================
