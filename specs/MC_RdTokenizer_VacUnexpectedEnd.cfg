SPECIFICATION Spec
CONSTANTS
  Alphabet = {32, 10, 34, 40, 41, 59, 92, 97}
  MaxLen = 4
INVARIANT VacUnexpectedEnd
CHECK_DEADLOCK FALSE
