--------------------------- MODULE Gen_SetAlgebra ---------------------------
(* SetAlgebra plus a history variable.  A behaviour is a script of calls: only the
   caller's choices are recorded (which call, which spelling of it, which handles and
   arguments).  What the call must do is NOT emitted; Trace_SetAlgebra is the oracle.
   Where the specification leaves the outcome open (TTL of an empty result, whether an
   immutable receiver lets a no-op pass, whether a copy of an immutable set is
   immutable, which element pop removes) the generator follows one representative. *)
EXTENDS SetAlgebra, SetAlgebraU, Json

CONSTANTS MaxLen,      \* number of calls in a script
          GenIn,       \* in-place calls a script may contain
          GenCopy,     \* copying calls a script may contain
          GenFreeze,   \* BOOLEAN: may a script freeze a handle
          GenRegister, \* BOOLEAN: may a script register a type of DynTypes
          Spellings,   \* subset of {"method", "op", "op2", "list"}
          GenHandles,  \* handles calls are made on (receivers / results)
          GenSources,  \* receivers of copying calls
          GenTtlArgs,  \* ttl arguments of add
          Thin         \* emit one script in Thin (1 = all); see Emit
VARIABLE hist
gvars == <<vars, hist>>

MinOf(S) == CHOOSE x \in S : \A y \in S : x <= y
Sp(op, inplace) ==
    (CASE op = "union" -> {"method", "op", "op2"}                     \* union_update |= +=   /  union | +
       [] op \in {"inter", "diff", "sym"} -> {"method", "op"}        \* x_update &= -= ^=    /  x & - ^
       [] op = "update" -> {"method", "list"}                        \* update(set) / update(list(set))
       [] op = "copy" -> {"method", "op"}                            \* copy() / copy.copy()
       [] OTHER -> {"method"}) \cap Spellings

GArgs(op, h) ==
    IF op \in {"add", "build"} THEN {a \in ArgSet(op, h) : a.ttl \in GenTtlArgs \cup {NoTtl}}
    ELSE IF op = "delslice" THEN {a \in ArgSet(op, h) : a.lo <= a.hi}
    ELSE IF op = "pop" THEN {[DefArg(h) EXCEPT !.k = Len(hs[h].items)]}
    ELSE ArgSet(op, h)

Ev(op, inplace, h, r, a, sp) ==
    [op |-> op, inplace |-> inplace, h |-> h, r |-> r, a |-> a, sp |-> sp]

GInit == Init /\ hist = <<[op |-> "init", init |-> hs, items |-> Items]>>

GDo == \E op \in GenIn, h \in GenHandles : \E a \in GArgs(op, h), sp \in Sp(op, TRUE) :
    /\ (sp = "list" => ~IsTyped(hs[h]))
    /\ \E quiet \in (IF hs[h].frozen THEN BOOLEAN ELSE {FALSE}) :
         Do(op, h, a, MinOf(Ttls(op, hs[h], hs[a.o], a)), quiet)
    /\ hist' = Append(hist, Ev(op, TRUE, h, h, a, sp))

GMake == \E op \in GenCopy, r \in GenHandles, s \in GenSources : \E a \in GArgs(op, s), sp \in Sp(op, FALSE) :
    /\ Make(op, r, s, a, MinOf(Ttls(op, hs[s], hs[a.o], a)), hs[s].frozen)
    /\ hist' = Append(hist, Ev(op, FALSE, s, r, a, sp))

GFreeze == \E h \in GenHandles :
    /\ GenFreeze /\ ~hs[h].frozen /\ Freeze(h)
    /\ hist' = Append(hist, Ev("freeze", TRUE, h, h, DefArg(h), "method"))

(* a.k carries is_singleton *)
GRegister == \E ty \in DynTypes, single \in BOOLEAN :
    /\ GenRegister /\ Register(ty, single)
    /\ hist' = Append(hist, Ev("register", TRUE, 1, 1, [DefArg(1) EXCEPT !.k = IF single THEN 1 ELSE 0], "method"))

GNext == Len(hist) <= MaxLen /\ (GDo \/ GMake \/ GFreeze \/ GRegister)

(* In -simulate mode TLC evaluates the invariant on EVERY successor of the state it is
   leaving, so each random walk would emit all its possible last calls (hundreds).  A
   deterministic checksum of the caller's choices thins them: many walks, few endings each. *)
RECURSIVE Sum(_, _)
Sum(hh, k) ==
    IF k > Len(hh) THEN 0
    ELSE LET c == hh[k] IN
         (k * (c.h * 7 + c.r * 3 + c.a.o * 5 + c.a.k + c.a.lo + c.a.hi * 2 + ((c.a.ttl + 1) % 7) + c.a.i[4] * 11 + c.a.i[5] * 13
               + (IF c.inplace THEN 1 ELSE 0))) + Sum(hh, k + 1)
Emit == (Len(hist) = MaxLen + 1 /\ (Thin = 1 \/ Sum(hist, 2) % Thin = 0)) => PrintT("BEH " \o ToJson(hist))
=============================================================================
