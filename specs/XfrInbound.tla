------------------------------ MODULE XfrInbound ------------------------------
(* Inbound zone transfer (dns.xfr.Inbound driven as dns.query._inbound_xfr drives it),
   property C13: an inbound AXFR/IXFR converges to the server's zone or leaves the zone
   untouched.

   ENVIRONMENT (server + network).  A chain of zone versions v1..vL with RFC 1982
   serials; from it a response record stream is built (RFC 5936 AXFR; RFC 1995 IXFR as one
   or several difference sequences, possibly condensed; AXFR-style answer to an IXFR
   request; single-SOA "up to date" / "server is behind" answers; UDP IXFR complete or
   SOA-only = "use TCP"); at most one fault is applied; the stream is cut into messages.
   All of that is one record, `script`, fixed in the initial state.

   CLIENT.  The transfer state machine, one action per resource record of the current
   message (FirstSoa, FinalSoa, DeleteStartSoa, AddStartSoa, UnexpectedSoa, FallbackToAxfr,
   Apply, AfterDone) plus BeginMessage / EndOfMessage / Eof / Exit.  It is the INTENDED
   machine: a final SOA that is not the last record of its message is refused BEFORE
   anything is committed.

   REFERENCE.  Ref(script): declarative reading of RFC 5936 / RFC 1995 over the whole
   delivered stream (positions of the apex SOAs, serial chain, difference sequences):
   either Reject or the zone the client must end up with.

   Records are tuples <<owner, type, ttl, rdata>>; owner "@" is the apex; the rdata of an
   SOA is its serial as two 16-bit limbs <<hi, lo>> (TLC integers are 32-bit), of any
   other type <<k>>.  A zone content is a set of records (the apex SOA included) in which
   all records of one RRset carry the same TTL. *)
EXTENDS Integers, Sequences, FiniteSets, TLC

CONSTANTS Contents,     \* set of zone contents beside the SOA (sets of records), each with an apex NS
          SerialSeqs,   \* set of sequences of serials, every i < j ordered s[i] < s[j] in RFC 1982
          MaxSteps,     \* a chain has 1..MaxSteps+1 versions
          Kinds,        \* which kinds of exchange the environment may choose (see Exchanges)
          FaultKinds,   \* subset of {"none","drop","dup","swap","trunc","serial","owner","type","surplus","rcode","question"}
          MaxCuts,      \* at most this many cut points (99: every cut); "one record per message" is always included
          QModes,       \* subset of {"all","first"}: which messages repeat the question
          Revs          \* subset of BOOLEAN: emit the records of a section in reverse order

VARIABLES script,  \* the environment's choices (constant during a behaviour)
          mi,      \* index of the current / next message
          ri,      \* index of the next record of the current message
          phase,   \* "idle" (between messages) | "msg" (inside message mi) | "exited"
          c        \* the client: record of incremental, expectingSoa, deleteMode, done, serial,
                   \*   first, txnOpen, working, zone, err, why, pending
vars == <<script, mi, ri, phase, c>>

---------------------------------------------------------------------------
(* RFC 1982 serial arithmetic on two 16-bit limbs *)
SerialSub(b, a) ==      \* (b - a) mod 2^32
    LET lo == b[2] - a[2]
        hi == b[1] - a[1] - (IF lo < 0 THEN 1 ELSE 0)
    IN <<(hi + 65536) % 65536, (lo + 65536) % 65536>>
SerialLT(a, b) ==       \* a < b: 0 < (b - a) mod 2^32 < 2^31   (a difference of exactly 2^31 is unordered)
    LET d == SerialSub(b, a) IN d # <<0, 0>> /\ d[1] < 32768
SerialInc(a) == IF a[2] = 65535 THEN <<(a[1] + 1) % 65536, 0>> ELSE <<a[1], a[2] + 1>>

---------------------------------------------------------------------------
(* Records and zone contents *)
IsSoa(r) == r[2] = "SOA"
IsApexSoa(r) == r[2] = "SOA" /\ r[1] = "@"
SoaRec(ser) == <<"@", "SOA", 300, ser>>
SoaOf(z) == CHOOSE r \in z : IsApexSoa(r)
HasSoa(z) == \E r \in z : IsApexSoa(r)
MinOf(S) == CHOOSE x \in S : \A y \in S : x <= y

(* add one record: RRset union, the RRset takes the lowest TTL (RFC 2181 5.2); SOA is a singleton *)
CanAdd(r) == ~(IsSoa(r) /\ r[1] # "@")
AddRec(z, r) ==
    LET same == {x \in z : x[1] = r[1] /\ x[2] = r[2]}
        ttl == MinOf({r[3]} \cup {x[3] : x \in same})
    IN IF IsSoa(r) THEN (z \ same) \cup {r}
       ELSE (z \ same) \cup {<<x[1], x[2], ttl, x[4]>> : x \in same \cup {r}}
(* delete exactly one record (the TTL of the deletion is not significant) *)
Matches(z, r) == {x \in z : x[1] = r[1] /\ x[2] = r[2] /\ x[4] = r[4]}
CanDel(z, r) == Matches(z, r) # {}
DelRec(z, r) == z \ Matches(z, r)

RECURSIVE AddAll(_, _)
AddAll(z, s) == IF s = <<>> THEN z ELSE AddAll(AddRec(z, Head(s)), Tail(s))
RECURSIVE DelAll(_, _)      \* [ok, z]
DelAll(z, s) == IF s = <<>> THEN [ok |-> TRUE, z |-> z]
                ELSE IF ~CanDel(z, Head(s)) THEN [ok |-> FALSE, z |-> z]
                ELSE DelAll(DelRec(z, Head(s)), Tail(s))

---------------------------------------------------------------------------
(* REFERENCE: what the zone must be after the delivered stream, or Reject *)
BadMsg(m) == m.rcode # 0 \/ m.q \in {"wrongname", "wrongtype"}
Delivered(s) == IF s.udp /\ Len(s.msgs) > 1 THEN <<s.msgs[1]>> ELSE s.msgs   \* UDP: one datagram
RECURSIVE FlatFrom(_, _)
FlatFrom(ms, i) ==
    IF i > Len(ms) THEN <<>>
    ELSE [j \in 1..Len(ms[i].rrs) |-> [r |-> ms[i].rrs[j], m |-> i, last |-> (j = Len(ms[i].rrs))]]
         \o FlatFrom(ms, i + 1)
RECURSIVE SortedSeq(_)
SortedSeq(S) == IF S = {} THEN <<>> ELSE LET x == MinOf(S) IN <<x>> \o SortedSeq(S \ {x})

Ref(s) ==
    LET ms == Delivered(s)
        f == FlatFrom(ms, 1)
        n == Len(f)
        Rej(w) == [ok |-> FALSE, why |-> w, zone |-> s.zone0]
        Acc(z) == [ok |-> TRUE, why |-> "", zone |-> z]
        MsgsOk(m) == \A i \in 1..m : ~BadMsg(ms[i])
        Recs(a, b) == [i \in 1..(b - a + 1) |-> f[a + i - 1].r]      \* f[a..b] as records
    IN
    IF Len(ms) = 0 THEN Rej("early")
    ELSE IF BadMsg(ms[1]) THEN Rej("badmsg")
    ELSE IF Len(ms[1].rrs) = 0 \/ ~IsApexSoa(f[1].r) THEN Rej("malformed")
    ELSE
    LET T == f[1].r[4]
        ixfr == s.req = "ixfr"
        (* RFC 5936: SOA, records, the same SOA again; nothing after it in that message *)
        AxfrStyle ==
            LET ends == {j \in 2..n : IsApexSoa(f[j].r)} IN
            IF ends = {} THEN Rej("early")
            ELSE LET j == MinOf(ends) IN
                 IF f[j].r[4] # T THEN Rej("malformed")
                 ELSE IF \E i \in 2..(j - 1) : ~CanAdd(f[i].r) THEN Rej("malformed")
                 ELSE IF ~f[j].last THEN Rej("surplus")
                 ELSE IF ~MsgsOk(f[j].m) THEN Rej("badmsg")
                 ELSE Acc(AddRec(AddAll({}, Recs(2, j - 1)), f[j].r))
        (* RFC 1995: SOA(T) { SOA(from) deletions SOA(to) additions }+ SOA(T) *)
        IxfrStyle ==
            LET P == SortedSeq({j \in 2..n : IsApexSoa(f[j].r)})
                K == {k \in 3..Len(P) : k % 2 = 1 /\ f[P[k]].r[4] = T}
            IN IF K = {} THEN Rej("early")
               ELSE
               LET kf == MinOf(K)
                   h == (kf - 1) \div 2
                   From(i) == f[P[2 * i - 1]].r[4]
                   To(i) == f[P[2 * i]].r[4]
                   chainOk == /\ \A i \in 1..h : From(i) = (IF i = 1 THEN s.base ELSE To(i - 1))
                              /\ To(h) = T
                   Dels(i) == Recs(P[2 * i - 1] + 1, P[2 * i] - 1)
                   Adds(i) == Recs(P[2 * i] + 1, P[2 * i + 1] - 1)
                   RECURSIVE Seqs(_, _)
                   Seqs(z, i) ==
                       IF i > h THEN [ok |-> TRUE, z |-> z]
                       ELSE LET d == DelAll(z, Dels(i)) IN
                            IF ~d.ok \/ (\E j \in 1..Len(Adds(i)) : ~CanAdd(Adds(i)[j]))
                            THEN [ok |-> FALSE, z |-> z]
                            ELSE Seqs(AddAll(d.z, Adds(i)), i + 1)
                   res == Seqs({r \in s.zone0 : ~IsApexSoa(r)}, 1)
               IN IF ~chainOk THEN Rej("serial")
                  ELSE IF ~res.ok THEN Rej("notexact")
                  ELSE IF ~f[P[kf]].last THEN Rej("surplus")
                  ELSE IF ~MsgsOk(f[P[kf]].m) THEN Rej("badmsg")
                  ELSE Acc(AddRec(res.z, f[P[kf]].r))
    IN
    IF ixfr /\ T = s.base THEN (IF Len(ms[1].rrs) = 1 THEN Acc(s.zone0) ELSE Rej("surplus"))
    ELSE IF ixfr /\ SerialLT(T, s.base) THEN Rej("backwards")
    ELSE IF ixfr /\ s.udp /\ Len(ms[1].rrs) = 1 THEN Rej("usetcp")
    ELSE IF ixfr /\ n >= 2 /\ IsApexSoa(f[2].r) THEN IxfrStyle
    ELSE AxfrStyle

---------------------------------------------------------------------------
(* CLIENT *)
ClientInit(s) ==
    [incremental |-> (s.req = "ixfr"), expectingSoa |-> FALSE, deleteMode |-> FALSE, done |-> FALSE,
     serial |-> s.base, first |-> <<>>, txnOpen |-> FALSE, working |-> {}, zone |-> s.zone0,
     err |-> FALSE, why |-> "", pending |-> {}]

Msg == script.msgs[mi]
Rec == Msg.rrs[ri]
Raise(w) == c' = [c EXCEPT !.err = TRUE, !.why = w]

(* a message arrives: the write transaction is opened if there is none (a replacement
   transaction unless incremental); rcode and question are checked first *)
BeginMessage ==
    /\ phase = "idle" /\ ~c.err /\ ~c.done /\ mi <= Len(script.msgs)
    /\ phase' = "msg" /\ ri' = 1
    /\ LET o == IF c.txnOpen THEN c
                ELSE [c EXCEPT !.txnOpen = TRUE, !.working = IF c.incremental THEN c.zone ELSE {}]
       IN c' = IF Msg.rcode # 0 THEN [o EXCEPT !.err = TRUE, !.why = "rcode"]
               ELSE IF Msg.q \in {"wrongname", "wrongtype"} THEN [o EXCEPT !.err = TRUE, !.why = "question"]
               ELSE o
    /\ UNCHANGED <<script, mi>>

InMsg == phase = "msg" /\ ~c.err
(* the first record of the whole transfer must be the apex SOA of the server's version *)
FirstSoa ==
    /\ InMsg /\ c.first = <<>>
    /\ IF Len(Msg.rrs) = 0 THEN Raise("malformed") /\ UNCHANGED ri
       ELSE IF ~IsApexSoa(Rec) THEN Raise("malformed") /\ UNCHANGED ri
       ELSE /\ ri' = 2
            /\ LET o == [c EXCEPT !.first = Rec] IN
               IF ~c.incremental THEN c' = o
               ELSE IF Rec[4] = c.serial THEN c' = [o EXCEPT !.done = TRUE]            \* up to date
               ELSE IF SerialLT(Rec[4], c.serial) THEN Raise("backwards")
               ELSE IF script.udp /\ Len(Msg.rrs) = 1 THEN Raise("usetcp")
               ELSE c' = [o EXCEPT !.expectingSoa = TRUE]
    /\ UNCHANGED <<script, mi, phase>>

HaveRec == InMsg /\ c.first # <<>> /\ ri <= Len(Msg.rrs)
Step == ri' = ri + 1 /\ UNCHANGED <<script, mi, phase>>
NextDeleteMode == IF c.incremental THEN ~c.deleteMode ELSE c.deleteMode
IsFinal(r) == r[4] = c.first[4] /\ (~c.incremental \/ NextDeleteMode)

(* anything after the end of the transfer in the same message *)
AfterDone == HaveRec /\ c.done /\ Raise("surplus") /\ Step

(* the SOA that ends the transfer: commit, unless records follow in this message *)
FinalSoa ==
    /\ HaveRec /\ ~c.done /\ IsApexSoa(Rec) /\ IsFinal(Rec)
    /\ IF c.expectingSoa THEN Raise("malformed")                       \* SOA(T) SOA(T): empty IXFR
       ELSE IF c.incremental /\ c.serial # Rec[4] THEN Raise("serial")   \* chain did not reach T
       ELSE IF ri < Len(Msg.rrs)                                         \* refused BEFORE committing; `pending` only
       THEN c' = [c EXCEPT !.err = TRUE, !.why = "surplus",              \* remembers what was about to be committed
                           !.pending = AddRec(c.working, Rec)]
       ELSE LET w == AddRec(c.working, Rec) IN
            c' = [c EXCEPT !.deleteMode = NextDeleteMode, !.working = w, !.zone = w, !.txnOpen = FALSE, !.done = TRUE]
    /\ Step
(* an apex SOA that starts a deletion section: must carry the serial we are at *)
DeleteStartSoa ==
    /\ HaveRec /\ ~c.done /\ IsApexSoa(Rec) /\ ~IsFinal(Rec) /\ c.incremental /\ NextDeleteMode
    /\ IF Rec[4] # c.serial THEN Raise("serial")
       ELSE c' = [c EXCEPT !.deleteMode = TRUE, !.expectingSoa = FALSE]
    /\ Step
(* an apex SOA that starts an addition section: we move to its serial *)
AddStartSoa ==
    /\ HaveRec /\ ~c.done /\ IsApexSoa(Rec) /\ ~IsFinal(Rec) /\ c.incremental /\ ~NextDeleteMode
    /\ c' = [c EXCEPT !.deleteMode = FALSE, !.expectingSoa = FALSE, !.serial = Rec[4], !.working = AddRec(c.working, Rec)]
    /\ Step
(* a different apex SOA inside an AXFR *)
UnexpectedSoa ==
    /\ HaveRec /\ ~c.done /\ IsApexSoa(Rec) /\ ~IsFinal(Rec) /\ ~c.incremental
    /\ Raise("malformed") /\ Step
(* IXFR request, second record is not an SOA: the answer is AXFR-style; restart as a replacement *)
FallbackToAxfr ==
    /\ HaveRec /\ ~c.done /\ ~IsApexSoa(Rec) /\ c.expectingSoa
    /\ IF ~CanAdd(Rec) THEN Raise("malformed")
       ELSE c' = [c EXCEPT !.incremental = FALSE, !.expectingSoa = FALSE, !.deleteMode = FALSE,
                           !.working = AddRec({}, Rec)]
    /\ Step
Apply ==
    /\ HaveRec /\ ~c.done /\ ~IsApexSoa(Rec) /\ ~c.expectingSoa
    /\ IF c.deleteMode
       THEN IF CanDel(c.working, Rec) THEN c' = [c EXCEPT !.working = DelRec(c.working, Rec)] ELSE Raise("notexact")
       ELSE IF CanAdd(Rec) THEN c' = [c EXCEPT !.working = AddRec(c.working, Rec)] ELSE Raise("malformed")
    /\ Step

(* the message is exhausted (or was refused); a UDP IXFR must be complete in one datagram *)
EndOfMessage ==
    /\ phase = "msg" /\ (c.err \/ (c.first # <<>> /\ ri > Len(Msg.rrs)))
    /\ IF ~c.err /\ script.udp /\ ~c.done THEN Raise("early") ELSE UNCHANGED c
    /\ phase' = "idle" /\ mi' = mi + 1
    /\ UNCHANGED <<script, ri>>
(* the connection ends before the transfer is complete *)
Eof ==
    /\ phase = "idle" /\ ~c.err /\ ~c.done /\ mi > Len(script.msgs)
    /\ Raise("early")
    /\ UNCHANGED <<script, mi, ri, phase>>
(* leaving the context (the `with Inbound` block): whatever transaction is still open is rolled back, HOWEVER the
   caller leaves -- "propagate": an exception (raised by the transfer, or the caller's own end-of-stream error)
   travels out of the block; "caught": the caller handled the transfer's exception inside the block and then leaves
   normally; "clean": the caller leaves normally, either after the transfer completed or because it has no more
   messages although the transfer is not done; "library": dns.query / dns.asyncquery inbound_xfr did the leaving.
   An unfinished transfer is never applied. *)
Leaves == {"propagate", "caught", "clean", "library"}
Exit(how) ==
    /\ phase = "idle" /\ (c.err \/ c.done)
    /\ how \in {"propagate", "caught"} => c.err
    /\ c' = [c EXCEPT !.txnOpen = FALSE]
    /\ phase' = "exited"
    /\ UNCHANGED <<script, mi, ri>>

RecordStep == FirstSoa \/ AfterDone \/ FinalSoa \/ DeleteStartSoa \/ AddStartSoa \/ UnexpectedSoa
              \/ FallbackToAxfr \/ Apply
Next == BeginMessage \/ RecordStep \/ EndOfMessage \/ Eof \/ (\E how \in Leaves : Exit(how))

---------------------------------------------------------------------------
(* ENVIRONMENT: building the scripts *)
RECURSIVE SeqOfSet(_)
SeqOfSet(S) == IF S = {} THEN <<>> ELSE LET x == CHOOSE x \in S : TRUE IN <<x>> \o SeqOfSet(S \ {x})
Reverse(s) == [i \in 1..Len(s) |-> s[Len(s) + 1 - i]]
Section(S, rev) == IF rev THEN Reverse(SeqOfSet(S)) ELSE SeqOfSet(S)
RECURSIVE Concat(_)
Concat(ss) == IF ss = <<>> THEN <<>> ELSE Head(ss) \o Concat(Tail(ss))

ZoneOf(v) == v.recs \cup {SoaRec(v.ser)}
AxfrStream(v, rev) == <<SoaRec(v.ser)>> \o Section(v.recs, rev) \o <<SoaRec(v.ser)>>
Diff(a, b, rev) == <<SoaRec(a.ser)>> \o Section(a.recs \ b.recs, rev) \o <<SoaRec(b.ser)>> \o Section(b.recs \ a.recs, rev)
(* pts: ascending sequence of version indices, first = the client's version, last = the target *)
IxfrStream(V, pts, rev) ==
    LET T == V[pts[Len(pts)]] IN
    <<SoaRec(T.ser)>> \o Concat([i \in 1..(Len(pts) - 1) |-> Diff(V[pts[i]], V[pts[i + 1]], rev)]) \o <<SoaRec(T.ser)>>

(* the exchanges a correct server can produce for a chain V of L versions:
   [kind, req, udp, k (client's version), stream, target version index] *)
Exchanges(V, rev) ==
    LET L == Len(V) IN
    {[kind |-> "axfr", req |-> "axfr", udp |-> FALSE, k |-> k, stream |-> AxfrStream(V[L], rev), tgt |-> L]
        : k \in {1, L}}
    \cup UNION {{[kind |-> "ixfr", req |-> "ixfr", udp |-> u, k |-> k,
                   stream |-> IxfrStream(V, SortedSeq({k, L} \cup mid), rev), tgt |-> L]
                    : u \in BOOLEAN, mid \in SUBSET ((k + 1)..(L - 1))} : k \in 1..(L - 1)}
    \cup {[kind |-> "axfrstyle", req |-> "ixfr", udp |-> u, k |-> k, stream |-> AxfrStream(V[L], rev), tgt |-> L]
            : u \in BOOLEAN, k \in 1..(L - 1)}
    \cup {[kind |-> "uptodate", req |-> "ixfr", udp |-> u, k |-> L, stream |-> <<SoaRec(V[L].ser)>>, tgt |-> L]
            : u \in BOOLEAN}
    \cup {[kind |-> "behind", req |-> "ixfr", udp |-> u, k |-> L, stream |-> <<SoaRec(V[j].ser)>>, tgt |-> L]
            : u \in BOOLEAN, j \in 1..(L - 1)}
    \cup {[kind |-> "usetcp", req |-> "ixfr", udp |-> TRUE, k |-> k, stream |-> <<SoaRec(V[L].ser)>>, tgt |-> L]
            : k \in 1..(L - 1)}

NoFault == [k |-> "none", i |-> 0, s |-> <<0, 0>>]
OtherOwner(n) == IF n = "@" THEN "a" ELSE "@"
OtherType(ty) == IF ty = "TXT" THEN "A" ELSE "TXT"
Surplus == <<"a", "A", 300, <<9>>>>
AltSerials(sers) == {sers[j] : j \in DOMAIN sers} \cup {SerialInc(sers[Len(sers)])}
StreamFaults(st, sers) ==
    LET n == Len(st) IN
    {NoFault}
    \cup {[k |-> kk, i |-> i, s |-> <<0, 0>>] : kk \in {"drop", "dup", "owner", "type"}, i \in 1..n}
    \cup {[k |-> "swap", i |-> i, s |-> <<0, 0>>] : i \in 1..(n - 1)}
    \cup {[k |-> "trunc", i |-> i, s |-> <<0, 0>>] : i \in 0..(n - 1)}
    \cup {[k |-> "serial", i |-> i, s |-> x] : i \in {i \in 1..n : IsApexSoa(st[i])}, x \in AltSerials(sers)}
    \cup {[k |-> "surplus", i |-> 0, s |-> <<0, 0>>]}
Remove(st, i) == [j \in 1..(Len(st) - 1) |-> IF j < i THEN st[j] ELSE st[j + 1]]
ApplyFault(st, f) ==
    CASE f.k = "drop" -> Remove(st, f.i)
      [] f.k = "dup" -> SubSeq(st, 1, f.i) \o SubSeq(st, f.i, Len(st))
      [] f.k = "swap" -> [st EXCEPT ![f.i] = st[f.i + 1], ![f.i + 1] = st[f.i]]
      [] f.k = "trunc" -> SubSeq(st, 1, f.i)
      [] f.k = "serial" -> [st EXCEPT ![f.i] = <<@[1], @[2], @[3], f.s>>]
      [] f.k = "owner" -> [st EXCEPT ![f.i] = <<OtherOwner(@[1]), @[2], @[3], @[4]>>]
      [] f.k = "type" -> [st EXCEPT ![f.i] = IF IsSoa(@) THEN <<@[1], "TXT", @[3], <<9>>>> ELSE <<@[1], OtherType(@[2]), @[3], @[4]>>]
      [] f.k = "surplus" -> Append(st, Surplus)
      [] OTHER -> st

RECURSIVE KSubsets(_, _)
KSubsets(S, k) == IF k = 0 THEN {{}} ELSE LET P == KSubsets(S, k - 1) IN P \cup {p \cup {x} : p \in P, x \in S}
CutSets(n, k) == IF n <= 1 THEN {{}}
                 ELSE (IF k >= n - 1 THEN SUBSET (1..(n - 1)) ELSE KSubsets(1..(n - 1), k)) \cup {1..(n - 1)}
RECURSIVE Split(_, _, _)
Split(st, C, from) ==
    IF from > Len(st) THEN <<>>
    ELSE LET e == MinOf({x \in C : x >= from} \cup {Len(st)}) IN <<SubSeq(st, from, e)>> \o Split(st, C, e + 1)
Messages(st, C, qmode) ==
    LET parts == Split(st, C, 1) IN
    [i \in 1..Len(parts) |-> [rcode |-> 0, q |-> IF i = 1 \/ qmode = "all" THEN "ok" ELSE "none", rrs |-> parts[i]]]

Chains == UNION {[1..L -> Contents] : L \in 1..(MaxSteps + 1)}

MkScript(x, z0, base, msgs, f, target) ==
    [req |-> x.req, udp |-> x.udp, base |-> base, zone0 |-> z0, msgs |-> msgs,
     kind |-> x.kind, fault |-> f, target |-> target]

(* every script of the universe *)
ScriptInit ==
    \E ss \in SerialSeqs, ch \in Chains, rev \in Revs, qm \in QModes :
      LET V == [i \in 1..Len(ch) |-> [ser |-> ss[i], recs |-> ch[i]]] IN
      \E x \in Exchanges(V, rev) :
        /\ x.kind \in Kinds
        /\ LET z0 == ZoneOf(V[x.k])
               base == IF x.req = "ixfr" THEN V[x.k].ser ELSE <<>>
               target == ZoneOf(V[x.tgt])
           IN
           \E f \in StreamFaults(x.stream, ss) :
             /\ f.k \in FaultKinds
             /\ (f.k = "serial" => f.s # x.stream[f.i][4])
             /\ LET st == ApplyFault(x.stream, f) IN
                \E C \in (IF x.udp THEN {{}} ELSE CutSets(Len(st), MaxCuts)) :
                  LET msgs == Messages(st, C, qm) IN
                  \/ script = MkScript(x, z0, base, msgs, f, target)
                  \/ /\ f.k = "none" /\ "rcode" \in FaultKinds
                     /\ \E m \in 1..Len(msgs), rc \in {2, 5, 9} :
                          script = MkScript(x, z0, base, [msgs EXCEPT ![m].rcode = rc],
                                            [k |-> "rcode", i |-> m, s |-> <<0, rc>>], target)
                  \/ /\ f.k = "none" /\ "rcode" \in FaultKinds        \* a refusal normally carries no answer
                     /\ \E rc \in {5} :
                          script = MkScript(x, z0, base, <<[rcode |-> rc, q |-> "ok", rrs |-> <<>>]>>,
                                            [k |-> "rcode", i |-> 0, s |-> <<0, rc>>], target)
                  \/ /\ f.k = "none" /\ "question" \in FaultKinds
                     /\ \E m \in 1..Len(msgs), w \in {"wrongname", "wrongtype"} :
                          script = MkScript(x, z0, base, [msgs EXCEPT ![m].q = w],
                                            [k |-> "question", i |-> m, s |-> <<0, 0>>], target)

Init == /\ ScriptInit
        /\ mi = 1 /\ ri = 1 /\ phase = "idle"
        /\ c = ClientInit(script)

Spec == Init /\ [][Next]_vars

---------------------------------------------------------------------------
(* PROPERTIES *)
Unfaulted == script.fault.k = "none"
Converging == script.kind \in {"axfr", "ixfr", "axfrstyle", "uptodate"}

TypeOK == /\ phase \in {"idle", "msg", "exited"}
          /\ c.txnOpen \in BOOLEAN /\ c.err \in BOOLEAN /\ c.done \in BOOLEAN
(* (i) an error leaves the zone exactly as it was -- at every moment, not only at exit *)
ErrorLeavesZone == c.err => c.zone = script.zone0
(* no transaction is left open, whatever happened *)
NoTxnLeftOpen == phase = "exited" => ~c.txnOpen
(* (ii) a transfer that completed produced the reference zone, with the target serial *)
Converges == (phase = "exited" /\ ~c.err /\ c.done) =>
                LET R == Ref(script) IN
                /\ R.ok /\ c.zone = R.zone
                /\ HasSoa(c.zone) /\ SoaOf(c.zone)[4] = script.msgs[1].rrs[1][4]
(* (iii) what the reference rejects is refused, what it accepts is applied *)
RejectsMalformed == phase = "exited" => (~Ref(script).ok => c.err)
AcceptsAcceptable == phase = "exited" => (Ref(script).ok => ~c.err /\ c.done)
(* a valid stream converges to the server's version for every cut *)
ValidConverges == (phase = "exited" /\ Unfaulted /\ Converging) => (~c.err /\ c.done /\ c.zone = script.target)
(* the named invalid exchanges are refused *)
BehindRefused == (phase = "exited" /\ Unfaulted /\ ~Converging) => c.err
(* every behaviour terminates in Exit *)
Terminates == (phase # "exited") => ENABLED Next
(* the zone changes only in the step that completes the transfer without error *)
CommitPoint == [][c'.zone # c.zone => (~c.done /\ c'.done /\ ~c'.err /\ ~c'.txnOpen)]_vars
DoneIsFinal == [][c.done => c'.done]_vars
ZoneContentWellFormed == \A r, q \in c.zone : (r[1] = q[1] /\ r[2] = q[2]) => r[3] = q[3]
=============================================================================
