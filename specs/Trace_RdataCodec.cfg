INIT TraceInit
NEXT TraceNext
CONSTANTS
  Wide = FALSE
  Depth = 2
CONSTRAINT Accepted
POSTCONDITION Post
CHECK_DEADLOCK FALSE
