-------------------------- MODULE Gen_ZoneReader --------------------------
(* Generator of X05: line sequences over one alphabet.  Only the environment's choices are
   printed (the abstract lines); the driver turns them into files and loads every prefix.
   Constraints (environment assumptions): includes nest at most MaxDepth deep, an `end`
   line only closes an open include.  (A blank owner before any stated owner is generated:
   RFC 1035 leaves it undefined, the policy field blank0 admits both readings.)  A sequence may end inside an include:
   the files then simply end there. *)
EXTENDS ZoneReaderUniverse, Json

CONSTANTS Alphabet, MaxLines, MaxDepth
VARIABLES hist, dep, stated, fin
gvars == <<hist, dep, stated, fin>>

GInit == hist = <<>> /\ dep = 0 /\ stated = FALSE /\ fin = FALSE
Ok(l) == /\ (l.k = "inc" => dep < MaxDepth)
         /\ (l.k = "end" => dep > 0)
GNext == /\ ~fin
         /\ IF Len(hist) < MaxLines
            THEN \E l \in Alphabet : /\ Ok(l)
                                     /\ hist' = Append(hist, l)
                                     /\ dep' = CASE l.k = "inc" -> dep + 1 [] l.k = "end" -> dep - 1 [] OTHER -> dep
                                     /\ stated' = (stated \/ l.k \in {"rr", "gen"})
                                     /\ fin' = FALSE
            ELSE fin' = TRUE /\ UNCHANGED <<hist, dep, stated>>
Emit == fin => PrintT("BEH " \o ToJson(hist))
=============================================================================
