SPECIFICATION Spec
CONSTANTS
  MaxLabel = 2
  MaxWire = 7
  KLabel = 1
  KTwo = 1
  KText = 1
  KWire = 1
  VAlpha = {65}
  BigK = {1}
  BigFill = {255}
  PairAlpha = {65}
  ZAlpha = {0, 1, 64, 65, 90, 91, 97, 122, 123, 254, 255}
  Modes = {"zone"}
INVARIANT SuccMinimal
INVARIANT PredMaximal
INVARIANT PredNoPrefix
CHECK_DEADLOCK FALSE
