---------------------------- MODULE MC_BTreeMap ----------------------------
(* Bounded instance of BTreeMap for exhaustive model checking, plus unit tests of the
   structural predicate (ASSUMEs are evaluated by TLC before the search). *)
EXTENDS BTreeMap

Leaf(ks) == <<ks, <<>>>>
(* t = 3: 2..5 keys per non-root node *)
Good1 == Leaf(<<>>)
Good2 == Leaf(<<1, 2, 3, 4, 5>>)
Good3 == <<<<3>>, <<Leaf(<<1, 2>>), Leaf(<<4, 5, 6>>)>>>>
Good4 == <<<<9>>, << <<<<3, 6>>, <<Leaf(<<1, 2>>), Leaf(<<4, 5>>), Leaf(<<7, 8>>)>>>>,
                    <<<<12, 15>>, <<Leaf(<<10, 11>>), Leaf(<<13, 14>>), Leaf(<<16, 17>>)>>>> >>>>
Good5 == <<<<>>, <<Leaf(<<1, 2, 3, 4, 5>>)>>>>          \* key-less internal root over one child (finding F35)
BadOver == Leaf(<<1, 2, 3, 4, 5, 6>>)                   \* more than 2t-1 keys
BadUnder == <<<<3>>, <<Leaf(<<1>>), Leaf(<<4, 5>>)>>>>  \* non-root node below t-1
BadKids == <<<<3>>, <<Leaf(<<1, 2>>)>>>>                \* k keys, k children
BadOrder == <<<<3>>, <<Leaf(<<1, 4>>), Leaf(<<5, 6>>)>>>>
BadDup == <<<<3>>, <<Leaf(<<1, 3>>), Leaf(<<4, 5>>)>>>>
BadDepth == <<<<3, 8>>, <<Leaf(<<1, 2>>), <<<<6>>, <<Leaf(<<4, 5>>), Leaf(<<7, 7>>)>>>>, Leaf(<<9, 10>>)>>>>

ASSUME WellFormed(Good1, 3) /\ WellFormed(Good2, 3) /\ WellFormed(Good3, 3) /\ WellFormed(Good4, 3)
ASSUME ~WellFormed(Good5, 3) /\ ~RootNonEmpty(Good5) /\ RootNonEmpty(Good4) /\ RootNonEmpty(Good1)
ASSUME ~WellFormed(BadOver, 3) /\ WellFormed(BadOver, 4)
ASSUME ~WellFormed(BadUnder, 3) /\ ~WellFormed(BadKids, 3) /\ ~WellFormed(BadOrder, 3) /\ ~WellFormed(BadDup, 3)
ASSUME ~WellFormed(BadDepth, 3)
ASSUME ~WellFormed(Good3, 4)                             \* leaves of 2 keys are below t-1 = 3
ASSUME Flat(Good4) = <<1, 2, 3, 4, 5, 6, 7, 8, 9, 10, 11, 12, 13, 14, 15, 16, 17>> /\ CountKeys(Good4) = 17
ASSUME Height(Good4) = 3 /\ Height(Good1) = 1
=============================================================================
