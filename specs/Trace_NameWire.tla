-------------------------- MODULE Trace_NameWire --------------------------
(* Trace validation for the wire codec of names (C01).

   kind "decode": what the real decoder DID.  A recording subclass of dns.wirebase.Parser
   logs every get_uint8 / get_bytes / seek of dns.name.from_wire_parser; here those raw
   operations are grouped into the steps of the NameWire decoder automaton (Label = read
   the count + read the octets, Pointer = read two octets + seek, ...), each step must be
   ENABLED in the automaton's current state - in particular a seek is only accepted to a
   target strictly below every earlier target and the start offset - and the result
   (name, octets consumed | refusal) must be the automaton's.

   kind "write": names written one after the other with Name.to_wire(file, compress,
   origin) into one buffer with one compression table; after every call the written
   octets must decode - with the SPECIFICATION's decoder, in the buffer - to the name
   (reading of DESIGN.md section 3), and the table must be sound.

   op "plain" (inside a "write" trace): Name.to_wire() without a file and
   Name.to_digestable(origin) = Encode of the derelativized name, refused when that name
   would exceed the limits (EncodedLength: "<= 255 octets or refused"). *)
EXTENDS NameWire, VTrace

CONSTANT Strict
VARIABLES t, l, wtable
tvars == <<dvars, t, l, wtable>>

Tr == Log[t]
e == Ev(t)[l]
TraceInit ==
    /\ RegInit /\ t \in 1..NTraces /\ l = 1 /\ wtable = <<>>
    /\ IF Tr.kind = "decode" THEN DInit([base |-> Tr.base, tail |-> Tr.tail], Tr.start)
       ELSE DInit([base |-> Tr.base, tail |-> <<>>], 0)
Adv(k) == l' = l + k /\ t' = t
C(id, cond) == Check(t, l, id, cond)
Decoding == Tr.kind = "decode"
Has(k) == l + k <= Len(Ev(t))
Nxt(k) == Ev(t)[l + k]
(* a raw read of the decoder: get_uint8 at the automaton's position returning the octet there *)
ReadsCount == e.op = "u8" /\ C("ReadAtPosition", e.pos = pos) /\ C("ReadsBuffer", CanRead(1) /\ e.v = Count)

TLabel == /\ Decoding /\ e.op = "u8" /\ e.v \in 1..63 /\ Has(1) /\ Nxt(1).op = "bytes" /\ Nxt(1).ok
          /\ ReadsCount
          /\ C("LabelRead", Nxt(1).pos = pos + 1 /\ Nxt(1).n = e.v)
          /\ C("LabelEnabled", ENABLED Label)
          /\ Label /\ Adv(2) /\ UNCHANGED wtable
TPointer == /\ Decoding /\ e.op = "u8" /\ e.v >= 192 /\ Has(2) /\ Nxt(1).op = "u8" /\ Nxt(1).v >= 0 /\ Nxt(2).op = "seek"
            /\ ReadsCount
            /\ C("PointerRead", CanRead(2) /\ Nxt(1).pos = pos + 1 /\ Nxt(1).v = At(buf, pos + 1) /\ Nxt(2).to = Target)
            /\ C("PointerStrictlyBackwards", Nxt(2).to < lowest)
            /\ C("SeekOk", Nxt(2).ok)
            /\ Pointer /\ Adv(3) /\ UNCHANGED wtable
TRoot == /\ Decoding /\ e.op = "u8" /\ e.v = 0
         /\ ReadsCount
         /\ RootL /\ Adv(1) /\ UNCHANGED wtable
(* the decoder stopped: the automaton must be able to fail here too *)
TTruncCount == /\ Decoding /\ e.op = "u8" /\ e.v = -1
               /\ C("ReadAtPosition", e.pos = pos) /\ C("TruncatedCount", ~CanRead(1))
               /\ FailTruncated /\ Adv(1) /\ UNCHANGED wtable
TTruncLabel == /\ Decoding /\ e.op = "u8" /\ e.v \in 1..63 /\ Has(1) /\ Nxt(1).op = "bytes" /\ ~Nxt(1).ok
               /\ ReadsCount /\ C("TruncatedLabel", ~CanRead(1 + Count))
               /\ FailTruncated /\ Adv(2) /\ UNCHANGED wtable
TTruncPointer == /\ Decoding /\ e.op = "u8" /\ e.v >= 192 /\ Has(1) /\ Nxt(1).op = "u8" /\ Nxt(1).v = -1
                 /\ ReadsCount /\ C("TruncatedPointer", ~CanRead(2))
                 /\ FailTruncated /\ Adv(2) /\ UNCHANGED wtable
TBadType == /\ Decoding /\ e.op = "u8" /\ e.v \in 64..191 /\ Has(1) /\ Nxt(1).op = "end"
            /\ ReadsCount
            /\ FailLabelType /\ Adv(1) /\ UNCHANGED wtable
(* a reserved label type (64..191) followed by anything but the refusal *)
TTypeAccepted == /\ Decoding /\ e.op = "u8" /\ e.v \in 64..191 /\ Has(1) /\ Nxt(1).op # "end"
                 /\ C("ReservedLabelTypeRefused", FALSE)
                 /\ UNCHANGED tvars
TBadPointer == /\ Decoding /\ e.op = "u8" /\ e.v >= 192 /\ Has(2) /\ Nxt(1).op = "u8" /\ Nxt(1).v >= 0 /\ Nxt(2).op = "end"
               /\ ReadsCount
               /\ C("PointerRead", CanRead(2) /\ Nxt(1).pos = pos + 1 /\ Nxt(1).v = At(buf, pos + 1))
               /\ C("RefusedPointerIsNotBackwards", Target >= lowest)
               /\ FailPointer /\ Adv(2) /\ UNCHANGED wtable
(* after the name is complete the decoder may reposition the parser (to resume after the name:
   where it ends up is judged by `Consumed`); while decoding, a seek only ever follows a pointer *)
TResume == /\ Decoding /\ e.op = "seek" /\ ~Running
           /\ C("ResumeSeekOk", e.ok)
           /\ Adv(1) /\ UNCHANGED <<dvars, wtable>>
TStraySeek == /\ Decoding /\ e.op = "seek" /\ Running
              /\ C("SeekOnlyFollowsPointer", FALSE)
              /\ UNCHANGED tvars
(* result of from_wire_parser (through the recording parser) and of dns.name.from_wire *)
TEnd == /\ Decoding /\ e.op = "end"
        /\ C("DecoderFinished", ~Running)
        /\ IF status = "ok"
           THEN /\ C("DecodeAccepts", e.res[1] = "ok" /\ e.fw[1] = "ok")
                /\ C("DecodedName", e.res[2] = labels /\ e.fw[2] = labels)
                /\ C("Consumed", e.res[3] = cons /\ e.fw[3] = cons)
           ELSE /\ C("DecodeRefuses", e.res[1] = "err" /\ e.fw[1] = "err")
                /\ C("LibraryError", e.res[3] /\ e.fw[3])
        /\ C("FunctionAgrees", LET d == Decode(buf, start) IN
                                 IF status = "ok" THEN d = <<"ok", labels, cons>> ELSE d[1] = "err")
        /\ Adv(1) /\ UNCHANGED <<dvars, wtable>>

-----------------------------------------------------------------------------
TabOf(tab) == {<<tab[i][1], tab[i][2]>> : i \in 1..Len(tab)}
TabSet(f) == {<<k, f[k]>> : k \in DOMAIN f}
TabFun(tab) == [k \in {tab[i][1] : i \in 1..Len(tab)} |-> (CHOOSE i \in 1..Len(tab) : tab[i][1] = k) ]
LogTable(tab) == [k \in {tab[i][1] : i \in 1..Len(tab)} |-> tab[CHOOSE i \in 1..Len(tab) : tab[i][1] = k][2]]

TWrite ==
    /\ Tr.kind = "write" /\ e.op = "write"
    /\ LET p == WLen(buf)
           s == IF e.compress THEN WriteName(e.n, e.origin, wtable, p) ELSE WriteName(e.n, e.origin, <<>>, PtrLimit + 1)
           f == FullName(e.n, e.origin)
       IN  /\ C("EncodedLength", e.res[1] = "ok" => Len(e.res[2]) <= MaxWire)
           /\ C("WriteVerdict", (s[1] = "ok") <=> (e.res[1] = "ok"))
           /\ C("LibraryError", e.res[1] = "err" => e.res[3])
           /\ IF e.res[1] = "ok" /\ s[1] = "ok"
              THEN /\ buf' = [buf EXCEPT !.tail = @ \o e.res[2]]
                   /\ wtable' = IF e.compress THEN LogTable(e.table) ELSE wtable
                   /\ C("WrittenDecodes", WrittenDecodes(buf', p, e.res[2], f[2]))
                   /\ C("TableSound", e.compress => TableSound(buf', wtable', WLen(buf')))
                   /\ C("TableKeepsEntries", e.compress => \A k \in DOMAIN wtable : k \in DOMAIN wtable' /\ wtable'[k] = wtable[k])
                   /\ C("ImplDecodesBack", e.back[1] = "ok" /\ SameName(e.back[2], f[2]) /\ e.back[3] = Len(e.res[2]))
                   /\ (Strict => C("WriteExact", e.res[2] = s[2] /\ (e.compress => wtable' = s[3])))
              ELSE UNCHANGED <<buf, wtable>>
    /\ Adv(1) /\ UNCHANGED <<start, pos, lowest, labels, total, hops, cons, status>>

TPlain ==
    /\ Tr.kind = "write" /\ e.op = "plain"
    /\ LET s == ToWire(e.n, e.origin, e.canon)
       IN  /\ C("EncodedLength", e.res[1] = "ok" => Len(e.res[2]) <= MaxWire)       \* <= 255 octets or refused
           /\ C("PlainWire", IF IsOk(s) THEN e.res[1] = "ok" /\ e.res[2] = s[2] ELSE e.res[1] = "err")
           /\ C("LibraryError", e.res[1] = "err" => e.res[3])
           /\ C("PlainDecodes", IsOk(s) /\ ~e.canon => Decode(Plain(e.res[2]), 0) = <<"ok", FullName(e.n, e.origin)[2], Len(e.res[2])>>)
    /\ Adv(1) /\ UNCHANGED <<dvars, wtable>>

TraceNext == /\ l <= Len(Ev(t))
             /\ \/ TLabel \/ TPointer \/ TRoot \/ TTruncCount \/ TTruncLabel \/ TTruncPointer \/ TBadType \/ TTypeAccepted \/ TBadPointer \/ TResume \/ TStraySeek \/ TEnd
                \/ TWrite \/ TPlain
Accepted == Accepting(t, l)
=============================================================================
