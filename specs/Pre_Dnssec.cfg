INIT PInit
NEXT PNext
CHECK_DEADLOCK FALSE
