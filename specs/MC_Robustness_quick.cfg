INIT Init
NEXT Next
VIEW View
CONSTANTS
  MaxFaults = 2
  Kinds = {"msg", "namew", "rdw", "optw", "namet", "rdt", "ttl", "zone", "msgt", "optm", "rdg", "zinc"}
  PairBases = {"M1", "M5", "N1", "N2", "L1", "T1"}
INVARIANT OctetsOK
INVARIANT DescriptorDeterminesInput
INVARIANT BaseAccepted
INVARIANT TruncationRefused
INVARIANT TrailingRefused
INVARIANT RdlenMismatchRefused
INVARIANT FailuresOrdered
INVARIANT NameLaw
INVARIANT OptmLaw
INVARIANT ZincLaw
INVARIANT TextLaw
INVARIANT SpecLaw
CHECK_DEADLOCK FALSE
