INIT TraceInit
NEXT TraceNext
CONSTANTS
  Calls = {}
  Replies = {}
CONSTRAINT Accepted
POSTCONDITION Post
CHECK_DEADLOCK FALSE
