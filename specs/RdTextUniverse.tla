---------------------------- MODULE RdTextUniverse ----------------------------
(* The declared value universe of the per-type layer of C05 (text round trip).
   Per field KIND of specs/schemas.json a base value and a set of other values chosen for
   the TEXT codecs: every octet class (NUL, space, quote, backslash, DEL, >= 0x80, 0xFF,
   '.', '@', ';', parentheses, digits) in every character-string / opaque field and in
   labels; names under / outside / equal to the origin; binary lengths around the
   base64 / hex chunk sizes; integer boundaries.  Per type: overrides where the RFC ties
   fields together, and explicit extra vectors.  The value vectors of a type are the base
   vector, every single-field variation, and the extra vectors (driver: vectors()).
   Also declared here: the lossless style set, the origin/relativize configurations and
   the numeric boundary strings used to build records FROM TEXT.
   Gen_RdTextUniverse prints all of it as one JSON line; nothing here is an expected result. *)
EXTENDS Integers, Sequences, FiniteSets, TLC

CONSTANT Wide    \* BOOLEAN: larger class sets (thorough tier)

Rep(x, n) == [i \in 1..n |-> x]
Asc(n) == [i \in 1..n |-> i % 256]
StrUpTo(S, n) == UNION {[1..k -> S] : k \in 0..n}

\* ---- character-strings and opaque text
CsOctets == IF Wide THEN {0, 9, 10, 32, 34, 40, 41, 46, 48, 59, 64, 92, 97, 127, 128, 200, 255}
            ELSE {0, 10, 32, 34, 92, 97, 127, 128, 255}
CStrVals == StrUpTo(CsOctets, 2) \cup {Rep(255, 255), Rep(97, 255), <<195, 169>>, <<226, 130, 172, 34>>}
CStrBase == <<97, 98>>
CStrsVals == {<<c>> : c \in CStrVals} \cup {<<<<>>, <<97>>>>, <<<<97>>, <<>>, <<34>>>>, <<Rep(120, 255), Rep(0, 255)>>}

\* ---- names: absolute, as label sequences without the root label; Origin = example.
Origin == <<<<101, 120, 97, 109, 112, 108, 101>>>>
SubOrigin == <<<<115, 117, 98>>>> \o Origin         \* sub.example.: a second origin ($ORIGIN inside the zone)
LabelOctets == IF Wide THEN {0, 9, 10, 32, 34, 36, 40, 41, 42, 46, 48, 59, 64, 65, 92, 97, 127, 128, 255}
               ELSE {0, 32, 34, 46, 64, 65, 92, 255}
Labels == (StrUpTo(LabelOctets, 2) \ {<<>>}) \cup {Rep(120, 63), Rep(255, 63)}
Labels1 == {lb \in Labels : Len(lb) = 1}
NameVals == {<<>>, Origin, <<<<97>>>> \o Origin, <<<<65>>, <<98>>>> \o Origin, <<<<111, 116, 104, 101, 114>>>>,
             <<<<120>>, <<101, 120, 97, 109, 112, 108, 101>>, <<111, 114, 103>>>>,
             <<Rep(120, 63), Rep(121, 63), Rep(122, 63), Rep(119, 61)>>,
             SubOrigin, <<<<109, 97, 105, 108>>>> \o SubOrigin, <<<<46>>, <<65>>>> \o SubOrigin}   \* sub.example. mail.sub.example. \..A.sub.example.
            \cup {<<lb>> \o Origin : lb \in Labels}
            \cup {<<lb>> : lb \in (IF Wide THEN Labels ELSE Labels1)}
            \cup {<<<<97>>, lb>> \o Origin : lb \in (IF Wide THEN Labels ELSE Labels1)}
NameBase == <<<<110, 115>>>> \o Origin        \* ns.example.

\* ---- integers (wide ones as octets) and fixed fields
U8Vals == {0, 1, 9, 10, 127, 128, 255}
U16Vals == {0, 1, 255, 256, 32767, 32768, 65535}
FixedVals(n) == {Rep(0, n), Rep(255, n), <<128>> \o Rep(0, n - 1), Rep(0, n - 1) \o <<1>>, <<127>> \o Rep(255, n - 1)}
TtlVals == {Rep(0, 4), <<0, 0, 0, 1>>, <<0, 0, 14, 16>>, <<0, 1, 81, 128>>, <<127, 255, 255, 255>>}
V4Vals == {<<0, 0, 0, 0>>, <<255, 255, 255, 255>>, <<192, 0, 2, 1>>, <<1, 2, 3, 4>>, <<10, 0, 0, 255>>}
V6(a, b, c, d, e, f, g, h) == <<a \div 256, a % 256, b \div 256, b % 256, c \div 256, c % 256, d \div 256, d % 256,
                                e \div 256, e % 256, f \div 256, f % 256, g \div 256, g % 256, h \div 256, h % 256>>
V6Vals == {V6(0, 0, 0, 0, 0, 0, 0, 0), V6(0, 0, 0, 0, 0, 0, 0, 1), V6(1, 0, 0, 0, 0, 0, 0, 0),
           V6(8193, 3512, 0, 0, 0, 0, 0, 1), V6(8193, 3512, 0, 0, 1, 0, 0, 1), V6(8193, 0, 0, 1, 0, 0, 0, 1),
           V6(0, 0, 0, 0, 0, 65535, 49152, 513), V6(0, 0, 0, 0, 0, 0, 49152, 513), V6(100, 65435, 0, 0, 0, 0, 49152, 513),
           V6(65535, 65535, 65535, 65535, 65535, 65535, 65535, 65535), V6(1, 2, 3, 4, 5, 6, 7, 8),
           V6(0, 1, 0, 1, 0, 1, 0, 1), V6(0, 0, 1, 0, 0, 0, 0, 0), V6(43981, 0, 0, 0, 0, 0, 0, 61185)}
\* binary lengths around the default chunk sizes (base64: 32 characters = 24 octets; hex: 128 = 64 octets)
BinVals == {<<>>, <<0>>, <<255>>, <<1, 2, 3>>, <<0, 0>>, Asc(23), Asc(24), Asc(25), Asc(48), Asc(49),
            Asc(63), Asc(64), Asc(65), Rep(255, 129), Rep(251, 300)}
BinBase == <<1, 2, 3, 4>>
Lp2Vals == {<<>>, <<0>>, Asc(24), Asc(25), Rep(7, 256)}

\* ---- type bitmaps, as sets of type numbers (the driver builds the windows)
TypeSets == {{1}, {1, 2, 6, 46, 47}, {255, 256}, {65535}, {1234, 65280}, {7, 8, 15, 16}, {0}, {}, {41, 250, 251, 252, 253, 254}}
TypeSetBase == {1, 28, 46}

Kind(k, n) ==
    CASE k = "u8" -> [base |-> 1, vals |-> U8Vals]
      [] k = "u16" -> [base |-> 258, vals |-> U16Vals]
      [] k \in {"u32", "u48"} -> [base |-> Asc(n), vals |-> FixedVals(n)]
      [] k = "bytes" -> [base |-> Asc(n), vals |-> FixedVals(n) \cup {Rep(171, n)}]
      [] k = "ttl32" -> [base |-> <<0, 0, 1, 44>>, vals |-> TtlVals]
      [] k = "ipv4" -> [base |-> <<192, 0, 2, 7>>, vals |-> V4Vals]
      [] k = "ipv6" -> [base |-> V6(8193, 3512, 0, 0, 0, 0, 0, 7), vals |-> V6Vals]
      [] k = "name" -> [base |-> NameBase, vals |-> NameVals]
      [] k \in {"cstr", "u8len"} -> [base |-> CStrBase, vals |-> CStrVals]
      [] k = "cstropt" -> [base |-> <<49>>, vals |-> CStrVals]
      [] k = "cstrs" -> [base |-> <<CStrBase>>, vals |-> CStrsVals]
      [] k = "u16len" -> [base |-> <<1, 2, 3>>, vals |-> Lp2Vals]
      [] k = "rest" -> [base |-> BinBase, vals |-> BinVals]
      [] k = "bitmap" -> [base |-> TypeSetBase, vals |-> TypeSets]
      [] k = "names" -> [base |-> <<NameBase>>, vals |-> {<<>>, <<<<>>>>, <<NameBase, Origin>>} \cup {<<nm>> : nm \in NameVals}]
Kinds == {"u8", "u16", "u32", "u48", "bytes", "ttl32", "ipv4", "ipv6", "name", "cstr", "u8len", "cstropt", "cstrs",
          "u16len", "rest", "bitmap", "names"}

\* ---- per-type overrides: "TYPE.i" (field i, 1-based, order of schemas.json) -> [base, vals]
BV(b, v) == [base |-> b, vals |-> v]
PAlpn == <<1, <<2, 104, 50, 2, 104, 51>>>>
PPort == <<3, <<1, 187>>>>
SvcVals == {<<>>, <<PAlpn>>, <<PPort>>, <<<<4, <<192, 0, 2, 1, 192, 0, 2, 2>>>>>>, <<<<6, Asc(16)>>>>,
            <<<<5, <<0, 1, 2>>>>, <<65280, <<0, 255>>>>>>, <<<<0, <<0, 1, 0, 3>>>>, PAlpn, PPort>>,
            <<PAlpn, <<2, <<>>>>>>, <<<<8, <<>>>>>>, <<<<65280, <<>>>>, <<65535, <<1>>>>>>,
            <<<<1, <<1, 44, 1, 92, 1, 34, 2, 97, 0>>>>>>,                  \* alpn ids: "," "\" """ "a\000"
            <<<<1, <<3, 255, 128, 32>>>>>>,
            <<<<65280, <<34, 92, 32, 0, 127, 128, 255, 59, 40>>>>>>,       \* generic value with every octet class
            <<<<7, <<47, 100, 110, 115, 45, 113, 117, 101, 114, 121, 123, 63, 100, 110, 115, 125>>>>>>}
OptVals == {<<>>, <<<<3, <<1, 2>>>>>>, <<<<8, <<0, 1, 24, 0, 192, 0, 2>>>>>>, <<<<10, Asc(8)>>>>, <<<<10, Asc(24)>>>>,
            <<<<15, <<0, 18, 104, 105>>>>>>, <<<<15, <<0, 0>>>>>>, <<<<12, Rep(0, 5)>>>>, <<<<65001, <<7>>>>>>,
            <<<<3, <<1, 2>>>>, <<10, Asc(8)>>>>}
AplVals == {<<>>, <<<<1, 24, 1, <<192, 0, 2>>>>>>, <<<<2, 128, 0, Asc(16)>>>>, <<<<1, 0, 0, <<>>>>>>,
            <<<<1, 0, 0, <<10>>>>, <<2, 8, 1, <<255>>>>>>, <<<<1, 32, 0, <<10, 0, 0, 1>>>>, <<1, 32, 0, <<10, 0, 0, 1>>>>>>,
            <<<<2, 64, 0, <<32, 1, 13, 184>>>>>>}
GwVals == {<<"none">>, <<"ipv4", <<192, 0, 2, 1>>>>, <<"ipv6", Asc(16)>>, <<"name", <<>>>>, <<"name", NameBase>>,
           <<"name", <<<<65>>, <<98>>>> \o Origin>>, <<"name", <<<<46, 92>>>>>>, <<"name", Origin>>}
HipVals == {<<h, a, k>> : h \in {Asc(16), Rep(9, 255), <<>>}, a \in {0, 2, 255}, k \in {<<>>, <<1, 2, 3>>, Asc(49), Rep(8, 256)}}
Special ==
    ("GPOS.1" :> BV(<<49, 50, 46, 53>>, {<<48>>, <<45, 57, 48>>, <<57, 48>>, <<45, 56, 46, 50, 53>>, <<56, 57, 46, 57, 57, 57>>, <<43, 49>>, <<57, 49>>}))
 @@ ("GPOS.2" :> BV(<<49, 50, 46, 53>>, {<<48>>, <<45, 49, 56, 48>>, <<49, 56, 48, 46, 48>>, <<45, 56, 46, 50, 53>>, <<49, 56, 49>>}))
 @@ ("GPOS.3" :> BV(<<49, 50, 46, 53>>, {<<48>>, <<45, 56, 46, 50, 53>>, <<56, 56, 52, 56>>, <<49, 48, 48, 48, 48, 48, 48, 46, 53>>, <<49, 101, 51>>}))
 @@ ("LOC.1" :> BV(0, {1}))
 @@ ("LOC.2" :> BV(19, {0, 16, 18, 25, 144, 153, 1, 22, 9}))
 @@ ("LOC.3" :> BV(22, {0, 16, 18, 25, 144, 153, 1, 19}))
 @@ ("LOC.4" :> BV(19, {0, 16, 18, 25, 144, 153, 1, 22}))
 @@ ("LOC.5" :> BV(<<128, 56, 206, 252>>, {<<128, 0, 0, 0>>, <<147, 79, 217, 0>>, <<108, 176, 39, 0>>, <<128, 0, 0, 1>>,
                                          <<127, 255, 255, 255>>, <<128, 0, 234, 95>>, <<127, 199, 49, 4>>, <<147, 79, 217, 1>>}))
 @@ ("LOC.6" :> BV(<<128, 56, 206, 252>>, {<<128, 0, 0, 0>>, <<166, 159, 178, 0>>, <<89, 96, 78, 0>>, <<128, 0, 0, 1>>,
                                          <<127, 255, 255, 255>>, <<127, 199, 49, 4>>, <<166, 159, 178, 1>>}))
 @@ ("LOC.7" :> BV(<<0, 152, 154, 104>>, {<<0, 0, 0, 0>>, <<0, 152, 150, 128>>, <<0, 152, 150, 127>>, <<0, 152, 150, 129>>,
                                         <<255, 255, 255, 255>>, <<0, 0, 0, 1>>, <<128, 0, 0, 0>>,
                                         \* 0.29 m, 2.55 m, -2.55 m, 1.13 m: centimetre values whose decimal text is not exact in binary
                                         <<0, 152, 150, 157>>, <<0, 152, 151, 127>>, <<0, 152, 149, 129>>, <<0, 152, 150, 241>>}))
 @@ ("DS.3" :> BV(2, {})) @@ ("DS.4" :> BV(Rep(171, 32), {Asc(32)}))
 @@ ("CDS.3" :> BV(2, {})) @@ ("CDS.4" :> BV(Rep(171, 32), {Asc(32)}))
 @@ ("DLV.3" :> BV(2, {})) @@ ("DLV.4" :> BV(Rep(171, 32), {Asc(32)}))
 @@ ("ZONEMD.2" :> BV(1, {0, 2, 255})) @@ ("ZONEMD.3" :> BV(1, {0, 3, 255})) @@ ("ZONEMD.4" :> BV(Asc(48), {Rep(255, 48)}))
 @@ ("CAA.2" :> BV(<<105, 115, 115, 117, 101>>, {<<97>>, <<65, 48, 122>>, Rep(97, 255), <<48>>}))
 @@ ("CAA.3" :> BV(<<99, 97, 46, 101, 120>>, CStrVals))
 @@ ("URI.3" :> BV(<<104, 116, 116, 112, 58>>, CStrVals \ {<<>>}))
 @@ ("X25.1" :> BV(<<51, 49, 49>>, CStrVals))
 @@ ("NSEC3.5" :> BV(Asc(20), {<<0>>, <<255>>, Asc(1), Asc(2), Asc(3), Asc(4), Asc(5), Asc(6), Rep(255, 255)}))
 @@ ("NSEC3.4" :> BV(<<171, 205>>, {<<>>, <<0>>, Rep(255, 255)}))
 @@ ("NSEC3PARAM.4" :> BV(<<171, 205>>, {<<>>, <<0>>, Rep(255, 255)}))
 @@ ("NSAP.1" :> BV(<<71, 0, 5, 128>>, {<<0>>, <<255>>, Asc(20), Asc(65)}))
 @@ ("WKS.3" :> BV(<<0, 0, 0, 64>>, {<<>>, <<128>>, <<0, 1>>, <<255, 255>>, Rep(0, 9) \o <<4>>, <<0, 0, 0, 0, 0, 0, 0, 0, 0, 0, 1>>}))
 @@ ("WKS.2" :> BV(6, {0, 17, 255}))
 @@ ("IPSECKEY.2" :> BV(1, {})) @@ ("IPSECKEY.4" :> BV(<<"ipv4", <<192, 0, 2, 7>>>>, {<<"ipv4", <<0, 0, 0, 0>>>>}))
 @@ ("AMTRELAY.2" :> BV(1, {129})) @@ ("AMTRELAY.3" :> BV(<<"ipv4", <<192, 0, 2, 7>>>>, {<<"ipv4", <<0, 0, 0, 0>>>>}))
 @@ ("HIP.1" :> BV(<<Asc(16), 2, <<1, 2, 3>>>>, HipVals))
 @@ ("APL.1" :> BV(<<<<1, 24, 0, <<192, 0, 2>>>>>>, AplVals))
 @@ ("SVCB.3" :> BV(<<PAlpn, PPort>>, SvcVals)) @@ ("HTTPS.3" :> BV(<<PAlpn, PPort>>, SvcVals))
 @@ ("OPT.1" :> BV(<<<<10, Asc(8)>>>>, OptVals))
 @@ ("KEY.1" :> BV(256, {0, 1, 255, 257, 16384, 32768, 49151}))
 @@ ("RRSIG.1" :> BV(1, {0, 2, 46, 255, 256, 65280, 65535})) @@ ("SIG.1" :> BV(1, {0, 2, 46, 255, 256, 65280, 65535}))
 @@ ("RRSIG.5" :> BV(<<101, 0, 0, 0>>, FixedVals(4))) @@ ("RRSIG.6" :> BV(<<100, 0, 0, 0>>, FixedVals(4)))
 @@ ("TSIG.6" :> BV(0, {16, 17, 18, 22, 23, 4095, 65535}))
 @@ ("TKEY.5" :> BV(0, {16, 17, 23, 65535}))

\* ---- explicit extra vectors (whole field tuples) where fields are tied together
GwTypes == <<<<0, <<"none">>>>, <<1, <<"ipv4", <<192, 0, 2, 1>>>>>>, <<2, <<"ipv6", Asc(16)>>>>, <<2, <<"ipv6", Rep(0, 16)>>>>,
             <<3, <<"name", NameBase>>>>, <<3, <<"name", <<>>>>>>, <<3, <<"name", <<<<65>>, <<98>>>> \o Origin>>>>,
             <<3, <<"name", <<<<46, 92>>>>>>>>, <<3, <<"name", Origin>>>>, <<3, <<"name", <<<<111, 116, 104, 101, 114>>>>>>>>>>
Extra ==
    ("DS" :> {<<258, 8, 1, Rep(171, 20)>>, <<258, 8, 4, Rep(171, 48)>>, <<0, 0, 0, <<0>>>>, <<65535, 255, 2, Asc(32)>>})
 @@ ("CDS" :> {<<258, 8, 1, Rep(171, 20)>>, <<258, 8, 4, Rep(171, 48)>>, <<0, 0, 0, <<0>>>>})
 @@ ("DLV" :> {<<258, 8, 1, Rep(171, 20)>>, <<258, 8, 4, Rep(171, 48)>>})
 @@ ("ZONEMD" :> {<<Asc(4), 1, 2, Asc(64)>>, <<Asc(4), 2, 1, Asc(48)>>, <<Asc(4), 1, 240, Asc(12)>>, <<Asc(4), 255, 255, Asc(13)>>})
 @@ ("IPSECKEY" :> {<<p, GwTypes[i][1], a, GwTypes[i][2], k>> : i \in 1..Len(GwTypes), p \in {10}, a \in {0, 2}, k \in {<<>>, <<1, 2, 3>>, Asc(25)}})
 @@ ("AMTRELAY" :> {<<p, d * 128 + GwTypes[i][1], GwTypes[i][2]>> : i \in 1..Len(GwTypes), p \in {0, 10}, d \in {0, 1}})
 @@ ("NSEC3" :> {<<1, 1, 10, <<>>, Asc(20), {}>>, <<1, 0, 0, <<171>>, <<0>>, {1, 2}>>})
 @@ ("KEY" :> {<<49152, 3, 1, <<>>>>, <<65535, 255, 1, <<>>>>, <<65535, 3, 1, <<1, 2, 3>>>>, <<256, 3, 1, <<>>>>})
 @@ ("ISDN" :> {<<<<49>>, <<>>>>, <<<<>>, <<>>>>, <<<<>>, <<50>>>>, <<<<34>>, <<255>>>>})

\* ---- styles documented as not discarding information, origin / relativize configurations
Styles == {[id |-> "default", b64 |-> 32, b64sep |-> " ", hex |-> 128, hexsep |-> " ", utf8 |-> FALSE],
           [id |-> "nochunk", b64 |-> 0, b64sep |-> " ", hex |-> 0, hexsep |-> " ", utf8 |-> FALSE],
           [id |-> "chunk1", b64 |-> 1, b64sep |-> " ", hex |-> 1, hexsep |-> " ", utf8 |-> FALSE],
           [id |-> "chunk4tab", b64 |-> 4, b64sep |-> "\t", hex |-> 2, hexsep |-> "\t", utf8 |-> FALSE],
           [id |-> "chunk5sp2", b64 |-> 5, b64sep |-> "  ", hex |-> 3, hexsep |-> "  ", utf8 |-> FALSE],
           [id |-> "utf8", b64 |-> 32, b64sep |-> " ", hex |-> 128, hexsep |-> " ", utf8 |-> TRUE]}
\* Origins: "none", "org" (example., the zone origin) and "sub" (sub.example., a $ORIGIN inside the zone).
\* ot / rt: origin and relativize flag given to to_text; op / rp / relto: origin, relativize flag and
\* relativize_to given to from_text (relto "none" = not given: names are relativized to op).
\* The last three are what the zone reader does after a $ORIGIN change (origin = $ORIGIN, relativize_to =
\* zone origin) and the converse nesting.
OC(id, ot, rt, op, rp, relto) == [id |-> id, ot |-> ot, rt |-> rt, op |-> op, rp |-> rp, relto |-> relto]
OrgConfigs == {OC("plain", "none", TRUE, "none", TRUE, "none"),
               OC("relrel", "org", TRUE, "org", TRUE, "none"),
               OC("relabs", "org", TRUE, "org", FALSE, "none"),
               OC("absnone", "org", FALSE, "none", TRUE, "none"),
               OC("absrel", "org", FALSE, "org", TRUE, "none"),
               OC("asisrel", "none", TRUE, "org", TRUE, "none"),
               OC("asisabs", "none", TRUE, "org", FALSE, "none"),
               OC("subrelto", "sub", TRUE, "sub", TRUE, "org"),      \* text relative to $ORIGIN, record relative to the zone
               OC("absrelto", "org", FALSE, "sub", TRUE, "org"),     \* absolute text, origin = $ORIGIN, relativize_to = zone
               OC("orgrelsub", "org", TRUE, "org", TRUE, "sub"),     \* relativize_to below the origin
               OC("subreltoabs", "sub", TRUE, "sub", FALSE, "org")}  \* relativize off: relativize_to must not matter
GC(id, op, rp, relto) == [id |-> id, op |-> op, rp |-> rp, relto |-> relto]
GenConfigs == {GC("gnone", "none", TRUE, "none"), GC("grel", "org", TRUE, "none"), GC("gabs", "org", FALSE, "none"),
               GC("gsubrelto", "sub", TRUE, "org"), GC("gorgrelsub", "org", TRUE, "sub"), GC("gsubreltoabs", "sub", FALSE, "org")}

\* The relativity calculus.  A record / a text has a BASE: "abs" (all names absolute) or an origin id
\* b: the names at or under origin b are spelled relative to it, all others absolute.
Bases == {"abs", "org", "sub"}
\* producing text under (ot, rt) is meaningful only if the record's relative names are relative to ot
Applicable(oc, b) == oc.ot = "none" \/ b \in {"abs", oc.ot}
TextBase(oc, b) == IF oc.ot = "none" THEN b ELSE IF oc.rt THEN oc.ot ELSE "abs"
\* ... and parsing completes relative names with op, so the text's base must be "abs" or op
Readable(oc, tb) == oc.op = "none" \/ tb \in {"abs", oc.op}
ParseBase(oc, tb) == IF oc.op = "none" THEN tb
                     ELSE IF ~oc.rp THEN "abs"
                     ELSE IF oc.relto # "none" THEN oc.relto ELSE oc.op
OutBase(oc, b) == ParseBase(oc, TextBase(oc, b))
GenBase(gc) == ParseBase(gc, "abs")
SourceBases == {"abs", "org"}      \* records are decoded without origin or relativized to the zone origin
ConfigsLossless == \A oc \in OrgConfigs, b \in SourceBases : Applicable(oc, b) => Readable(oc, TextBase(oc, b))

\* ---- numeric boundary strings substituted into the numbers of a record's text
Zs(k) == [i \in 1..k |-> "0"]
RECURSIVE Cat(_)
Cat(q) == IF q = <<>> THEN "" ELSE Head(q) \o Cat(Tail(q))
P10(k) == "1" \o Cat(Zs(k))
P10p(k) == IF k = 0 THEN "2" ELSE "1" \o Cat(Zs(k - 1)) \o "1"
P10m(k) == IF k = 0 THEN "0" ELSE Cat([i \in 1..k |-> "9"])
Mags == UNION {{P10(k), P10p(k), P10m(k)} : k \in 0..10}
        \cup {"127", "128", "255", "256", "32767", "32768", "65535", "65536", "2147483647", "2147483648",
              "4294967295", "4294967296", "281474976710655", "281474976710656", "59", "60", "61", "89", "90", "91",
              "179", "180", "181", "42849672", "42849673", "90000000", "90000001"}
\* WKS.from_text allocates one octet per 8 port numbers, one at a time, for ANY decimal port
\* (observation O2 in notes/C05.md): ports of more than 6 digits are kept out of its texts
NumSubstShort == {"0", "1", "2", "9", "10", "11", "99", "100", "101", "255", "256", "999", "1000", "1001", "65535", "65536",
                  "99999", "100000", "100001", "999999", "-1", "-0.0", "0.5", "1e3", "0x10", "+1", "00"}
NumSubst == Mags \cup {"-" \o m : m \in Mags} \cup {"0.5", "1.999", "59.999", "60.000", "0.0001", "-0.0", "1e3", "0x10", "+1", "00"}

\* ---- values the library accepts from wire that have no master-file form (or are not
\* well-formed by the defining RFC): for them only "producing text never fails" is required.
\* Fields written as base64 / hex have no spelling of the empty string:
EmptyUnrepresentable == {"TLSA.4", "SMIMEA.4", "CERT.4", "DHCID.1", "SSHFP.3", "DNSKEY.4", "CDNSKEY.4", "OPENPGPKEY.1",
                         "RRSIG.9", "SIG.9", "HHIT.1", "BRID.1", "TSIG.4", "TKEY.6", "NSAP.1"}
NoTextForm == {"OPT"}          \* EDNS pseudo-record: RFC 6891 defines no presentation format
FKey(ty, i) == ty \o "." \o ToString(i)
InSeq(x, q) == \E j \in 1..Len(q) : q[j] = x
Lenient(ty, v) ==
    \/ \E i \in 1..Len(v) : FKey(ty, i) \in EmptyUnrepresentable /\ v[i] = <<>>
    \/ ty \in {"NSEC", "NSEC3", "CSYNC"} /\ InSeq(0, v[Len(v)])             \* type 0 in a type bitmap
    \/ ty = "KEY" /\ ((v[1] \div 16384 = 3) # (v[4] = <<>>))                 \* RFC 2535 3.1.2: NOKEY <=> no key material
    \/ ty = "IPSECKEY" /\ v[5] = <<>> /\ v[3] # 0                            \* RFC 4025 2.4: no key only with algorithm 0
    \/ ty = "HIP" /\ (v[1][1] = <<>> \/ v[1][3] = <<>>)
=============================================================================
