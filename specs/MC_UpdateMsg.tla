---------------------------- MODULE MC_UpdateMsg ----------------------------
EXTENDS UpdateMsg

MCTypes == {"A", "TXT"}
MCTTLs == {0, 300}
Group(ty, ttl, rds) == [ty |-> ty, ttl |-> ttl, rds |-> rds]
\* one group of one or two RDATAs (both orders, also a repeated RDATA), or two groups of different types
MCGroups1 == {Group(ty, ttl, rds) : ty \in MCTypes, ttl \in MCTTLs, rds \in {<<1>>, <<1, 2>>, <<2, 1>>, <<2, 2>>}}
MCGroupSeqs == {<<g>> : g \in MCGroups1} \cup {<<Group("A", 300, <<1>>), Group("TXT", 0, <<2, 1>>)>>}
MCGroupSeqsSmall == {<<Group("A", 300, <<1>>)>>, <<Group("TXT", 0, <<2, 1>>)>>,
                     <<Group("A", 300, <<1>>), Group("TXT", 0, <<2, 1>>)>>}
\* the laws about the RFC table depend on the zone class only: evaluated in the initial states
Laws == ncalls = 0 => (ReplaceLaw /\ Sizes /\ Distinguishable)
=============================================================================
