INIT TraceInit
NEXT TraceNext
CONSTANTS
  Wide = FALSE
  Values = {}
CONSTRAINT Accepted
POSTCONDITION Post
CHECK_DEADLOCK FALSE
