----------------------- MODULE Trace_WriterAdmission -----------------------
(* Trace validation for C12.  One trace = one schedule executed on the real
   dns.versioned.Zone under the deterministic scheduler.  Every recorded operation (lock
   acquire/release, event creation/wait/set, API return) must be THE step of
   WriterAdmission that the thread is at, from the current specification state; source
   lines are not logged (stuttering).  The specification's internal (line) steps are not
   logged either: they are taken without consuming an event - eagerly, lowest thread
   first, except the three lines of the commit (cAppend, cPrune, cPublish) whose position
   relative to the lock-free direct reads ("peek") of other threads is left to TLC.

   The shared state projected by the driver is compared with the specification's at every
   acquire (nobody is inside a critical section) and after every release. *)
EXTENDS WriterAdmission, VTrace

VARIABLES t, l
tvars == <<vars, t, l>>

LazyLabels == {"cAppend", "cPrune", "cPublish"}
EagerLabels == {"wStart", "wTest", "wEnq", "wSetup", "xClear", "xTest", "xPop",
                "rStart", "rPick", "rcEnd", "rcPrune", "pStart", "pSet", "pPrune"}
StepOf(y) == IF y \in Writers THEN w(y) ELSE IF y \in Readers THEN r(y) ELSE pol(y)
PadPlan(p, i) == IF i <= Len(p) THEN p[i] ELSE <<>>

TraceInit ==
    /\ RegInit
    /\ t \in 1..NTraces /\ l = 1
    /\ plan = [i \in Writers |-> PadPlan(Log[t].plan, i)]
    /\ rplan = [i \in Readers |-> Log[t].rplan[i - 4]]
    /\ rmode = [i \in Readers |-> Log[t].rmode[i - 4]]
    /\ first = [y \in Readers |-> 0]
    /\ pplan = [i \in Policers |-> Log[t].pplan]
    /\ maxv = 1 /\ pk = [y \in Policers |-> 0]
    /\ lock = 0 /\ writeTxn = 0 /\ writeEvent = 0 /\ waiters = <<>> /\ evSet = {} /\ nextEv = 0
    /\ versions = <<[id |-> Log[t].vid0, content |-> <<>>]>>
    /\ published = <<>>
    /\ readerVer = [y \in Readers |-> 0]
    /\ admitOrder = <<>> /\ arrivals = <<>> /\ committed = {}
    /\ everVersions = {[id |-> Log[t].vid0, content |-> <<>>]}
    /\ k = [y \in Writers |-> 0] /\ myEv = [y \in Writers |-> 0] /\ enq = [y \in Writers |-> FALSE]
    /\ ver = [y \in Writers |-> 0] /\ snap = [y \in Writers |-> <<>>]
    /\ rk = [y \in Readers |-> 0] /\ rver = [y \in Readers |-> [id |-> 0, content |-> <<>>]]
    /\ pc = [y \in Threads |-> IF y \in Writers THEN "wStart" ELSE IF y \in Readers THEN "rStart" ELSE "pStart"]

e == Ev(t)[l]
th == e.t
Adv == l' = l + 1 /\ t' = t
Stay == l' = l /\ t' = t

\* the operation must be the one the thread is at; the clause names the mismatch
\* (an event of a thread whose own lazy internal steps are still pending in this branch is not
\* judged here: the branch that has taken them judges it - keeps the diagnostics meaningful)
NoLazy == \A y \in Threads : pc[y] \notin LazyLabels
At(labels) ==
    /\ (th \in Threads => pc[th] \notin LazyLabels)
    /\ Check(t, l, "Protocol:unknown-thread", th \in Threads)
    /\ Check(t, l, "Protocol:" \o e.op \o "@" \o pc[th], pc[th] \in labels)

Pinned(rv) == {<<y, rv[y]>> : y \in {z \in Readers : rv[z] # 0}}
\* projection of the real shared state = specification state (primed: after the step)
StateOK(st) ==
    /\ Check(t, l, "PinnedRetained", \A q \in ToSetOf(st.rd) : q[2] \in ToSetOf(st.vids))
    /\ Check(t, l, "State:write_txn", st.wt = writeTxn')
    /\ Check(t, l, "State:queue", st.we = writeEvent' /\ st.wq = waiters' /\ ToSetOf(st.es) = evSet')
    /\ Check(t, l, "State:versions", st.vids = Ids(versions') /\ ToSetOf(st.rd) = Pinned(readerVer'))
    /\ Check(t, l, "State:published", st.pub = published' /\ st.pubb = published'
                                      /\ st.lastc = Last(versions').content)

TAcquire == /\ e.op = "acquire" /\ At({"wAcq", "eAcq", "rAcq", "rcAcq", "pAcq"})
            /\ Check(t, l, "LockMutex", lock = 0)
            /\ StepOf(th) /\ StateOK(e.st) /\ Adv
TRelease == /\ e.op = "release" /\ At({"wRelA", "wRelW", "eRel", "rRel", "rcRel", "pRel"})
            /\ Check(t, l, "LockOwner", lock = th)
            /\ StepOf(th) /\ StateOK(e.st) /\ Adv
TNewEvent == /\ e.op = "newevent" /\ At({"wNewEv"})
             /\ StepOf(th) /\ Check(t, l, "EventIdentity", e.o = myEv'[th]) /\ Adv
TWait == /\ e.op = "wait" /\ At({"wWait"})
         /\ Check(t, l, "WakeUp", e.o = myEv[th] /\ e.o \in evSet)
         /\ StepOf(th) /\ Adv
TSet == /\ e.op = "set" /\ At({"xSet"})
        /\ Check(t, l, "WakeTarget", e.o = writeEvent)
        /\ StepOf(th) /\ Adv
TReturned == /\ e.op = "returned" /\ At({"wRet"})
             /\ Check(t, l, "MutualExclusion", writeTxn = th)
             /\ Check(t, l, "SerialRead", e.ver = ver[th] /\ e.snap = snap[th] /\ e.snapb = snap[th])
             /\ StepOf(th) /\ Adv
TBody == /\ e.op = "body" /\ At({"wBody"})
         /\ Check(t, l, "Plan", e.how = plan[th][k[th]])
         /\ Check(t, l, "SerialRead", e.read = snap[th])
         /\ StepOf(th) /\ Adv
TEnded == /\ e.op = "ended" /\ At({"eEnd"})
          /\ Check(t, l, "Plan", e.how = plan[th][k[th]])
          /\ StepOf(th) /\ Adv
ReaderView == /\ Check(t, l, "ReaderSnapshot", rver[th].id # 0 /\ e.vid = rver[th].id /\ e.c = rver[th].content /\ e.cb = rver[th].content)
              /\ (NoLazy \/ (e.peek = published /\ e.peekb = published))
              /\ Check(t, l, "PublishedIsCommitted", e.peek = published /\ e.peekb = published)
TROpen == /\ e.op = "ropen" /\ At({"rOpen"}) /\ ReaderView /\ StepOf(th) /\ Adv
TRRead == /\ e.op = "rread" /\ At({"rRead"}) /\ ReaderView /\ StepOf(th) /\ Adv
TPolicy == /\ e.op = "policyset" /\ At({"pEnd"})
           /\ Check(t, l, "Plan", e.n = pplan[th][pk[th]])
           /\ StepOf(th) /\ Adv
TRFail == /\ e.op = "rfail" /\ At({"rOpen"})
          /\ Check(t, l, "ReaderRefused", rver[th].id = 0)
          /\ StepOf(th) /\ Adv
TRClosed == /\ e.op = "rclosed" /\ At({"rEnd"}) /\ StepOf(th) /\ Adv
TFinal == /\ e.op = "final"
          /\ Check(t, l, "AllDone", \A y \in Threads : pc[y] = "Done")
          /\ Check(t, l, "LockFree", lock = 0 /\ e.st.lk = 0)
          /\ Check(t, l, "SerialEquivalence", e.st.pub = Serial(committed) /\ e.st.pubb = Serial(committed)
                                              /\ e.st.lastc = Serial(committed))
          /\ UNCHANGED vars /\ StateOK(e.st) /\ Adv
TBad == \/ e.op = "wait_timeout" /\ Check(t, l, "Protocol:timed-wait-expired (the admission protocol has no timed wait)", FALSE)
           /\ UNCHANGED vars /\ Adv
        \/ e.op = "deadlock" /\ Check(t, l, "NoDeadlock", FALSE) /\ UNCHANGED vars /\ Adv
        \/ e.op = "budget" /\ Check(t, l, "Terminates", FALSE) /\ UNCHANGED vars /\ Adv
        \/ e.op = "crash" /\ Check(t, l, "NoCrash:" \o e.exc, FALSE) /\ UNCHANGED vars /\ Adv
        \/ e.op = "driver_crash" /\ Check(t, l, "DriverCrash", FALSE) /\ UNCHANGED vars /\ Adv
KnownOps == {"acquire", "release", "newevent", "wait", "set", "returned", "body", "ended", "ropen",
             "rread", "rfail", "rclosed", "policyset", "final", "wait_timeout", "deadlock", "budget", "crash", "driver_crash"}
TUnknown == e.op \notin KnownOps /\ Check(t, l, "Protocol:unexpected-operation:" \o e.op, FALSE)
            /\ UNCHANGED vars /\ Adv

EagerThreads == {y \in Threads : pc[y] \in EagerLabels}
TraceNext ==
    IF EagerThreads # {}
    THEN StepOf(MinOf(EagerThreads)) /\ Stay
    ELSE \/ \E y \in Threads : pc[y] \in LazyLabels /\ StepOf(y) /\ Stay
         \/ /\ l <= Len(Ev(t))
            /\ \/ TAcquire \/ TRelease \/ TNewEvent \/ TWait \/ TSet \/ TReturned \/ TBody \/ TEnded
               \/ TROpen \/ TRRead \/ TRFail \/ TRClosed \/ TPolicy \/ TFinal \/ TBad \/ TUnknown

Accepted == Accepting(t, l)
=============================================================================
