INIT TraceInit
NEXT TraceNext
CONSTRAINT Accepted
POSTCONDITION Post
CHECK_DEADLOCK FALSE
