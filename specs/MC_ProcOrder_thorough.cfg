SPECIFICATION Spec
CONSTANTS
  RdSets <- MCRdSets
  MaxRecs = 4
INVARIANT PrefixOk
INVARIANT DoneAllowed
CHECK_DEADLOCK FALSE
