SPECIFICATION Spec
CONSTANTS
  Wide = TRUE
  Depth = 1
  Types <- TypeNames
INVARIANT RoundTrip
INVARIANT IllFormedNeverDecoded
INVARIANT Reencode
CHECK_DEADLOCK FALSE
