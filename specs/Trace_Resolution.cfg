INIT TraceInit
NEXT TraceNext
CONSTANTS
  Configs = {}
  StartTimes = {}
  MaxRes = 0
  MaxQ = 0
  MaxBack = 0
  TicksPerSec = 16
  MaxChain = 16
  BackoffTable <- TrBackoff
  Requests = {}
  IdleAdvances = {}
  Outcomes <- TrOutcomes
  Advances <- TrAdvances
CONSTRAINT Accepted
POSTCONDITION Post
CHECK_DEADLOCK FALSE
