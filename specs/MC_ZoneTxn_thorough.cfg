SPECIFICATION Spec
CONSTANTS
  Names = {"@", "a", "b.a"}
  Types = {"SOA", "NS", "A", "CNAME", "NSEC", "RRSIG/A", "RRSIG/CNAME"}
  RdIds = {1, 2}
  TTLs = {300, 600}
  Serials <- MCSerials
  SerialArgs <- MCSerialArgs
  InitZones <- MCInitZones
  MaxOps = 3
INVARIANT TypeOK
INVARIANT WorkingWellFormed
INVARIANT CommittedWellFormed
PROPERTY Atomic
PROPERTY OriginAtomic
PROPERTY RefusedIsNoop
PROPERTY ReadOnlyNoChange
PROPERTY EndedRefuses
CHECK_DEADLOCK FALSE
