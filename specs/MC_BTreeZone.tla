---------------------------- MODULE MC_BTreeZone ----------------------------
(* Bounded instance of BTreeZone for exhaustive model checking (C20). *)
EXTENDS BTreeZone, BTZNames

(* zones a load may install: flat, one cut with glue, nested cuts of depth 2 and 3 *)
Z_flat == {SOA, ApexNS, <<n_ns, "A", 1>>, <<n_f, "A", 1>>, <<n_bc, "TXT", 1>>}
Z_cut == {SOA, ApexNS, <<n_d, "NS", 1>>, <<n_xd, "A", 1>>, <<n_ed, "A", 1>>, <<n_f, "NS", 1>>}
Z_nest == {SOA, ApexNS, <<n_d, "NS", 1>>, <<n_xd, "NS", 1>>, <<n_yxd, "A", 1>>, <<n_bc, "A", 1>>}
Z_deep == {SOA, ApexNS, <<n_d, "A", 1>>, <<n_xd, "NS", 1>>, <<n_yxd, "NS", 1>>, <<n_ed, "NS", 1>>}
MCLoadSets == {Z_flat, Z_cut, Z_nest, Z_deep}
MCLoadSmall == {Z_nest}

ASSUME OrderLaws(UQueries)
=============================================================================
