---------------------------- MODULE MC_BTreeZone ----------------------------
(* Bounded instances of BTreeZone for exhaustive model checking (C20).
   1. Spec (histories): loads and update transactions within MaxTxns / MaxOps.
   2. ShapeSpec: EVERY content shape over a name set -- each non-apex name is absent,
      owns only non-NS data, or owns NS -- which is everything the derived state depends
      on; the laws are therefore checked for all contents over the universe. *)
EXTENDS BTZNames

(* zones a load may install: flat, one cut with glue, nested cuts of depth 2 and 3 *)
Z_flat == <<SOA, ApexNS, <<n_ns, "A", 1>>, <<n_f, "A", 1>>, <<n_bc, "TXT", 1>>>>
Z_cut == <<SOA, ApexNS, <<n_d, "NS", 1>>, <<n_xd, "A", 1>>, <<n_ed, "A", 1>>, <<n_f, "NS", 1>>>>
Z_nest == <<SOA, ApexNS, <<n_d, "NS", 1>>, <<n_xd, "NS", 1>>, <<n_yxd, "A", 1>>, <<n_bc, "A", 1>>>>
Z_deep == <<SOA, ApexNS, <<n_d, "A", 1>>, <<n_xd, "NS", 1>>, <<n_yxd, "NS", 1>>, <<n_ed, "NS", 1>>>>
Z_cname == <<SOA, ApexNS, <<n_d, "NS", 1>>, <<n_xd, "A", 1>>, <<n_ed, "CNAME", 1>>, <<n_f, "NS", 1>>, <<n_f, "CNAME", 1>>>>
MCLoadSets == {Z_flat, Z_cut, Z_nest, Z_deep, Z_cname}

CONSTANT ShapeNames
ShapeInit == /\ content = EmptyContent /\ working = EmptyContent
             /\ mode = "pick-ns" /\ nops = 0 /\ ntxn = 0
ShapeNext ==
    \/ /\ mode = "pick-ns"
       /\ \E N \in SUBSET (ShapeNames \ {Apex}) :
             working' = ContentOf({<<n, "NS", 1>> : n \in N} \cup {ApexNS})
       /\ mode' = "pick-other" /\ UNCHANGED <<content, nops, ntxn>>
    \/ /\ mode = "pick-other"
       /\ \E A \in SUBSET (ShapeNames \ Nodes(working)) :
             content' = ContentOf({<<n, "NS", 1>> : n \in Nodes(working)} \cup {<<n, "A", 1>> : n \in A} \cup {SOA})
       /\ mode' = "idle" /\ working' = EmptyContent /\ UNCHANGED <<nops, ntxn>>
ShapeSpec == ShapeInit /\ [][ShapeNext]_vars

ASSUME OrderLaws(WQueries)
ASSUME TableOK
=============================================================================
