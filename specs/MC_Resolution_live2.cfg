SPECIFICATION FairSpec
CONSTANTS
  Configs <- MCConfigsL2
  StartTimes = {1600}
  MaxRes = 1
  MaxQ = 1000
  MaxBack = 0
  TicksPerSec = 16
  MaxChain = 16
  BackoffTable <- MCBackoff
  Requests <- MCRequests1
  IdleAdvances = {0}
  Outcomes <- MCOutcomesL
  Advances <- MCAdvancesL
INVARIANT TypeOK
PROPERTY Terminates
CHECK_DEADLOCK FALSE
