SPECIFICATION Spec
CONSTANTS
  Dgrams <- MCLiveD
  Configs <- MCConfigsLive
  MaxDgrams = 2
  MaxBlocks = 1
INVARIANT TypeOK
INVARIANT ReturnOnlyGenuine
INVARIANT ReturnSound
INVARIANT GenuineEnds
INVARIANT SpoofCannotEnd
INVARIANT VerdictTotal
INVARIANT DeadlineRespected
PROPERTY SkipKeepsListening
PROPERTY EndIsFinal
PROPERTY Terminates
CHECK_DEADLOCK FALSE
