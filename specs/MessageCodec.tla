---------------------------- MODULE MessageCodec ----------------------------
(* Wire codec of DNS messages, written from RFC 1035 section 4 (header, question, RR,
   name compression), RFC 6891 (OPT: class = payload, TTL = ext-rcode|version|flags),
   RFC 2136 section 2 (update sections and the class ANY / NONE forms), RFC 8945 (TSIG RR
   is the last record of ADDITIONAL, class ANY, TTL 0).

   Values.  An octet string is a Seq(0..255).  A label is a non-empty octet string, a
   name is a sequence of labels (the root is <<>>; every name here is absolute).
   RDATA is abstract: a sequence of items
        <<"b", octets>>          literal octets
        <<"z", n, fill>>         n octets, all equal to fill (large opaque payloads)
        <<"n", name, c, a>>      an embedded domain name; c = the encoder may replace a
                                 suffix by a pointer, a = the encoder registers its
                                 suffixes as compression targets (free choices per type)
   32-bit quantities that may exceed 2^31-1 (TTL, EDNS flags) are pairs of 16-bit limbs. *)
EXTENDS Integers, Sequences, FiniteSets, TLC

U16(n) == <<n \div 256, n % 256>>
U32L(l) == U16(l[1]) \o U16(l[2])
U32(n) == <<n \div 16777216, (n \div 65536) % 256, (n \div 256) % 256, n % 256>>
Rd16(w, p) == w[p + 1] * 256 + w[p + 2]              \* p is a 0-based offset
Fill(n, b) == [i \in 1..n |-> b]

Lower(b) == IF b >= 65 /\ b <= 90 THEN b + 32 ELSE b
LowerLabel(l) == [i \in 1..Len(l) |-> Lower(l[i])]
LowerName(n) == [i \in 1..Len(n) |-> LowerLabel(n[i])]
NameEqCI(a, b) == LowerName(a) = LowerName(b)         \* RFC 1035 2.3.3 / RFC 4343
RECURSIVE NameWireLen(_)
NameWireLen(n) == IF n = <<>> THEN 1 ELSE 1 + Len(n[1]) + NameWireLen(Tail(n))

(* ------------------------------------------------------------------ name encoder *)
\* A compression table maps a lower-cased non-root name to the offset of an occurrence.
MaxPtr == 16383
RECURSIVE EncName(_, _, _, _, _)
EncName(n, pos, tab, c, a) ==
    IF n = <<>> THEN [b |-> <<0>>, t |-> tab]
    ELSE LET k == LowerName(n) IN
         IF c /\ k \in DOMAIN tab THEN [b |-> U16(49152 + tab[k]), t |-> tab]
         ELSE LET tab1 == IF a /\ pos <= MaxPtr /\ k \notin DOMAIN tab THEN tab @@ (k :> pos) ELSE tab
                  r == EncName(Tail(n), pos + 1 + Len(n[1]), tab1, c, a)
              IN [b |-> <<Len(n[1])>> \o n[1] \o r.b, t |-> r.t]

(* ------------------------------------------------------------------ name decoder
   The "independent decoder" of the property: RFC 1035 4.1.4.  A pointer must target an
   offset strictly before the start of the label run it ends (so decoding terminates and
   every pointer refers to an EARLIER occurrence).  lit = number of labels read literally
   before the first pointer of the outermost run. *)
BadName == [ok |-> FALSE, name |-> <<>>, next |-> 0, lit |-> 0]
RECURSIVE DecName(_, _, _)
DecName(w, p, lim) ==
    IF p >= Len(w) THEN BadName
    ELSE LET b == w[p + 1] IN
         IF b = 0 THEN [ok |-> TRUE, name |-> <<>>, next |-> p + 1, lit |-> 0]
         ELSE IF b >= 192 THEN
             IF p + 1 >= Len(w) THEN BadName
             ELSE LET tgt == (b - 192) * 256 + w[p + 2] IN
                  IF tgt >= lim THEN BadName
                  ELSE LET r == DecName(w, tgt, tgt)
                       IN [ok |-> r.ok, name |-> r.name, next |-> p + 2, lit |-> 0]
         ELSE IF b >= 64 \/ p + 1 + b > Len(w) THEN BadName
         ELSE LET r == DecName(w, p + 1 + b, lim)
              IN [ok |-> r.ok, name |-> <<SubSeq(w, p + 2, p + 1 + b)>> \o r.name,
                  next |-> r.next, lit |-> r.lit + 1]
Decode(w, p) == DecName(w, p, p)

\* section-3 reading of "identical names": literal labels byte for byte, a pointer-replaced
\* suffix equal as a DNS name
SameName(d, n) == /\ d.ok /\ Len(d.name) = Len(n)
                  /\ SubSeq(d.name, 1, d.lit) = SubSeq(n, 1, d.lit)
                  /\ NameEqCI(d.name, n)

(* ------------------------------------------------------------------ header *)
QR == 32768  AA == 1024  TC == 512  RD == 256  RA == 128  AD == 32  CD == 16
OpQuery == 0  OpNotify == 4  OpUpdate == 5
OpcodeOf(flags) == (flags \div 2048) % 16
OpcodeBits(op) == op * 2048
\* the 12-bit rcode: low 4 bits in the header, high 8 bits in the top octet of the OPT TTL
RcodeLow(rc) == rc % 16
RcodeHigh(rc) == rc \div 16
\* OPT TTL as limbs: <<ext-rcode * 256 + version, flags (DO = 32768)>>
OptTtl(rc, version, eflags) == <<RcodeHigh(rc) * 256 + version, eflags>>
RcodeOf(flags, optttl) == (flags % 16) + 16 * (optttl[1] \div 256)
VersionOf(optttl) == optttl[1] % 256
HasBit(flags, bit) == (flags \div bit) % 2 = 1
Header(id, flags, counts) == U16(id) \o U16(flags) \o U16(counts[1]) \o U16(counts[2])
                             \o U16(counts[3]) \o U16(counts[4])

ClsIN == 1  ClsNONE == 254  ClsANY == 255
TyA == 1  TyNS == 2  TySOA == 6  TyTXT == 16  TySRV == 33  TyOPT == 41  TyRRSIG == 46
TyTSIG == 250  TyANY == 255  TyPriv == 65280

(* ------------------------------------------------------------------ RDATA, RR, RRset
   A record set is [name, type, cls, ttl, rds]: cls is the class as it appears on the
   wire, ttl a limb pair, rds a sequence of RDATAs (item sequences).  An EMPTY record set
   is rendered as ONE record with TTL 0 and RDLENGTH 0 (RFC 2136 2.4/2.5 forms, and the
   convention of the library for questions-as-rrsets). *)
RECURSIVE EncItems(_, _, _)
EncItems(it, pos, tab) ==
    IF it = <<>> THEN [b |-> <<>>, t |-> tab]
    ELSE LET h == it[1]
             e == IF h[1] = "b" THEN [b |-> h[2], t |-> tab]
                  ELSE IF h[1] = "z" THEN [b |-> Fill(h[2], h[3]), t |-> tab]
                  ELSE EncName(h[2], pos, tab, h[3], h[4])
             r == EncItems(Tail(it), pos + Len(e.b), e.t)
         IN [b |-> e.b \o r.b, t |-> r.t]

EncRR(name, type, cls, ttl, items, pos, tab) ==
    LET o == EncName(name, pos, tab, TRUE, TRUE)
        rdpos == pos + Len(o.b) + 10
        d == EncItems(items, rdpos, o.t)
    IN [b |-> o.b \o U16(type) \o U16(cls) \o U32L(ttl) \o U16(Len(d.b)) \o d.b, t |-> d.t]

RECURSIVE EncRds(_, _, _, _)
EncRds(rs, i, pos, tab) ==
    IF i > Len(rs.rds) THEN [b |-> <<>>, t |-> tab]
    ELSE LET e == EncRR(rs.name, rs.type, rs.cls, rs.ttl, rs.rds[i], pos, tab)
             r == EncRds(rs, i + 1, pos + Len(e.b), e.t)
         IN [b |-> e.b \o r.b, t |-> r.t]
EncRRset(rs, pos, tab) ==
    IF rs.rds = <<>> THEN EncRR(rs.name, rs.type, rs.cls, <<0, 0>>, <<>>, pos, tab)
    ELSE EncRds(rs, 1, pos, tab)
RRCount(rs) == IF rs.rds = <<>> THEN 1 ELSE Len(rs.rds)

EncQuestion(q, pos, tab) ==
    LET o == EncName(q.name, pos, tab, TRUE, TRUE)
    IN [b |-> o.b \o U16(q.type) \o U16(q.cls), t |-> o.t]

\* the records a record set stands for, in order
ExpRRs(rs, sec) ==
    IF rs.rds = <<>> THEN <<[sec |-> sec, name |-> rs.name, type |-> rs.type, cls |-> rs.cls,
                             ttl |-> <<0, 0>>, items |-> <<>>, empty |-> TRUE]>>
    ELSE [i \in 1..Len(rs.rds) |-> [sec |-> sec, name |-> rs.name, type |-> rs.type, cls |-> rs.cls,
                                    ttl |-> rs.ttl, items |-> rs.rds[i], empty |-> FALSE]]
\* (empty: the record stands for an EMPTY record set; a record whose RDATA has length 0 is a different thing)
RECURSIVE ExpSection(_, _)
ExpSection(rss, sec) == IF rss = <<>> THEN <<>> ELSE ExpRRs(rss[1], sec) \o ExpSection(Tail(rss), sec)

(* ------------------------------------------------------------------ RFC 2136 forms
   zc = class of the zone (ZONE section record).  The wire fields of each form: *)
UpdForms == {"rrset-exists", "rrset-exists-value", "name-in-use", "rrset-absent", "name-not-in-use",
             "add", "del-rrset", "del-name", "del-rr"}
PrereqForms == {"rrset-exists", "rrset-exists-value", "name-in-use", "rrset-absent", "name-not-in-use"}
FormSec(f) == IF f \in PrereqForms THEN 1 ELSE 2
FormCls(f, zc) == CASE f \in {"rrset-exists", "name-in-use", "del-rrset", "del-name"} -> ClsANY
                    [] f \in {"rrset-absent", "name-not-in-use", "del-rr"} -> ClsNONE
                    [] OTHER -> zc
FormAnyType(f) == f \in {"name-in-use", "name-not-in-use", "del-name"}
FormEmpty(f) == f \notin {"rrset-exists-value", "add", "del-rr"}
FormZeroTtl(f) == f # "add"
\* inverse: which form a parsed update record is (sec 1 = PREREQ, 2 = UPDATE)
FormOf(sec, cls, type, zc) ==
    IF sec = 1 THEN (IF cls = ClsANY THEN (IF type = TyANY THEN "name-in-use" ELSE "rrset-exists")
                     ELSE IF cls = ClsNONE THEN (IF type = TyANY THEN "name-not-in-use" ELSE "rrset-absent")
                     ELSE "rrset-exists-value")
    ELSE (IF cls = ClsANY THEN (IF type = TyANY THEN "del-name" ELSE "del-rrset")
          ELSE IF cls = ClsNONE THEN "del-rr" ELSE "add")
\* the parser's view (RFC 2136 3.2.4 / 3.4.2.x): a record whose class is ANY/NONE is a
\* record of the zone's class carrying a "deleting" marker; deleting = 0 means none
DeletingOf(sec, cls) == IF sec \in {1, 2} /\ cls \in {ClsANY, ClsNONE} THEN cls ELSE 0

(* ------------------------------------------------------------------ Parse (inverse)
   Unguided: header, questions, records up to RDLENGTH (RDATA is skipped by length).
   Guided: the RDATA octets of a record are matched against the abstract items. *)
BadList == [ok |-> FALSE, items |-> <<>>, next |-> 0]
RECURSIVE ParseQs(_, _, _)
ParseQs(w, p, n) ==
    IF n = 0 THEN [ok |-> TRUE, items |-> <<>>, next |-> p]
    ELSE LET d == Decode(w, p) IN
         IF ~d.ok \/ d.next + 4 > Len(w) THEN BadList
         ELSE LET r == ParseQs(w, d.next + 4, n - 1)
              IN [ok |-> r.ok, next |-> r.next,
                  items |-> <<[nm |-> d, type |-> Rd16(w, d.next), cls |-> Rd16(w, d.next + 2)]>> \o r.items]

RECURSIVE ParseRRs(_, _, _, _)
ParseRRs(w, p, n, sec) ==
    IF n = 0 THEN [ok |-> TRUE, items |-> <<>>, next |-> p]
    ELSE LET d == Decode(w, p) IN
         IF ~d.ok \/ d.next + 10 > Len(w) THEN BadList
         ELSE LET q == d.next
                  rdlen == Rd16(w, q + 8)
              IN IF q + 10 + rdlen > Len(w) THEN BadList
                 ELSE LET r == ParseRRs(w, q + 10 + rdlen, n - 1, sec)
                      IN [ok |-> r.ok, next |-> r.next,
                          items |-> <<[sec |-> sec, start |-> p, nm |-> d, type |-> Rd16(w, q),
                                       cls |-> Rd16(w, q + 2), ttl |-> <<Rd16(w, q + 4), Rd16(w, q + 6)>>,
                                       rdoff |-> q + 10, rdlen |-> rdlen]>> \o r.items]

BadMsg == [ok |-> FALSE]
Parse(w) ==
    IF Len(w) < 12 THEN BadMsg
    ELSE LET counts == <<Rd16(w, 4), Rd16(w, 6), Rd16(w, 8), Rd16(w, 10)>>
             q == ParseQs(w, 12, counts[1]) IN
         IF ~q.ok THEN BadMsg
         ELSE LET an == ParseRRs(w, q.next, counts[2], 1) IN
         IF ~an.ok THEN BadMsg
         ELSE LET au == ParseRRs(w, an.next, counts[3], 2) IN
         IF ~au.ok THEN BadMsg
         ELSE LET ad == ParseRRs(w, au.next, counts[4], 3) IN
         IF ~ad.ok \/ ad.next # Len(w) THEN BadMsg      \* no trailing octets
         ELSE [ok |-> TRUE, id |-> Rd16(w, 0), flags |-> Rd16(w, 2), counts |-> counts,
               q |-> q.items, rr |-> an.items \o au.items \o ad.items]

RECURSIVE MatchItems(_, _, _, _)
MatchItems(w, p, end, it) ==
    IF it = <<>> THEN p = end
    ELSE LET h == it[1] IN
         IF h[1] = "b" THEN /\ p + Len(h[2]) <= end /\ SubSeq(w, p + 1, p + Len(h[2])) = h[2]
                            /\ MatchItems(w, p + Len(h[2]), end, Tail(it))
         ELSE IF h[1] = "z" THEN /\ p + h[2] <= end /\ \A i \in (p + 1)..(p + h[2]) : w[i] = h[3]
                                 /\ MatchItems(w, p + h[2], end, Tail(it))
         ELSE LET d == Decode(w, p) IN
              /\ SameName(d, h[2]) /\ d.next <= end /\ MatchItems(w, d.next, end, Tail(it))

\* a parsed record r is the expected record x (names by the section-3 reading)
MatchRR(w, r, x) ==
    /\ r.sec = x.sec /\ SameName(r.nm, x.name) /\ r.type = x.type /\ r.cls = x.cls /\ r.ttl = x.ttl
    /\ MatchItems(w, r.rdoff, r.rdoff + r.rdlen, x.items)
MatchQ(r, x) == SameName(r.nm, x.name) /\ r.type = x.type /\ r.cls = x.cls

\* w parses to exactly id/flags, the questions qs and the records xs (sequence of ExpRRs)
WireIs(w, id, flags, qs, xs) ==
    LET m == Parse(w) IN
    /\ m.ok /\ m.id = id /\ m.flags = flags
    /\ Len(m.q) = Len(qs) /\ \A i \in 1..Len(qs) : MatchQ(m.q[i], qs[i])
    /\ Len(m.rr) = Len(xs) /\ \A i \in 1..Len(xs) : MatchRR(w, m.rr[i], xs[i])
    /\ \A s \in 1..3 : m.counts[s + 1] = Cardinality({i \in 1..Len(xs) : xs[i].sec = s})

(* ------------------------------------------------------------------ RDATA layouts
   Abstract RDATA of the record kinds used by the models, from the defining RFCs
   (1035: A, NS, SOA, TXT; 2782: SRV; 4034: RRSIG; private-use type 65280 = opaque).
   cmp[kind] = <<c, a>>: the encoder's free choice whether embedded names of that kind are
   compressed / registered (RFC 3597 s4 allows it only for the RFC 1035 types). *)
KindType(kind) == CASE kind = "A" -> TyA [] kind = "NS" -> TyNS [] kind = "SOA" -> TySOA
                    [] kind = "TXT" -> TyTXT [] kind = "SRV" -> TySRV [] kind = "RRSIG" -> TyRRSIG
                    [] kind = "SIG" -> 24 [] kind = "NULL" -> 10
                    [] OTHER -> TyPriv
RfcCmp == [NS |-> <<TRUE, TRUE>>, SOA |-> <<TRUE, TRUE>>, SRV |-> <<FALSE, FALSE>>, RRSIG |-> <<FALSE, FALSE>>]
NameItem(n, f) == <<"n", n, f[1], f[2]>>
\* k distinguishes rdatas of one kind; TXT: payload length k % 1000 of octet 120 + k \div 1000;
\* BIG: payload length k
RdataItems(kind, n1, n2, k, cmp) ==
    CASE kind = "A" -> <<<<"b", <<10, 0, 0, k>>>>>>
      [] kind = "NS" -> <<NameItem(n1, cmp.NS)>>
      [] kind = "SOA" -> <<NameItem(n1, cmp.SOA), NameItem(n2, cmp.SOA),
                           <<"b", U32(k) \o U32(3600) \o U32(600) \o U32(86400) \o U32(300)>>>>
      [] kind = "SRV" -> <<<<"b", U16(k) \o U16(5) \o U16(53)>>, NameItem(n1, cmp.SRV)>>
      [] kind = "NULL" -> IF k = 0 THEN <<>> ELSE <<<<"z", k, 170>>>>       \* RFC 1035 3.3.10: anything, also nothing
      [] kind \in {"RRSIG", "SIG"} -> <<<<"b", U16(IF k % 2 = 1 THEN TyA ELSE TyNS) \o <<8, 2>> \o U32(300) \o U32(1893456000) \o U32(1577836800)
                                    \o U16(1000 + k)>>, NameItem(n1, cmp.RRSIG), <<"b", <<0, 0, k>>>>>>
      [] kind = "TXT" -> <<<<"b", <<k % 1000>>>>, <<"z", k % 1000, 120 + (k \div 1000)>>>>
      [] OTHER -> <<<<"z", k, 170>>>>
\* a script record r = [sec, name, kind, n1, n2, k, nrd, ttl, form] as a record set; form is
\* "plain" or an RFC 2136 form; zc = class of the zone (of the message, for plain records)
MkRRset(r, cmp, zc) ==
    LET upd == r.form # "plain"
        empty == IF upd THEN FormEmpty(r.form) ELSE r.nrd = 0
        step == IF r.kind = "TXT" THEN 1000 ELSE IF r.kind = "BIG" THEN 0 ELSE 1
    IN [name |-> r.name,
        type |-> IF upd /\ FormAnyType(r.form) THEN TyANY ELSE KindType(r.kind),
        cls |-> IF upd THEN FormCls(r.form, zc) ELSE zc,
        ttl |-> IF upd /\ FormZeroTtl(r.form) THEN <<0, 0>> ELSE r.ttl,
        rds |-> IF empty THEN <<>>
                ELSE [i \in 1..(IF r.nrd = 0 THEN 1 ELSE r.nrd) |-> RdataItems(r.kind, r.n1, r.n2, r.k + step * (i - 1), cmp)]]
\* OPT as a record set: options = sequence of <<code, body octets>> (generic pairs: the codec does
\* not interpret option bodies)
RECURSIVE OptionItems(_)
OptionItems(os) == IF os = <<>> THEN <<>>
                   ELSE <<<<"b", U16(os[1][1]) \o U16(Len(os[1][2])) \o os[1][2]>>>> \o OptionItems(Tail(os))
MkOpt(payload, ttl, options) == [name |-> <<>>, type |-> TyOPT, cls |-> payload, ttl |-> ttl, rds |-> <<OptionItems(options)>>]
\* TSIG as a record set (RFC 8945 4.2): algorithm name never compressed; t48 = time signed
\* as 6 octets, mac = the MAC octets (a cryptographic value, taken as given)
MkTsig(key, alg, t48, fudge, mac, origid, err, other) ==
    [name |-> key, type |-> TyTSIG, cls |-> ClsANY, ttl |-> <<0, 0>>,
     rds |-> <<<<<<"n", alg, FALSE, FALSE>>,
                 <<"b", t48 \o U16(fudge) \o U16(Len(mac)) \o mac \o U16(origid) \o U16(err) \o U16(Len(other)) \o other>>>>>>]

\* a script header h = [id, opcode, bits, rcode, edns]; edns = <<"none">> or
\* <<"edns", version, eflags, payload, options>>
HdrFlags(h) == h.bits + OpcodeBits(h.opcode) + RcodeLow(h.rcode)
HdrOpt(h) == MkOpt(h.edns[4], OptTtl(h.rcode, h.edns[2], h.edns[3]), h.edns[5])

\* RDATA octets in uncompressed form (as a parsed message object re-encodes them) against
\* the abstract items: embedded names equal as DNS names
RECURSIVE MatchItemsCI(_, _, _)
MatchItemsCI(w, p, it) ==
    IF it = <<>> THEN p = Len(w)
    ELSE LET h == it[1] IN
         IF h[1] = "b" THEN /\ p + Len(h[2]) <= Len(w) /\ SubSeq(w, p + 1, p + Len(h[2])) = h[2]
                            /\ MatchItemsCI(w, p + Len(h[2]), Tail(it))
         ELSE IF h[1] = "z" THEN /\ p + h[2] <= Len(w) /\ \A i \in (p + 1)..(p + h[2]) : w[i] = h[3]
                                 /\ MatchItemsCI(w, p + h[2], Tail(it))
         ELSE LET d == Decode(w, p) IN
              /\ d.ok /\ NameEqCI(d.name, h[2]) /\ MatchItemsCI(w, d.next, Tail(it))
=============================================================================
