----------------------------- MODULE AddrUniverse -----------------------------
(* The bounded universes of X01, shared by MC_AddrCodec (laws) and Gen_AddrCodec (the same
   inputs emitted for the driver).

   IPv6 addresses: every pattern of zero / non-zero 16-bit groups (mask 0..255) under the
   value schemes of Schemes (1: every non-zero group 1; 2: the values 1, 0x10, 0xff, 0x100,
   0xffff cyclically by position; 3: 0xffff; 4: scheme 2 shifted; 5: 0x100), plus the embedded
   IPv4 addresses ::/96 and ::ffff:0:0/96 over QuadOctets^4.
   Texts: every RFC 4291 spelling of an address obtained by choosing which run of zero groups
   (if any) is written "::", leading zeros (none / padded to 4) and letter case, plus the
   mixed x:x:x:x:x:x:d.d.d.d spellings; malformed texts by single faults (a character
   inserted or deleted at every position, scope suffixes). *)
EXTENDS AddrNames

CONSTANTS Schemes, QuadOctets, V4Octets

ValSeq == <<1, 16, 255, 256, 65535>>
GroupVal(s, i) == CASE s = 1 -> 1
                    [] s = 2 -> ValSeq[((i - 1) % 5) + 1]
                    [] s = 3 -> 65535
                    [] s = 4 -> ValSeq[((i + 1) % 5) + 1]
                    [] s = 5 -> 256
Bit(m, i) == (m \div (2 ^ (8 - i))) % 2                       \* group 1 is the top bit
GroupsOf(m, s) == [i \in 1..8 |-> IF Bit(m, i) = 1 THEN GroupVal(s, i) ELSE 0]
Bytes(g) == [k \in 1..16 |-> IF k % 2 = 1 THEN g[(k + 1) \div 2] \div 256 ELSE g[k \div 2] % 256]
AddrOf(m, s) == Bytes(GroupsOf(m, s))
PatternAddrs(m) == {AddrOf(m, s) : s \in Schemes}
U6 == UNION {PatternAddrs(m) : m \in 0..255}
Quads == [1..4 -> QuadOctets]
EmbeddedAddrs == {Zeros(10) \o <<p, p>> \o q : p \in {0, 255}, q \in Quads}
McOctets == {223, 224, 239, 240}                       \* around 224.0.0.0/4, first octet only
U4 == {a \in [1..4 -> V4Octets \cup McOctets] : \A k \in 2..4 : a[k] \in V4Octets}
(* addresses around ff00::/8 (multicast), fe80::/10, and the documentation examples *)
Special6 == {<<h, lo>> \o Zeros(13) \o <<e>> : h \in {254, 255}, lo \in {0, 2, 128}, e \in {0, 1}}
            \cup {<<32, 1, 13, 184>> \o Zeros(11) \o <<1>>, <<32, 1, 5, 3, 131, 235>> \o Zeros(9) \o <<48>>,
                  <<0, 100, 255, 155>> \o Zeros(8) \o <<192, 0, 2, 33>>}

-----------------------------------------------------------------------------
(* spellings of an address *)
Upper(c) == IF c >= 97 /\ c <= 102 THEN c - 32 ELSE c
Pad4(g) == <<HexChar(g \div 4096), HexChar((g \div 256) % 16), HexChar((g \div 16) % 16), HexChar(g % 16)>>
GroupText(g, pad, up) == LET x == IF pad THEN Pad4(g) ELSE HexOf(g)
                         IN  IF up THEN [k \in 1..Len(x) |-> Upper(x[k])] ELSE x
GTexts(g, lo, hi, pad, up) == [k \in 1..(hi - lo + 1) |-> GroupText(g[lo + k - 1], pad, up)]
(* groups 1..last written out; (i, n) = the run written "::" (n = 0: none) *)
Spell(g, last, i, n, pad, up) ==
    IF n = 0 THEN Join(GTexts(g, 1, last, pad, up), Colon)
    ELSE Join(GTexts(g, 1, i - 1, pad, up), Colon) \o <<Colon, Colon>> \o Join(GTexts(g, i + n, last, pad, up), Colon)
Runs(g, last) == {<<1, 0>>} \cup {<<i, n>> \in (1..last) \X (1..last) : i + n - 1 <= last /\ ZeroRun(g, i, n)}
HexSpellings(a) == LET g == Grp(a)
                   IN  {Spell(g, 8, r[1], r[2], pad, up) : r \in Runs(g, 8), pad \in BOOLEAN, up \in BOOLEAN}
MixedSpellings(a) ==
    LET g == Grp(a)
        Hd(r) == Spell(g, 6, r[1], r[2], FALSE, FALSE)
        Sep(r) == IF r[2] > 0 /\ r[1] + r[2] - 1 = 6 THEN <<>> ELSE <<Colon>>      \* "::" already ends the head
    IN  {Hd(r) \o Sep(r) \o Ntoa4(Low32(a)) : r \in Runs(g, 6)}
Spellings(a) == HexSpellings(a) \cup MixedSpellings(a)

-----------------------------------------------------------------------------
(* single faults *)
InsertAt(t, p, c) == SubSeq(t, 1, p) \o <<c>> \o SubSeq(t, p + 1, Len(t))      \* p in 0..Len(t)
DeleteAt(t, p) == SubSeq(t, 1, p - 1) \o SubSeq(t, p + 1, Len(t))
EverywhereChars == {Colon, Dot, Zero, 49, 103, 10, 32}            \*  : . 0 1 g \n space
EndChars == {Percent, 45, 47, 120, 71, 0, 233, 1636}            \*  % - / x G NUL e-acute ARABIC-INDIC FOUR
Scopes == {<<Percent, 49>>, <<Percent, 101, 116, 104, 48>>, <<Percent>>, <<Percent, 97, Percent, 98>>,
           <<Percent, 52, 50>>}
Faults(t) ==
    {InsertAt(t, p, c) : p \in 0..Len(t), c \in EverywhereChars}
    \cup {DeleteAt(t, p) : p \in 1..Len(t)}
    \cup {InsertAt(t, p, c) : p \in {0, Len(t)}, c \in EndChars}
    \cup {t \o s : s \in Scopes}
    \cup {<<Colon, Colon>> \o t, t \o <<Colon, Colon>>, <<>>, <<Percent, 49>>}

V4Faults(t) ==
    {InsertAt(t, p, c) : p \in 0..Len(t), c \in {Dot, Zero, 49, 50, 10, 32, 43, 120}}
    \cup {DeleteAt(t, p) : p \in 1..Len(t)}
    \cup {InsertAt(t, p, c) : p \in {0, Len(t)}, c \in EndChars \cup {Colon}}
    \cup {t \o s : s \in Scopes} \cup {<<>>}

-----------------------------------------------------------------------------
(* names for to_address: the reverse name of an address and single faults on it *)
InAddr == <<<<105, 110, 45, 97, 100, 100, 114>>, <<97, 114, 112, 97>>, <<>>>>          \* in-addr.arpa.
Ip6 == <<<<105, 112, 54>>, <<97, 114, 112, 97>>, <<>>>>                               \* ip6.arpa.
InAddrUp == <<<<73, 78, 45, 65, 68, 68, 82>>, <<65, 82, 80, 65>>, <<>>>>               \* IN-ADDR.ARPA.
Ip6Up == <<<<73, 80, 54>>, <<65, 114, 80, 97>>, <<>>>>                                \* IP6.ArPa.
Alt4 == <<<<118, 52>>, <<101, 120>>, <<>>>>                                          \* v4.ex.
Alt6 == <<<<118, 54>>, <<101, 120>>, <<>>>>                                          \* v6.ex.
E164 == <<<<101, 49, 54, 52>>, <<97, 114, 112, 97>>, <<>>>>                            \* e164.arpa.
E164Up == <<<<69, 49, 54, 52>>, <<65, 82, 80, 65>>, <<>>>>
AltE == <<<<101, 110, 117, 109>>, <<101, 120>>, <<>>>>                               \* enum.ex.
BadLabels == {<<97, 98>>, <<49, Dot, 50>>, <<Colon>>, <<103>>, <<48, 49>>, <<50, 53, 54>>, <<48, 48>>,
              <<70>>, <<49, 48>>, <<233>>, <<32>>, <<49, 10>>}
(* k = number of address labels in front of the origin *)
NameFaults(n, k) ==
    {SubSeq(n, 1, i - 1) \o SubSeq(n, i + 1, Len(n)) : i \in 1..k}                          \* a label dropped
    \cup {SubSeq(n, 1, i) \o SubSeq(n, i, Len(n)) : i \in {1, k} \cap (1..k)}                            \* a label doubled
    \cup {[n EXCEPT ![i] = b] : i \in {1, 2, k} \cap (1..k), b \in BadLabels}                             \* a label replaced
    \cup {SubSeq(n, 1, i - 1) \o <<n[i + 1] \o n[i]>> \o SubSeq(n, i + 2, Len(n)) : i \in {1, k - 1} \cap (1..(k - 1))}  \* two labels merged
    \cup {SubSeq(n, 1, i - 1) \o <<n[i + 1] \o <<Dot>> \o n[i]>> \o SubSeq(n, i + 2, Len(n)) : i \in {1, k - 1} \cap (1..(k - 1))}  \* ... with a dot inside the label
    \cup {SubSeq(n, k + 1, Len(n)), SubSeq(n, 1, k) \o <<<<120>>, <<>>>>, SubSeq(n, 1, k)}  \* origin only / elsewhere / relative
=============================================================================
