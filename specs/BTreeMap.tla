------------------------------ MODULE BTreeMap ------------------------------
(* Reference model of dns.btree (BTree / BTreeDict / BTreeSet / Cursor), property C19.

   A tree handle is a sorted map from keys to values plus two flags; NOTHING of the node
   structure is state here.  Every handle is a function of its own history only, so
   isolation of copy-on-write clones holds by construction in the model and has to be
   OBSERVED in the code: the trace specification compares every handle after every
   call, not only the handle that was called.

   A cursor is a GAP in the key order of its tree: the set of keys on its left is
   {} (left boundary), everything (right boundary), {x : x < k} ("lt", what
   seek(k, before=True) gives) or {x : x <= k} ("le", seek(k, before=False), and the
   position after next() returned k).  next() returns the least key to the right of
   the gap, prev() the greatest key to the left.  The meaning does not mention nodes,
   so it is also the meaning of a cursor that was parked across mutations.

   The node structure appears only as the predicate WellFormed(shape, t) over a
   logged node tree <<keys, children>>; the trace specification evaluates it on what
   the implementation built. *)
EXTENDS Integers, Sequences, FiniteSets, TLC

CONSTANTS Handles,   \* tree handles (integers 1..n in the generators)
          Cursors,   \* cursor ids
          Keys,      \* integer keys
          Vals,      \* integer values (BTreeDict); a BTreeSet stores 0
          Ts         \* branching parameters t handed to the constructor

VARIABLES tree,   \* Handles -> [live, map, frozen, t]
          cur,    \* Cursors -> [open, h, kind, pk, k, parked]
          res,    \* "ok" | "refused": outcome of the last call
          val     \* value returned by the last call (tagged tuple)

vars == <<tree, cur, res, val>>

Dead == [live |-> FALSE, map |-> <<>>, frozen |-> FALSE, t |-> 0]
Closed == [open |-> FALSE, h |-> 0, kind |-> "-", pk |-> "L", k |-> 0, parked |-> FALSE]
NoVal == <<"-">>

Live(h) == tree[h].live
M(h) == tree[h].map
Frozen(h) == tree[h].frozen

SetMin(S) == CHOOSE x \in S : \A y \in S : x <= y
SetMax(S) == CHOOSE x \in S : \A y \in S : x >= y
RECURSIVE SortedSeq(_)
SortedSeq(S) == IF S = {} THEN <<>> ELSE LET m == SetMin(S) IN <<m>> \o SortedSeq(S \ {m})
SeqRange(s) == {s[i] : i \in 1..Len(s)}
StrictlyIncreasing(s) == \A i \in 1..(Len(s) - 1) : s[i] < s[i + 1]

Without(m, k) == [x \in (DOMAIN m) \ {k} |-> m[x]]
With(m, k, v) == [x \in (DOMAIN m) \cup {k} |-> IF x = k THEN v ELSE m[x]]
ItemSeq(m) == LET ks == SortedSeq(DOMAIN m) IN [i \in 1..Len(ks) |-> <<ks[i], m[ks[i]]>>]
OldVal(m, k) == IF k \in DOMAIN m THEN <<"val", m[k]>> ELSE <<"none">>

---------------------------------------------------------------------------
(* Cursor positions as gaps *)
LeftSet(m, pk, k) ==
    CASE pk = "L" -> {}
      [] pk = "R" -> DOMAIN m
      [] pk = "lt" -> {x \in DOMAIN m : x < k}
      [] pk = "le" -> {x \in DOMAIN m : x <= k}
RightSet(m, pk, k) == (DOMAIN m) \ LeftSet(m, pk, k)

(* result of next()/prev() from gap (pk, k) on map m: the key returned (0 = none) and
   the new gap.  Running off an end leaves the cursor ON that boundary: the boundary
   is sticky, a key inserted later beyond the old extreme is not seen by going on in
   the same direction. *)
NextRes(m, pk, k) ==
    LET r == RightSet(m, pk, k)
    IN IF r = {} THEN [key |-> 0, pk |-> "R", k |-> 0]
       ELSE [key |-> SetMin(r), pk |-> "le", k |-> SetMin(r)]
PrevRes(m, pk, k) ==
    LET s == LeftSet(m, pk, k)
    IN IF s = {} THEN [key |-> 0, pk |-> "L", k |-> 0]
       ELSE [key |-> SetMax(s), pk |-> "lt", k |-> SetMax(s)]

EltVal(m, key) == IF key = 0 THEN <<"none">> ELSE <<"elt", key, m[key]>>

---------------------------------------------------------------------------
(* Structural well-formedness of a logged node tree.
   node == <<keys, children>>, children = <<>> for a leaf. *)
IsLeaf(n) == Len(n[2]) = 0
RECURSIVE Height(_)
Height(n) == IF IsLeaf(n) THEN 1 ELSE 1 + Height(n[2][1])
RECURSIVE NodeOK(_, _, _)
NodeOK(n, t, isRoot) ==
    /\ Len(n[1]) <= 2 * t - 1                          \* maximum occupancy
    /\ isRoot \/ Len(n[1]) >= t - 1                    \* minimum occupancy (non-root)
    /\ IsLeaf(n) \/ Len(n[1]) >= 1                     \* an internal node - the root included - holds a key
    /\ IsLeaf(n) \/ Len(n[2]) = Len(n[1]) + 1          \* k keys, k+1 children
    /\ \A i \in 1..Len(n[2]) : NodeOK(n[2][i], t, FALSE)
RECURSIVE LeavesAt(_, _)
LeavesAt(n, d) == IF IsLeaf(n) THEN d = 1 ELSE \A i \in 1..Len(n[2]) : LeavesAt(n[2][i], d - 1)
(* in-order key sequence; only evaluated on a node tree that passed NodeOK *)
RECURSIVE Flat(_), FlatFrom(_, _)
FlatFrom(n, i) == IF i > Len(n[1]) THEN Flat(n[2][i])
                  ELSE Flat(n[2][i]) \o <<n[1][i]>> \o FlatFrom(n, i + 1)
Flat(n) == IF IsLeaf(n) THEN n[1] ELSE FlatFrom(n, 1)
RECURSIVE CountKeys(_)
SumSeq(s) == LET F[i \in 0..Len(s)] == IF i = 0 THEN 0 ELSE F[i - 1] + s[i] IN F[Len(s)]
CountKeys(n) == Len(n[1]) + SumSeq([i \in 1..Len(n[2]) |-> CountKeys(n[2][i])])

WellFormed(shape, t) ==
    /\ NodeOK(shape, t, TRUE)
    /\ LeavesAt(shape, Height(shape))                  \* all leaves at one depth
    /\ StrictlyIncreasing(Flat(shape))                 \* search-tree order
(* Root occupancy: a leaf root holds 0..2t-1 keys, an internal root 1..2t-1 (so it has at
   least two children).  The pinned tree violated this (finding F35): deleting a MISSING
   key, or an exact delete that raises, can merge the root's last two children on the way
   down, and the emptied root was collapsed only when an element had been removed. *)
RootNonEmpty(shape) == IsLeaf(shape) \/ Len(shape[1]) >= 1

---------------------------------------------------------------------------
(* Calls.  Refuse = the call raised: nothing changes. *)
Refuse == res' = "refused" /\ val' = NoVal /\ UNCHANGED <<tree, cur>>
Ok(v) == res' = "ok" /\ val' = v

(* Environment obligation (documented): a cursor that is not registered with its tree
   must have been parked by hand before the tree is mutated. *)
CursorsSafe(h) == \A c \in Cursors :
    (cur[c].open /\ cur[c].h = h) => (cur[c].kind # "manual" \/ cur[c].parked)

(* a mutating call may be made on h: a frozen tree refuses before it touches anything *)
MayMutate(h) == Live(h) /\ (Frozen(h) \/ CursorsSafe(h))

SetMap(h, m) == tree' = [tree EXCEPT ![h].map = m]

(* BTree(t=..) / BTreeDict(t=..) / BTreeSet(t=..) *)
New(h, t) ==
    /\ ~Live(h)
    /\ IF t < 3 THEN Refuse
       ELSE /\ tree' = [tree EXCEPT ![h] = [live |-> TRUE, map |-> <<>>, frozen |-> FALSE, t |-> t]]
            /\ Ok(NoVal) /\ UNCHANGED cur

(* d[k] = v / s.add(k) / insert_element: insert or replace; val = what was displaced *)
Set(h, k, v) ==
    /\ MayMutate(h)
    /\ IF Frozen(h) THEN Refuse
       ELSE /\ SetMap(h, With(M(h), k, v))
            /\ Ok(OldVal(M(h), k)) /\ UNCHANGED cur

(* d.update(..) / s |= ..: a run of insertions with one value, in the order of ks *)
Load(h, ks, v) ==
    /\ MayMutate(h) /\ Len(ks) > 0
    /\ IF Frozen(h) THEN Refuse
       ELSE /\ SetMap(h, [x \in (DOMAIN M(h)) \cup SeqRange(ks) |-> IF x \in SeqRange(ks) THEN v ELSE M(h)[x]])
            /\ Ok(NoVal) /\ UNCHANGED cur

(* del d[k], s.remove(k), d.pop(k): strict (absent key raises);
   delete_key(k), s.discard(k), d.pop(k, default): lenient *)
Del(h, k, strict) ==
    /\ MayMutate(h)
    /\ IF Frozen(h) \/ (strict /\ k \notin DOMAIN M(h)) THEN Refuse
       ELSE /\ SetMap(h, Without(M(h), k))
            /\ Ok(OldVal(M(h), k)) /\ UNCHANGED cur

(* delete_exact(element): same = the argument IS the stored element object.  With any
   other element (equal key or not) nothing is deleted. *)
DelExact(h, k, same) ==
    /\ MayMutate(h)
    /\ same => k \in DOMAIN M(h)
    /\ IF Frozen(h) \/ ~same THEN Refuse
       ELSE /\ SetMap(h, Without(M(h), k))
            /\ Ok(OldVal(M(h), k)) /\ UNCHANGED cur

(* d.popitem() / s.pop(): remove and return the first item in iteration order *)
PopMin(h) ==
    /\ MayMutate(h)
    /\ IF Frozen(h) \/ DOMAIN M(h) = {} THEN Refuse
       ELSE LET k == SetMin(DOMAIN M(h))
            IN /\ SetMap(h, Without(M(h), k))
               /\ Ok(<<"elt", k, M(h)[k]>>) /\ UNCHANGED cur

(* clear(); clearing a frozen EMPTY tree mutates nothing and may go either way *)
Clear(h) ==
    /\ MayMutate(h)
    /\ IF Frozen(h) /\ DOMAIN M(h) # {} THEN Refuse
       ELSE /\ SetMap(h, <<>>)
            /\ Ok(NoVal) /\ UNCHANGED cur

(* make_immutable(): idempotent, irreversible *)
Freeze(h) ==
    /\ Live(h)
    /\ tree' = [tree EXCEPT ![h].frozen = TRUE]
    /\ Ok(NoVal) /\ UNCHANGED cur

(* copy.copy(src) / Class(original=src): needs a frozen source *)
Clone(src, dst) ==
    /\ Live(src) /\ ~Live(dst)
    /\ IF ~Frozen(src) THEN Refuse
       ELSE /\ tree' = [tree EXCEPT ![dst] = [live |-> TRUE, map |-> M(src), frozen |-> FALSE, t |-> tree[src].t]]
            /\ Ok(NoVal) /\ UNCHANGED cur

(* the program drops its last reference to a tree (and to the cursors on it) *)
Drop(h) ==
    /\ Live(h)
    /\ tree' = [tree EXCEPT ![h] = Dead]
    /\ cur' = [c \in Cursors |-> IF cur[c].open /\ cur[c].h = h THEN Closed ELSE cur[c]]
    /\ Ok(NoVal)

(* reads *)
Get(h, k) == Live(h) /\ Ok(OldVal(M(h), k)) /\ UNCHANGED <<tree, cur>>
LenOf(h) == Live(h) /\ Ok(<<"int", Cardinality(DOMAIN M(h))>>) /\ UNCHANGED <<tree, cur>>
Iter(h) == Live(h) /\ Ok(<<"items", ItemSeq(M(h))>>) /\ UNCHANGED <<tree, cur>>
(* root.minimum() / root.maximum() *)
Extreme(h, max) ==
    /\ Live(h)
    /\ IF DOMAIN M(h) = {} THEN Refuse
       ELSE LET k == IF max THEN SetMax(DOMAIN M(h)) ELSE SetMin(DOMAIN M(h))
            IN Ok(<<"elt", k, M(h)[k]>>) /\ UNCHANGED <<tree, cur>>

(* cursors.  kind: "reg" (with-block: registered, parked automatically), "manual"
   (parked by the program), "iter" (iter(tree): a registered cursor that only goes forward) *)
COpen(c, h, kind) ==
    /\ ~cur[c].open /\ Live(h)
    /\ cur' = [cur EXCEPT ![c] = [open |-> TRUE, h |-> h, kind |-> kind, pk |-> "L", k |-> 0, parked |-> FALSE]]
    /\ Ok(NoVal) /\ UNCHANGED tree
CClose(c) ==
    /\ cur[c].open
    /\ cur' = [cur EXCEPT ![c] = Closed]
    /\ Ok(NoVal) /\ UNCHANGED tree
Place(c, pk, k) == cur' = [cur EXCEPT ![c].pk = pk, ![c].k = k, ![c].parked = FALSE]
Seek(c, k, before) ==
    /\ cur[c].open /\ cur[c].kind # "iter"
    /\ Place(c, IF before THEN "lt" ELSE "le", k)
    /\ Ok(NoVal) /\ UNCHANGED tree
SeekEnd(c, last) ==
    /\ cur[c].open /\ cur[c].kind # "iter"
    /\ Place(c, IF last THEN "R" ELSE "L", 0)
    /\ Ok(NoVal) /\ UNCHANGED tree
CNext(c) ==
    /\ cur[c].open
    /\ LET m == M(cur[c].h)
           r == NextRes(m, cur[c].pk, cur[c].k)
       IN Place(c, r.pk, r.k) /\ Ok(EltVal(m, r.key))
    /\ UNCHANGED tree
CPrev(c) ==
    /\ cur[c].open /\ cur[c].kind # "iter"
    /\ LET m == M(cur[c].h)
           r == PrevRes(m, cur[c].pk, cur[c].k)
       IN Place(c, r.pk, r.k) /\ Ok(EltVal(m, r.key))
    /\ UNCHANGED tree
Park(c) ==
    /\ cur[c].open /\ cur[c].kind # "iter"
    /\ cur' = [cur EXCEPT ![c].parked = TRUE]
    /\ Ok(NoVal) /\ UNCHANGED tree

---------------------------------------------------------------------------
Init == /\ tree = [h \in Handles |-> Dead]
        /\ cur = [c \in Cursors |-> Closed]
        /\ res = "ok" /\ val = NoVal

Next ==
    \/ \E h \in Handles, t \in Ts : New(h, t)
    \/ \E h \in Handles, k \in Keys, v \in Vals : Set(h, k, v)
    \/ \E h \in Handles, k \in Keys, s \in BOOLEAN : Del(h, k, s) \/ DelExact(h, k, s)
    \/ \E h \in Handles : PopMin(h) \/ Clear(h) \/ Freeze(h) \/ Drop(h) \/ LenOf(h) \/ Iter(h)
    \/ \E h \in Handles, b \in BOOLEAN : Extreme(h, b)
    \/ \E h \in Handles, d \in Handles : Clone(h, d)
    \/ \E h \in Handles, k \in Keys : Get(h, k)
    \/ \E c \in Cursors, h \in Handles, kd \in {"reg", "manual", "iter"} : COpen(c, h, kd)
    \/ \E c \in Cursors : CClose(c) \/ CNext(c) \/ CPrev(c) \/ Park(c)
    \/ \E c \in Cursors, k \in Keys, b \in BOOLEAN : Seek(c, k, b)
    \/ \E c \in Cursors, b \in BOOLEAN : SeekEnd(c, b)

Spec == Init /\ [][Next]_vars

---------------------------------------------------------------------------
(* Properties of the model itself (checked exhaustively on MC_BTreeMap) *)
TypeOK ==
    /\ \A h \in Handles :
         /\ tree[h].live \in BOOLEAN /\ tree[h].frozen \in BOOLEAN
         /\ DOMAIN tree[h].map \subseteq Keys
         /\ \A k \in DOMAIN tree[h].map : tree[h].map[k] \in Vals
         /\ tree[h].live => tree[h].t \in Ts /\ tree[h].t >= 3
         /\ ~tree[h].live => tree[h] = Dead
    /\ \A c \in Cursors :
         /\ cur[c].pk \in {"L", "R", "lt", "le"}
         /\ cur[c].open => (cur[c].h \in Handles /\ tree[cur[c].h].live)
         /\ ~cur[c].open => cur[c] = Closed
    /\ res \in {"ok", "refused"}

(* a frozen tree never changes while it exists *)
FrozenNeverChanges ==
    [][\A h \in Handles : (tree[h].live /\ tree[h].frozen /\ tree'[h].live) => tree'[h] = tree[h]]_vars
(* every call touches at most one tree: clones are isolated *)
OneTreePerCall == [][Cardinality({h \in Handles : tree'[h] # tree[h]}) <= 1]_vars
(* a refused call changes nothing *)
RefusedIsNoop == [][(res' = "refused") => (tree' = tree /\ cur' = cur)]_vars
(* a tree comes to life empty or as an exact copy of a frozen tree *)
BornEmptyOrCopy ==
    [][\A h \in Handles : (~tree[h].live /\ tree'[h].live) =>
          \/ tree'[h].map = <<>>
          \/ \E s \in Handles : tree[s].live /\ tree[s].frozen /\ tree'[h].map = tree[s].map /\ tree'[h].t = tree[s].t]_vars
(* reads and cursor movements never change a tree *)
ReadsArePure ==
    [][(cur' # cur /\ \A h \in Handles : tree[h].live = tree'[h].live) => tree' = tree]_vars

(* cursor laws, for every gap of every reachable tree *)
Gaps == {<<"L", 0>>, <<"R", 0>>} \cup {<<pk, k>> : pk \in {"lt", "le"}, k \in Keys}
CursorLaws ==
    \A h \in Handles : Live(h) =>
      LET m == M(h) IN
      /\ \A k \in DOMAIN m :
           /\ NextRes(m, "lt", k).key = k            \* next after seek(k, before) returns k
           /\ PrevRes(m, "le", k).key = k            \* prev after seek(k, after) returns k
           /\ NextRes(m, "le", k).key # k /\ PrevRes(m, "lt", k).key # k
      /\ \A g \in Gaps :
           LET n == NextRes(m, g[1], g[2])
               p == PrevRes(m, g[1], g[2])
           IN /\ n.key # 0 =>                          \* prev undoes next on a stable tree
                   /\ PrevRes(m, n.pk, n.k).key = n.key
                   /\ LeftSet(m, PrevRes(m, n.pk, n.k).pk, PrevRes(m, n.pk, n.k).k) = LeftSet(m, g[1], g[2])
              /\ p.key # 0 =>                          \* next undoes prev
                   /\ NextRes(m, p.pk, p.k).key = p.key
                   /\ LeftSet(m, NextRes(m, p.pk, p.k).pk, NextRes(m, p.pk, p.k).k) = LeftSet(m, g[1], g[2])
              /\ n.key # 0 => (\A x \in DOMAIN m : ~(x \in RightSet(m, g[1], g[2]) /\ x < n.key))   \* nothing skipped
              /\ n.key = 0 => NextRes(m, n.pk, n.k).key = 0                                         \* end is absorbing
              /\ p.key = 0 => PrevRes(m, p.pk, p.k).key = 0
(* walking next() from the left boundary enumerates the keys in order, each once *)
RECURSIVE WalkFrom(_, _, _)
WalkFrom(m, pk, k) == LET r == NextRes(m, pk, k) IN IF r.key = 0 THEN <<>> ELSE <<r.key>> \o WalkFrom(m, r.pk, r.k)
RECURSIVE WalkBack(_, _, _)
WalkBack(m, pk, k) == LET r == PrevRes(m, pk, k) IN IF r.key = 0 THEN <<>> ELSE WalkBack(m, r.pk, r.k) \o <<r.key>>
WalkLaw == \A h \in Handles : Live(h) =>
    /\ WalkFrom(M(h), "L", 0) = SortedSeq(DOMAIN M(h))
    /\ WalkBack(M(h), "R", 0) = SortedSeq(DOMAIN M(h))
=============================================================================
