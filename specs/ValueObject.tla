------------------------------ MODULE ValueObject ------------------------------
(* Names and records are immutable values (property C07, parts 2 and 3).

   A value object is created once and afterwards only READ.  The state is the value;
   the only actions are observations (compare with another value, hash, look at a
   field).  There is deliberately NO action that rebinds or deletes an attribute or
   changes a field in place: a trace that contains a successful mutation cannot be a
   behaviour of this specification.

   A record value is [cls, ty, f] where f is the sequence of RDATA fields in wire order,
   each <<"n", labels>> (an embedded domain name; labels are octet sequences) or
   <<"b", octets>> (anything else).  From RFC 4034 6.2 (as amended by RFC 6840 5.1) the
   canonical RDATA encoding is the uncompressed wire form in which the embedded names of
   the types in LowerTypes - and of no other type (RFC 3597 7) - have their upper-case
   US-ASCII letters replaced by lower-case ones.  Equality, hash and order of records are
   functions of that encoding:
     equal   iff  same class, same type, same canonical encoding
     hash    equal for equal records
     order   (within one class and type) = the canonical encodings compared as
             left-justified unsigned octet sequences, absence of an octet sorting first
             (RFC 4034 6.3). *)
EXTENDS Integers, Sequences, FiniteSets, TLC

CONSTANTS LowerTypes,      \* RFC 4034 6.2 / RFC 6840 5.1
          ImmutableKinds,  \* kinds of field values that cannot change in place
          Values           \* the values of a model instance (model checking only)

VARIABLES val,   \* the value
          obs    \* the last observation made of it
vars == <<val, obs>>

---------------------------------------------------------------------------
LowerOctet(b) == IF b >= 65 /\ b <= 90 THEN b + 32 ELSE b
LowerLabel(lab) == [k \in 1..Len(lab) |-> LowerOctet(lab[k])]
RECURSIVE Flat(_)
Flat(ss) == IF ss = <<>> THEN <<>> ELSE Head(ss) \o Flat(Tail(ss))
NameWire(labels, lower) ==
    Flat([k \in 1..Len(labels) |-> <<Len(labels[k])>> \o (IF lower THEN LowerLabel(labels[k]) ELSE labels[k])]) \o <<0>>
FieldWire(f, lower) == IF f[1] = "n" THEN NameWire(f[2], lower) ELSE f[2]
Wire(r) == Flat([k \in 1..Len(r.f) |-> FieldWire(r.f[k], FALSE)])
Canon(r) == Flat([k \in 1..Len(r.f) |-> FieldWire(r.f[k], r.ty \in LowerTypes)])
HasName(r) == \E k \in 1..Len(r.f) : r.f[k][1] = "n"

(* left-justified unsigned octet order, absence of an octet first *)
RECURSIVE OctetLess(_, _)
OctetLess(a, b) ==
    IF b = <<>> THEN FALSE
    ELSE IF a = <<>> THEN TRUE
    ELSE IF Head(a) # Head(b) THEN Head(a) < Head(b)
    ELSE OctetLess(Tail(a), Tail(b))

SameKind(r, s) == r.cls = s.cls /\ r.ty = s.ty
ValEq(r, s) == SameKind(r, s) /\ Canon(r) = Canon(s)
ValLess(r, s) == OctetLess(Canon(r), Canon(s))       \* meaningful when SameKind(r, s)
(* what a hash may depend on: anything that is a function of the equality class *)
HashKey(r) == <<r.cls, r.ty, Canon(r)>>

---------------------------------------------------------------------------
(* The object: created, then only observed *)
Init == val \in Values /\ obs = <<"new">>
Compare(other) ==
    /\ obs' = <<"cmp", ValEq(val, other), SameKind(val, other) /\ ValLess(val, other)>>
    /\ UNCHANGED val
Hash == obs' = <<"hash", HashKey(val)>> /\ UNCHANGED val
ReadField(k) == k \in 1..Len(val.f) /\ obs' = <<"field", val.f[k]>> /\ UNCHANGED val
Next == (\E o \in Values : Compare(o)) \/ Hash \/ (\E k \in 1..Len(val.f) : ReadField(k))
Spec == Init /\ [][Next]_vars

Immutable == [][val' = val]_vars

---------------------------------------------------------------------------
(* Laws of the value semantics, over the whole universe *)
Law_Equivalence ==
    \A r, s, u \in Values :
        /\ ValEq(r, r)
        /\ ValEq(r, s) => ValEq(s, r)
        /\ (ValEq(r, s) /\ ValEq(s, u)) => ValEq(r, u)
Law_HashFollowsEq == \A r, s \in Values : ValEq(r, s) => HashKey(r) = HashKey(s)
Law_TotalOrder ==
    \A r, s \in Values : SameKind(r, s) =>
        /\ ~(ValLess(r, s) /\ ValLess(s, r))
        /\ (ValEq(r, s) <=> (~ValLess(r, s) /\ ~ValLess(s, r)))
Law_Transitive ==
    \A r, s, u \in Values : (SameKind(r, s) /\ SameKind(s, u) /\ ValLess(r, s) /\ ValLess(s, u)) => ValLess(r, u)
(* records that differ only in the letter case of embedded names are equal exactly for
   the types of LowerTypes *)
LowerRec(r) == [r EXCEPT !.f = [k \in 1..Len(r.f) |->
                   IF r.f[k][1] = "n" THEN <<"n", [j \in 1..Len(r.f[k][2]) |-> LowerLabel(r.f[k][2][j])]>> ELSE r.f[k]]]
Law_CaseOnly ==
    \A r, s \in Values :
        (SameKind(r, s) /\ r # s /\ LowerRec(r) = LowerRec(s)) => (ValEq(r, s) <=> r.ty \in LowerTypes)
=============================================================================
