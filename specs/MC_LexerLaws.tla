---------------------------- MODULE MC_LexerLaws ----------------------------
(* Laws of the lexing FUNCTION (Lexer!Lex), checked by TLC on every string over Alphabet
   up to MaxLen (one state per string and dialect; the string grows by one character per
   step) for all four (want_leading, want_comment) combinations. *)
EXTENDS Lexer, TLC

CONSTANTS Alphabet, MaxLen, DialectSet
VARIABLES x, d
Init == x = <<>> /\ d \in DialectSet
Next == Len(x) < MaxLen /\ \E c \in Alphabet : x' = Append(x, c) /\ d' = d

B2 == BOOLEAN \X BOOLEAN
Body(ts) == IF ts[Len(ts)].k \in {"EOF", "error"} THEN SubSeq(ts, 1, Len(ts) - 1) ELSE ts
RECURSIVE Drop(_, _)
Drop(ts, k) == IF ts = <<>> THEN <<>> ELSE (IF ts[1].k = k THEN <<>> ELSE <<ts[1]>>) \o Drop(Tail(ts), k)
RECURSIVE Twice(_)
Twice(ts) == IF ts = <<>> THEN <<>> ELSE <<ts[1], ts[1]>> \o Twice(Tail(ts))

\* tokens written with canonical separators lex to the same tokens
Relex == LET ts == Lex(x, FALSE, FALSE, d) IN ~Failed(ts) => Lex(Render(Body(ts)), FALSE, FALSE, d) = ts
\* ... and the canonical text is a fixed point
RenderIdempotent == LET ts == Lex(x, FALSE, FALSE, d) IN
                    ~Failed(ts) => Render(Body(Lex(Render(Body(ts)), FALSE, FALSE, d))) = Render(Body(ts))
\* unget followed by get with the same options is the identity
UngetGet == \A o \in B2 : LET ts == Lex(x, o[1], o[2], d)
                              tu == TokensUnget(Start0, x, o[1], o[2], d)
                          IN  IF Failed(ts) THEN tu = Twice(Body(ts)) \o <<ts[Len(ts)]>> ELSE tu = Twice(ts)
\* want_leading / want_comment only ADD tokens
LeadingOnlyAdds == \A wc \in BOOLEAN : Drop(Lex(x, TRUE, wc, d), "WHITESPACE") = Lex(x, FALSE, wc, d)
CommentOnlyAdds == \A wl \in BOOLEAN : Drop(Drop(Lex(x, wl, TRUE, d), "COMMENT"), "WHITESPACE")
                                        = Drop(Lex(x, wl, FALSE, d), "WHITESPACE")
\* a knob matters only for inputs that contain its trigger
KnobsPinned == \A D \in Dialects : \E D2 \in DialectsFor(x) : \A o \in B2 : Lex(x, o[1], o[2], D) = Lex(x, o[1], o[2], D2)
\* tabs and spaces are the same delimiter ("any combination of tabs and spaces")
Untab(s) == [i \in 1..Len(s) |-> IF s[i] = TAB THEN SP ELSE s[i]]
UntabT(ts) == [i \in 1..Len(ts) |-> [ts[i] EXCEPT !.v = Untab(@)]]
TabsAreSpaces == \A o \in B2 : Lex(Untab(x), o[1], o[2], d) = UntabT(Lex(x, o[1], o[2], d))
\* no line ends inside parentheses: an input that opens a parenthesis and never closes one has no EOL
NoEolInParens == LET y == <<LP>> \o x
                     ts == Lex(y, FALSE, FALSE, d)
                 IN  (\A i \in 1..Len(x) : x[i] # RP) => \A i \in 1..Len(ts) : ts[i].k \notin {"EOL", "EOF"}
\* a balanced wrapper hides the line structure and nothing else
ParensHideLines == LET ts == Lex(x, FALSE, FALSE, d)
                       tp == Lex(<<LP>> \o x \o <<RP>>, FALSE, FALSE, d)
                   IN  (~Failed(ts) /\ ~Failed(tp)) => Drop(ts, "EOL") = tp
\* the end of the input: EOF exactly once, last, and only at depth 0 outside quotes
RECURSIVE DepthOf(_, _)      \* parentheses of the bare text (no quotes, comments, backslashes in s)
DepthOf(s, n) == IF n = 0 THEN 0 ELSE DepthOf(s, n - 1) + (IF s[n] = LP THEN 1 ELSE IF s[n] = RP THEN -1 ELSE 0)
Plain(s) == \A i \in 1..Len(s) : s[i] \notin {DQ, SEMI, BS}
BalancedIffAccepted == Plain(x) => (~Failed(Lex(x, FALSE, FALSE, d)) <=>
                           (DepthOf(x, Len(x)) = 0 /\ \A n \in 0..Len(x) : DepthOf(x, n) >= 0))
\* "the remainder of the line is ignored": in a text without quotes and backslashes every semicolon starts
\* a comment, and deleting the comments (up to, not including, the newline) changes nothing
RECURSIVE StripComments(_, _, _)
StripComments(s, i, inc) == IF i > Len(s) THEN <<>>
                            ELSE IF s[i] = NL THEN <<NL>> \o StripComments(s, i + 1, FALSE)
                            ELSE IF inc \/ s[i] = SEMI THEN StripComments(s, i + 1, TRUE)
                            ELSE <<s[i]>> \o StripComments(s, i + 1, FALSE)
CommentsIgnored == (\A i \in 1..Len(x) : x[i] \notin {DQ, BS}) =>
                      Lex(StripComments(x, 1, FALSE), FALSE, FALSE, d) = Lex(x, FALSE, FALSE, d)
\* "any combination of tabs and spaces": one more blank in front changes nothing but the WHITESPACE report,
\* and a single blank is enough to be reported to a caller that wants leading white space
LeadingBlank == \A o \in B2 : LET y == <<SP>> \o x IN
                   IF x # <<>> /\ Blank(x[1], 0, d) THEN Lex(y, o[1], o[2], d) = Lex(x, o[1], o[2], d)
                   ELSE Lex(y, o[1], o[2], d) = (IF o[1] THEN <<TWs>> ELSE <<>>) \o Lex(x, o[1], o[2], d)
=============================================================================
