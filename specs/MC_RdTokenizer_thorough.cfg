SPECIFICATION Spec
CONSTANTS
  Alphabet = {32, 10, 34, 40, 41, 59, 92, 97}
  MaxLen = 6
INVARIANT TypeOK
INVARIANT DepthNonNeg
INVARIANT QuoteState
INVARIANT EolClosed
INVARIANT EofClosed
INVARIANT TokenShape
PROPERTY DepthSteps
PROPERTY FailedStays
CHECK_DEADLOCK FALSE
