------------------------- MODULE MC_RendererLimits -------------------------
(* Bounded instance for C08: the composite rendering ToWire with the INTENDED reserve
   policy satisfies I1-I8 for EVERY limit from 512 to total+1, for every message of a
   small universe (a base of four 100-octet TXT answers plus up to MaxExtra record sets
   from a menu whose sizes put the limit inside names, inside RDATA and on record
   boundaries) x pad x EDNS x TSIG (key sharing a suffix with the question) x
   prefer_truncation. *)
EXTENDS Renderer

CONSTANTS MaxExtra, Pads, Step     \* Step = 1: every limit (larger steps only for smoke runs)
VARIABLES m, pt
mvars == <<st, m, pt>>

lex == <<101, 120>>  la == <<97>>  lb == <<98>>  lk == <<107>>
Na == <<la, lex>>  Nb == <<lb, la, lex>>  Nk == <<lk, lex>>
Alg == <<<<104, 109, 97, 99, 45, 115, 104, 97, 50, 53, 54>>>>
R(sec, name, kind, n1, k, nrd) == [sec |-> sec, name |-> name, kind |-> kind, n1 |-> n1, n2 |-> <<>>, k |-> k,
                                   nrd |-> nrd, ttl |-> <<0, 300>>, form |-> "plain"]
Set(r) == MkRRset(r, RfcCmp, ClsIN)
Base == [i \in 1..4 |-> Set(R(1, Na, "TXT", <<>>, 100 + 1000 * i, 1))]
Menu(sec) == {Set(R(sec, Nb, "TXT", <<>>, 100, 1)), Set(R(sec, Nb, "TXT", <<>>, 40, 3)), Set(R(sec, Na, "NS", Nb, 1, 1)),
              Set(R(sec, Nb, "A", <<>>, 1, 2))}
Opt == MkOpt(1232, <<0, 0>>, <<<<10, Fill(8, 7)>>>>)
Tsig == MkTsig(Nk, Alg, <<0, 0, 95, 94, 16, 0>>, 300, Fill(32, 85), 4660, 0, <<>>)
Q == [name |-> Na, type |-> TyA, cls |-> ClsIN]

MInit == /\ pt \in BOOLEAN
         /\ \E pad \in Pads, ts \in {<<>>, <<Tsig>>}, op \in {<<>>, <<Opt>>} :
              /\ (op = <<>> => pad = 0)
              /\ m = [id |-> 4660, flags |-> 256, q |-> <<Q>>, an |-> Base, au |-> <<>>, ad |-> <<>>,
                      opt |-> op, tsig |-> ts, pad |-> pad]
         /\ st = FInit(4660, 256, 65535)
NSets == Len(m.an) + Len(m.au) + Len(m.ad)
MNext == /\ NSets < 4 + MaxExtra /\ UNCHANGED <<pt, st>>
         /\ \E sec \in 1..3 : \E rs \in Menu(sec) :
              /\ (sec = 1 => m.au = <<>> /\ m.ad = <<>>) /\ (sec = 2 => m.ad = <<>>)
              /\ m' = IF sec = 1 THEN [m EXCEPT !.an = Append(@, rs)]
                      ELSE IF sec = 2 THEN [m EXCEPT !.au = Append(@, rs)] ELSE [m EXCEPT !.ad = Append(@, rs)]
MSpec == MInit /\ [][MNext]_mvars

Total == Len(ToWire(m, 65535, FALSE, Intended(m)).out)
Limits == {x \in 512..(Total + 1) : (x - 512) % Step = 0}
Full == Len(FAddAll(FInit(m.id, m.flags, 65535), MsgItems(m)).out)
LimitOk(max) ==
    LET S == ToWire(m, max, pt, Intended(m)) IN
    IF S.res = "ok" THEN ResultOk(S.out, m, max, pt)
    ELSE ~pt /\ Full + Intended(m).optRes + Intended(m).tsigRes > max       \* too-big only when justified
\* the policy of the pinned implementation (reserve without the padding payload, TSIG owner
\* always compressible): EveryLimitAsImplemented is expected to be VIOLATED (F7 / F18)
AsImplemented == [optRes |-> OptBase(m), tsigRes |-> TsigSize(m), ctsig |-> TRUE]
EveryLimitAsImplemented == \A max \in Limits :
    LET S == ToWire(m, max, pt, AsImplemented) IN
    IF S.res = "ok" THEN ResultOk(S.out, m, max, pt) ELSE ~pt
EveryLimit == \A max \in Limits : LimitOk(max)
\* vacuity witnesses (must be violated): truncation happens, too-big happens, padding pads
WitnessTruncation == ~(pt /\ \E max \in Limits : HasBit(Rd16(ToWire(m, max, pt, Intended(m)).out, 2), TC))
WitnessTooBig == ~(\E max \in Limits : ToWire(m, max, pt, Intended(m)).res # "ok")
=============================================================================
