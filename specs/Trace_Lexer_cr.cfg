INIT TraceInit
NEXT TraceNext
CONSTANTS
  DialectFilter <- CrBlankDialects
  StrictLine = FALSE
CONSTRAINT Accepted
POSTCONDITION Post
CHECK_DEADLOCK FALSE
