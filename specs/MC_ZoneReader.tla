--------------------------- MODULE MC_ZoneReader ---------------------------
(* Bounded instance of ZoneReader with the laws TLC checks on the MODEL (X05).
   Twins read the same lines as the reader:
     sh   gets, at one nondeterministically chosen moment, a REDUNDANT directive
          ($ORIGIN <current origin> or $TTL <value in force>)      -> RedundantDirective
     inl  reads the text with every $INCLUDE replaced by the file's lines -> InlineLaw
   marks mirrors the state saved at each open $INCLUDE               -> ExitRestoresOrigin *)
EXTENDS ZoneReader, ZoneReaderUniverse

CONSTANTS Alphabet, MaxLines, MaxDepth, Cfgs, Pols
VARIABLES marks, sh, ins, inl, clean, stated
mvars == <<vars, marks, sh, ins, inl, clean, stated>>

C0 == [api |-> "zone", zcls |-> "IN", zorigin |-> "example.", inc |-> "yes", incDoc |-> "file", dirs |-> <<"*">>,
       fname |-> "", fttl |-> -1, fcls |-> "", ftype |-> "", dttl |-> -1]
MCCfgs == {C0, [C0 EXCEPT !.inc = "no"], [C0 EXCEPT !.dirs = <<"$INCLUDE", "$TTL">>], [C0 EXCEPT !.inc = "dflt", !.incDoc = "text"]}
MCAlpha == G3 \cup {Soa(At, -1, 7), Soa(At, 5, 7), Txt(Rel("n1"), -1, "b"), TtlL(0), OriginL(Rel("s"))}
MCAlphaGen == GenA \cup {Txt(Blank, -1, "k"), TtlL(5), OriginL(Rel("s")), IncL(Rel("s")), EndL}
PolsAll == PoliciesOver({"blank0", "incOwner", "incTtl", "incIn", "soaDef", "soaOwn", "incDflt"})
PolsQuick == PoliciesOver({"blank0", "incOwner", "incTtl", "incIn", "soaDef"})
PolsGen == PoliciesOver({"incOwner", "incIn", "genOwner"})
TtlValues == {0, 5, 7, 300}

MCInit == /\ \E c \in Cfgs, p \in Pols : InitWith(c, p) /\ sh = Start(c, p) /\ inl = Start(c, p)
          /\ marks = <<>> /\ ins = FALSE /\ clean = TRUE /\ stated = FALSE

Ok(l) == /\ (l.k = "inc" => Len(stack) < MaxDepth)
         /\ (l.k = "end" => stack # <<>>)
Line(l) ==
    /\ n < MaxLines /\ Ok(l) /\ Read(l)
    /\ marks' = CASE l.k = "inc" /\ status' = "ok" -> Append(marks, Frame(Cur))
                  [] l.k = "end" -> SubSeq(marks, 1, Len(marks) - 1)
                  [] OTHER -> marks
    /\ sh' = Step(sh, l, cfg, pol)
    /\ inl' = IF l.k \in {"inc", "end"} THEN inl ELSE Step(inl, l, cfg, pol)
    /\ clean' = (clean /\ (l.k = "inc" => l.org = None) /\ (l.k = "origin" => stack = <<>>))
    /\ stated' = (stated \/ l.k \in {"rr", "gen"})
    /\ UNCHANGED ins
Insert ==
    /\ ~ins /\ status = "ok" /\ n < MaxLines
    /\ \E d \in {OriginL(AbsN(sh.origin))} \cup (IF sh.defTtl >= 0 THEN {TtlL(sh.defTtl)} ELSE {}) :
          /\ DirAllowed(cfg, IF d.k = "origin" THEN "$ORIGIN" ELSE "$TTL", pol)
          /\ sh' = Step(sh, d, cfg, pol)
    /\ ins' = TRUE
    /\ UNCHANGED <<vars, marks, inl, clean, stated>>
MCNext == Insert \/ \E l \in Alphabet : Line(l)

Core(S) == <<Len(S.stack), S.origin, S.lastOwner, S.defTtl, S.lastTtl, S.soaMin, S.out, S.status>>
\* a redundant $ORIGIN / $TTL changes nothing, wherever it is inserted
RedundantDirective == Core(sh) = Core(Cur)
\* under the "keep" reading an include without origin argument (and without $ORIGIN inside) is
\* textual inclusion
KeepPolicy == pol.incOwner = "keep" /\ pol.incTtl = "keep" /\ pol.incIn = "inherit"
InlineLaw == (clean /\ KeepPolicy /\ DirAllowed(cfg, "$INCLUDE", pol)) =>
                 /\ inl.out = out /\ inl.status = status /\ inl.lastOwner = lastOwner
                 /\ inl.defTtl = defTtl /\ inl.lastTtl = lastTtl /\ inl.origin = origin
Shape == /\ Len(marks) = Len(stack) /\ Len(stack) <= MaxDepth /\ n <= MaxLines
         /\ \A i \in 1..Len(stack) : stack[i].origin = marks[i].origin
         /\ status \in {"ok", "err"} /\ (status = "err" <=> errAt[2] > 0)
OutSane == \A i \in 1..Len(out) : /\ out[i].c = cfg.zcls /\ out[i].t \in TtlValues /\ out[i].o # ""
\* RFC 1035 5.1: $INCLUDE never changes the relative origin of the parent file
ExitRestoresOrigin == [][Len(stack') < Len(stack) => origin' = marks[Len(marks)].origin]_mvars
\* under the "restore" reading the included file is hermetic for the parent's state
Hermetic == [][(Len(stack') < Len(stack) /\ pol.incOwner = "restore" /\ pol.incTtl = "restore") =>
                 LET m == marks[Len(marks)] IN <<lastOwner', defTtl', lastTtl', soaMin'>> = <<m.lastOwner, m.defTtl, m.lastTtl, m.soaMin>>]_mvars
OutGrows == [][Len(out') >= Len(out) /\ SubSeq(out', 1, Len(out)) = out]_mvars
\* RFC 2308 4: a record without TTL read while a $TTL is in force gets exactly that TTL
TtlDirectiveWins == [][\A l \in Alphabet : (l.k = "rr" /\ l.ttl < 0 /\ defTtl >= 0 /\ n' = n + 1 /\ Len(out') = Len(out) + 1 /\ ENABLED Line(l)
                         /\ out'[Len(out')].s = (IF l.tgt = None THEN l.s ELSE Abs(l.tgt, origin)) /\ out'[Len(out')].y = l.y)
                        => out'[Len(out')].t = defTtl]_mvars
=============================================================================
