---------------------------- MODULE MC_RdTokenizer ----------------------------
EXTENDS RdTokenizer
\* reachability witnesses: each must be VIOLATED (checked by checks/c05.py in separate tiny runs)
VacUnexpectedEnd == status # "UnexpectedEnd"
VacSyntaxError == status # "SyntaxError"
VacCommentOnEof == ~(Returned("EOF") /\ last[1].cmt # NoCmt)
VacEscapedQuoted == ~(Returned("QUOTED_STRING") /\ last[1].esc /\ utok # <<>>)
=============================================================================
