-------------------------- MODULE Trace_BTreeZone --------------------------
(* Trace validation for C20.  Every recorded load / operation / commit / rollback of a
   real dns.btreezone.Zone must be the corresponding BTreeZone action, and after every
   load, commit and rollback the derived state the implementation maintains incrementally
   must equal the derived state RECOMPUTED FROM THE LOGGED CONTENT with the definitions
   of BTZDerived: (name, flags) in iteration order, the delegation index, and every field
   of bounds(q) for every query name.

   Names travel as indices into BTZNames!NameTable (0 = none, -1 = not in the table).
   The zone content evolves on label-sequence names through the BTreeZone actions; the
   derived state is recomputed with a SECOND INSTANCE of BTZDerived whose names are the
   table indices themselves (IdxLess, IdxBelow, IdxAnc, IdxDepth are tables computed by
   TLC from the label sequences; BTZNames!TableOK, checked at start-up, states that they
   are the same structure).

   The derived-state clauses do not block: all mismatches of all commits of a trace are
   collected in `bad` (so that one known defect cannot hide another violation later in
   the same history); a trace is accepted iff it is consumed completely and bad = <<>>.
   The clauses Content / KnownNames / OpOk / QueryCoverage block as usual. *)
EXTENDS BTZNames, VTrace

VARIABLES t, l, bad
tvars == <<vars, t, l, bad>>

D == INSTANCE BTZDerived WITH Apex <- ApexIdx, Less <- IdxLess, Below <- IdxBelow,
                              Anc <- IdxAnc, Depth <- IdxDepth

NT == NameTable
Known(i) == i \in 1..Len(NT)
QueryIdx(tr) == IF tr.qset = "W" THEN WQueryIdx ELSE UQueryIdx

RecSeq(recs) == Tup([i \in 1..Len(recs) |-> <<NT[recs[i][1]], recs[i][2], recs[i][3]>>])
LoggedContent(p) ==
    [key \in {<<NT[p[i][1]], p[i][2]>> : i \in 1..Len(p)} |->
        LET i == CHOOSE i \in 1..Len(p) : <<NT[p[i][1]], p[i][2]>> = key IN ToSetOf(p[i][3])]
(* the same content keyed by table indices (only its domain matters) *)
IdxContent(p) == [key \in {<<p[i][1], p[i][2]>> : i \in 1..Len(p)} |-> TRUE]

RECURSIVE Flat(_)
Flat(ss) == IF ss = <<>> THEN <<>> ELSE Head(ss) \o Flat(Tail(ss))
(* the items it(i) of the positions 1..n where ok(i) fails *)
Where(n, ok(_), it(_)) == IF n < 1 THEN <<>> ELSE Flat(Tup([i \in 1..n |-> IF ok(i) THEN <<>> ELSE <<it(i)>>]))
IdxOrNone(S) == IF S = {} THEN 0 ELSE CHOOSE x \in S : TRUE
B2I(b) == IF b THEN 1 ELSE 0

(* all differences between the observation o and the derived state of the content c
   (index-keyed); qs = the indices of the canonical query names, in asking order *)
Mismatches(o, c, qs) ==
    LET K == D!Cuts(c)
        N == D!Nodes(c)
        V == {n \in N : ~D!GlueIn(K, n)}
        S == D!OrderOf(V)
        fl == o.flags
        dl == o.delegs
        bs == o.bounds
        nodes == IF {fl[i][1] : i \in 1..Len(fl)} = N /\ Len(fl) = Cardinality(N) THEN <<>>
                 ELSE <<<<"nodes", Len(fl), Cardinality(N)>>>>
        order == Where(Len(fl) - 1, LAMBDA i : fl[i][1] < fl[i + 1][1],
                       LAMBDA i : <<"order", fl[i][1], fl[i + 1][1]>>)
        flags == Where(Len(fl), LAMBDA i : fl[i][2] = D!FlagsIn(K, fl[i][1]),
                       LAMBDA i : <<"flag", fl[i][1], D!FlagsIn(K, fl[i][1]), fl[i][2]>>)
        dmiss == LET m == D!OrderOf(K \ ToSetOf(dl)) IN Tup([i \in 1..Len(m) |-> <<"deleg-missing", m[i]>>])
        dextra == Where(Len(dl), LAMBDA i : dl[i] \in K, LAMBDA i : <<"deleg-extra", dl[i]>>)
        dorder == Where(Len(dl) - 1, LAMBDA i : dl[i] < dl[i + 1],
                        LAMBDA i : <<"deleg-order", dl[i], dl[i + 1]>>)
        One(i) == LET b == bs[i]
                      q == qs[i]
                      x == D!BoundsFast(S, K, q)
                  IN IF b[1] # "ok" THEN <<<<"bounds-exc", q, b[1]>>>>
                     ELSE (IF x.left = b[2] THEN <<>> ELSE <<<<"left", q, x.left, b[2]>>>>)
                       \o (IF IdxOrNone(x.right) = b[3] THEN <<>> ELSE <<<<"right", q, IdxOrNone(x.right), b[3]>>>>)
                       \o (IF x.encloser = b[4] THEN <<>> ELSE <<<<"encloser", q, x.encloser, b[4]>>>>)
                       \o (IF x.is_equal = b[5] THEN <<>> ELSE <<<<"is_equal", q, B2I(x.is_equal), B2I(b[5])>>>>)
                       \o (IF x.is_delegation = b[6] THEN <<>> ELSE <<<<"is_delegation", q, B2I(x.is_delegation), B2I(b[6])>>>>)
        bounds == Flat(Tup([i \in 1..Len(bs) |-> One(i)]))
    IN nodes \o order \o flags \o dmiss \o dextra \o dorder \o bounds

e == Ev(t)[l]
Adv == l' = l + 1 /\ t' = t
OpOk == Check(t, l, "OpOk", e.res = "ok")

Judge(o) ==
    /\ Check(t, l, "KnownNames", /\ \A i \in 1..Len(o.content) : Known(o.content[i][1])
                                 /\ \A i \in 1..Len(o.flags) : Known(o.flags[i][1])
                                 /\ \A i \in 1..Len(o.delegs) : Known(o.delegs[i]))
    /\ Check(t, l, "Content", LoggedContent(o.content) = content')
    (* one answer per query name of the declared query set, in its order *)
    /\ Check(t, l, "QueryCoverage", Len(o.bounds) = Len(QueryIdx(Log[t])))
    /\ LET m == Mismatches(o, IdxContent(o.content), QueryIdx(Log[t]))
       IN bad' = bad \o Tup([i \in 1..Len(m) |-> <<l>> \o m[i]])

TraceInit ==
    /\ RegInit
    /\ t \in 1..NTraces /\ l = 1 /\ bad = <<>>
    /\ Init

TLoad == /\ e.op = "load"
         /\ Check(t, l, "KnownNames", \A i \in 1..Len(e.recs) : Known(e.recs[i][1]))
         /\ Load(RecSeq(e.recs)) /\ OpOk /\ Judge(e.obs) /\ Adv
TBegin == e.op = "begin" /\ Begin /\ OpOk /\ bad' = bad /\ Adv
TOp(kind, A(_, _, _)) == /\ e.op = kind /\ Check(t, l, "KnownNames", Known(e.name))
                         /\ A(NT[e.name], e.type, e.k) /\ OpOk /\ bad' = bad /\ Adv
TPut == TOp("put", LAMBDA n, ty, k : Put(n, ty, {k}))
TAdd == TOp("add", Add)
TDelRd == TOp("delrd", DelRd)
TDelRds == TOp("delrds", LAMBDA n, ty, k : DelRds(n, ty))
TDelNode == TOp("delnode", LAMBDA n, ty, k : DelNode(n))
TEnd == /\ e.op = "end"
        /\ IF e.how = "commit" THEN Commit ELSE Rollback
        /\ OpOk /\ Judge(e.obs) /\ Adv

TraceNext ==
    /\ l <= Len(Ev(t))
    /\ TLoad \/ TBegin \/ TPut \/ TAdd \/ TDelRd \/ TDelRds \/ TDelNode \/ TEnd

(* acceptance: all events consumed and no derived-state mismatch; otherwise the whole
   list of mismatches is the diagnostic (line = the first commit that mismatched) *)
Accepted ==
    IF l = Len(Ev(t)) + 1
    THEN IF bad = <<>> THEN Accept(t)
         ELSE IF Len(TLCGet(2)) < 1500 THEN TLCSet(2, Append(TLCGet(2), <<t, bad[1][1], bad>>)) ELSE TRUE
    ELSE TRUE

ASSUME TableOK
=============================================================================
