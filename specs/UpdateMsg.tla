----------------------------- MODULE UpdateMsg -----------------------------
(* DNS UPDATE message construction (RFC 2136 sections 2.3, 2.4, 2.5), as offered by
   dns.update.UpdateMessage: present / absent (prerequisites), add / delete / replace
   (update section).  Written from RFC 2136 and the class documentation, not from the code.

   The state is the four sections of the message, each a SEQUENCE of resource records
   in the order the calls were made (RFC 2136 3.4.2.1: "the Update Section is processed
   in order", so order is semantics).  A record is [n, ty, cl, ttl, rd]:
     n   owner name (abstract; "@" is the zone apex.  The API takes names relative to the
         zone or absolute, as text or as Name objects - that spelling is the caller's
         choice and invisible here: on the wire every name is absolute)
     ty  type ("ANY" is the meta type), cl class ("ANY"/"NONE" are the meta classes)
     ttl, rd  (rd = 0: RDLENGTH 0, empty RDATA; otherwise the identity of an RDATA)

   RFC 2136 (sentences written down without network access; wording may differ in detail):
   2.3   "The ZNAME is the zone name, the ZTYPE must be SOA, and the ZCLASS is the zone's class."
   2.4.1 RRset exists (value independent): "a single RR whose NAME and TYPE are equal to that of
         the zone RRset whose existence is required.  RDLENGTH is zero and RDATA is therefore
         empty.  CLASS must be specified as ANY ...  TTL is specified as zero (0)."
   2.4.2 RRset exists (value dependent): "an entire RRset whose preexistence is required.  NAME and
         TYPE are that of the RRset being denoted.  CLASS is that of the zone.  TTL must be
         specified as zero (0) and is ignored when comparing RRsets for identity."
   2.4.3 RRset does not exist: "a single RR whose NAME and TYPE are equal to that of the RRset whose
         nonexistence is required.  The RDLENGTH of this record is zero (0), and RDATA field is
         therefore empty.  CLASS must be specified as NONE ...  TTL must be specified as zero (0)."
   2.4.4 Name is in use: "a single RR whose NAME is equal to that of the name whose ownership of an
         RR is required.  RDLENGTH is zero and RDATA is therefore empty.  CLASS must be specified
         as ANY ...  TYPE must be specified as ANY ...  TTL is specified as zero (0)."
   2.4.5 Name is not in use: "... RDLENGTH is zero and RDATA is therefore empty.  CLASS must be
         specified as NONE.  TYPE must be specified as ANY.  TTL must be specified as zero (0)."
   2.5.1 Add to an RRset: "RRs are added to the Update Section whose NAME, TYPE, TTL, RDLENGTH and
         RDATA are those being added, and CLASS is the same as the zone class."
   2.5.2 Delete an RRset: "One RR is added to the Update Section whose NAME and TYPE are those of
         the RRset to be deleted.  TTL must be specified as zero (0) ...  CLASS must be specified
         as ANY.  RDLENGTH must be zero (0) and RDATA must therefore be empty."
   2.5.3 Delete all RRsets from a name: "One RR is added to the Update Section whose NAME is that of
         the name to be cleansed of RRsets.  TYPE must be specified as ANY.  TTL must be specified
         as zero (0) ...  CLASS must be specified as ANY.  RDLENGTH must be zero (0) ..."
   2.5.4 Delete an RR from an RRset: "RRs to be deleted are added to the Update Section.  The NAME,
         TYPE, RDLENGTH and RDATA must match the RR being deleted.  TTL must be specified as zero
         (0) ...  CLASS must be specified as NONE to distinguish this from an RR addition."
   dns.update.UpdateMessage.replace: "Replace records."  / _add: "if True, the RRset is replaced
         with the specified contents" = delete the RRset (2.5.2), then add (2.5.1), in that order. *)
EXTENDS Integers, Sequences, FiniteSets, TLC

CONSTANTS Names,      \* owner names inside the zone
          Types,      \* data types
          RdIds,      \* identities of RDATAs (positive integers)
          TTLs,
          ZClasses,   \* classes a zone can have ("IN", "CH")
          GroupSeqs,  \* the "value" arguments of a call: sequences of groups [ty, ttl, rds]
          MaxCalls

VARIABLES zclass, zone, prereq, update, addl, ncalls, last
vars == <<zclass, zone, prereq, update, addl, ncalls, last>>

RR(n, ty, cl, ttl, rd) == [n |-> n, ty |-> ty, cl |-> cl, ttl |-> ttl, rd |-> rd]

RECURSIVE Flat(_)
Flat(ss) == IF ss = <<>> THEN <<>> ELSE Head(ss) \o Flat(Tail(ss))

\* the RRs of one group (one rdataset / "ttl, rdata..." / "rdtype, string..." argument)
GroupRRs(n, cl, ttl, g) == [i \in 1..Len(g.rds) |-> RR(n, g.ty, cl, ttl, g.rds[i])]
OverGroups(gs, F(_)) == Flat([i \in 1..Len(gs) |-> F(gs[i])])

(* ---- what each call appends (the RFC table) ---- *)
NameInUse(n)      == <<RR(n, "ANY", "ANY", 0, 0)>>                      \* 2.4.4
RRsetExists(n, ty) == <<RR(n, ty, "ANY", 0, 0)>>                        \* 2.4.1
RRsetIs(zc, n, gs) == LET F(g) == GroupRRs(n, zc, 0, g) IN OverGroups(gs, F)   \* 2.4.2
NameNotInUse(n)   == <<RR(n, "ANY", "NONE", 0, 0)>>                     \* 2.4.5
RRsetAbsent(n, ty) == <<RR(n, ty, "NONE", 0, 0)>>                       \* 2.4.3
AddTo(zc, n, gs)  == LET F(g) == GroupRRs(n, zc, g.ttl, g) IN OverGroups(gs, F)    \* 2.5.1
DelRRset(n, ty)   == <<RR(n, ty, "ANY", 0, 0)>>                         \* 2.5.2
DelName(n)        == <<RR(n, "ANY", "ANY", 0, 0)>>                      \* 2.5.3
DelRRs(n, gs)     == LET F(g) == GroupRRs(n, "NONE", 0, g) IN OverGroups(gs, F)    \* 2.5.4
ReplaceWith(zc, n, gs) == LET F(g) == DelRRset(n, g.ty) \o GroupRRs(n, zc, g.ttl, g) IN OverGroups(gs, F)

Init == /\ zclass \in ZClasses
        /\ zone = <<RR("@", "SOA", zclass, 0, 0)>>     \* 2.3
        /\ prereq = <<>> /\ update = <<>> /\ addl = <<>>
        /\ ncalls = 0 /\ last = [op |-> "init", sec |-> "none"]

Pre(op, rrs) == /\ prereq' = prereq \o rrs
                /\ last' = [op |-> op, sec |-> "prereq"]
                /\ ncalls' = ncalls + 1
                /\ UNCHANGED <<zclass, zone, update, addl>>
Upd(op, rrs) == /\ update' = update \o rrs
                /\ last' = [op |-> op, sec |-> "update"]
                /\ ncalls' = ncalls + 1
                /\ UNCHANGED <<zclass, zone, prereq, addl>>

PresentName(n)       == Pre("present", NameInUse(n))
PresentType(n, ty)   == Pre("present", RRsetExists(n, ty))
PresentValue(n, gs)  == Pre("present", RRsetIs(zclass, n, gs))
AbsentName(n)        == Pre("absent", NameNotInUse(n))
AbsentType(n, ty)    == Pre("absent", RRsetAbsent(n, ty))
Add(n, gs)           == Upd("add", AddTo(zclass, n, gs))
DeleteName(n)        == Upd("delete", DelName(n))
DeleteType(n, ty)    == Upd("delete", DelRRset(n, ty))
DeleteValue(n, gs)   == Upd("delete", DelRRs(n, gs))
Replace(n, gs)       == Upd("replace", ReplaceWith(zclass, n, gs))

Next == /\ ncalls < MaxCalls
        /\ \/ \E n \in Names : PresentName(n) \/ AbsentName(n) \/ DeleteName(n)
           \/ \E n \in Names, ty \in Types : PresentType(n, ty) \/ AbsentType(n, ty) \/ DeleteType(n, ty)
           \/ \E n \in Names, gs \in GroupSeqs : PresentValue(n, gs) \/ Add(n, gs) \/ DeleteValue(n, gs) \/ Replace(n, gs)
Spec == Init /\ [][Next]_vars

(* ---------------- what TLC checks ---------------- *)
AllTypes == Types \cup {"ANY", "SOA"}
IsRR(r) == /\ r.n \in Names /\ r.ty \in AllTypes /\ r.cl \in ZClasses \cup {"ANY", "NONE"}
           /\ r.ttl \in TTLs \cup {0} /\ r.rd \in RdIds \cup {0}
TypeOK == /\ zclass \in ZClasses /\ ncalls \in 0..MaxCalls
          /\ \A s \in {zone, prereq, update, addl} : \A i \in 1..Len(s) : IsRR(s[i])

\* 2.3: exactly one zone record, type SOA, class of the zone
ZoneOK == zone = <<RR("@", "SOA", zclass, 0, 0)>>

(* The server side of RFC 2136, an independent formulation: the prerequisite scan of 3.2.5
   and the update prescan of 3.4.1.3 (pseudocode) answer FORMERR for a malformed record.
   Every message the API can build must pass them. *)
PrereqFormOK(r) == /\ r.ttl = 0
                   /\ IF r.cl \in {"ANY", "NONE"} THEN r.rd = 0
                      ELSE r.cl = zclass /\ r.ty # "ANY" /\ r.rd # 0
UpdateFormOK(r) == IF r.cl = zclass THEN r.ty # "ANY" /\ r.rd # 0
                   ELSE IF r.cl = "ANY" THEN r.ttl = 0 /\ r.rd = 0
                   ELSE IF r.cl = "NONE" THEN r.ttl = 0 /\ r.ty # "ANY" /\ r.rd # 0
                   ELSE FALSE
WellFormed(pre, upd) == /\ \A i \in 1..Len(pre) : PrereqFormOK(pre[i])
                        /\ \A i \in 1..Len(upd) : UpdateFormOK(upd[i])
ServerAccepts == WellFormed(prereq, update)

IsPrefix(s, u) == Len(s) <= Len(u) /\ SubSeq(u, 1, Len(s)) = s
ZoneFixed == [][zone' = zone /\ zclass' = zclass]_vars
AdditionalUntouched == [][addl' = addl]_vars
Isolation == [][/\ last'.sec = "prereq" => update' = update
                /\ last'.sec = "update" => prereq' = prereq
                /\ last'.op \in {"present", "absent"} <=> last'.sec = "prereq"]_vars
AppendOnly == [][IsPrefix(prereq, prereq') /\ IsPrefix(update, update')]_vars

\* replace = delete the RRset, then add; with several groups = one replace per group
ReplaceLaw == \A n \in Names, gs \in GroupSeqs :
    /\ Len(gs) = 1 => ReplaceWith(zclass, n, gs) = DelRRset(n, gs[1].ty) \o AddTo(zclass, n, gs)
    /\ ReplaceWith(zclass, n, gs) = Flat([i \in 1..Len(gs) |-> ReplaceWith(zclass, n, <<gs[i]>>)])
    /\ AddTo(zclass, n, gs) = Flat([i \in 1..Len(gs) |-> AddTo(zclass, n, <<gs[i]>>)])
\* one record per RDATA handed over / one record for every RDATA-less form
Sizes == \A n \in Names, gs \in GroupSeqs :
    LET k == Len(Flat([i \in 1..Len(gs) |-> gs[i].rds])) IN
    /\ Len(AddTo(zclass, n, gs)) = k /\ Len(DelRRs(n, gs)) = k /\ Len(RRsetIs(zclass, n, gs)) = k
    /\ Len(ReplaceWith(zclass, n, gs)) = k + Len(gs)
\* the ten encodings are pairwise distinguishable (section + class + type + RDATA presence)
Kind(sec, r) == <<sec, IF r.cl \in {"ANY", "NONE"} THEN r.cl ELSE "zone", r.ty = "ANY", r.rd = 0>>
Distinguishable == \A n \in Names, ty \in Types, gs \in GroupSeqs :
    LET ks == <<Kind("p", NameInUse(n)[1]), Kind("p", RRsetExists(n, ty)[1]), Kind("p", RRsetIs(zclass, n, gs)[1]),
                Kind("p", NameNotInUse(n)[1]), Kind("p", RRsetAbsent(n, ty)[1]), Kind("u", AddTo(zclass, n, gs)[1]),
                Kind("u", DelRRset(n, ty)[1]), Kind("u", DelName(n)[1]), Kind("u", DelRRs(n, gs)[1])>>
    IN \A i, j \in 1..Len(ks) : i # j => ks[i] # ks[j]
=============================================================================
