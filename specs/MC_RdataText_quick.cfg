SPECIFICATION RSpec
CONSTANTS
  Wide = FALSE
  Values <- MCValues
INVARIANT Lossless
INVARIANT Idempotent
INVARIANT PlainKeeps
INVARIANT ConfigsDistinct
INVARIANT RelToDecides
INVARIANT ConfigsLossless
PROPERTY Immutable
CHECK_DEADLOCK FALSE
