--------------------------- MODULE Trace_Renderer ---------------------------
(* Trace validation for C03: every recorded call of the real dns.renderer.Renderer must be
   the Renderer action from the current model state (same outcome, position, compression
   table, counts, budget); the REAL octets are decoded with the specification's own decoder
   (WireIs) against the abstract records; the message object path (to_wire / from_wire /
   == / to_wire) is compared with the abstract message. *)
EXTENDS Renderer, VTrace

VARIABLES t, l
tvars == <<st, t, l>>

e == Ev(t)[l]
Cmp == Log[t].cmp
Hdr == Log[t].hdr
Adv == l' = l + 1 /\ t' = t
LogTable(tb) == {<<LowerName(tb[i][1]), tb[i][2]>> : i \in 1..Len(tb)}
ModelTable(S) == {<<k, S.table[k]>> : k \in DOMAIN S.table}
State(S) ==
    /\ Check(t, l, "Pos", e.pos = Len(S.out))
    /\ Check(t, l, "Table", LogTable(e.table) = ModelTable(S))
    /\ Check(t, l, "Counts", e.counts = S.counts)
    /\ Check(t, l, "Section", e.section = S.section)
    /\ Check(t, l, "Budget", e.max = S.maxSize /\ e.reserved = S.reserved)
Outcome(S) == Check(t, l, "Outcome", e.res = S.res)

TraceInit ==
    /\ RegInit
    /\ t \in 1..NTraces /\ l = 1
    /\ st = FInit(Ev(t)[1].id, Ev(t)[1].flags, Ev(t)[1].max)

TNew == /\ e.op = "new" /\ UNCHANGED st
        /\ Check(t, l, "HeaderFlags", e.flags = HdrFlags(Hdr) /\ e.id = Hdr.id)
        /\ State(st) /\ Adv
TQ == /\ e.op = "q" /\ AddQuestion([name |-> e.name, type |-> e.type, cls |-> e.cls])
      /\ Outcome(st') /\ State(st') /\ Adv
Zc == IF Hdr.opcode = OpUpdate THEN Hdr.zcls ELSE ClsIN
TRr == /\ e.op = "rr" /\ AddRRset(e.sec, MkRRset(e, Cmp, Zc))
       /\ Outcome(st') /\ State(st') /\ Adv
TOpt == /\ e.op = "opt"
        /\ Check(t, l, "OptTtl", e.ttl = HdrOpt(Hdr).ttl)
        /\ AddOpt(MkOpt(e.payload, e.ttl, e.options), e.pad, e.osize, e.tsize)
        /\ Outcome(st') /\ State(st') /\ Adv
THdr == /\ e.op = "hdr" /\ WriteHeader /\ State(st') /\ Adv
\* low-level add_tsig / add_multi_tsig: the TSIG record is added whole or refused whole (time and MAC are observed)
TTsigLL == /\ e.op = "tsig"
           /\ AddTsig(MkTsig(e.key, e.alg, e.t48, e.fudge, e.mac, e.origid, 0, <<>>))
           /\ Outcome(st') /\ State(st') /\ Adv
TWire == /\ e.op = "wire" /\ UNCHANGED st
         /\ Check(t, l, "WireBytes", e.wire = st.out)
         /\ Check(t, l, "IndependentDecode", WireIs(e.wire, st.id, st.flags, st.qs, st.xs))
         /\ Adv

(* ---- message object path ---- *)
IsUpdate == Hdr.opcode = OpUpdate
Body(s) == SelectSeq(st.xs, LAMBDA x : x.sec = s /\ x.type \notin {TyOPT, TyTSIG})
RECURSIVE Flat(_)
Flat(rss) == IF rss = <<>> THEN <<>>
             ELSE (IF rss[1].rds = <<>> THEN <<[name |-> rss[1].name, type |-> rss[1].type, cls |-> rss[1].cls,
                                                 del |-> rss[1].del, ttl |-> rss[1].ttl, rd |-> <<>>, empty |-> TRUE]>>
                   ELSE [i \in 1..Len(rss[1].rds) |-> [name |-> rss[1].name, type |-> rss[1].type, cls |-> rss[1].cls,
                                                       del |-> rss[1].del, ttl |-> rss[1].ttl, rd |-> rss[1].rds[i], empty |-> FALSE]])
                  \o Flat(Tail(rss))
\* the parser's representation of expected record x (RFC 2136: class ANY/NONE = deleting marker)
RRIs(p, x) ==
    LET d == IF IsUpdate THEN DeletingOf(x.sec, x.cls) ELSE 0 IN
    /\ NameEqCI(p.name, x.name) /\ p.type = x.type /\ p.ttl = x.ttl
    /\ (IF d # 0 THEN p.cls = Zc /\ p.del = d ELSE p.cls = x.cls /\ p.del = 0)
    /\ p.empty = x.empty /\ MatchItemsCI(p.rd, 0, x.items)
SectionIs(rss, s) == LET f == Flat(rss) b == Body(s) IN
    Len(f) = Len(b) /\ \A i \in 1..Len(b) : RRIs(f[i], b[i])
QuestionIs(rss) ==
    /\ Len(rss) = Len(st.qs)
    /\ \A i \in 1..Len(rss) : /\ NameEqCI(rss[i].name, st.qs[i].name) /\ rss[i].type = st.qs[i].type
                              /\ rss[i].cls = st.qs[i].cls /\ rss[i].rds = <<>>
\* padded: the message was rendered with EDNS padding, so the parsed OPT carries one more
\* option (code 12, all zeros; its length is fixed by the size clauses on the octets)
HeaderIs(m, padded) ==
    /\ m.id = Hdr.id /\ m.flags = HdrFlags(Hdr) /\ m.opcode = Hdr.opcode /\ m.rcode = Hdr.rcode
    /\ IF Hdr.edns[1] = "none" THEN m.edns = -1 /\ m.eflags = <<0, 0>> /\ m.payload = 0 /\ m.options = <<>>
       ELSE LET n == Len(Hdr.edns[5]) IN
            /\ m.edns = Hdr.edns[2] /\ m.eflags = HdrOpt(Hdr).ttl /\ m.payload = Hdr.edns[4]
            /\ Len(m.options) = n + (IF padded THEN 1 ELSE 0)
            /\ \A i \in 1..n : /\ m.options[i][1] = Hdr.edns[5][i][1]
                                /\ m.options[i][2] = Hdr.edns[5][i][2]
            /\ padded => /\ m.options[n + 1][1] = 12
                          /\ \A j \in 1..Len(m.options[n + 1][2]) : m.options[n + 1][2][j] = 0
MessageIs(m, padded) == HeaderIs(m, padded) /\ QuestionIs(m.sections[1]) /\ \A s \in 1..3 : SectionIs(m.sections[s + 1], s)

TMsg == /\ e.op = "msg" /\ UNCHANGED st
        /\ Check(t, l, "RendersAndParses", e.res = "ok")
        /\ Check(t, l, "MessageWire", WireIs(e.wire, st.id, st.flags, st.qs, st.xs))
        /\ Check(t, l, "SameAsLowLevel", e.wire = st.out)
        /\ Check(t, l, "ParsedHeader", HeaderIs(e.parsed, Hdr.pad > 0))
        /\ Check(t, l, "ParsedRecords", MessageIs(e.parsed, Hdr.pad > 0))
        /\ Check(t, l, "ReRenderIdentical", e.wire2 = e.wire)
        \* to_wire(prepend_length=True): the message length, then the very same message (decoded again)
        /\ Check(t, l, "PrependLength", /\ Len(e.wirep) = Len(e.wire) + 2
                                        /\ SubSeq(e.wirep, 1, 2) = U16(Len(e.wire))
                                        /\ WireIs(SubSeq(e.wirep, 3, Len(e.wirep)), st.id, st.flags, st.qs, st.xs)
                                        /\ SubSeq(e.wirep, 3, Len(e.wirep)) = e.wire)
        \* from_wire / to_wire parameter sweep: one_rr_per_rrset, ignore_trailing (+ trailing octets), question_only,
        \* continue_on_error, raise_on_truncation, origin as argument, prepend_length on the parsed message
        /\ Check(t, l, "ParseVariants", HasKey(e, "var") =>
                 /\ MessageIs(e.var.onerr, Hdr.pad > 0) /\ e.var.wire1 = e.wire
                 /\ MessageIs(e.var.trail, Hdr.pad > 0)
                 /\ MessageIs(e.var.coe, Hdr.pad > 0) /\ e.var.nerr = 0             \* continue_on_error on a valid message
                 /\ MessageIs(e.var.rot, Hdr.pad > 0) /\ e.var.trunc = HasBit(HdrFlags(Hdr), TC)   \* raise_on_truncation
                 /\ e.var.wireo = e.wire                                           \* to_wire(origin=...) argument
                 /\ e.var.qonly.id = Hdr.id /\ e.var.qonly.flags = HdrFlags(Hdr) /\ QuestionIs(e.var.qonly.sections[1])
                 /\ \A s \in 2..4 : e.var.qonly.sections[s] = <<>>
                 /\ Len(e.var.wirep2) = Len(e.wire) + 2 /\ SubSeq(e.var.wirep2, 3, Len(e.var.wirep2)) = e.wire)
        /\ Check(t, l, "BuiltMessageIsTheScript", /\ HeaderIs(e.orig, FALSE) /\ QuestionIs(e.orig.sections[1])
                                                   /\ (e.mode = "direct" => MessageIs(e.orig, FALSE)))
        /\ Check(t, l, "ParsedEqualsOriginal", e.eq)
        /\ Adv

\* dns.rcode.to_flags / from_flags and dns.opcode on their whole domains
TRc == /\ e.op = "rc" /\ UNCHANGED st
       /\ Check(t, l, "RcodeSplit", e.v = RcodeLow(e.rc) /\ e.ev = <<RcodeHigh(e.rc) * 256, 0>>)
       /\ Check(t, l, "RcodeJoin", e.back = e.rc /\ RcodeOf(e.v, e.ev) = e.rc)
       /\ Adv
TOc == /\ e.op = "oc" /\ UNCHANGED st
       /\ Check(t, l, "OpcodeBits", e.f = OpcodeBits(e.oc) /\ e.back = e.oc /\ OpcodeOf(e.f) = e.oc)
       /\ Adv

TraceNext == /\ l <= Len(Ev(t))
             /\ \/ TNew \/ TQ \/ TRr \/ TOpt \/ THdr \/ TWire \/ TMsg \/ TRc \/ TOc \/ TTsigLL
Accepted == Accepting(t, l)
=============================================================================
