SPECIFICATION MSpec
CONSTANTS
  MaxExtra = 1
  Pads = {0, 16, 128}
  Step = 1
INVARIANT EveryLimit
CHECK_DEADLOCK FALSE
