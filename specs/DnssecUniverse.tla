--------------------------- MODULE DnssecUniverse ---------------------------
(* The declared universes of C15 (inputs only - never expected results).  Gen_Dnssec
   emits them for the driver, MC_Dnssec checks the oracle's internal laws on them. *)
EXTENDS Dnssec

CONSTANT Thorough            \* BOOLEAN: the wider universes

(* name patterns: lower / UPPER / MiXed spellings of ab.cd, a name whose order against
   them flips under folding, octets just outside 'A'..'Z' / 'a'..'z', octets >= 128
   (Latin-1 "letters" must not fold), the root *)
Plow  == << <<97, 98>>, <<99, 100>> >>
Pup   == << <<65, 66>>, <<67, 68>> >>
Pmix  == << <<97, 66>>, <<67, 100>> >>
Paa   == << <<97, 97>>, <<99, 100>> >>
Pedge == << <<64, 91, 96, 123>>, <<90, 122>> >>
Phigh == << <<192, 224, 65>>, <<0, 255>> >>
Proot == <<>>
NamePats == {Plow, Pup, Pmix, Paa, Pedge, Phigh, Proot}
CasePats == {Plow, Pup, Pmix, Paa}
(* an OUT-OF-ZONE name for the relative modes (origin CD): it stays absolute next to in-zone names that become
   relative, and its canonical wire form (2 a a 1 b ...) sorts BEFORE every in-zone pattern (2 a a 2 c d ...),
   whereas an order that ranks "relative before absolute" or ignores the origin puts it last *)
Pout  == << <<97, 97>>, <<98>> >>                         \* aa.b
MixedSets == {<<Plow, Pout>>, <<Pout, Pmix>>, <<Paa, Pout>>, <<Pout>>}

SlotCount(segs) == Cardinality({i \in 1..Len(segs) : segs[i][1] = "n"})
Fill(segs, f) == [i \in 1..Len(segs) |-> IF segs[i][1] = "n" THEN <<"n", f[NameIdx(segs, i)]>> ELSE segs[i]]
FillAll(segs, p) == [i \in 1..Len(segs) |-> IF segs[i][1] = "n" THEN <<"n", p>> ELSE segs[i]]

(* ---- canonical RDATA: every template x every pattern in every name slot ---- *)
CanonCases ==
    UNION {{[k |-> "canon", key |-> T.key, t |-> T.t, c |-> T.c, segs |-> Fill(T.segs, f)] :
                f \in [1..SlotCount(T.segs) -> NamePats]} : T \in Templates}
NameCases == {[k |-> "ncanon", n |-> p] : p \in NamePats}

(* ---- signature input ---- *)
WildCd   == << <<42>>, <<67, 100>> >>                  \* *.Cd
WildAbCd == << <<42>>, <<97, 66>>, <<99, 100>> >>      \* *.aB.cd
SigOwners  == IF Thorough THEN {Plow, Pup, Pmix, Pedge, WildCd, WildAbCd, Proot} ELSE {Pmix, WildCd, WildAbCd, Proot}
SigSigners == IF Thorough THEN {<< <<67, 100>> >>, Proot} ELSE {<< <<67, 100>> >>}
Deep3 == {"NS", "LP", "MX", "SVCB-svc", "NSEC", "CH-A", "SOA"}
Singletons == {5, 6, 30, 39, 47}       \* CNAME SOA NXT DNAME NSEC: at most one RR per RRset by definition
RRsetPats(T) ==
    IF SlotCount(T.segs) = 0 THEN {<<Plow>>}
    ELSE IF T.t \in Singletons THEN {<<p>> : p \in CasePats}
    ELSE {<<p>> : p \in CasePats} \cup {<<p, q>> : p \in CasePats, q \in CasePats} \cup MixedSets
         \cup (IF T.key \in Deep3 THEN {<<Pup, Pout, Paa>>, <<Pout, Plow, Pout>>} ELSE {})
         \cup (IF T.key \in Deep3 \/ (Thorough /\ T.impl /\ T.t \in DOMAIN CanonTable /\ SlotCount(T.segs) = 1)
               THEN {<<p, q, r>> : p \in CasePats, q \in CasePats, r \in CasePats} ELSE {})
SigOf(T, labels, signer) ==
    [cov |-> U16(T.t), alg |-> 8, labels |-> labels, ottl |-> <<0, 0, 14, 16>>, exp |-> <<80, 65, 66, 67>>,
     inc |-> <<79, 68, 69, 70>>, tag |-> <<65, 90>>, signer |-> signer]
SigSignersFor(ps) == IF Len(ps) = 3 THEN {<< <<67, 100>> >>} ELSE SigSigners
SigCasesOf(TS) ==
    UNION {UNION {UNION {{[k |-> "sig", key |-> T.key, t |-> T.t, c |-> T.c, owner |-> o,
                           rrs |-> [i \in 1..Len(ps) |-> FillAll(T.segs, ps[i])], sg |-> SigOf(T, lb, s)] :
                               lb \in 0..(Len(o) + 1), s \in SigSignersFor(ps)} : ps \in RRsetPats(T)} : o \in SigOwners} : T \in TS}
(* two-name types: the origin of the relative modes itself next to the root in the second slot ("@ ." and "@ @"
   in zone-file terms) - two different RRs whose names coincide once the origin is left out *)
Pcd == << <<67, 68>> >>
OriginVsRoot(TS) ==
    {[k |-> "sig", key |-> T.key, t |-> T.t, c |-> T.c, owner |-> Pmix,
      rrs |-> <<Fill(T.segs, <<Pcd, Proot>>), Fill(T.segs, <<Pcd, Pcd>>)>>, sg |-> SigOf(T, 2, Pcd)] :
        T \in {U \in TS : SlotCount(U.segs) = 2 /\ U.t \notin Singletons}}
SigCases == SigCasesOf(Templates) \cup OriginVsRoot(Templates)
SigPart(i) == LET TS == {T \in Templates : T.t % 4 = i} IN SigCasesOf(TS) \cup OriginVsRoot(TS)     \* the same universe in four parts (parallel emission)

(* ---- key tags and DS ---- *)
Rep(c, n) == [i \in 1..n |-> c]
Asc(n)    == [i \in 1..n |-> (i * 37) % 256]
KeyBodies == {Rep(255, 3), Rep(255, 4), Asc(5), Asc(8), Rep(255, 64), Rep(255, 65), Asc(33)}
(* RDATAs constructed arithmetically so that the octet sum S of RFC 4034 App. B lands where the
   single "ac += (ac >> 16) & 0xFFFF; ac & 0xFFFF" differs from an end-around-carry fold:
   (S % 65536) + (S \div 65536) >= 65536.  S = 1FFFF (even / odd length, algorithms 8 / 13),
   2FFFE, 3FFFD, and 1FFFE as the neighbour where both folds agree. *)
CarryKeys == { <<1, 1, 3, 8, 255, 255, 251, 247>>,                 \* S = 1FFFF, 8 octets
               <<1, 1, 3, 8, 255, 255, 0, 247, 251>>,              \* S = 1FFFF, 9 octets (odd tail is a high half)
               <<1, 1, 3, 13, 255, 255, 251, 242>>,                \* S = 1FFFF, algorithm 13
               <<1, 1, 3, 8, 255, 255, 255, 255, 251, 247>>,       \* S = 2FFFE
               <<1, 1, 3, 8, 255, 255, 255, 255, 255, 255, 0, 247, 251>>,   \* S = 3FFFD, 13 octets
               <<1, 1, 3, 8, 255, 255, 251, 246>> }                \* S = 1FFFE: no second carry
KeySum(rd) == KtSum(rd, 1, Len(rd))
KeyRdatas == {<<1, 1, 3, a>> \o b : a \in {1, 8, 13, 15}, b \in KeyBodies} \cup CarryKeys
KeyCases  == {[k |-> "keytag", rd |-> r] : r \in KeyRdatas}
Psub == << <<83, 117, 98>>, <<97, 66>>, <<67, 100>> >>          \* Sub.aB.Cd: splits into relative part + origin at 0..3 labels
DsCases   == {[k |-> "ds", owner |-> o, key |-> r, dt |-> d] :
                 o \in NamePats \cup {Psub}, r \in {x \in KeyRdatas : Thorough \/ Len(x) \in {8, 9, 69} \/ (x \in CarryKeys /\ Len(x) <= 9)}, d \in {1, 2, 4}}

(* ---- NSEC3 ---- *)
Salts == {<<>>, <<171>>, <<1, 2, 3, 4, 65, 90, 97, 255>>}
Nsec3Cases == {[k |-> "nsec3", n |-> p, salt |-> s, iter |-> it] : p \in NamePats, s \in Salts, it \in {0, 1, 10}}

(* ---- type bitmaps ---- *)
BmTypes == {1, 2, 7, 8, 46, 47, 255, 256, 257, 1234, 65280, 65535}
BitmapCases == {[k |-> "bitmap", types |-> SortBy(S, IntLess)] :
                   S \in {X \in SUBSET BmTypes : X # {} /\ (Cardinality(X) <= (IF Thorough THEN 4 ELSE 3) \/ X = BmTypes)}}

(* ---- zones ---- *)
Org == << <<69, 120>> >>                                \* Ex.
NodeName(k) == CASE k = "apex" -> Org
                 [] k = "a"    -> << <<97>> >> \o Org
                 [] k = "ba"   -> << <<98>>, <<97>> >> \o Org
                 [] k = "am"   -> << <<97, 45>> >> \o Org               \* "a-": continues the label of a with an octet below '.'
                                                                       \* (2D < 2E): canonically AFTER b.a, before it in any
                                                                       \* order on dot-joined text
                 [] k = "C"    -> << <<67>> >> \o Org                   \* upper-case owner: sorts after b.a
                 [] k = "d"    -> << <<100>> >> \o Org                  \* delegation
                 [] k = "gd"   -> << <<103>>, <<100>> >> \o Org         \* glue below it
                 [] k = "gD"   -> << <<71>>, <<68>> >> \o Org           \* glue G.D: spelled in another case than the cut d
                 [] k = "hgd"  -> << <<104>>, <<103>>, <<100>> >> \o Org
                 [] k = "xy"   -> << <<120>>, <<121>> >> \o Org         \* y is an empty non-terminal
                 [] k = "ww"   -> << <<42>>, <<119>> >> \o Org          \* wildcard
TTL300 == <<0, 0, 1, 44>>
TTL60  == <<0, 0, 0, 60>>
RR(k, t, ttl, segs) == [o |-> NodeName(k), t |-> t, c |-> 1, ttl |-> ttl, segs |-> segs]
SoaBody == <<0, 0, 0, 65, 0, 0, 14, 16, 0, 0, 3, 132, 0, 9, 58, 128, 0, 0, 1, 44>>
DsBody  == <<0, 1, 8, 2>> \o [i \in 1..32 |-> 64 + i]
ZmdBody == <<0, 0, 0, 65, 1, 1>> \o [i \in 1..48 |-> 64 + i]
SigBody(cov) == U16(cov) \o <<8, 1, 0, 0, 1, 44, 80, 65, 66, 67, 79, 68, 69, 70, 65, 90>>
RRsOf(k, tag) ==
    CASE tag = "SOA"   -> <<RR(k, 6, TTL300, << <<"n", << <<78, 115>> >> \o Org>>, <<"n", << <<72, 111, 115, 116>> >> \o Org>>, <<"b", SoaBody>> >>)>>
      [] tag = "NS"    -> <<RR(k, 2, TTL300, << <<"n", << <<78, 115>> >> \o NodeName(k)>> >>)>>
      [] tag = "NS2"   -> <<RR(k, 2, TTL300, << <<"n", << <<110, 115, 50>> >> \o Org>> >>),
                            RR(k, 2, TTL300, << <<"n", << <<78, 83, 49>> >> \o Org>> >>)>>
      [] tag = "A"     -> <<RR(k, 1, TTL60, << <<"b", <<192, 0, 2, 1>> >> >>)>>
      [] tag = "A2"    -> <<RR(k, 1, TTL60, << <<"b", <<192, 0, 2, 65>> >> >>), RR(k, 1, TTL60, << <<"b", <<192, 0, 2, 1>> >> >>)>>
      [] tag = "TXT"   -> <<RR(k, 16, TTL300, << <<"b", <<2, 72, 105>> >> >>)>>
      [] tag = "DS"    -> <<RR(k, 43, TTL300, << <<"b", DsBody>> >>)>>
      [] tag = "CNAME" -> <<RR(k, 5, TTL300, << <<"n", Pmix>> >>)>>
      [] tag = "ZONEMD" -> <<RR(k, 63, TTL300, << <<"b", ZmdBody>> >>)>>
      [] tag = "SIGZMD" -> <<RR(k, 46, TTL300, << <<"b", SigBody(63)>>, <<"n", Org>>, <<"b", <<65, 90>> >> >>)>>
      [] tag = "SIGNS"  -> <<RR(k, 46, TTL300, << <<"b", SigBody(2)>>, <<"n", Org>>, <<"b", <<65, 90>> >> >>)>>
      [] tag = "SIGTXT" -> <<RR(k, 46, TTL300, << <<"b", SigBody(16)>>, <<"n", Org>>, <<"b", <<65, 90>> >> >>)>>
      [] tag = "SIGA"   -> <<RR(k, 46, TTL300, << <<"b", SigBody(1)>>, <<"n", Org>>, <<"b", <<65, 90>> >> >>)>>
      [] tag = "SIGSOA" -> <<RR(k, 46, TTL300, << <<"b", SigBody(6)>>, <<"n", Org>>, <<"b", <<65, 90>> >> >>)>>
Menu(k) ==
    CASE k = "apex" -> {<<"SOA", "NS">>, <<"NS2", "TXT", "SOA", "A">>}
      [] k = "a"    -> {<<"A">>, <<"TXT", "A2">>, <<"CNAME">>}
      [] k = "d"    -> {<<"NS">>, <<"DS", "NS">>, <<"A", "NS">>, <<"TXT", "NS2", "A", "DS">>}
      [] k = "gd"   -> IF Thorough THEN {<<"A">>, <<"A", "NS">>} ELSE {<<"A">>}
      [] k = "gD"   -> {<<"A">>}
      [] k = "ba"   -> {<<"TXT">>}
      [] k = "am"   -> {<<"TXT">>}
      [] k = "C"    -> {<<"A">>}
      [] k = "hgd"  -> {<<"A">>}
      [] k = "xy"   -> {<<"A">>}
      [] k = "ww"   -> {<<"TXT">>}
Optional == IF Thorough THEN {"a", "ba", "am", "C", "d", "gd", "gD", "hgd", "xy", "ww"} ELSE {"a", "ba", "am", "C", "d", "gd", "gD", "xy", "ww"}
NodeOrder == <<"am", "ww", "gD", "d", "a", "hgd", "apex", "xy", "gd", "C", "ba">>     \* deliberately not canonical
(* the other-case glue only together with its cut and instead of the same-case glue (bounds the count) *)
NodeSetOk(X) == /\ "gD" \in X => ("d" \in X /\ "gd" \notin X)
                (* the label-prefix sibling only next to the descendant it must sort after (bounds the count) *)
                /\ "am" \in X => ("ba" \in X /\ "gD" \notin X /\ "C" \notin X /\ "xy" \notin X)
(* several RRSIG rdatasets (different covered types) at one owner, inserted in either order: RFC 8976 3.3.1 orders
   RRs of one owner and type by canonical RDATA, and RRSIG RDATA starts with the type covered *)
SigOrderExtras == {<<<<"apex", "SIGSOA">>, <<"apex", "SIGNS">>>>, <<<<"apex", "SIGNS">>, <<"apex", "SIGSOA">>>>,
                   <<<<"ba", "SIGTXT">>, <<"apex", "SIGSOA">>, <<"ba", "SIGA">>, <<"apex", "SIGA">>>>}

ZmdExtras == {<<>>, <<<<"apex", "ZONEMD">>>>, <<<<"apex", "ZONEMD">>, <<"apex", "SIGZMD">>, <<"apex", "SIGSOA">>>>,
              <<<<"ba", "ZONEMD">>, <<"apex", "SIGSOA">>>>} \cup SigOrderExtras
NodeRRs(k, m) == Flat([i \in 1..Len(m) |-> RRsOf(k, m[i])])
ZoneOf(S, pick, extra) ==
    [origin |-> Org,
     rrs |-> Flat([i \in 1..Len(NodeOrder) |-> IF NodeOrder[i] \in S \cup {"apex"} THEN NodeRRs(NodeOrder[i], pick[NodeOrder[i]]) ELSE <<>>])
             \o Flat([i \in 1..Len(extra) |-> RRsOf(extra[i][1], extra[i][2])])]
PicksOf(S) ==
    {[k \in Optional \cup {"apex"} |->
         CASE k = "apex" -> pa [] k = "a" -> pb [] k = "d" -> pd [] k = "gd" -> pg
           [] OTHER -> CHOOSE m \in Menu(k) : TRUE] :
       pa \in Menu("apex"),
       pb \in (IF "a" \in S THEN Menu("a") ELSE {<<"A">>}),
       pd \in (IF "d" \in S THEN Menu("d") ELSE {<<"NS">>}),
       pg \in (IF "gd" \in S THEN Menu("gd") ELSE {<<"A">>})}
MaxNodes == IF Thorough THEN 6 ELSE 5
ZoneCases ==
    UNION {{[k |-> "zone", zmd |-> Len(e), z |-> ZoneOf(S, f, e)] :
                f \in PicksOf(S), e \in {x \in ZmdExtras : x = <<>> \/ (Cardinality(S) <= 2 /\ x \notin SigOrderExtras)
                                                                      \/ Cardinality(S) <= 1}} :
           S \in {X \in SUBSET Optional : Cardinality(X) <= MaxNodes - 1 /\ NodeSetOk(X)}}
=============================================================================
