----------------------------- MODULE ZfUniverse -----------------------------
(* The bounded universe shared by MC_ZoneFile (exhaustive checking) and Gen_ZoneFile
   (behaviour generation): zone origin, label order, record universe, curated zones,
   style vectors, spelling forms, $GENERATE lines, noise. *)
EXTENDS ZoneFile

UZO == <<"example">>
URank == [l \in {"*", "a", "b", "h01", "h02", "h03", "h1", "h2", "h3", "mail", "ns", "t", "example", "other", "x", "mx", "hm"} |->
            CASE l = "*" -> 1 [] l = "a" -> 2 [] l = "b" -> 3 [] l = "example" -> 4
              [] l = "h01" -> 5 [] l = "h02" -> 6 [] l = "h03" -> 7 [] l = "h1" -> 8 [] l = "h2" -> 9 [] l = "h3" -> 10
              [] l = "hm" -> 11 [] l = "mail" -> 12 [] l = "mx" -> 13 [] l = "ns" -> 14 [] l = "other" -> 15
              [] l = "t" -> 16 [] l = "x" -> 17]

N(rel) == rel \o UZO
Owners == {<<>>, <<"a">>, <<"b", "a">>, <<"*", "a">>}
UTTLs == {0, 5, 300, 600}

(* rdata universe per type: <<names, data>> *)
RdSOA == {<< <<N(<<"ns">>), <<"hm", "other">>>>, <<1, 3600, 600, 86400, 300>> >>,
          << <<N(<<>>), N(<<"hm">>)>>, <<7, 3600, 600, 86400, 5>> >>}
RdNS == {<< <<N(<<"ns">>)>>, <<>> >>, << <<<<"ns", "other">>>>, <<>> >>}
RdA == {<< <<>>, <<10, 0, 0, 1>> >>, << <<>>, <<10, 0, 0, 2>> >>}
RdCNAME == {<< <<N(<<"t">>)>>, <<>> >>, << <<<<"t", "other">>>>, <<>> >>}
\* TXT data = character-strings flattened as <<len, octets...>>: letters, quote, backslash,
\* space, semicolon, parentheses, high octet, control octet, empty string, two strings
RdTXT == {<< <<>>, <<1, 97>> >>, << <<>>, <<3, 97, 34, 98>> >>, << <<>>, <<4, 32, 59, 40, 41>> >>,
          << <<>>, <<3, 92, 200, 7>> >>, << <<>>, <<0>> >>, << <<>>, <<1, 97, 2, 98, 99>> >>,
          << <<>>, <<2, 36, 64>> >>}
RdMX == {<< <<N(<<"mail">>)>>, <<10>> >>, << <<<<"mx", "other">>>>, <<20>> >>, << <<N(<<>>)>>, <<0>> >>}
RdNSEC == {<< <<N(<<"b", "a">>)>>, <<1, 15>> >>, << <<N(<<>>)>>, <<2, 6, 47>> >>}
RdUNK == {<< <<>>, <<1, 2, 3>> >>, << <<>>, <<>> >>, << <<>>, <<255, 0, 34, 92>> >>}

\* DNSKEY / KEY data = <<flags, protocol, algorithm, key octets...>>
RdDNSKEY == {<< <<>>, <<256, 3, 8, 1, 2, 3, 4, 5>> >>, << <<>>, <<257, 3, 13, 200, 0, 255>> >>}
RdKEY == {<< <<>>, <<256, 3, 8, 9, 9>> >>}
\* RRSIG data = <<type covered, algorithm, labels, original TTL, expiration, inception, key tag, signature octets...>>, names = <<signer>>
Sig(cov, tag) == << <<N(<<>>)>>, <<cov, 8, 2, 300, 1893456000, 1577836800, tag, 1, 2, 3, 4, 5, 6, 250>> >>
RdOf(ty) == CASE ty = "DNSKEY" -> RdDNSKEY [] ty = "KEY" -> RdKEY
              [] ty = "RRSIG/A" -> {Sig(1, 11)} [] ty = "RRSIG/DNSKEY" -> {Sig(48, 12)}
              [] ty = "RRSIG/CNAME" -> {Sig(5, 13)} [] ty = "RRSIG/NSEC" -> {Sig(47, 14)}
              [] ty = "SIG/A" -> {Sig(1, 21)} [] ty = "SIG/MX" -> {Sig(15, 22)}   \* legacy SIG (type 24): same rdata, one rdataset per covered type
              [] ty = "SOA" -> RdSOA [] ty = "NS" -> RdNS [] ty = "A" -> RdA [] ty = "CNAME" -> RdCNAME
              [] ty = "TXT" -> RdTXT [] ty = "MX" -> RdMX [] ty = "NSEC" -> RdNSEC [] ty = "TYPE65280" -> RdUNK
UTypes == {"SOA", "NS", "A", "CNAME", "TXT", "MX", "NSEC", "TYPE65280",
           "DNSKEY", "KEY", "RRSIG/A", "RRSIG/DNSKEY", "RRSIG/CNAME", "RRSIG/NSEC", "SIG/A", "SIG/MX"}

ZoneOf(recs) == ZoneOfRecs(recs)

SOA1 == << <<N(<<"ns">>), <<"hm", "other">>>>, <<1, 3600, 600, 86400, 300>> >>
SOA2 == << <<N(<<>>), N(<<"hm">>)>>, <<7, 3600, 600, 86400, 5>> >>
NS1 == << <<N(<<"ns">>)>>, <<>> >>
NS2 == << <<<<"ns", "other">>>>, <<>> >>
A1 == << <<>>, <<10, 0, 0, 1>> >>
A2 == << <<>>, <<10, 0, 0, 2>> >>
A3 == << <<>>, <<10, 0, 0, 3>> >>
CN1 == << <<N(<<"t">>)>>, <<>> >>
CN2 == << <<<<"t", "other">>>>, <<>> >>
TXq == << <<>>, <<3, 97, 34, 98>> >>
TXs == << <<>>, <<4, 32, 59, 40, 41>> >>
TXh == << <<>>, <<3, 92, 200, 7>> >>
TX2 == << <<>>, <<1, 97, 2, 98, 99>> >>
MX1 == << <<N(<<"mail">>)>>, <<10>> >>
MX2 == << <<<<"mx", "other">>>>, <<20>> >>
MX3 == << <<N(<<>>)>>, <<0>> >>
NSEC1 == << <<N(<<"b", "a">>)>>, <<1, 15>> >>
UNK1 == << <<>>, <<1, 2, 3>> >>
UNK0 == << <<>>, <<>> >>

ZApex == {<< <<>>, "SOA", 300, SOA1 >>, << <<>>, "NS", 300, NS1 >>, << <<>>, "NS", 300, NS2 >>}
Z1 == ZoneOf(ZApex \cup {<< <<"a">>, "A", 600, A1 >>, << <<"a">>, "A", 600, A2 >>})
Z2 == ZoneOf({<< <<>>, "SOA", 5, SOA2 >>, << <<"a">>, "CNAME", 300, CN1 >>, << <<"a">>, "NSEC", 300, NSEC1 >>,
              << <<"b", "a">>, "MX", 5, MX1 >>, << <<"*", "a">>, "TXT", 600, TXq >>})
Z3 == ZoneOf({<< <<"a">>, "MX", 5, MX1 >>, << <<"a">>, "MX", 5, MX2 >>, << <<"b", "a">>, "TYPE65280", 300, UNK1 >>,
              << <<"b", "a">>, "TYPE65280", 300, UNK0 >>, << <<"*", "a">>, "A", 600, A1 >>})
Z4 == ZoneOf({<< <<>>, "NS", 600, NS2 >>, << <<"a">>, "A", 600, A1 >>, << <<"a">>, "TXT", 5, TXs >>,
              << <<"b", "a">>, "A", 5, A2 >>, << <<"*", "a">>, "CNAME", 300, CN2 >>})
Z5 == ZoneOf({<< <<>>, "MX", 300, MX3 >>, << <<"a">>, "TXT", 300, TXh >>, << <<"a">>, "TXT", 300, TX2 >>})
\* a run that $GENERATE can produce
ZG == ZoneOf({<< <<"h1">>, "A", 300, A1 >>, << <<"h2">>, "A", 300, A2 >>, << <<"h3">>, "A", 300, A3 >>,
              << <<>>, "NS", 300, NS1 >>})
ZG2 == ZoneOf({<< <<"h01", "a">>, "CNAME", 5, << <<N(<<"t0a">>)>>, <<>> >> >>,
               << <<"h02", "a">>, "CNAME", 5, << <<N(<<"t0b">>)>>, <<>> >> >>,
               << <<"a">>, "A", 5, A1 >>})
\* TTL 0 (with default_ttl = 0 the writer must still emit "$TTL 0")
Z6 == ZoneOf({<< <<>>, "NS", 300, NS1 >>, << <<"a">>, "A", 0, A1 >>, << <<"a">>, "A", 0, A2 >>, << <<"b", "a">>, "TXT", 0, TXq >>})
\* DNSSEC families: everything that may sit beside a CNAME, and DNSKEY / RRSIG rdatasets
KEY1 == << <<>>, <<256, 3, 8, 9, 9>> >>
DK1 == << <<>>, <<256, 3, 8, 1, 2, 3, 4, 5>> >>
DK2 == << <<>>, <<257, 3, 13, 200, 0, 255>> >>
Z7 == ZoneOf({<< <<"a">>, "CNAME", 300, CN1 >>, << <<"a">>, "RRSIG/CNAME", 300, Sig(5, 13) >>, << <<"a">>, "KEY", 300, KEY1 >>,
              << <<"a">>, "NSEC", 300, NSEC1 >>, << <<"a">>, "RRSIG/NSEC", 300, Sig(47, 14) >>})
Z8 == ZoneOf({<< <<>>, "DNSKEY", 600, DK1 >>, << <<>>, "DNSKEY", 600, DK2 >>, << <<>>, "RRSIG/DNSKEY", 600, Sig(48, 12) >>,
              << <<"b", "a">>, "A", 5, A1 >>, << <<"b", "a">>, "RRSIG/A", 5, Sig(1, 11) >>})
\* two legacy SIG rdatasets (different covered types, different TTLs) at one owner
Z9 == ZoneOf({<< <<>>, "NS", 300, NS1 >>, << <<"a">>, "A", 300, A1 >>, << <<"a">>, "SIG/A", 300, Sig(1, 21) >>,
              << <<"a">>, "SIG/MX", 600, Sig(15, 22) >>, << <<"a">>, "MX", 600, MX1 >>})
Curated == {Z1, Z2, Z3, Z4, Z5, Z6, Z7, Z8, Z9, ZG, ZG2}

AllRecs == UNION {{<<o, ty, t, rd>> : o \in (IF ty = "SOA" THEN {<<>>} ELSE Owners), t \in UTTLs, rd \in RdOf(ty)} : ty \in UTypes}
Singles == {ZoneOf({r}) : r \in AllRecs}
PairBase == {r \in AllRecs : r[1] \in {<<>>, <<"a">>} /\ r[3] = (IF r[1] = <<>> THEN 300 ELSE 5)
                              /\ r[4] = (CHOOSE rd \in RdOf(r[2]) : TRUE)}
PairSets == {S \in {{r1, r2} : r1, r2 \in PairBase} :
               \A x, y \in S : (x[1] = y[1] /\ x[2] = y[2]) => x[3] = y[3]}
WellFormedPairs == {z \in {ZoneOf(S) : S \in PairSets} : WellFormedZone(z)}

(* style vectors *)
Bool == {TRUE, FALSE}
DefaultStyle == [sorted |-> TRUE, wantOrigin |-> FALSE, org |-> "none", defTTL |-> <<"none">>, dedup |-> FALSE,
                 omitClass |-> FALSE, generic |-> FALSE, comments |-> FALSE, just |-> FALSE, chunk |-> FALSE, nl |-> "lf"]
SemStyles == [sorted : Bool, wantOrigin : Bool, org : {"none", "rel", "derel"},
              defTTL : {<<"none">>, <<"t", 300>>, <<"t", 77>>, <<"t", 0>>}, dedup : Bool, omitClass : Bool, generic : Bool,
              comments : {FALSE}, just : {FALSE}, chunk : {FALSE}, nl : {"lf"}]
AllStyles == [sorted : Bool, wantOrigin : Bool, org : {"none", "rel", "derel"},
              defTTL : {<<"none">>, <<"t", 300>>, <<"t", 77>>, <<"t", 0>>}, dedup : Bool, omitClass : Bool, generic : Bool,
              comments : Bool, just : Bool, chunk : Bool, nl : {"lf", "crlf"}]
Knobs == {"sorted", "wantOrigin", "org", "defTTL", "dedup", "omitClass", "generic", "comments", "just", "chunk", "nl"}
Deviations(st) == Cardinality({k \in Knobs : st[k] # DefaultStyle[k]})
\* every pair of knob values occurs in some vector with at most two non-default knobs
PairwiseStyles == {st \in AllStyles : Deviations(st) <= 2}

\* every semantic vector with owner de-duplication on (layout knobs off)
DedupStyles == {st \in SemStyles : st.dedup}
EmptiesStylesThorough == PairwiseStyles \cup DedupStyles
SingleKnobStyles == {st \in AllStyles : Deviations(st) <= 1}

(* spelling forms *)
FullForms == [cls |-> {"none", "IN", "CLASS1"}, ord |-> {"tc", "ct"}, ttl |-> {"t", "u"}, tg |-> Bool, gen |-> Bool,
              lay |-> {"single", "paren", "parenc", "paren0"}, relorigin |-> TRUE]
\* the reader ignores cls/ord/tg/lay by construction: the exhaustive run varies what it does not ignore
McForms == [cls |-> {"none", "IN"}, ord |-> {"tc"}, ttl |-> {"t"}, tg |-> {FALSE}, gen |-> {FALSE, TRUE},
            lay |-> {"single"}, relorigin |-> TRUE]
PlainForms == [cls |-> {"IN"}, ord |-> {"tc"}, ttl |-> {"t"}, tg |-> {FALSE}, gen |-> {FALSE},
               lay |-> {"single"}, relorigin |-> FALSE]
UOrigins == {UZO, <<"a", "example">>, <<"b", "a", "example">>, <<"other">>}
UNoNoise == {}
Lit(x) == <<"lit", x>>
Dot == <<"dot">>
Mod(off, w, b) == <<"mod", off, w, b>>
Side(items, abs) == [items |-> items, abs |-> abs]
NameRhs(items, abs) == [kind |-> "name", items |-> items, abs |-> abs]
AddrRhs(pfx, off) == [kind |-> "addr", pfx |-> pfx, off |-> off]
Gen(start, stop, step, lhs, ttl, cls, ty, rhs) ==
    [k |-> "gen", start |-> start, stop |-> stop, step |-> step, lhs |-> lhs, ttl |-> ttl, cls |-> cls, ty |-> ty, rhs |-> rhs]
G1 == Gen(1, 3, 1, Side(<<Lit("h"), Mod(0, 0, "d")>>, FALSE), <<"t", 300>>, "IN", "A", AddrRhs(<<10, 0, 0>>, 0))
G1b == Gen(0, 2, 1, Side(<<Lit("h"), Mod(1, 0, "d"), Dot, Lit("example")>>, TRUE), <<"none">>, "none", "A", AddrRhs(<<10, 0, 0>>, 1))
G1c == [G1 EXCEPT !.step = 2]     \* h1, h3 only
G2 == Gen(1, 2, 1, Side(<<Lit("h"), Mod(0, 2, "d"), Dot, Lit("a")>>, FALSE), <<"t", 5>>, "none", "CNAME",
          NameRhs(<<Lit("t"), Mod(9, 2, "x")>>, FALSE))
\* nibble bases, widths 0..4, iterator values with 1-3 hex digits
GN0 == Gen(10, 11, 1, Side(<<Lit("h"), Mod(0, 0, "n")>>, FALSE), <<"t", 5>>, "IN", "A", AddrRhs(<<10, 0, 1>>, 0))          \* ha hb
GN1 == Gen(26, 26, 1, Side(<<Mod(0, 1, "n"), Dot, Lit("a")>>, FALSE), <<"t", 5>>, "IN", "A", AddrRhs(<<10, 0, 1>>, 0))     \* a.1.a
GN2 == Gen(10, 10, 1, Side(<<Mod(0, 2, "n"), Lit("x")>>, FALSE), <<"t", 5>>, "IN", "A", AddrRhs(<<10, 0, 1>>, 0))           \* a.x
GN3 == Gen(300, 301, 1, Side(<<Mod(0, 3, "n")>>, FALSE), <<"t", 5>>, "IN", "A", AddrRhs(<<10, 0, 1>>, -200))                \* c.2.1 d.2.1
GN4 == Gen(10, 10, 1, Side(<<Mod(0, 4, "n"), Lit("x")>>, FALSE), <<"t", 5>>, "IN", "A", AddrRhs(<<10, 0, 1>>, 0))           \* a.0.x
GN5 == Gen(299, 300, 1, Side(<<Lit("u"), Mod(1, 2, "N"), Dot, Lit("a")>>, FALSE), <<"t", 5>>, "none", "CNAME",
           NameRhs(<<Mod(0, 0, "n"), Dot, Lit("example")>>, TRUE))                                                          \* uC.2.1.a uD.2.1.a -> b.2.1.example. / c.2.1.example.
GN6 == Gen(10, 10, 1, Side(<<Mod(0, 4, "n"), Lit("example"), Dot>>, FALSE), <<"t", 5>>, "IN", "A", AddrRhs(<<10, 0, 1>>, 0)) \* a.0.example. (text ends in a dot)
\* several $ on a side, each with its own modifiers
GM1 == Gen(1, 2, 1, Side(<<Lit("h"), Mod(0, 0, "d"), Lit("x"), Mod(1, 2, "d")>>, FALSE), <<"t", 5>>, "IN", "CNAME",
           NameRhs(<<Lit("t"), Mod(0, 2, "x"), Lit("-"), Mod(0, 0, "d")>>, FALSE))                                          \* h1x02 -> t01-1
GM2 == Gen(9, 10, 1, Side(<<Mod(0, 0, "d"), Lit("-"), Mod(0, 3, "d"), Lit("-"), Mod(1, 0, "x"), Dot, Lit("a")>>, FALSE),
           <<"t", 5>>, "IN", "NS", NameRhs(<<Mod(0, 0, "x"), Dot, Mod(2, 2, "d"), Dot, Lit("other")>>, TRUE))               \* 9-009-a.a -> 9.11.other.
GNew == {GN0, GN1, GN2, GN3, GN4, GN5, GN6, GM1, GM2}
\* the zone a $GENERATE line expands to under the zone origin (plus an apex NS)
GenZone(g) == ZoneOf({<<RelPart(GenName(g.lhs, i, UZO), UZO), g.ty, g.ttl[2], GenRd(g, i, UZO)>> : i \in GenRange(g)}
                     \cup {<< <<>>, "NS", 300, NS1 >>})
GenZones == {GenZone(g) : g \in GNew}
UGenerates == {G1, G1b, G1c, G2} \cup GNew
RRLine(owner, ttl, ty, names, data) ==
    [k |-> "rr", owner |-> owner, ttl |-> ttl, cls |-> "IN", ord |-> "tc", ty |-> ty, tg |-> FALSE, gen |-> FALSE,
     names |-> names, data |-> data, lay |-> "single"]
UNoiseBase == {RRLine(<<"abs", <<"x", "other">>>>, <<"t", 77>>, "A", <<>>, <<10, 9, 9, 9>>),
               RRLine(<<"abs", <<>>>>, <<"none">>, "NS", << <<"abs", <<"ns", "other">>>> >>, <<>>),
               RRLine(<<"blank">>, <<"none">>, "A", <<>>, <<10, 9, 9, 8>>),
               RRLine(<<"rel", <<"x">>>>, <<"none">>, "A", <<>>, <<10, 9, 9, 7>>)}
\* ignored records are spelled in every layout too (an ignored record ends where its last line ends)
UNoise == UNoiseBase \cup {[n EXCEPT !.lay = "paren0"] : n \in UNoiseBase}
          \cup {[RRLine(<<"abs", <<"x", "other">>>>, <<"t", 77>>, "MX", << <<"abs", <<"mx", "other">>>> >>, <<20>>) EXCEPT !.lay = l] :
                  l \in {"paren", "parenc"}}
=============================================================================
