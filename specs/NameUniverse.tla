---------------------------- MODULE NameUniverse ----------------------------
(* The finite universes of C01 / C06 (DESIGN.md section 4), defined ONCE: the MC_
   instances check the laws on them and Gen_Names emits exactly the same sets to the
   drivers, so the implementation is run on what TLC checked.  The size parameters are
   configuration constants (quick / thorough). *)
EXTENDS DnsName

CONSTANTS KLabel,      \* C01 (a): single labels over C16 up to this length
          KTwo,        \* C01 (a): two-label names, second size bound (1 or 2)
          KText,       \* C01 (b): texts over T9 up to this length
          KWire,       \* C01 (c): wire strings over W11 up to this length
          VAlpha,      \* C06: alphabet of the triple universe V
          BigK, BigFill \* C06: lengths k of the labels c^k and fill octets of the 253..255-octet names

T1(A) == {<<a>> : a \in A}
T2(A) == {<<a, b>> : a \in A, b \in A}
T3(A) == {<<a, b, c>> : a \in A, b \in A, c \in A}
T4(A) == {<<a, b, c, d>> : a \in A, b \in A, c \in A, d \in A}
T5(A) == {<<a, b, c, d, e>> : a \in A, b \in A, c \in A, d \in A, e \in A}
T6(A) == {<<a, b, c, d, e, f>> : a \in A, b \in A, c \in A, d \in A, e \in A, f \in A}
UpTo(A, k) == (IF k >= 1 THEN T1(A) ELSE {}) \cup (IF k >= 2 THEN T2(A) ELSE {})
              \cup (IF k >= 3 THEN T3(A) ELSE {}) \cup (IF k >= 4 THEN T4(A) ELSE {})
              \cup (IF k >= 5 THEN T5(A) ELSE {}) \cup (IF k >= 6 THEN T6(A) ELSE {})
WithAbs(S) == S \cup {n \o Root : n \in S}

-----------------------------------------------------------------------------
(* C06: every neighbour of the case-folding range, plus the extreme octets *)
A10 == {0, 64, 65, 90, 91, 96, 97, 122, 123, 255}          \* NUL @ A Z [ ` a z { 0xFF
Rel06(A) == {<<>>} \cup {<<x>> : x \in UpTo(A, 2)} \cup {<<x, y>> : x \in T1(A), y \in T1(A)}
U06 == WithAbs(Rel06(A10))                                  \* 422 names
V06 == WithAbs(Rel06(VAlpha))

(* C06 "mimic" universe: octets 1, 2 (3) inside labels, placed so that <length><label> of ANOTHER
   universe name occurs inside a label - a\001a contains the wire form of the label a, \002aa that of
   aa, \001a\001A that of the two labels a.A - so that any shortcut through the wire / text form that
   loses the label boundaries (suffix match on the wire form, joined strings, ...) shows.  Labels:
   all of length 1 and 2 over {1, 2, 'A', 'a'}; x\001y and \002xy; \001x\001y and a\002xy (x, y
   letters); plus the 3-octet-length cases \003aaa / aaa.  Names: one such label, or one such label
   followed by a, A or \001a; relative and absolute. *)
MLetters == {65, 97}
M4 == {1, 2, 65, 97}
MimicLabels == T1(M4) \cup T2(M4)
               \cup {<<x, 1, y>> : x \in MLetters, y \in MLetters} \cup {<<2, x, y>> : x \in MLetters, y \in MLetters}
               \cup {<<1, x, 1, y>> : x \in MLetters, y \in MLetters} \cup {<<97, 2, x, y>> : x \in MLetters, y \in MLetters}
               \cup {<<3, 97, 97, 97>>, <<97, 97, 97>>, <<97, 3, 97, 65>>}
MimicRel == {<<>>} \cup {<<x>> : x \in MimicLabels}
            \cup {<<x, y>> : x \in MimicLabels, y \in {<<97>>, <<1, 97>>}}
UMimic == WithAbs(MimicRel)

(* successor / predecessor: labels c^k, names filled up to 253..255 octets *)
Origins06 == { << <<111>>, <<>> >>, << <<111>>, <<90, 122>>, <<>> >> }       \* o.   o.Zz.
BigLabels == {Rep(c, k) : c \in A10, k \in BigK}
RECURSIVE Fill(_, _)
Fill(room, f) == IF room > 64 THEN <<Rep(f, 63)>> \o Fill(room - 64, f)
                 ELSE IF room >= 2 THEN <<Rep(f, room - 1)>> ELSE <<>>
FilledRel(o) ==
    {<<x>> : x \in BigLabels}
    \cup {<<x>> \o Fill(T - WireLen(o) - Len(x) - 1, f) : x \in BigLabels, T \in {253, 254, 255}, f \in BigFill}
NeighbourRel(o) == FilledRel(o) \cup Rel06(A10)
(* <<name, origin>> pairs, names relative and absolute *)
(* Mixed labels: the octet that gets stepped is NOT the last one.  Successor: a letter / neighbour
   of the folding range followed by a run of 1, 2 or 62 maximal octets (the run is skipped, the
   octet before it is incremented - with the folding rules - and the run is cut off); predecessor,
   mirrored: such an octet followed by a run of minimal octets.  Each as a maximal (63-octet) label
   a..a c ff..ff and as a short label c ff / c ff ff, alone (prefix_ok = FALSE cannot prefix, a
   63-octet label cannot be extended) and filled up to a 255-octet name (nothing can be added). *)
SuccEnds == {64, 90, 122, 91, 96, 123, 65, 89}                    \* @ Z z [ ` { A Y
PredEnds == {91, 123, 97, 65, 64}                                 \* [ { a A @
MixedLabels == {Rep(97, 62 - r) \o <<c>> \o Rep(255, r) : c \in SuccEnds, r \in {1, 2, 62}}
               \cup {<<c>> \o Rep(255, r) : c \in SuccEnds, r \in {1, 2}}
               \cup {Rep(97, 62 - r) \o <<c>> \o Rep(0, r) : c \in PredEnds, r \in {1, 2, 62}}
               \cup {<<c>> \o Rep(0, r) : c \in PredEnds, r \in {1, 2}}
MixedRel(o) == {<<x>> : x \in MixedLabels}
               \cup {<<x>> \o Fill(255 - WireLen(o) - Len(x) - 1, f) : x \in MixedLabels, f \in BigFill}
MixedCases == UNION {{<<n, o>> : n \in MixedRel(o)} \cup {<<n \o o, o>> : n \in MixedRel(o)} : o \in Origins06}
NeighbourBase == UNION {{<<n, o>> : n \in NeighbourRel(o)} \cup {<<n \o o, o>> : n \in NeighbourRel(o)} : o \in Origins06}
NeighbourCases == NeighbourBase \cup MixedCases

-----------------------------------------------------------------------------
(* C01 (a): octet classes that reach every branch of the escape and length code *)
C16 == {0, 32, 34, 36, 40, 41, 46, 48, 57, 59, 64, 65, 92, 97, 127, 255}
RelA == {<<>>} \cup {<<x>> : x \in UpTo(C16, KLabel)}
        \cup {<<x, y>> : x \in T1(C16), y \in UpTo(C16, KTwo)}
        \cup {<<x, y>> : x \in UpTo(C16, KTwo), y \in T1(C16)}
        \cup (IF KTwo >= 2 THEN {<<x, y>> : x \in T2(C16), y \in T2(C16)} ELSE {})
        \cup {<<x, y, z>> : x \in T1(C16), y \in T1(C16), z \in T1(C16)}
NamesA == WithAbs(RelA)
OriginsA == {NoOrigin, Some(Root), Some(<< <<101, 120>>, <<>> >>)}          \* None  .  ex.

(* C01 (a'): control octets in otherwise hostname-style labels - in particular as the LAST octet
   (a trailing newline is what regular-expression `$` anchors overlook), also first and in the
   middle.  HT LF VT FF CR US, plus NUL, SP, DEL;  hostname characters  a A 0 - _ * *)
CtlOctets == {9, 10, 11, 12, 13, 31, 0, 32, 127}
HostOctets == {97, 65, 48, 45, 95, 42}
HostPrefix == {<<>>} \cup T1(HostOctets) \cup T2(HostOctets)
CtlLabels == {p \o <<c>> : p \in HostPrefix, c \in CtlOctets}
             \cup {<<c, h>> : c \in CtlOctets, h \in HostOctets}
             \cup {<<97, c, 97>> : c \in CtlOctets}
CtlRel == {<<x>> : x \in CtlLabels} \cup {<<x, <<97>>>> : x \in CtlLabels} \cup {<<<<97>>, x>> : x \in CtlLabels}
CtlNames == WithAbs(CtlRel)
TextNames == NamesA \cup CtlNames

(* C01 (d'): Name(...) built from `str` labels: the limits are on the UTF-8 OCTETS held, not on
   the characters.  A label is <<w, k>> = k characters of w octets each (a, U+00E9, U+20AC,
   U+1F600); labels around 63 / 64 octets and characters, names of 2..5 equal labels (+ a short
   ASCII tail) around 255 / 256 octets.  The driver builds the strings; <<labels, absolute>>. *)
StrLabels == {<<w, k>> : w \in 1..4, k \in {1, 2}} \cup {<<w, (63 \div w) + d>> : w \in 1..4, d \in {-1, 0, 1}}
             \cup {<<w, 63>> : w \in 2..4} \cup {<<w, 64>> : w \in 1..4}
StrBase == {<<1, 62>>, <<1, 63>>, <<2, 30>>, <<2, 31>>, <<3, 20>>, <<3, 21>>, <<4, 15>>, <<4, 16>>}
StrTails == {<<>>} \cup {<<<<1, t>>>> : t \in 1..3}
StrNames == {<<<<l>>, ab>> : l \in StrLabels, ab \in BOOLEAN}
            \cup {<<Rep(l, m) \o t, ab>> : l \in StrBase, m \in 2..5, t \in StrTails, ab \in BOOLEAN}

(* C01 (b): texts over the escape alphabet  a 0 2 5 9 . \ @ 0xE9 *)
T9 == {97, 48, 50, 53, 57, 46, 92, 64, 233}
Texts == {<<>>} \cup UpTo(T9, KText)

(* C01 (b'): several names read through ONE tokenizer (zone-file shape: the same owner text under
   $ORIGIN example. and later under $ORIGIN EXAMPLE.).  A call is <<text, origin, relativize,
   relativize_to>>; TokPairs = every ordered pair of calls whose texts are equal up to letter case,
   so origins / relativize_to that differ only in case (and the same text under different origins)
   meet inside one tokenizer.  Equal-as-DNS-names is NOT byte-identical: any memo keyed by Name
   objects shows here. *)
TokTexts == {<<119, 119, 119>>, <<87, 87, 87>>, <<64>>, <<97, 46, 87, 87, 87>>,
             <<119, 119, 119, 46, 101, 120, 97, 109, 112, 108, 101, 46>>}               \* www WWW @ a.WWW www.example.
ExampleLc == << <<101, 120, 97, 109, 112, 108, 101>>, <<>> >>                            \* example.
ExampleUc == << <<69, 88, 65, 77, 80, 76, 69>>, <<>> >>                                  \* EXAMPLE.
ExampleMc == << <<69, 120, 97, 109, 112, 108, 101>>, <<>> >>                             \* Example.
TokOrigins == {NoOrigin, Some(Root), Some(ExampleLc), Some(ExampleUc), Some(ExampleMc)}
TokRelTo == {NoOrigin, Some(ExampleLc), Some(ExampleUc)}
TokCalls == {<<tx, o, r, rt>> : tx \in TokTexts, o \in TokOrigins, r \in BOOLEAN, rt \in TokRelTo}
TokPairs == {p \in TokCalls \X TokCalls : LowerLabel(p[1][1]) = LowerLabel(p[2][1])}

(* C01 (c): wire strings over the label-type / pointer byte classes *)
W11 == {0, 1, 2, 63, 64, 128, 192, 193, 194, 196, 97}
W8 == {0, 1, 2, 64, 192, 193, 194, 97}
(* all strings up to length 4 over W11; KWire = 5 adds the 5-octet strings over the 8 classes W8 *)
Wires == {<<>>} \cup UpTo(W11, Min(KWire, 4)) \cup (IF KWire >= 5 THEN T5(W8) ELSE {})

(* C01 (c) segment level: a wire is a list of segments; <<"L", k>> a label of k octets,
   <<"P", j>> a pointer to the first octet of segment j (1-based; any j, so forward and
   self pointers occur), <<"R">> the root octet.  The driver lays the segments out after
   `base` zero octets, so that names reach 255 / 256 octets and pointers the 0x3FFF limit. *)
Segs == {<<"R">>} \cup {<<"L", k>> : k \in {1, 62, 63}} \cup {<<"P", j>> : j \in 1..3}
SegWires == UNION {[1..m -> Segs] : m \in 1..(KWire - 1)}        \* quick: 3 segments, thorough: 4
LongSegWires ==       \* chains of maximal labels closed by a root or a pointer to segment 1
    {Rep(<<"L", 63>>, 3) \o <<<<"L", k>>, <<"R">>>> : k \in {60, 61, 62}}
    \cup {<<<<"L", 63>>, <<"L", k>>, <<"R">>>> \o Rep(<<"L", 63>>, 2) \o <<<<"P", 1>>>> : k \in {60, 61, 62, 63}}
SegBases == {0, 16382, 16383}
SegLen(s) == IF s[1] = "R" THEN 1 ELSE IF s[1] = "L" THEN s[2] + 1 ELSE 2
RECURSIVE SegOff(_, _)                     \* offset of segment j (Len + 1: the end) from the base
SegOff(g, j) == IF j = 1 THEN 0 ELSE SegOff(g, j - 1) + SegLen(g[j - 1])
SegTarget(g, base, j) == base + SegOff(g, IF j <= Len(g) THEN j ELSE Len(g) + 1)
SegOctets(g, base, j) ==
    LET s == g[j] IN
    IF s[1] = "R" THEN <<0>>
    ELSE IF s[1] = "L" THEN <<s[2]>> \o Rep(97, s[2])
    ELSE LET tg == SegTarget(g, base, s[2]) IN <<192 + (tg \div 256), tg % 256>>
RECURSIVE SegFlat(_, _, _)
SegFlat(g, base, j) == IF j > Len(g) THEN <<>> ELSE SegOctets(g, base, j) \o SegFlat(g, base, j + 1)
SegEncodable(g, base) == \A j \in 1..Len(g) : g[j][1] = "P" => SegTarget(g, base, g[j][2]) <= 16383
(* <<buffer, start offset>> : every encodable segment wire at every base, decoded from every segment *)
(* (no UNION over many sets here: TLC's UNION is quadratic in the number of elements) *)
SegAll == SegWires \cup LongSegWires
SegCases == {<<[base |-> c[2], tail |-> SegFlat(c[1], c[2], 1)], c[2] + SegOff(c[1], c[3])>> :
                c \in {d \in {<<g, b, j>> : g \in SegAll, b \in SegBases, j \in 1..6} :
                          d[3] <= Len(d[1]) /\ SegEncodable(d[1], d[2])}}
PlainCases == {<<[base |-> 0, tail |-> c[1]], c[2]>> :
                  c \in {d \in {<<w, s>> : w \in Wires, s \in 0..5} : d[2] <= Len(d[1])}}

(* C01 compression: names written one after the other into one buffer with one table *)
WLabels == {<<97>>, <<65>>, <<98>>, <<1, 97>>}                              \* a A b \001a (contains the wire form of a)
WRel == {<<>>} \cup {<<x>> : x \in WLabels} \cup {<<x, y>> : x \in WLabels, y \in WLabels}
        \cup {<<x, y, z>> : x \in WLabels, y \in WLabels, z \in WLabels}
WNames == WithAbs(WRel)
WOrigins == {NoOrigin, Some(Root), Some(<< <<97>>, <<>> >>), Some(<< <<98>>, <<65>>, <<>> >>)}
WBases == {0, 16376, 16381, 16384}

(* C01 encoders at the 255 / 256 boundary: RELATIVE names of up to 3 labels a^k, k in {1,2,62,63},
   x absolute origins of up to 2 such labels (label + length octet = 2, 3, 63, 64 octets: the sums
   pass through 254, 255, 256, 257, ... 321), for to_wire(None, None, origin), to_wire(file,
   compress, origin) and to_digestable(origin) *)
LenLabels == {Rep(97, k) : k \in {1, 2, 62, 63}}
LenRel == {<<>>} \cup UNION {[1..m -> LenLabels] : m \in 1..3}
LenOrg == {n \o Root : n \in {<<>>} \cup UNION {[1..m -> LenLabels] : m \in 1..2}}

(* C01 (d): constructor inputs exactly at 63/64 and 255/256 *)
DLabels == {Rep(97, k) : k \in {1, 2, 61, 62, 63, 64}}
DSeqs == {<<>>} \cup UNION {[1..m -> DLabels \cup {<<>>}] : m \in 1..2}
DLong == {Rep(Rep(97, 63), 3) \o s : s \in {<<Rep(97, k)>> : k \in {59, 60, 61, 62, 63}} \cup {<<Rep(97, k), <<>>>> : k \in {59, 60, 61, 62}}}
         \cup {Rep(Rep(97, 63), 3), Rep(Rep(97, 63), 3) \o Root, Rep(Rep(97, 63), 4)}
ConstructInputs == DSeqs \cup DLong
=============================================================================
