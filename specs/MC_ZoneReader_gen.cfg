INIT MCInit
NEXT MCNext
CONSTANTS
  Alphabet <- MCAlphaGen
  MaxLines = 3
  MaxDepth = 1
  Cfgs <- MCCfgs
  Pols <- PolsGen
INVARIANTS RedundantDirective InlineLaw Shape
PROPERTIES ExitRestoresOrigin OutGrows
CHECK_DEADLOCK FALSE
