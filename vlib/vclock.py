"""Virtual clock: a module-like object that can be bound in place of the `time` module
of a dnspython module *in the driver process only*, e.g.

    clk = VClock(tick=1 / 16)
    dns.resolver.time = clk
    dns.asyncresolver.time = clk

Time is an integer number of ticks; time()/monotonic() return ticks * tick.  With a
dyadic tick (1/16 s, the default) every value the code under test can compute from the
clock by adding/subtracting dyadic lifetimes, timeouts and integer TTLs is an exact
double, so boundary comparisons (`duration >= lifetime`, `expiration <= now`) are decided
exactly as in integer arithmetic and a trace specification can mirror them in ticks.

sleep(d) advances virtual time by d rounded to the nearest tick (at least one tick when
d > 0) and records the request; nothing ever blocks.  stdlib only; no dns imports."""
import time as _real_time


class VClock:
    def __init__(self, tick=1 / 16, start_ticks=0):
        self.tick = tick
        self.ticks = int(start_ticks)
        self.sleeps = []  # (requested seconds, ticks advanced) for every sleep() call
        self.on_sleep = None  # optional callback(requested seconds, ticks advanced)

    # ---- the part of the `time` module API that dnspython uses
    def time(self):
        return self.ticks * self.tick

    def monotonic(self):
        return self.ticks * self.tick

    def perf_counter(self):
        return self.ticks * self.tick

    def sleep(self, seconds):
        n = self.to_ticks(seconds)
        if seconds > 0 and n < 1:
            n = 1
        if n < 0:
            n = 0
        self.ticks += n
        self.sleeps.append((seconds, n))
        if self.on_sleep is not None:
            self.on_sleep(seconds, n)

    # anything else (strftime, gmtime, struct_time ...) comes from the real module
    def __getattr__(self, name):
        return getattr(_real_time, name)

    # ---- driver side
    def advance(self, ticks):
        """Move the clock by an integer number of ticks (negative = clock set back)."""
        self.ticks += int(ticks)
        return self.ticks

    def set(self, ticks):
        self.ticks = int(ticks)

    def now(self):
        return self.ticks

    def to_ticks(self, seconds):
        """Nearest whole number of ticks of a duration in seconds."""
        return int(round(seconds / self.tick))

    def exact_ticks(self, seconds):
        """(ticks, exact): ticks = seconds/tick rounded away from zero, exact = it was integral.
        Rounding away from zero keeps the sign of tiny non-zero values visible."""
        x = seconds / self.tick
        n = int(x)
        if n == x:
            return n, True
        return (n + 1 if x > 0 else n - 1), False
