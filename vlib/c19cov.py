"""Line/arc coverage of one source file with sys.settrace (stdlib only), used by C19 to
measure which paths of dns/btree.py the replayed scripts reach.  Measurement only:
nothing here judges the implementation."""
import ast
import sys


class Budget(BaseException):
    """Raised out of a traced call that executed more lines than any legitimate call can."""


class ArcTracer:
    """Records (previous line -> line) arcs of every frame whose code lives in `filename`.
    A function exit is recorded as an arc to -(first line of the function)."""

    def __init__(self, filename):
        self.filename = filename
        self.arcs = set()
        self._reported = set()
        self.budget = None   # remaining line events of the current call (None = unlimited)

    def _global(self, frame, event, arg):
        if frame.f_code.co_filename != self.filename:
            return None
        arcs = self.arcs
        prev = [-frame.f_code.co_firstlineno]  # entry marker (also generator resumption)
        first = frame.f_code.co_firstlineno

        def local(frame, event, arg):
            if event == "line":
                ln = frame.f_lineno
                arcs.add((prev[0], ln))
                prev[0] = ln
                if self.budget is not None:
                    self.budget -= 1
                    if self.budget < 0:
                        self.budget = None
                        raise Budget()
            elif event == "return":
                arcs.add((prev[0], -first))
            return local

        return local

    def start(self, budget=None):
        self.budget = budget
        sys.settrace(self._global)

    def stop(self):
        sys.settrace(None)

    def new_arcs(self):
        """Arcs seen since the last call (so that a worker process reports each arc once)."""
        new = self.arcs - self._reported
        self._reported |= new
        return sorted(new)


def _code_lines(code, out):
    for _s, _e, ln in code.co_lines():
        if ln is not None:
            out.setdefault(ln, code.co_name)
    for c in code.co_consts:
        if hasattr(c, "co_lines"):
            _code_lines(c, out)


class Analysis:
    """Static side: executable lines per function and the lines that branch."""

    def __init__(self, filename, exclude_funcs=(), unreachable_lines=()):
        self.filename = filename
        src = open(filename).read()
        self.src = src.splitlines()
        tree = ast.parse(src)
        self.func_of = {}  # line -> qualified function name
        self.branch_lines = {}  # line -> kind
        self.excluded = set()
        self.signature = set()
        self.unreachable = set(unreachable_lines)

        def visit(node, qual):
            for ch in ast.iter_child_nodes(node):
                if isinstance(ch, ast.ClassDef):
                    visit(ch, qual + [ch.name])
                elif isinstance(ch, (ast.FunctionDef, ast.AsyncFunctionDef)):
                    q = ".".join(qual + [ch.name])
                    nocover = "pragma: no cover" in self.src[ch.lineno - 1] or q in exclude_funcs or ch.name in exclude_funcs
                    # the lines of a multi-line signature run once, at definition time
                    for ln in range(ch.lineno, ch.body[0].lineno):
                        self.signature.add(ln)
                    for sub in ast.walk(ch):
                        ln = getattr(sub, "lineno", None)
                        if ln is None:
                            continue
                        if nocover:
                            self.excluded.add(ln)
                        else:
                            self.func_of.setdefault(ln, q)
                        if isinstance(sub, (ast.If, ast.While, ast.For)):
                            if isinstance(sub, ast.While) and isinstance(sub.test, ast.Constant) and sub.test.value is True:
                                continue
                            self.branch_lines[ln] = type(sub).__name__
                    visit(ch, qual + [ch.name])

        visit(tree, [])
        lines = {}
        _code_lines(compile(src, filename, "exec"), lines)
        # executable lines inside functions (module/class level statements run at import time)
        self.exec_lines = sorted(ln for ln in lines if ln in self.func_of and ln not in self.excluded
                                 and "pragma: no cover" not in self.src[ln - 1]
                                 and not self._is_def_line(ln) and ln not in self.signature)
        self.branch_lines = {ln: k for ln, k in self.branch_lines.items() if ln in self.func_of and ln not in self.excluded}

    def _is_def_line(self, ln):
        s = self.src[ln - 1].lstrip()
        return s.startswith("def ") or s.startswith("class ") or s.startswith("@")

    def report(self, arcs, focus_funcs=None):
        """arcs: iterable of (a, b).  Returns a JSON-able dict."""
        arcs = set(map(tuple, arcs))
        hit = {b for (_a, b) in arcs if b > 0}
        succ = {}
        for a, b in arcs:
            if a > 0:
                succ.setdefault(a, set()).add(b)

        def infocus(ln):
            if focus_funcs is None:
                return True
            return self.func_of.get(ln, "").split(".")[-1] in focus_funcs

        lines = [ln for ln in self.exec_lines if infocus(ln)]
        missed = [ln for ln in lines if ln not in hit and ln not in self.unreachable]
        unreach_hit = [ln for ln in lines if ln in hit and ln in self.unreachable]
        br = [ln for ln in sorted(self.branch_lines) if infocus(ln)]
        half = []
        full = 0
        for ln in br:
            n = len(succ.get(ln, ()))
            if n >= 2:
                full += 1
            elif ln in self.unreachable or any(u in self.unreachable for u in self._branch_targets(ln)):
                full += 1  # one side is a documented defensive/unreachable path
            else:
                half.append(ln)
        reach = [ln for ln in lines if ln not in self.unreachable]
        return {
            "lines_total": len(reach),
            "lines_hit": len([ln for ln in reach if ln in hit]),
            "lines_missed": ["%d: %s" % (ln, self.src[ln - 1].strip()[:70]) for ln in missed],
            "branches_total": len(br),
            "branches_both_ways": full,
            "branches_one_way": ["%d: %s -> %s" % (ln, self.src[ln - 1].strip()[:60], sorted(succ.get(ln, ()))) for ln in half],
            "unreachable_declared": sorted(self.unreachable),
            "unreachable_but_hit": unreach_hit,
            "distinct_arcs": len(arcs),
        }

    def _branch_targets(self, ln):
        # lines directly following a branch line in the source (first body line)
        return [ln + 1]
