"""Run TLC / SANY and parse their output.  stdlib only."""
import json
import os
import re
import shutil
import subprocess
import time

JAR = "/opt/veriftools/tla/tla2tools.jar"
DEPS = "/opt/veriftools/tla/CommunityModules-deps.jar"
SPECS = os.path.join(os.path.dirname(os.path.dirname(os.path.abspath(__file__))), "specs")


class TlcError(Exception):
    """Machinery failure (not a property violation)."""


class TlcResult:
    def __init__(self):
        self.rc = None
        self.out = ""
        self.generated = 0
        self.distinct = 0
        self.depth = 0
        self.violated = None  # name of violated invariant / property, or "deadlock"
        self.errors = []  # other error lines
        self.prints = {}  # tag -> list of payloads (decoded JSON) from <<"TAG", "json">> lines
        self.coverage = {}  # action name -> (distinct, total)
        self.wall = 0.0
        self.cmd = ""

    @property
    def ok(self):
        return self.violated is None and not self.errors


_PRINT_RE = re.compile(r'^"([A-Z_]+) (.*)"$')
# a PrintT line can be interleaved with a TLC progress line: also look inside lines
_PRINT_ANY_RE = re.compile(r'"([A-Z_]{2,}) ((?:[^"\\]|\\.)*)"')
_GEN_RE = re.compile(r"^(\d+) states generated, (\d+) distinct states found")
_DEPTH_RE = re.compile(r"^The depth of the complete state graph search is (\d+)")
_INV_RE = re.compile(r"^Error: Invariant (\S+) is violated")
_PROP_RE = re.compile(r"^Error: (Action|Temporal) propert(y|ies) (.*)(is|were) violated")
_COV_RE = re.compile(r"^<(\w+) line \d+, col \d+ to line \d+, col \d+ of module (\w+)>: (\d+):(\d+)")


def _unescape(s):
    # TLA+ string printed by TLC: backslash-escaped quotes and backslashes
    out = []
    i = 0
    while i < len(s):
        c = s[i]
        if c == "\\" and i + 1 < len(s):
            n = s[i + 1]
            if n == "n":
                out.append("\n")
            elif n == "t":
                out.append("\t")
            else:
                out.append(n)
            i += 2
        else:
            out.append(c)
            i += 1
    return "".join(out)


def parse_output(text, res):
    for line in text.splitlines():
        line = line.rstrip("\r")
        m = _PRINT_RE.match(line)
        if m:
            tag = m.group(1)
            try:
                payload = json.loads(_unescape(m.group(2)))
            except Exception as e:  # pragma: no cover
                raise TlcError(f"unparsable {tag} payload: {e}: {line[:200]}")
            res.prints.setdefault(tag, []).append(payload)
            continue
        if '"' in line and not line.startswith('"'):
            for m2 in _PRINT_ANY_RE.finditer(line):
                try:
                    payload = json.loads(_unescape(m2.group(2)))
                except Exception:
                    continue
                res.prints.setdefault(m2.group(1), []).append(payload)
        m = _GEN_RE.match(line)
        if m:
            res.generated = int(m.group(1))
            res.distinct = int(m.group(2))
            continue
        m = _DEPTH_RE.match(line)
        if m:
            res.depth = int(m.group(1))
            continue
        m = _INV_RE.match(line)
        if m:
            res.violated = m.group(1)
            continue
        m = _PROP_RE.match(line)
        if m:
            res.violated = m.group(3).strip() or "property"
            continue
        if line.startswith("Error: Deadlock reached"):
            res.violated = "deadlock"
            continue
        if line.startswith("Error: Temporal properties were violated"):
            res.violated = "temporal"
            continue
        m = _COV_RE.match(line)
        if m:
            res.coverage[m.group(1)] = (int(m.group(3)), int(m.group(4)))
            continue
        if line.startswith("Error:") or "Exception" in line and "java." in line:
            if "The behavior up to this point" in line or "The following behavior" in line:
                continue
            res.errors.append(line)
    return res


SLOT_DIR = "/tmp/verif_tlc_slots"
NSLOTS = int(os.environ.get("VERIF_TLC_SLOTS", "16"))


class _Slots:
    """Machine-wide throttle on concurrent TLC JVMs (many checks may run at once):
    `weight` of NSLOTS lock files are held while a JVM runs."""

    def __init__(self, weight):
        self.weight = max(1, min(weight, NSLOTS))
        self.held = []

    def __enter__(self):
        import fcntl
        import random
        os.makedirs(SLOT_DIR, exist_ok=True)
        # A heavy run (weight > 1) first takes the gate, so that at most one heavy run at a
        # time is collecting slots; it KEEPS the slots it has while waiting for more (an
        # all-or-nothing attempt starves next to a steady stream of 1-slot runs).  No
        # deadlock: whoever holds the gate waits only for slots held by running JVMs.
        gate = None
        if self.weight > 1:
            gate = open(os.path.join(SLOT_DIR, "gate"), "w")
            fcntl.flock(gate, fcntl.LOCK_EX)
        try:
            mine = set()
            while True:
                order = [i for i in range(NSLOTS) if i not in mine]
                random.shuffle(order)
                for i in order:
                    if len(self.held) >= self.weight:
                        break
                    f = open(os.path.join(SLOT_DIR, "slot%d" % i), "w")
                    try:
                        fcntl.flock(f, fcntl.LOCK_EX | fcntl.LOCK_NB)
                        self.held.append(f)
                        mine.add(i)
                    except OSError:
                        f.close()
                if len(self.held) >= self.weight:
                    return self
                time.sleep(0.3 + random.random() * 0.5)
        finally:
            if gate is not None:
                gate.close()

    def __exit__(self, *a):
        for f in self.held:
            f.close()
        self.held = []


def run(module, cfg, workdir, *, workers=16, env=None, simulate=None, depth=None, seed=None,
        timeout=3600, dfs=False, heap="6g", coverage=False, extra=(), libs=(), cwd=None,
        deadlock=None, dump=None):
    """Run TLC on specs/<module>.tla (or an absolute path) with config cfg."""
    os.makedirs(workdir, exist_ok=True)
    meta = os.path.join(workdir, "meta_%s_%d" % (os.path.basename(module).replace(".tla", ""), time.time_ns() % 10**9))
    modpath = module if os.path.isabs(module) else os.path.join(SPECS, module if module.endswith(".tla") else module + ".tla")
    cfgpath = cfg if os.path.isabs(cfg) else os.path.join(SPECS, cfg)
    libpath = os.pathsep.join([SPECS] + list(libs))
    # cap the JVM's helper threads: many 1-worker JVMs run side by side (slot throttle) and the
    # default of one GC thread per core oversubscribes the machine
    try:
        gct = 2 if int(workers) <= 1 else min(int(workers), 8)
    except (TypeError, ValueError):
        gct = 8
    jopts = ["-XX:+UseParallelGC", "-XX:ParallelGCThreads=%d" % gct, "-XX:CICompilerCount=2",
             "-Xmx" + heap, "-DTLA-Library=" + libpath]
    if dfs:
        jopts.append("-Dtlc2.tool.queue.IStateQueue=StateDeque")
    cmd = ["java"] + jopts + ["-cp", JAR + ":" + DEPS, "tlc2.TLC", "-workers", str(workers),
                              "-noGenerateSpecTE", "-metadir", meta, "-config", cfgpath]
    if simulate is not None:
        cmd += ["-simulate", simulate]
    if depth is not None:
        cmd += ["-depth", str(depth)]
    if seed is not None:
        cmd += ["-seed", str(seed)]
    if coverage:
        cmd += ["-coverage", "1"]
    if deadlock is False:
        cmd += ["-deadlock"]
    if dump:
        cmd += ["-dump"] + list(dump)
    cmd += list(extra) + [modpath]
    e = dict(os.environ)
    e.pop("JAVA_TOOL_OPTIONS", None)
    if env:
        e.update({k: str(v) for k, v in env.items()})
    res = TlcResult()
    res.cmd = " ".join(cmd)
    t0 = time.time()
    try:
        with _Slots(1 if int(workers) <= 1 else 5):
            t0 = time.time()
            p = subprocess.run(cmd, cwd=cwd or workdir, env=e, stdout=subprocess.PIPE, stderr=subprocess.STDOUT,
                               timeout=timeout, text=True, errors="replace")
        res.rc = p.returncode
        res.out = p.stdout
    except subprocess.TimeoutExpired as ex:
        res.rc = -9
        res.out = (ex.stdout or b"").decode("utf-8", "replace") if isinstance(ex.stdout, bytes) else (ex.stdout or "")
        res.errors.append("TIMEOUT after %ss" % timeout)
    res.wall = time.time() - t0
    shutil.rmtree(meta, ignore_errors=True)
    parse_output(res.out, res)
    return res


def must_pass(res, what):
    """Raise TlcError unless the TLC run finished cleanly (used for model runs that are
    expected to hold: a failure there is a defect of the specification = machinery)."""
    if res.violated or res.errors or res.rc not in (0,):
        tail = "\n".join(res.out.splitlines()[-40:])
        raise TlcError(f"{what}: TLC rc={res.rc} violated={res.violated} errors={res.errors[:3]}\n{tail}")
    return res


def sany(path):
    cmd = ["java", "-DTLA-Library=" + SPECS, "-cp", JAR + ":" + DEPS, "tla2sany.SANY", path]
    p = subprocess.run(cmd, stdout=subprocess.PIPE, stderr=subprocess.STDOUT, text=True, cwd=os.path.dirname(path))
    bad = p.returncode != 0 or "*** Errors" in p.stdout or "Fatal errors" in p.stdout or "Could not parse" in p.stdout
    return (not bad), p.stdout
