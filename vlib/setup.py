"""MANIFEST.setup_cmd: offline; syntax-check with SANY every TLA+ module that a registered
check uses (modules of checks still being built are reported but do not fail setup)."""
import concurrent.futures as cf
import glob
import json
import os
import re
import sys

from . import tlc

ROOT = os.path.dirname(tlc.SPECS)


def used_modules():
    man = json.load(open(os.path.join(ROOT, "MANIFEST.json")))
    used = set()
    for c in man.get("checks", []):
        pid = c["property_id"].lower()
        for path in [os.path.join(ROOT, "checks", pid + ".py")] + glob.glob(os.path.join(ROOT, "drivers", pid + "_*.py")):
            if os.path.exists(path):
                for m in re.findall(r"[\"']([A-Za-z_][A-Za-z0-9_]*)(?:\.tla)?[\"']", open(path).read()):
                    if os.path.exists(os.path.join(tlc.SPECS, m + ".tla")):
                        used.add(m)
    return used


def regenerate():
    """Generated modules are committed; regenerate them deterministically so that SANY sees
    what the checks will use (each generator is a no-op when its output is current)."""
    import subprocess
    for mod in ("vlib.schema_gen", "vlib.c15_table", "vlib.c04_table"):
        path = os.path.join(ROOT, *mod.split(".")) + ".py"
        if os.path.exists(path):
            r = subprocess.run([sys.executable, "-m", mod], cwd=ROOT, stdout=subprocess.PIPE, stderr=subprocess.STDOUT, text=True,
                               env=dict(os.environ, PYTHONPATH=ROOT + os.pathsep + "/repo"))
            print("setup: %s rc=%d %s" % (mod, r.returncode, r.stdout.strip().splitlines()[-1][:120] if r.stdout.strip() else ""))


def main():
    regenerate()
    files = sorted(glob.glob(os.path.join(tlc.SPECS, "*.tla")))
    used = used_modules()
    bad = 0
    with cf.ThreadPoolExecutor(max_workers=16) as ex:
        for fn, (ok, out) in zip(files, ex.map(tlc.sany, files)):
            if not ok:
                name = os.path.basename(fn)[:-4]
                if name in used:
                    bad += 1
                    print("SANY FAILED", fn)
                    print(out[-3000:])
                else:
                    print("note: %s does not parse yet (not used by a registered check)" % name)
    print("setup: %d modules, %d used by registered checks, %d failed" % (len(files), len(used), bad))
    return 1 if bad else 0


if __name__ == "__main__":
    sys.exit(main())
