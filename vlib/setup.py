"""MANIFEST.setup_cmd: offline; syntax-check every TLA+ module with SANY."""
import concurrent.futures as cf
import glob
import os
import sys

from . import tlc


def main():
    files = sorted(glob.glob(os.path.join(tlc.SPECS, "*.tla")))
    bad = 0
    with cf.ThreadPoolExecutor(max_workers=16) as ex:
        for fn, (ok, out) in zip(files, ex.map(tlc.sany, files)):
            if not ok:
                bad += 1
                print("SANY FAILED", fn)
                print(out[-3000:])
    print("setup: %d modules parsed, %d failed" % (len(files), bad))
    return 1 if bad else 0


if __name__ == "__main__":
    sys.exit(main())
