"""Check context: TLC model runs, behaviour generation, sharded trace validation,
violations / known findings / evidence.  stdlib only."""
import concurrent.futures as cf
import fnmatch
import hashlib
import json
import multiprocessing as mp
import os
import shutil
import sys
import time

from . import tlc

ROOT = os.path.dirname(os.path.dirname(os.path.abspath(__file__)))
REPO = os.environ.get("VERIF_REPO", "/repo")


class Machinery(Exception):
    pass


class Violation:
    def __init__(self, clause, sig, what, case):
        self.clause = clause  # id of the failing hard clause
        self.sig = sig  # case signature string, matched against known_findings.json
        self.what = what  # one-line human description
        self.case = case  # JSON-able replay object


class Ctx:
    def __init__(self, pid, tier, seed, level):
        self.pid = pid
        self.tier = tier
        self.seed = seed
        self.level = level
        self.t0 = time.time()
        self.work = os.path.join(ROOT, ".work", "%s.%d" % (pid, os.getpid()))
        os.makedirs(self.work, exist_ok=True)
        self.states = 0
        self.transitions = 0
        self.traces = 0
        self.evaluations = 0
        self.model_runs = []
        self.samples = []
        self.extra = {}
        self.assumptions = []
        self.violations = []
        self.drift = 0
        self.rule = ""
        self.distinct = set()
        self.replay_case = None

    def log(self, msg):
        print("[%s %6.1fs] %s" % (self.pid, time.time() - self.t0, msg), file=sys.stderr, flush=True)

    # ------------------------------------------------------------------ TLC on the spec
    def model(self, module, cfg, *, expect_ok=True, count=True, **kw):
        kw.setdefault("workers", 16)
        r = tlc.run(module, cfg, self.work, **kw)
        if expect_ok:
            tlc.must_pass(r, "model check %s/%s" % (module, cfg))
        self.log("TLC %s/%s: %d distinct / %d generated states, %.1fs" % (module, os.path.basename(cfg), r.distinct, r.generated, r.wall))
        if count:
            self.states += r.distinct
            self.transitions += r.generated
        self.model_runs.append({"module": module, "cfg": os.path.basename(cfg), "distinct_states": r.distinct,
                                "states_generated": r.generated, "depth": r.depth, "wall_s": round(r.wall, 1),
                                "violated": r.violated,
                                "coverage_zero": sorted(a for a, (d, n) in r.coverage.items() if n == 0)})
        return r

    def generate(self, module, cfg, tag="BEH", limit=None, **kw):
        """Run a Gen_* spec that prints "TAG <json>" lines; returns the de-duplicated list
        (TLC's simulator may print a behaviour more than once), cut to `limit`."""
        kw.setdefault("workers", 1)
        r = self.model(module, cfg, **kw)
        out = []
        seen = set()
        for b in r.prints.get(tag, []):
            key = json.dumps(b, sort_keys=True)
            if key not in seen:
                seen.add(key)
                out.append(b)
        if limit is not None:
            out = out[:limit]
        self.log("generated %d %s from %s/%s (%d states, %.1fs)" % (len(out), tag, module, os.path.basename(cfg), r.distinct, r.wall))
        if not out:
            raise Machinery("generator %s/%s produced no %s lines\n%s" % (module, cfg, tag, r.out[-2000:]))
        return out

    def cfg(self, name, text):
        """Write a generated TLC config into the work directory; returns its path."""
        fn = os.path.join(self.work, name)
        with open(fn, "w") as f:
            f.write(text)
        return fn

    # ------------------------------------------------------------------ trace validation
    def validate(self, module, cfg, traces, **kw):
        """traces: list of dicts with 'tid' and 'ev'.  Returns list of (trace, line, clause)
        for every trace the trace specification does not accept.  The diagnostics register
        is capped, so rejected traces without a diagnostic are validated again on their own."""
        rejects = self._validate_once(module, cfg, traces, **kw)
        self.traces += len(traces)
        final = [r for r in rejects if r[2] != "unmatched"]
        pending = [r[0] for r in rejects if r[2] == "unmatched"]
        for _ in range(4):
            if not pending:
                break
            again = self._validate_once(module, cfg, pending, **kw)
            got = [r for r in again if r[2] != "unmatched"]
            final += got
            nxt = [r[0] for r in again if r[2] == "unmatched"]
            if len(nxt) == len(pending):
                final += [r for r in again if r[2] == "unmatched"]
                pending = []
                break
            pending = nxt
        final += [(tr, None, "unmatched") for tr in pending]
        self.log("validated %d traces with %s: %d rejected" % (len(traces), module, len(final)))
        return final

    def _validate_once(self, module, cfg, traces, *, shards=16, dfs=False, timeout=3600, env=None, libs=(), heap="2g"):
        if not traces:
            return []
        shards = max(1, min(shards, (len(traces) + 199) // 200))
        parts = [traces[i::shards] for i in range(shards)]
        files = []
        for i, part in enumerate(parts):
            fn = os.path.join(self.work, "trace_%s_%d_%d.ndjson" % (module, i, time.time_ns() % 10**9))
            with open(fn, "w") as f:
                for tr in part:
                    f.write(json.dumps(tr, separators=(",", ":")) + "\n")
            files.append(fn)

        def one(i):
            e = {"TRACE_FILE": files[i]}
            if env:
                e.update(env)
            return tlc.run(module, cfg, os.path.join(self.work, "v%d" % i), workers=1, env=e, dfs=dfs,
                           timeout=timeout, libs=libs, heap=heap)

        rejects = []
        with cf.ThreadPoolExecutor(max_workers=16) as ex:
            results = list(ex.map(one, range(len(parts))))
        for i, r in enumerate(results):
            if r.violated or r.errors or r.rc != 0 or "ACC" not in r.prints:
                raise Machinery("trace validation %s shard %d failed: rc=%s violated=%s errors=%s\n%s" % (
                    module, i, r.rc, r.violated, r.errors[:3], "\n".join(r.out.splitlines()[-30:])))
            acc = set(r.prints["ACC"][-1])
            diag = {}
            for (t, l, c) in r.prints["REJ"][-1]:
                diag[t] = (l, c)  # the deepest (last recorded) failure of the trace
            n = r.prints["NTR"][-1]
            if n != len(parts[i]):
                raise Machinery("trace count mismatch")
            for k, tr in enumerate(parts[i], start=1):
                if k not in acc:
                    l, c = diag.get(k, (None, "unmatched"))
                    rejects.append((tr, l, c))
            self.extra.setdefault("trace_states", 0)
            self.extra["trace_states"] += r.distinct
            os.unlink(files[i])
        return rejects

    # ------------------------------------------------------------------ running the real code
    def pmap(self, fn, items, procs=16, chunk=None):
        """Run fn(item) for every item in worker processes (fork).  fn must be a top-level
        function of a driver module; the result list keeps the input order."""
        items = list(items)
        if not items:
            return []
        if procs <= 1 or len(items) < 8:
            return [fn(x) for x in items]
        chunk = chunk or max(1, len(items) // (procs * 8))
        with mp.get_context("fork").Pool(procs) as pool:
            return pool.map(fn, items, chunksize=chunk)

    # ------------------------------------------------------------------ results
    def violation(self, clause, sig, what, case):
        self.violations.append(Violation(clause, sig, what, case))

    def sample(self, s, cap=6):
        if len(self.samples) < cap:
            self.samples.append(s)

    def note_distinct(self, key):
        self.distinct.add(key if isinstance(key, (str, int, tuple)) else json.dumps(key, sort_keys=True))

    def cleanup(self):
        shutil.rmtree(self.work, ignore_errors=True)


def load_findings():
    fn = os.path.join(ROOT, "known_findings.json")
    if not os.path.exists(fn):
        return []
    return json.load(open(fn))["findings"]


def finish(ctx, level_keys=None):
    """Apply known findings, print VIOLATION / KNOWN-FINDING lines, write evidence.
    Returns the process exit code."""
    findings = [f for f in load_findings() if f["property"] == ctx.pid]
    open_f = [f for f in findings if f.get("status") == "open"]
    known_hits = {}
    unknown = []
    for v in ctx.violations:
        hit = None
        for f in open_f:
            if any(fnmatch.fnmatchcase(v.sig, pat) for pat in f["signatures"]):
                hit = f
                break
        if hit is not None:
            known_hits.setdefault(hit["id"], [hit, 0])
            known_hits[hit["id"]][1] += 1
        else:
            unknown.append(v)
    for fid, (f, n) in sorted(known_hits.items()):
        print("KNOWN-FINDING: property=%s %s %s (%d cases in this run)" % (ctx.pid, fid, f["what"], n))
    rc = 0
    seen = set()
    rdir = os.path.join(ROOT, "replays", ctx.pid)
    for v in unknown:
        if v.sig in seen:
            continue
        seen.add(v.sig)
        if len(seen) > 20:
            break
        os.makedirs(rdir, exist_ok=True)
        body = {"property": ctx.pid, "clause": v.clause, "signature": v.sig, "what": v.what, "case": v.case,
                "seed": ctx.seed, "tier": ctx.tier}
        h = hashlib.sha1(json.dumps(body, sort_keys=True, default=str).encode()).hexdigest()[:12]
        path = os.path.join(rdir, "%s.json" % h)
        with open(path, "w") as f:
            json.dump(body, f, indent=1, default=str)
        print("VIOLATION property=%s replay=%s" % (ctx.pid, path))
        print("  clause=%s sig=%s :: %s" % (v.clause, v.sig, v.what))
        rc = 1
    cov = {
        "states": ctx.states,
        "transitions": ctx.transitions,
        "traces_validated_against_impl": ctx.traces,
        "evaluations": max(ctx.evaluations, ctx.traces),
        "distinct_nontrivial": len(ctx.distinct),
        "rule": ctx.rule,
        "samples": ctx.samples or ["(no sample recorded)"],
        "model_runs": ctx.model_runs,
        "drift": ctx.drift,
        "known_finding_hits": {k: n for k, (f, n) in known_hits.items()},
        "violation_signatures": sorted({v.sig for v in unknown})[:50],
    }
    cov.update(ctx.extra)
    ev = {"property_id": ctx.pid, "tier": ctx.tier, "seed": ctx.seed, "level": ctx.level, "coverage": cov,
          "assumptions": ctx.assumptions, "wall_s": round(time.time() - ctx.t0, 2), "violations": len(unknown)}
    # evidence/ describes /repo itself; runs against another tree (VERIF_REPO, used for
    # mutants and seeded changes) must not overwrite it
    # (nor must a --replay of a single case)
    plain_run = REPO == "/repo" and not ctx.replay_case
    edir = os.path.join(ROOT, "evidence") if plain_run else os.path.join(ROOT, ".work", "evidence_other_tree")
    os.makedirs(edir, exist_ok=True)
    with open(os.path.join(edir, "%s.json" % ctx.pid), "w") as f:
        json.dump(ev, f, indent=1, default=str)
    return rc


def repo_on_path():
    if REPO not in sys.path:
        sys.path.insert(0, REPO)
    os.environ.setdefault("PYTHONHASHSEED", "0")
    sys.dont_write_bytecode = True
