"""Deterministic thread scheduler + `threading` shim + line-level preemption.  stdlib only.

Purpose: run REAL multi-threaded code under a schedule chosen by the caller, so that thread
interleavings can be enumerated (from a TLC state graph, by preemption bounding, or by a
seeded random walk), replayed exactly, and recorded as a totally ordered event log.
Used by C12 (dns.versioned writer admission) and C17 (resolver caches).

Model
-----
* A *logical thread* is a real `threading.Thread` gated by its own lock: exactly one
  logical thread runs at any time, the others are parked at a *yield point*.  The
  controller (the thread that called `Scheduler.run`) decides who runs next.
* Yield points are
    - every operation of a shim synchronisation object (`Lock.acquire/release`,
      `Event()`/`wait/set/clear/is_set`, `RLock`, `Condition.wait/notify`), the thread
      parks BEFORE the operation and performs it atomically when it is scheduled;
    - `Scheduler.emit(kind, **info)` - an application-level event (API call returned, ...);
    - optionally every source LINE of chosen code objects (`trace_codes`), via
      `sys.settrace` in the logical threads only (the thread parks before the line runs).
  One scheduler *step* = the chosen thread performs its pending operation and runs up to
  (not including) its next yield point, or to its end.
* A pending operation has an *enabledness* predicate (`acquire`: the lock is free; `wait`:
  the event is set).  A thread is enabled iff it is unfinished and its pending operation is
  enabled.
* A *schedule* is a list of thread ids, consumed one per step (`ListPolicy`).  If the named
  thread is not enabled, the lowest enabled id runs instead and the substitution is recorded
  in `Result.substitutions` - replaying a schedule made for a slightly different
  implementation can therefore never wedge the driver.  After the list is exhausted the
  current thread keeps running while enabled, else the lowest enabled id runs.
  Other policies: `PreemptPolicy` (non-preemptive by priority + explicit deviations, for
  iterative preemption bounding) and `RandomPolicy` (seeded).
* TIMED operations (`Event.wait(timeout)`, `Condition.wait(timeout)`, `Lock.acquire(timeout=t)`
  with t > 0) are NONDETERMINISTIC: the thread is enabled when the operation can succeed,
  and as long as it cannot, *letting its timeout expire* is a separate choice of the
  scheduler, written as the NEGATIVE thread id in a schedule (`-3` = "thread 3's timed wait
  times out now": the wait returns False / the acquire fails, and the thread runs on).
  A policy sees the candidates in `policy.timeoutable` (tuple of thread ids, set before every
  `choose`) and may return `-t`; `ListPolicy` replays negative entries, `PreemptPolicy`
  takes them as deviations (so preemption bounding fires at most k timeouts), `RandomPolicy`
  fires one with probability `p_timeout`.  No timeout ever fires by default.  When no thread
  is enabled but some are timeoutable, the lowest such timeout is FORCED (recorded in
  `Result.forced_timeouts`) - real time would pass - but at most `max_timeouts` timeouts
  (default 6) fire in one run; after that the state is reported as a deadlock
  (`info["timeouts_exhausted"]`): the system only keeps going by timing out, i.e. a livelock.
* Deadlock (some thread unfinished, none enabled) and an exhausted step budget are
  *reported* (`Result.deadlock`, `Result.budget_exceeded`, and an observer event
  `"deadlock"` / `"budget"`), never a hang: all parked threads are then unwound with
  `SchedAbort` (a BaseException), during which shim operations are silent no-ops.
* Before the first step every thread is run, in spawn order, up to its first yield point
  (so there is no artificial "start" step).
* Cost: the scheduling decision is taken by the thread that has just parked or finished
  (`_dispatch`), so continuing the same thread costs no OS context switch and a switch
  costs one; OS threads are pooled per process and reused across runs (`_Worker`).
  Measured on the loaded 16-core sandbox, one process: ~850 runs/s at lock/event
  granularity and ~250 runs/s with line-level yield points (3 writers + 1 reader on
  dns.versioned.Zone, ~40 / ~200 steps per run).

Observation
-----------
`observer(tid, kind, obj, info)` is called in the running logical thread right AFTER it has
performed an operation (while it still has exclusive control), `obj` being the shim object
(`.name` such as "L1", "E3"; `.idx` creation index per class) or None; `info` a dict.
Kinds: acquire, release, newevent, wait, set, clear, is_set, tryacquire, wait_timeout (a timed
wait whose timeout expired; info["value"] is what it returned), acquire_timeout,
cond_wait, cond_wake, notify, plus the kinds passed to `emit`, plus "crash" (uncaught
exception in a logical thread, info["exc"]), "deadlock", "budget" (tid 0, from the
controller).  Line yield points are not observed (they are stuttering steps) but are counted.

Binding a module to the shim (in the driver process only)
----------------------------------------------------------
    zone = dns.versioned.Zone(...)            # built with the real threading module
    s = Scheduler(ListPolicy([1, 2, 1, ...]), trace_codes={f.__code__ for f in funcs})
    zone._version_lock = s.shim.Lock()
    dns.versioned.threading = s.shim          # restore afterwards
    s.spawn(1, fn, args...); s.spawn(2, ...)
    res = s.run()
Shim operations executed by a thread that is not a logical thread of the scheduler (for
instance the main thread preparing objects) are performed immediately without yielding.
"""
import _thread
import random
import sys
import threading as _real


class SchedAbort(BaseException):
    """Raised inside logical threads to unwind them after a deadlock / exhausted budget."""


# ------------------------------------------------------------------------------ policies
class ListPolicy:
    """Explicit schedule: one thread id per step; afterwards non-preemptive, lowest id."""

    def __init__(self, schedule):
        self.schedule = list(schedule)

    def choose(self, step, enabled, current):
        if step < len(self.schedule):
            return self.schedule[step]
        return current if current in enabled else enabled[0]


class PreemptPolicy:
    """Non-preemptive scheduling by a fixed priority order, with explicit deviations.

    Default choice at a step: the current thread if it is enabled, else the first enabled
    thread in `priority`.  `deviations` maps step index -> thread id to run instead (used
    for iterative preemption bounding: every schedule with at most k deviations)."""

    def __init__(self, priority, deviations=None):
        self.priority = list(priority)
        self.deviations = dict(deviations or {})

    def default(self, enabled, current):
        if current in enabled:
            return current
        for t in self.priority:
            if t in enabled:
                return t
        return enabled[0]

    timeoutable = ()

    def choose(self, step, enabled, current):
        d = self.deviations.get(step)
        if d is not None and (d in enabled or (d < 0 and -d in self.timeoutable)):
            return d
        return self.default(enabled, current)


class RandomPolicy:
    """Seeded random walk: with probability p_switch pick a random enabled thread, else
    continue the current one (if enabled)."""

    timeoutable = ()

    def __init__(self, seed, p_switch=0.2, p_timeout=0.1):
        self.rnd = random.Random(seed)
        self.p = p_switch
        self.pt = p_timeout

    def choose(self, step, enabled, current):
        if self.timeoutable and self.rnd.random() < self.pt:
            return -self.timeoutable[self.rnd.randrange(len(self.timeoutable))]
        if current in enabled and self.rnd.random() >= self.p:
            return current
        return enabled[self.rnd.randrange(len(enabled))]


# ------------------------------------------------------------------------------ result
class Result:
    def __init__(self):
        self.ran = []  # thread id run at each step (an exact replayable schedule)
        self.enabled = []  # tuple of enabled ids at each step
        self.default = []  # what a PreemptPolicy would have chosen without deviation (or None)
        self.kinds = []  # kind of the operation performed at each step ("line", "acquire", ...)
        self.where = []  # (function name, line number) for "line" steps, else None
        self.timeoutable = []  # tuple of thread ids whose timed operation could have been timed out, per step
        self.timeouts = 0  # timeouts fired (chosen or forced)
        self.forced_timeouts = []  # (step, tid): fired because nothing else could run
        self.substitutions = []  # (step, wanted, ran)
        self.deadlock = False
        self.budget_exceeded = False
        self.crashes = {}  # tid -> repr(exception)
        self.steps = 0
        self.line_steps = 0
        self.blocked = {}  # on deadlock: tid -> (kind, object name)


class _Worker:
    """A persistent OS thread that runs one logical-thread body per run.  Creating and joining
    OS threads costs milliseconds on a loaded machine; handing a job to a parked thread does
    not, so workers are reused across Scheduler.run() calls of one process."""

    def __init__(self):
        self.inbox = _thread.allocate_lock()
        self.inbox.acquire()
        self.job = None
        self.thread = _real.Thread(target=self._loop, daemon=True, name="sched-worker")
        self.thread.start()

    def _loop(self):
        while True:
            self.inbox.acquire()
            job, self.job = self.job, None
            try:
                job()
            except BaseException:  # noqa: BLE001 - a worker must survive anything a run throws at it
                pass


_pool = {"pid": None, "idle": []}


def _get_worker():
    import os

    if _pool["pid"] != os.getpid():  # threads do not survive fork()
        _pool["pid"] = os.getpid()
        _pool["idle"] = []
    return _pool["idle"].pop() if _pool["idle"] else _Worker()


def _put_worker(w):
    _pool["idle"].append(w)


class _LT:
    __slots__ = ("tid", "fn", "args", "gate", "pending", "finished", "thread", "started", "done", "timed_out")

    def __init__(self, tid, fn, args):
        self.tid = tid
        self.fn = fn
        self.args = args
        self.gate = _thread.allocate_lock()
        self.gate.acquire()
        self.pending = None  # (kind, obj, enabled_fn or None)
        self.finished = False
        self.thread = None
        self.started = False
        self.done = _thread.allocate_lock()
        self.done.acquire()
        self.timed_out = False


# ------------------------------------------------------------------------------ scheduler
class Scheduler:
    def __init__(self, policy, max_steps=20000, trace_codes=(), observer=None, line_filter=None, opcode_level=False,
                 max_timeouts=6):
        self.policy = policy
        self.max_steps = max_steps
        self.max_timeouts = max_timeouts  # timeouts of timed operations fired per run (chosen or forced)
        self.trace_codes = frozenset(trace_codes)
        self.line_filter = line_filter  # optional predicate (code, lineno) -> bool
        # opcode_level: also yield between the BYTECODES of the traced code objects (a thread can then be
        # preempted inside one source line, e.g. between the load and the store of `x.n += 1`)
        self.opcode_level = opcode_level
        self.observer = observer
        self.shim = Shim(self)
        self.result = Result()
        self._threads = {}
        self._order = []
        self._by_ident = {}
        self._ctl = _thread.allocate_lock()
        self._ctl.acquire()
        self.aborting = False
        self._starting = False
        self._current = None
        self._has_default = hasattr(policy, "default")
        self._counters = {}

    # -- naming of shim objects: deterministic creation indices per class
    def _next_idx(self, cls):
        n = self._counters.get(cls, 0) + 1
        self._counters[cls] = n
        return n

    # -- API for the code that sets a run up
    def spawn(self, tid, fn, *args):
        if tid in self._threads or not isinstance(tid, int) or tid <= 0:
            raise ValueError("thread ids are distinct positive integers")
        lt = _LT(tid, fn, args)
        self._threads[tid] = lt
        self._order.append(lt)

    def current(self):
        """Thread id of the calling logical thread, or None."""
        lt = self._by_ident.get(_thread.get_ident())
        return lt.tid if lt is not None else None

    # -- yield points (called from logical threads)
    def yield_point(self, kind, obj=None, enabled=None, timed=False):
        """Park the calling logical thread before an operation.  Returns True when it was
        scheduled normally, "timeout" when `timed` and the scheduler let the timeout expire,
        False when the caller is not a logical thread (or the run is being aborted)."""
        lt = self._by_ident.get(_thread.get_ident())
        if lt is None or self.aborting:
            return False
        lt.pending = (kind, obj, enabled, timed)
        lt.timed_out = False
        if self._starting:
            self._ctl.release()
            lt.gate.acquire()
        else:
            nxt = self._dispatch()
            if nxt is not lt:
                # hand over directly to the next thread (or to the controller at the end)
                (nxt.gate if nxt is not None else self._ctl).release()
                lt.gate.acquire()
        if self.aborting:
            raise SchedAbort()
        lt.pending = None
        self.result.kinds.append(kind)
        self.result.where.append(obj if kind == "line" else None)
        if kind == "line":
            self.result.line_steps += 1
        if lt.timed_out:
            lt.timed_out = False
            return "timeout"
        return True

    def observe(self, kind, obj=None, **info):
        if self.observer is not None and not self.aborting:
            self.observer(self.current() or 0, kind, obj, info)

    def emit(self, kind, **info):
        """Application-level event: a yield point, then the observer is told."""
        self.yield_point(kind)
        self.observe(kind, None, **info)

    # -- tracing
    def _gtrace(self, frame, event, arg):
        if frame.f_code in self.trace_codes:
            if self.opcode_level:
                frame.f_trace_opcodes = True
            return self._ltrace
        return None

    def _ltrace(self, frame, event, arg):
        if event == "line" and not self.aborting:
            if self.line_filter is None or self.line_filter(frame.f_code, frame.f_lineno):
                self.yield_point("line", (frame.f_code.co_name, frame.f_lineno))
        elif event == "opcode" and self.opcode_level and not self.aborting:
            if self.line_filter is None or self.line_filter(frame.f_code, frame.f_lineno):
                self.yield_point("line", (frame.f_code.co_name, frame.f_lineno, frame.f_lasti))
        return self._ltrace

    # -- thread body
    def _body(self, lt):
        self._by_ident[_thread.get_ident()] = lt
        try:
            self._body2(lt)
        finally:
            self._by_ident.pop(_thread.get_ident(), None)
            lt.done.release()

    def _body2(self, lt):
        try:
            if self.trace_codes:
                sys.settrace(self._gtrace)
            lt.fn(*lt.args)
        except SchedAbort:
            pass
        except BaseException as e:  # noqa: BLE001 - a crash of the code under test is an event
            self.result.crashes[lt.tid] = "%s: %s" % (type(e).__name__, e)
            try:
                self.observe("crash", None, exc=type(e).__name__, msg=str(e)[:200])
            except BaseException:  # noqa: BLE001
                pass
        finally:
            sys.settrace(None)
            lt.finished = True
            lt.pending = None
            if self.aborting:
                pass  # the controller waits on lt.done only
            elif self._starting:
                self._ctl.release()
            else:
                nxt = self._dispatch()
                (nxt.gate if nxt is not None else self._ctl).release()

    @staticmethod
    def _is_enabled(lt):
        if lt.finished:
            return False
        p = lt.pending
        if p is None:
            return False
        f = p[2]
        return True if f is None else bool(f())

    # -- scheduling decision: taken by whichever thread has just parked / finished (or by the
    #    controller for the first step), so that continuing the same thread costs no OS
    #    context switch and a switch costs one
    def _dispatch(self):
        """Choose the thread for the next step; returns its _LT, or None when the run is over
        (everybody finished, deadlock, or budget exhausted)."""
        res = self.result
        live = [lt for lt in self._order if not lt.finished]
        if not live:
            return None
        enabled = sorted(lt.tid for lt in live if self._is_enabled(lt))
        can_time = res.timeouts < self.max_timeouts
        timeoutable = tuple(sorted(lt.tid for lt in live if can_time and lt.pending is not None and len(lt.pending) > 3
                                   and lt.pending[3] and lt.tid not in enabled))
        step = res.steps
        if not enabled and timeoutable and step < self.max_steps:
            # nothing can run, but real time would pass: the lowest timed operation times out
            tid = timeoutable[0]
            res.forced_timeouts.append((step, tid))
            return self._fire(step, -tid, enabled, timeoutable)
        if not enabled:
            res.deadlock = True
            for lt in live:
                p = lt.pending
                res.blocked[lt.tid] = (p[0], getattr(p[1], "name", "")) if p else ("?", "")
            return None
        if step >= self.max_steps:
            res.budget_exceeded = True
            return None
        try:
            self.policy.timeoutable = timeoutable
        except AttributeError:
            pass
        want = self.policy.choose(step, enabled, self._current)
        tid = want
        if isinstance(tid, int) and tid < 0 and -tid in timeoutable:
            return self._fire(step, tid, enabled, timeoutable)
        if tid not in enabled:
            tid = enabled[0]
            res.substitutions.append((step, want, tid))
        return self._fire(step, tid, enabled, timeoutable)

    def _fire(self, step, tid, enabled, timeoutable):
        res = self.result
        res.ran.append(tid)
        res.enabled.append(tuple(enabled))
        res.timeoutable.append(timeoutable)
        res.default.append(self.policy.default(enabled, self._current) if self._has_default and enabled else None)
        lt = self._threads[abs(tid)]
        if tid < 0:
            lt.timed_out = True
            res.timeouts += 1
        self._current = abs(tid)
        res.steps = step + 1
        return lt

    def run(self):
        res = self.result
        self._starting = True
        for lt in self._order:  # run everybody up to the first yield point, in spawn order
            lt.thread = _get_worker()
            lt.thread.job = (lambda x=lt: self._body(x))
            lt.thread.inbox.release()
            self._ctl.acquire()
        self._starting = False
        first = self._dispatch()
        if first is not None:
            first.gate.release()
            self._ctl.acquire()  # released by the thread whose _dispatch() returned None
        if res.deadlock:
            self._controller_event("deadlock", blocked=sorted(res.blocked),
                                   timeouts_exhausted=bool(res.timeouts >= self.max_timeouts and res.timeouts))
        elif res.budget_exceeded:
            self._controller_event("budget", steps=res.steps)
        if any(not lt.finished for lt in self._order):
            self.aborting = True
            for lt in self._order:
                if not lt.finished:
                    lt.gate.release()
        for lt in self._order:
            if lt.done.acquire(timeout=20):
                _put_worker(lt.thread)  # a worker that failed to unwind is abandoned, not reused
        return res

    def _controller_event(self, kind, **info):
        if self.observer is not None:
            self.observer(0, kind, None, info)


# ------------------------------------------------------------------------------ shim objects
class _Obj:
    prefix = "O"

    def __init__(self, sched):
        self._s = sched
        self.idx = sched._next_idx(type(self).__name__)
        self.name = "%s%d" % (self.prefix, self.idx)

    def __repr__(self):
        return "<shim %s>" % self.name


class ShimLock(_Obj):
    prefix = "L"

    def __init__(self, sched):
        super().__init__(sched)
        self.owner = None  # thread id, "ext" for a non-logical thread, or None

    def _me(self):
        return self._s.current() or "ext"

    def acquire(self, blocking=True, timeout=-1):
        s = self._s
        if s.aborting:
            return True
        me = self._me()
        if me == "ext":
            if self.owner is not None:
                raise RuntimeError("shim lock %s is held and the caller is not a scheduled thread" % self.name)
            self.owner = me
            return True
        if blocking and timeout is not None and timeout > 0:
            how = s.yield_point("acquire", self, lambda: self.owner is None, timed=True)
            if how == "timeout":
                s.observe("acquire_timeout", self)
                return False
            self.owner = me
            s.observe("acquire", self)
            return True
        if not blocking or (timeout is not None and timeout >= 0):
            s.yield_point("tryacquire", self)
            ok = self.owner is None
            if ok:
                self.owner = me
            s.observe("tryacquire", self, ok=ok)
            return ok
        s.yield_point("acquire", self, lambda: self.owner is None)
        self.owner = me
        s.observe("acquire", self)
        return True

    def release(self):
        s = self._s
        if s.aborting:
            self.owner = None
            return
        if self._me() != "ext":
            s.yield_point("release", self)
        if self.owner is None:
            raise RuntimeError("release unlocked lock")
        self.owner = None
        s.observe("release", self)

    def locked(self):
        return self.owner is not None

    __enter__ = acquire

    def __exit__(self, *a):
        self.release()


class ShimRLock(ShimLock):
    prefix = "RL"

    def __init__(self, sched):
        super().__init__(sched)
        self.count = 0

    def acquire(self, blocking=True, timeout=-1):
        s = self._s
        if s.aborting:
            return True
        me = self._me()
        if self.owner == me:
            self.count += 1
            return True
        ok = super().acquire(blocking, timeout)
        if ok:
            self.count = 1
        return ok

    def release(self):
        if self._s.aborting:
            self.owner = None
            self.count = 0
            return
        if self.owner != self._me():
            raise RuntimeError("cannot release un-acquired lock")
        if self.count > 1:
            self.count -= 1
            return
        self.count = 0
        super().release()

    __enter__ = acquire


class ShimEvent(_Obj):
    prefix = "E"

    def __init__(self, sched):
        super().__init__(sched)
        self.flag = False
        sched.yield_point("newevent", self)
        sched.observe("newevent", self)

    def is_set(self):
        self._s.yield_point("is_set", self)
        self._s.observe("is_set", self, value=self.flag)
        return self.flag

    def set(self):
        self._s.yield_point("set", self)
        self.flag = True
        self._s.observe("set", self)

    def clear(self):
        self._s.yield_point("clear", self)
        self.flag = False
        self._s.observe("clear", self)

    def wait(self, timeout=None):
        s = self._s
        if s.aborting:
            return self.flag
        if s.current() is None:
            if not self.flag and timeout is None:
                raise RuntimeError("shim event %s is not set and the caller is not a scheduled thread" % self.name)
            return self.flag
        how = s.yield_point("wait", self, lambda: self.flag, timed=timeout is not None)
        if how == "timeout":  # the scheduler chose to let the timeout expire while the event was unset
            s.observe("wait_timeout", self, value=self.flag)
            return self.flag
        s.observe("wait", self)
        return True


class ShimCondition(_Obj):
    prefix = "C"

    def __init__(self, sched, lock=None):
        super().__init__(sched)
        self._lock = lock if lock is not None else ShimRLock(sched)
        self._waiting = []  # thread ids in arrival order
        self._notified = set()
        self.acquire = self._lock.acquire
        self.release = self._lock.release

    def __enter__(self):
        return self._lock.acquire()

    def __exit__(self, *a):
        self._lock.release()

    def wait(self, timeout=None):
        s = self._s
        if s.aborting:
            return True
        me = s.current()
        if me is None:
            raise RuntimeError("Condition.wait outside a scheduled thread")
        if self._lock.owner != me:
            raise RuntimeError("cannot wait on un-acquired lock")
        saved = getattr(self._lock, "count", 1)
        self._waiting.append(me)
        self._lock.owner = None
        if hasattr(self._lock, "count"):
            self._lock.count = 0
        s.observe("cond_wait", self)
        how = s.yield_point("cond_wake", self, lambda: me in self._notified and self._lock.owner is None,
                            timed=timeout is not None)
        if how == "timeout":
            # the wait timed out; the lock still has to be re-acquired
            s.yield_point("cond_reacquire", self, lambda: self._lock.owner is None)
        got = me in self._notified
        self._notified.discard(me)
        if me in self._waiting:
            self._waiting.remove(me)
        self._lock.owner = me
        if hasattr(self._lock, "count"):
            self._lock.count = saved
        s.observe("cond_wake", self, notified=got)
        return got

    def wait_for(self, predicate, timeout=None):
        r = predicate()
        while not r:
            if not self.wait(timeout) and timeout is not None:
                return predicate()
            r = predicate()
        return r

    def notify(self, n=1):
        s = self._s
        s.yield_point("notify", self)
        woken = self._waiting[:n]
        self._waiting = self._waiting[n:]
        self._notified.update(woken)
        s.observe("notify", self, woken=list(woken))

    def notify_all(self):
        self.notify(len(self._waiting))


class Shim:
    """Stands in for the `threading` module inside a module under test.  Lock, RLock, Event
    and Condition are scheduler-controlled; every other attribute is the real module's."""

    def __init__(self, sched):
        self._s = sched

    def Lock(self):
        return ShimLock(self._s)

    def RLock(self):
        return ShimRLock(self._s)

    def Event(self):
        return ShimEvent(self._s)

    def Condition(self, lock=None):
        return ShimCondition(self._s, lock)

    def get_ident(self):
        return self._s.current() or _real.get_ident()

    def __getattr__(self, name):
        return getattr(_real, name)


# ------------------------------------------------------------------------------ enumeration helpers
def deviations_of(result, after=-1, kinds=None, timeouts=True, funcs=None):
    """All single deviations applicable to a finished run: (step, tid) for every step > after
    and every enabled thread other than the one that ran, plus (step, -tid) for every thread
    whose timed operation could have been timed out at that step (`timeouts`).  `kinds`:
    restrict to steps whose operation kind is in the set (e.g. {"line"}); `funcs`: line steps
    count only inside functions with these names (`Result.where`)."""
    out = []
    for i, (ran, en) in enumerate(zip(result.ran, result.enabled)):
        if i <= after:
            continue
        if kinds is not None and result.kinds[i] not in kinds:
            continue
        if funcs is not None and result.kinds[i] == "line" and (result.where[i] or ("",))[0] not in funcs:
            continue
        for t in en:
            if t != ran:
                out.append((i, t))
        if timeouts and i < len(result.timeoutable):
            for t in result.timeoutable[i]:
                if -t != ran:
                    out.append((i, -t))
    return out


def _selfcheck(rounds=200):
    """python -m vlib.sched : AB/BA lock-order deadlock, lost wake-up, budget overrun and a
    crashing thread, many times in a row on the pooled workers - must never hang."""
    import time

    t0 = time.time()
    for i in range(rounds):
        log = []
        s = Scheduler(ListPolicy([1, 2, 1, 2] if i % 2 == 0 else [1, 1, 1, 1]), observer=lambda *a: log.append(a[:2]))
        a, b = s.shim.Lock(), s.shim.Lock()

        def ab(x, y):
            with x:
                with y:
                    pass

        s.spawn(1, ab, a, b)
        s.spawn(2, ab, b, a)
        r = s.run()
        assert r.deadlock == (i % 2 == 0), (i, r.deadlock, r.ran)
        assert ((0, "deadlock") in log) == r.deadlock
        # lost wake-up: two waiters, nobody sets; plus a crashing thread
        s = Scheduler(RandomPolicy(i), observer=lambda *a: None)
        ev = s.shim.Event()
        s.spawn(1, ev.wait)
        s.spawn(2, ev.wait)
        s.spawn(3, lambda: 1 / 0)
        r = s.run()
        assert r.deadlock and 3 in r.crashes and sorted(r.blocked) == [1, 2]
        # budget
        s = Scheduler(RandomPolicy(i), max_steps=50)
        e2 = s.shim.Event()

        def spin():
            while True:
                e2.is_set()

        s.spawn(1, spin)
        s.spawn(2, spin)
        r = s.run()
        assert r.budget_exceeded and r.steps == 50
        # timed wait: never fires by default; fires when chosen (-1); forced + exhausted -> deadlock
        for sch, want in (([2, 1], [True]), ([-1, 2], [False]), ([-1], [False])):
            got = []
            s = Scheduler(ListPolicy(sch), max_timeouts=3)
            e3 = s.shim.Event()
            s.spawn(1, lambda: got.append(e3.wait(5.0)))
            s.spawn(2, e3.set)
            r = s.run()
            assert got == want and not r.deadlock, (sch, got, r.ran)
        s = Scheduler(ListPolicy([]), max_timeouts=3)
        e4 = s.shim.Event()

        def poll():
            while not e4.wait(1.0):
                pass

        s.spawn(1, poll)
        r = s.run()
        assert r.deadlock and r.timeouts == 3 and len(r.forced_timeouts) == 3, (r.deadlock, r.timeouts)
    return "sched selfcheck ok: %d rounds in %.1fs" % (rounds, time.time() - t0)


if __name__ == "__main__":
    print(_selfcheck())
