#!/bin/sh
# offline setup: syntax-check every TLA+ module (seconds). Nothing is fetched.
cd "$(dirname "$0")" || exit 1
mkdir -p .work evidence
exec /venv/bin/python -m vlib.setup
