"""Apply one on-disk mutant at a time to the scratch worktree /tmp/wt_mut (current /repo HEAD),
run the reduced harness against it, restore."""
import subprocess, sys, os
WT = os.environ.get('MUT_WT', '/tmp/wt_mut')
M = {
 # C01
 'm01_escapify_space_literal': ('dns/name.py', 'elif c > 0x20 and c < 0x7F:', 'elif c >= 0x20 and c < 0x7F:', 'c01'),
 'm02_at_not_escaped': ('dns/name.py', "_escaped = b'\"().;\\\\@$'", "_escaped = b'\"().;\\\\$'", 'c01'),
 'm03_escape_two_digits': ('dns/name.py', '''                    if edigits == 3:
                        escaping = False
                        if total > 255:
                            raise BadEscape
                        label += struct.pack("!B", total)''', '''                    if edigits == 3:
                        escaping = False
                        if total > 255:
                            raise BadEscape
                        label += struct.pack("!B", total % 200)''', 'c01'),
 'm04_pointer_ge_to_gt': ('dns/name.py', 'if current >= biggest_pointer:', 'if current > biggest_pointer:', 'c01'),
 'm05_label_type_64_accepted': ('dns/name.py', '            if count < 64:\n                labels.append(parser.get_bytes(count))', '            if count <= 64:\n                labels.append(parser.get_bytes(count))', 'c01'),
 'm06_table_beyond_3fff': ('dns/name.py', 'if pos <= 0x3FFF:', 'if pos <= 0x4FFF:', 'c01'),
 'm07_root_in_table': ('dns/name.py', 'if compress is not None and len(n) > 1:', 'if compress is not None and len(n) > 0:', 'c01'),
 'm08_namelen_256': ('dns/name.py', '    if total > 255:\n        raise NameTooLong', '    if total > 256:\n        raise NameTooLong', 'c01'),
 'm09_biggest_pointer_not_updated': ('dns/name.py', '                biggest_pointer = current\n', '                pass\n', 'c01'),
 'm10_compress_case_sensitive_lookup_first_label_only': ('dns/name.py', '            n = Name(labels[i:])\n            i += 1', '            n = Name(labels[i + (1 if i == 1 else 0):])\n            i += 1', 'c01'),
 'm11_empty_label_position': ('dns/name.py', '    if i >= 0 and i != l - 1:\n        raise EmptyLabel', '    if i > 0 and i != l - 1:\n        raise EmptyLabel', 'c01'),
 'm12_dot_after_escape': ('dns/name.py', '''            elif byte_ == b".":
                if len(label) == 0:
                    raise EmptyLabel
                labels.append(label)''', '''            elif byte_ == b".":
                if len(label) == 0 and not labels:
                    raise EmptyLabel
                labels.append(label)''', 'c01'),
 # C06
 'n01_compare_case_sensitive_rhs': ('dns/name.py', 'label2 = other.labels[l2].lower()', 'label2 = other.labels[l2]', 'c06'),
 'n02_hash_case_sensitive': ('dns/name.py', 'for c in label.lower():\n                h += (h << 3) + c', 'for c in label:\n                h += (h << 3) + c', 'c06'),
 'n03_relative_after_absolute': ('dns/name.py', '''            if sabs:
                return (NameRelation.NONE, 1, 0)
            else:
                return (NameRelation.NONE, -1, 0)''', '''            if sabs:
                return (NameRelation.NONE, -1, 0)
            else:
                return (NameRelation.NONE, 1, 0)''', 'c06'),
 'n04_commonancestor_needs_two': ('dns/name.py', '''                order = -1
                if nlabels > 0:''', '''                order = -1
                if nlabels > 1:''', 'c06'),
 'n05_subdomain_excludes_equal': ('dns/name.py', '        if nr == NameRelation.SUBDOMAIN or nr == NameRelation.EQUAL:\n            return True\n        return False\n\n    def is_superdomain', '        if nr == NameRelation.SUBDOMAIN:\n            return True\n        return False\n\n    def is_superdomain', 'c06'),
 'n06_successor_extends_63': ('dns/name.py', 'if len(least_significant_label) < 63:', 'if len(least_significant_label) <= 63:', 'c06'),
 'n07_predecessor_no_bracket_rule': ('dns/name.py', 'if octet == _LEFT_SQUARE_BRACKET_VALUE:\n            octet = _AT_SIGN_VALUE', 'if False:\n            octet = _AT_SIGN_VALUE', 'c06'),
 'n08_deepest_skips_deepest': ('dns/namedict.py', 'for i in range(-depth, 0):', 'for i in range(-depth + 1, 0):', 'c06'),
 'n09_split_off_by_one': ('dns/name.py', 'return (Name(self[:-depth]), Name(self[-depth:]))', 'return (Name(self[:-depth]), Name(self[-depth + 1:]) if depth > 1 else Name(self[-depth:]))', 'c06'),
 'n10_successor_at_rule_removed': ('dns/name.py', 'if octet == _AT_SIGN_VALUE:\n                octet = _LEFT_SQUARE_BRACKET_VALUE', 'if False:\n                octet = _LEFT_SQUARE_BRACKET_VALUE', 'c06'),
 'n11_shorter_sorts_last': ('dns/name.py', '        order = ldiff\n        if ldiff < 0:', '        order = -ldiff\n        if ldiff < 0:', 'c06'),
}
which = sys.argv[1:] or sorted(M)
if which == ['c01'] or which == ['c06']:
    which = sorted(k for k in M if M[k][3] == which[0])
for name in which:
    f, old, new, chk = M[name]
    p = os.path.join(WT, f)
    s = open(p).read()
    if s.count(old) != 1:
        print("SKIP %s: pattern occurs %d times" % (name, s.count(old)), flush=True)
        continue
    open(p, 'w').write(s.replace(old, new))
    try:
        r = subprocess.run(['/venv/bin/python', '/verif/notes/C01_mutation_harness.py', name, chk], env=dict(os.environ, VERIF_REPO=WT),
                           stdout=subprocess.PIPE, stderr=subprocess.STDOUT, text=True, timeout=1500)
        lines = [l for l in r.stdout.splitlines() if l.startswith(('RESULT', 'SIGS', 'Traceback', 'vlib.core.Mach', 'MACH'))]
        print("\n".join(lines) if lines else "NO RESULT %s\n%s" % (name, r.stdout[-800:]), flush=True)
    except subprocess.TimeoutExpired:
        print("TIMEOUT %s" % name, flush=True)
    finally:
        subprocess.run(['git', '-C', WT, 'checkout', '-q', f])
