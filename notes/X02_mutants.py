"""Apply one mutant at a time to the scratch worktree (default /tmp/wt_x02 = /repo HEAD), run
X02_mutation_harness.py against it, restore.   usage: python X02_mutants.py [name ...]"""
import os, subprocess, sys
WT = os.environ.get('MUT_WT', '/tmp/wt_x02')
T, G, S = 'dns/ttl.py', 'dns/grange.py', 'dns/serial.py'
LT2 = '''        elif self.value > other.value and self.value - other.value > 2 ** (
            self.bits - 1
        ):
            return True
        else:
            return False

    def __le__'''
ADDLIM = '''        if abs(delta) > (2 ** (self.bits - 1) - 1):
            raise ValueError
        v += delta
        v = v % 2**self.bits
        return Serial(v, self.bits)

    def __iadd__'''
IADD = '''        v += delta
        v = v % 2**self.bits
        self.value = v
        return self

    def __sub__'''
M = {
 't01_week_typo': (T, 'current * 604800', 'current * 604000'),
 't02_max_off_by_one': (T, 'total > MAX_TTL', 'total >= MAX_TTL'),
 't03_no_lowercase': (T, '                c = c.lower()\n', ''),
 't04_need_digit_not_reset': (T, '                current = 0\n                need_digit = True\n', '                current = 0\n'),
 't05_trailing_integer_allowed': (T, '        if not current == 0:\n            raise BadTTL("trailing integer")\n', ''),
 't06_current_not_reset': (T, '                current = 0\n                need_digit = True\n', '                need_digit = True\n'),
 't07_hour_is_minute': (T, 'total += current * 3600', 'total += current * 60'),
 't08_max_2_31': (T, 'MAX_TTL = 2**32 - 1', 'MAX_TTL = 2**31 - 1'),
 't09_plain_number_unchecked': (T, '            total = int(text)\n', '            return int(text)\n'),
 't10_empty_is_zero': (T, '    elif len(text) == 0:\n        raise BadTTL\n', '    elif len(text) == 0:\n        return 0\n'),
 't11_unknown_unit_is_seconds': (T, "                    raise BadTTL(f\"unknown unit '{c}'\")", '                    total += current'),
 't12_make_bypasses_parser': (T, '        return from_text(value)', '        return int(value) if value.isdigit() else from_text(value)'),
 'g01_start_ge_stop': (G, 'if start > stop:', 'if start >= stop:'),
 'g02_second_dash_accepted': (G, 'if c == "-" and state == 0:', 'if c == "-" and state <= 1:'),
 'g03_order_check_removed': (G, '    if start > stop:\n        raise dns.exception.SyntaxError("start must be <= stop")\n', ''),
 'g04_default_step_2': (G, '    step = 1\n', '    step = 2\n'),
 'g05_step_parsed_as_stop': (G, '        step = int(cur)\n', '        step = stop\n'),
 'g06_missing_stop_is_start': (G, '        raise dns.exception.SyntaxError("no stop value specified")', '        start = stop = int(cur)'),
 'g07_junk_skipped': (G, '            raise dns.exception.SyntaxError(f"Could not parse {c}")', '            pass'),
 's01_lt_wrap_branch_flipped': (S, LT2, LT2.replace('> 2 ** (', '< 2 ** (')),
 's02_gt_plain_int_compare': (S, '        if self.value < other.value and other.value - self.value > 2 ** (self.bits - 1):\n            return True',
                              '        if self.value > other.value:\n            return True'),
 's03_add_limit_halved': (S, ADDLIM, ADDLIM.replace('(2 ** (self.bits - 1) - 1)', '(2 ** (self.bits - 2) - 1)')),
 's04_iadd_no_wrap': (S, IADD, IADD.replace('        v = v % 2**self.bits\n', '')),
 's05_le_is_not_gt': (S, 'return self == other or self < other', 'return not self > other'),
 's06_lt_half_inclusive': (S, 'if self.value < other.value and other.value - self.value < 2 ** (self.bits - 1):',
                           'if self.value < other.value and other.value - self.value <= 2 ** (self.bits - 1):'),
 's07_add_limit_plus_one': (S, ADDLIM, ADDLIM.replace('(2 ** (self.bits - 1) - 1)', '(2 ** (self.bits - 1))')),
 's08_sub_adds': (S, '        v -= delta\n        v = v % 2**self.bits\n        return Serial(v, self.bits)', '        v += delta\n        v = v % 2**self.bits\n        return Serial(v, self.bits)'),
 's10_ge_drops_equality': (S, 'return self == other or self > other', 'return self > other'),
 's09_add_32bit_only_wrap': (S, ADDLIM, ADDLIM.replace('v = v % 2**self.bits', 'v = v % 2**32')),
}
names = sys.argv[1:] or list(M)
for name in names:
    path, old, new = M[name]
    fn = os.path.join(WT, path)
    src = open(fn).read()
    if src.count(old) != 1:
        print("RESULT %s NOT-APPLICABLE (%d matches)" % (name, src.count(old)))
        continue
    open(fn, 'w').write(src.replace(old, new))
    try:
        env = dict(os.environ, VERIF_REPO=WT)
        kinds = {T: "ttl,make,via", G: "range", S: "srow,s32cmp,s32add"}[path]
        p = subprocess.run(['/venv/bin/python', '/verif/notes/X02_mutation_harness.py', name, kinds], env=env,
                           stdout=subprocess.PIPE, stderr=subprocess.STDOUT, text=True)
        lines = [x for x in p.stdout.splitlines() if x.startswith('RESULT')]
        print(lines[-1] if lines else "RESULT %s HARNESS-FAILED\n%s" % (name, p.stdout[-1500:]), flush=True)
    finally:
        open(fn, 'w').write(src)
