"""Mutation / rediscovery harness: reduced universes of checks c01 + c06 against $VERIF_REPO.
usage: VERIF_REPO=<tree> python harness.py <label> [c01|c06|both]"""
import collections, json, os, random, sys
sys.path.insert(0, '/verif')
os.environ.setdefault("PYTHONHASHSEED", "0")
from vlib import core
core.repo_on_path()
from checks import c01, c06
from drivers import c01_names, c06_order

label = sys.argv[1]
which = sys.argv[2] if len(sys.argv) > 2 else "both"
CACHE = '/verif/.work/c01_mut_gens.json'
ctx = core.Ctx("C01", "quick", 0, "model_checking")
ctx.work = '/verif/.work/c01_mut_%s' % label
WT = os.environ.get("VERIF_REPO")
os.makedirs(ctx.work, exist_ok=True)
if os.path.exists(CACHE):
    g = json.load(open(CACHE))
else:
    g = {k: c01.gen(ctx, k, True) for k in ("namesA", "texts", "wires", "segs", "wnames", "cons", "neigh")}
    g["u06"] = c06.gen(ctx, "u06", True)
    json.dump(g, open(CACHE, 'w'))
out = collections.Counter()
sigs = collections.Counter()
def report(rejects, cls):
    for tr, line, clause in rejects:
        out[clause] += 1
        sigs[cls(tr, line, clause)] += 1
if which in ("c01", "both"):
    rng = random.Random(7)
    jobs = c01.text_jobs(ctx, True, g["namesA"][::6], g["texts"][::5], rng)[::2]
    jobs += c01.wire_jobs(ctx, True, g["wires"][::5], g["segs"][::2], g["wnames"], rng)[::2]
    jobs += c01.cons_jobs(ctx, True, g["cons"], g["neigh"][::3], rng)
    traces = ctx.pmap(c01_names.run_job, jobs, chunk=500)
    text, wire, order = c01.split_traces(traces)
    report(ctx.validate("Trace_NameText", "Trace_NameText.cfg", text, shards=4), c01.classify)
    report(ctx.validate("Trace_NameWire", "Trace_NameWire.cfg", wire, shards=4), c01.classify)
    report(ctx.validate("Trace_DnsName", "Trace_DnsName.cfg", order, shards=4), c01.classify)
if which in ("c06", "both"):
    ctx2 = ctx
    ctx2.seed = 0
    u = g["u06"]
    sub = u[::3]
    jobs = c06.build_jobs(ctx2, True, sub, g["neigh"][::2])
    # keep all structured jobs of the reduced universe, a fifth of the random ones
    nstruct = len(sub) ** 2
    jobs = jobs[:nstruct:2] + jobs[nstruct::3]
    traces = ctx.pmap(c06_order.run_job, jobs, chunk=500)
    report(ctx.validate("Trace_DnsName", "Trace_DnsName.cfg", traces, shards=4), c06.classify)
print("RESULT %s clauses=%s" % (label, dict(out)))
print("SIGS %s %s" % (label, dict(sigs)))
ctx.cleanup()
