"""X05: corrupt one logged field of good traces and confirm Trace_ZoneReader rejects with the
expected clause.  Usage: /venv/bin/python notes/X05_corrupt_fields.py"""
import copy
import os
import sys

ROOT = os.path.dirname(os.path.dirname(os.path.abspath(__file__)))
sys.path.insert(0, ROOT)
from checks import x05  # noqa: E402
from drivers import x05_reader  # noqa: E402
from vlib.core import Ctx  # noqa: E402

L0 = {"k": "rr", "owner": ["blank"], "ttl": -1, "cls": "none", "ord": "tc", "y": "TXT", "yg": True, "i": 0, "s": "", "tgt": ["none"],
      "name": ["none"], "v": 0, "org": ["none"], "lo": 0, "hi": 0, "step": 1, "lhs": [], "labs": False, "rhs": [], "rk": "text"}


def L(**kw):
    return dict(L0, **kw)


MAIN = [L(owner=["rel", "n1"], ttl=5, s="a"), L(k="ttl", v=300), L(k="inc", org=["rel", "s"]),
        L(owner=["blank"], y="MX", i=1, tgt=["rel", "m"]), L(k="end"), L(owner=["blank"], s="z")]
BAD = [L(k="origin", name=["rel", "s"]), L(k="inc", org=["none"]), L(owner=["rel", "n2"], s="b")]   # no TTL inside the include
NOINC = [L(owner=["rel", "n1"], ttl=5, s="a"), L(k="inc", org=["none"])]


def job(tid, lines, how="text", **kw):
    drv = {"how": how, "factory": "plain", "rel": False}
    return {"tid": tid, "lines": lines, "cfg": x05.mkcfg(drv, **kw), "drv": drv}


def main():
    ctx = Ctx("X05c", "quick", 0, "model_checking")
    good = [x05_reader.replay(job("main", MAIN)), x05_reader.replay(job("bag", MAIN, how="reader")),
            x05_reader.replay(job("bad", BAD, how="path")), x05_reader.replay(job("noinc", NOINC, inc="no"))]
    cases = [("untouched", None, None, None)]

    def corrupt(name, base, expect, fn):
        tr = copy.deepcopy(good[base])
        tr["tid"] = name
        fn(tr)
        cases.append((name, tr, expect, None))

    corrupt("ttl-of-record", 0, "Content", lambda tr: tr["ev"][5]["res"]["recs"][-1].__setitem__("t", 4))
    corrupt("owner-after-include", 0, "Content", lambda tr: [r.__setitem__("o", "n1.s.example.") for r in tr["ev"][5]["res"]["recs"] if r["s"] == "z"])
    corrupt("rdata-origin", 0, "Content", lambda tr: [r.__setitem__("s", "m.example.") for e in tr["ev"] for r in e["res"]["recs"] if r["y"] == "MX"])
    corrupt("record-dropped", 0, "Content", lambda tr: tr["ev"][3]["res"]["recs"].pop())
    corrupt("foreign-record", 0, "Content", lambda tr: tr["ev"][0]["res"]["recs"].append({"o": "x.example.", "t": 5, "c": "IN", "y": "TXT", "i": 0, "s": "q"}))
    corrupt("class-of-record", 0, "Content", lambda tr: tr["ev"][0]["res"]["recs"][0].__setitem__("c", "CH"))
    corrupt("outcome-flipped", 0, "Outcome", lambda tr: tr["ev"][1]["res"].update(st="err", exc="SyntaxError", syn=True, file="main", line=2))
    corrupt("bag-lost-duplicate", 1, "Content", lambda tr: tr["ev"][5]["res"]["recs"].pop(0))
    corrupt("error-file", 2, "ErrFile", lambda tr: tr["ev"][2]["res"].update(file="main"))
    corrupt("error-became-ok", 2, "Outcome", lambda tr: tr["ev"][2]["res"].update(st="ok", exc="", syn=False, file="", line=0))
    corrupt("include-refusal-class", 3, "IncludeRefusal", lambda tr: tr["ev"][1]["res"].update(exc="OSError", syn=False))
    traces = good + [c[1] for c in cases if c[1]]
    rejects = {tr["tid"]: (line, clause) for tr, line, clause in ctx.validate("Trace_ZoneReader", "Trace_ZoneReader.cfg", traces)}
    ok = True
    for g in good:
        print("%-24s %s" % (g["tid"], "accepted" if g["tid"] not in rejects else "REJECTED %s" % (rejects[g["tid"]],)))
        ok &= g["tid"] not in rejects
    for name, tr, expect, _ in cases[1:]:
        got = rejects.get(name)
        print("%-24s expect %-15s got %s" % (name, expect, got))
        ok &= bool(got) and got[1] == expect
    lines = {tr["tid"]: c for tr, _, c in ctx.validate("Trace_ZoneReader", "Trace_ZoneReader_lines.cfg", [good[2]])}
    print("line-number clause on the 'bad' trace (drift only):", lines)
    ctx.cleanup()
    print("ALL AS EXPECTED" if ok else "MISMATCH")
    return 0 if ok else 1


if __name__ == "__main__":
    sys.exit(main())
