"""Mutation harness for X08: each mutant is a textual edit of a scratch worktree of /repo
(never /repo itself); `./check X08 --tier quick` (X08_SKIP_MC=1: the model runs do not
depend on the code) is pointed at it with VERIF_REPO.  usage: X08_mutants.py [ids...]"""
import os
import subprocess
import sys
from concurrent.futures import ThreadPoolExecutor

MUTANTS = {
    "M01": ("dns/node.py", "                    if NodeKind.classify_rdataset(rds) != NodeKind.REGULAR\n",
            "                    if True\n", "CNAME insertion keeps other data"),
    "M02": ("dns/node.py", "                    if NodeKind.classify_rdataset(rds) != NodeKind.CNAME\n",
            "                    if True\n", "other-data insertion keeps the CNAME"),
    "M03": ("dns/node.py", "    dns.rdatatype.NSEC,  # RFC 4035 section 2.5\n", "", "NSEC is no longer neutral"),
    "M04": ("dns/node.py", "    return rdtype in rdtypes or (rdtype == dns.rdatatype.RRSIG and covers in rdtypes)",
            "    return rdtype in rdtypes", "RRSIG kind ignores the covered type"),
    "M05": ("dns/zone.py", "            if len(node) == 0:\n                self.delete_node(name)\n", "",
            "Zone.delete_rdataset leaves the empty node"),
    "M06": ("dns/zone.py", "        node = self.find_node(name, create)\n        return node.find_rdataset(self.rdclass, rdtype, covers, create)",
            "        node = self.find_node(name)\n        return node.find_rdataset(self.rdclass, rdtype, covers, create)",
            "find_rdataset(create=True) does not create the node"),
    "M07": ("dns/zone.py", "        if not name.is_subdomain(origin):\n            raise KeyError(\"name parameter must be a subdomain of the zone origin\")\n",
            "", "out-of-zone names accepted"),
    "M08": ("dns/zone.py", "        if relativize:\n            name = name.relativize(origin)\n", "", "absolute names not relativized"),
    "M09": ("dns/zone.py", "        try:\n            node = self.find_node(name, create)\n        except KeyError:\n            node = None\n        return node",
            "        return self.find_node(name, create)", "get_node raises KeyError"),
    "M10": ("dns/node.py", "        self.delete_rdataset(\n            replacement.rdclass, replacement.rdtype, replacement.covers\n        )\n", "",
            "Node.replace_rdataset keeps the old rdataset too"),
    "M11": ("dns/zone.py", "        for name, node in self.items():\n            for rds in node:\n                if rdtype == dns.rdatatype.ANY or (\n                    rds.rdtype == rdtype and rds.covers == covers\n                ):\n                    yield (name, rds)",
            "        for name, node in self.items():\n            for rds in node:\n                if rdtype == dns.rdatatype.ANY or (\n                    rds.rdtype == rdtype\n                ):\n                    yield (name, rds)",
            "iterate_rdatasets ignores covers"),
    "M12": ("dns/versioned.py", "        rdataset = super().find_rdataset(name, rdtype, covers)\n        return dns.rdataset.ImmutableRdataset(rdataset)",
            "        return super().find_rdataset(name, rdtype, covers)", "versioned find_rdataset hands out the stored rdataset"),
    "M13": ("dns/node.py", "    def replace_rdataset(self, replacement: dns.rdataset.Rdataset) -> None:\n        raise TypeError(\"immutable\")\n\n    def is_immutable",
            "    def is_immutable", "dns.node.ImmutableNode.replace_rdataset not refused"),
    "M14": ("dns/zone.py", "            or self.origin != other.origin\n", "", "Zone.__eq__ ignores the origin"),
    "M15": ("dns/zone.py", "        if self.get_rdataset(name, dns.rdatatype.NS) is None:\n            raise NoNS\n", "",
            "check_origin does not look for NS"),
    "M16": ("dns/versioned.py", "    def delete_node(self, name: dns.name.Name | str) -> None:\n        raise UseTransaction\n", "",
            "versioned delete_node falls through to the plain implementation"),
    "M17": ("dns/zone.py", "        node = self._maybe_cow(name)\n        node.replace_rdataset(rdataset)",
            "        node = self._maybe_cow(name)\n        node.delete_rdataset(rdataset.rdclass, rdataset.rdtype, rdataset.covers)\n        node.rdatasets.append(rdataset)",
            "transaction put bypasses the CNAME/other-data rule"),
    "M18": ("dns/zone.py", "        rrset = dns.rrset.RRset(vname, self.rdclass, rdtype, covers)",
            "        rrset = dns.rrset.RRset(dns.name.from_text(name, None) if isinstance(name, str) else name, self.rdclass, rdtype, covers)",
            "find_rrset binds the name as given, not as stored"),
    "M19": ("dns/node.py", "            if kind != NodeKind.NEUTRAL:\n                return kind\n        return NodeKind.NEUTRAL",
            "            if kind != NodeKind.NEUTRAL:\n                return kind\n        return NodeKind.NEUTRAL if self.rdatasets else NodeKind.REGULAR",
            "empty node classified REGULAR"),
    "M20": ("dns/zone.py", "        raise TypeError(\"immutable\")\n\n    def is_immutable(self) -> bool:\n        return True",
            "        raise TypeError(\"immutable\")\n\n    def is_immutable(self) -> bool:\n        return False",
            "ImmutableVersionedNode.is_immutable() is False"),
    "M21": ("dns/zone.py", "        name = self._validate_name(name)\n        if name in self.nodes:\n            del self.nodes[name]\n",
            "        name = self._validate_name(name)\n        del self.nodes[name]\n", "delete_node of an absent node raises"),
    "M22": ("dns/zone.py", "        try:\n            rrset = self.find_rrset(name, rdtype, covers)\n        except KeyError:\n            rrset = None\n        return rrset",
            "        return self.find_rrset(name, rdtype, covers)", "get_rrset raises KeyError"),
    "M23": ("dns/node.py", "        rds = dns.rdataset.Rdataset(rdclass, rdtype, covers)\n        self._append_rdataset(rds)\n        return rds",
            "        rds = dns.rdataset.Rdataset(rdclass, rdtype, covers)\n        self.rdatasets.append(rds)\n        return rds",
            "find_rdataset(create=True) bypasses the CNAME/other-data rule"),
    "M24": ("dns/btreezone.py", "        node.replace_rdataset(rdataset)\n        if (\n            name in self.delegations",
            "        if rdataset.rdtype != dns.rdatatype.A or not node.is_glue():\n            node.replace_rdataset(rdataset)\n        if (\n            name in self.delegations",
            "btreezone drops A rdatasets stored at glue nodes"),
    "M25": ("dns/zone.py", "        node = self.find_node(name, True)\n        node.replace_rdataset(replacement)",
            "        node = self.find_node(name, True)\n        node.replace_rdataset(replacement.copy())",
            "Zone.replace_rdataset stores a copy of the replacement"),
    "M26": ("dns/versioned.py", "        if create:\n            raise UseTransaction\n        rdataset = super().get_rdataset(name, rdtype, covers)",
            "        rdataset = super().get_rdataset(name, rdtype, covers)", "versioned get_rdataset(create=True) silently ignores create"),
    "M27": ("dns/zone.py", "    def get(self, key):\n        key = self._validate_name(key)\n", "    def get(self, key):\n",
            "zone.get(key) does not validate / relativize the key"),
    "M28": ("dns/zone.py", "        if self.get_rdataset(name, dns.rdatatype.SOA) is None:\n            raise NoSOA\n        if self.get_rdataset(name, dns.rdatatype.NS) is None:\n            raise NoNS",
            "        if self.get_rdataset(name, dns.rdatatype.SOA) is None:\n            raise NoNS\n        if self.get_rdataset(name, dns.rdatatype.NS) is None:\n            raise NoSOA",
            "check_origin reports NoNS for a missing SOA and vice versa"),
}


def run(mid):
    path, old, new, what = MUTANTS[mid]
    wt = "/tmp/wt_x08_%s" % mid
    subprocess.run(["git", "-C", "/repo", "worktree", "remove", "--force", wt], capture_output=True)
    subprocess.run(["git", "-C", "/repo", "worktree", "add", "--detach", wt, "HEAD"], check=True, capture_output=True)
    try:
        fn = os.path.join(wt, path)
        s = open(fn).read()
        if s.count(old) < 1:
            return mid, "PATCH-DOES-NOT-APPLY", what, ""
        open(fn, "w").write(s.replace(old, new, 1))
        env = dict(os.environ, VERIF_REPO=wt, X08_SKIP_MC="1")
        p = subprocess.run(["./check", "X08", "--tier", "quick"], cwd="/verif", env=env, capture_output=True, text=True)
        sigs = sorted({l.split("sig=")[1].split(" ::")[0] for l in p.stdout.splitlines() if "sig=" in l})
        return mid, {0: "SURVIVED", 1: "KILLED", 2: "MACHINERY"}.get(p.returncode, str(p.returncode)), what, "; ".join(sigs)[:400]
    finally:
        subprocess.run(["git", "-C", "/repo", "worktree", "remove", "--force", wt], capture_output=True)


if __name__ == "__main__":
    ids = sys.argv[1:] or sorted(MUTANTS)
    with ThreadPoolExecutor(max_workers=int(os.environ.get("X08_PAR", "3"))) as ex:
        for r in ex.map(run, ids):
            print("%s %-10s %s\n      %s" % r, flush=True)
