"""X09 mutants: one semantic mutant at a time in the scratch worktree /tmp/wt_x09 (created and removed here),
judged by notes/X09_mutation_harness.py.  Run from /verif:  /venv/bin/python notes/X09_mutants.py [id ...]"""
import json
import os
import subprocess
import sys

WT = os.environ.get("X09_WT", "/tmp/wt_x09")
ROOT = os.path.dirname(os.path.dirname(os.path.abspath(__file__)))

M = [  # (id, file, old, new, what)
    ("r01", "dns/rcode.py", "(ednsflags >> 20) & 0xFF0", "(ednsflags >> 24) & 0xFF0", "from_flags takes the extended bits 4 too low"),
    ("r02", "dns/rcode.py", "ev = (value & 0xFF0) << 20", "ev = (value & 0xFF0) << 16", "to_flags puts the extended bits into VERSION"),
    ("r03", "dns/rcode.py", "value = (flags & 0x000F) |", "value = (flags & 0x001F) |", "from_flags lets CD leak into the rcode"),
    ("r04", "dns/rcode.py", "if value < 0 or value > 4095:", "if value < 0 or value > 65535:", "to_flags accepts 4096"),
    ("r05", "dns/rcode.py", "        return 4095", "        return 255", "rcode maximum 255"),
    ("o01", "dns/opcode.py", "Opcode((flags & 0x7800) >> 11)", "Opcode((flags & 0x7000) >> 11)", "from_flags drops the lowest opcode bit"),
    ("o02", "dns/opcode.py", "(value << 11) & 0x7800", "(value << 10) & 0x7800", "to_flags shifts by 10"),
    ("o03", "dns/opcode.py", "== Opcode.UPDATE", "== Opcode.NOTIFY", "is_update tests NOTIFY"),
    ("f01", "dns/flags.py", "FLAGS_MASK = 0x87F0", "FLAGS_MASK = 0x87B0", "flags mask drops the Z bit"),
    ("f02", "dns/flags.py", "        if unknown & 1:\n", "        if False:\n", "nameless bits silently dropped (behaviour before 2.9.0)"),
    ("f03", "dns/flags.py", "flags |= 1 << int(token[4:])", "flags |= 1 << (int(token[4:]) + 1)", "FLAGn read as bit n+1"),
    ("f04", "dns/flags.py", "    AD = 0x0020\n    #: Checking Disabled\n    CD = 0x0010", "    AD = 0x0010\n    #: Checking Disabled\n    CD = 0x0020", "AD and CD swapped"),
    ("f05", "dns/flags.py", "        token = t.upper()", "        token = t", "flag mnemonics case sensitive"),
    ("f06", "dns/flags.py", "    CO = 0x4000", "    CO = 0x2000", "CO one bit lower"),
    ("f07", "dns/flags.py", "            flags |= enum_class[token]", "            flags |= enum_class.__members__.get(token, 0)", "unknown flag tokens ignored"),
    ("e01", "dns/enum.py", "        text = text.upper()\n", "", "registry texts case sensitive"),
    ("e02", "dns/enum.py", "if value < 0 or value > max:", "if value < 0 or value >= max:", "maximum itself refused"),
    ("e03", "dns/enum.py", "    def to_text(cls: type[TIntEnum], value: int) -> str:\n        cls._check_value(value)\n",
     "    def to_text(cls: type[TIntEnum], value: int) -> str:\n", "to_text does not check the range"),
    ("e04", "dns/enum.py", "if text.startswith(prefix) and text[len(prefix) :].isdecimal():", "if text[len(prefix) :].isdecimal():", "any four characters accepted as prefix"),
    ("e05", "dns/enum.py", "            value = int(text[len(prefix) :])\n", "            value = int(text[len(prefix) :]) & 0xFFFF\n", "generic number wraps at 2^16"),
    ("e06", "dns/enum.py", "        if isinstance(value, str):\n            return cls.from_text(value)\n        cls._check_value(value)\n        return cls(value)",
     "        if isinstance(value, str):\n            return cls.from_text(value)\n        return cls(value & cls._maximum())", "make wraps instead of refusing"),
    ("t01", "dns/rdatatype.py", "return (256 > rdtype >= 128)", "return (255 > rdtype >= 128)", "ANY is not a metatype"),
    ("t02", "dns/rdatatype.py", "    RdataType.NSEC,\n", "", "NSEC not a singleton"),
    ("t03", "dns/rdatatype.py", 'return current_text.replace("_", "-")', "return current_text", "NSAP_PTR printed with underscore (drift only)"),
    ("t04", "dns/rdatatype.py", "    if is_singleton:\n        _singletons.add(rdtype)", "    pass", "register_type ignores is_singleton"),
    ("t05", "dns/rdatatype.py", "    _registered_by_value[rdtype] = rdtype_text\n", "", "register_type does not register the value -> text direction"),
    ("t06", "dns/rdatatype.py", "    DNAME = 39\n", "    DNAME = 39\n    TYPE40 = 39\n", "a mnemonic of generic shape for another value"),
    ("c01", "dns/rdataclass.py", "_metaclasses = {RdataClass.NONE, RdataClass.ANY}", "_metaclasses = {RdataClass.ANY}", "NONE is not a metaclass"),
    ("c02", "dns/rdataclass.py", '        return "CLASS"', '        return "CLAS"', "class prefix CLAS"),
    ("m01", "dns/message.py", "        self.ednsflags &= 0x00FFFFFF\n", "", "set_rcode keeps the old extended bits"),
    ("m02", "dns/message.py", "        self.flags &= 0x87FF\n", "", "set_opcode ORs into the old opcode"),
    ("m03", "dns/message.py", "            self.ednsflags &= ~int(dns.flags.DO)", "            pass", "want_dnssec(False) does nothing"),
    ("m04", "dns/message.py", "            ednsflags |= edns << 16", "            ednsflags |= edns << 8", "use_edns puts the version into the flag bits"),
    ("m05", "dns/message.py", "        self.flags &= 0xFFF0\n", "        self.flags &= 0xFF00\n", "set_rcode clears AD, CD and bits 6-7"),
]


def sh(*cmd, **kw):
    return subprocess.run(cmd, stdout=subprocess.PIPE, stderr=subprocess.STDOUT, text=True, **kw)


def main():
    want = set(sys.argv[1:])
    sh("git", "-C", "/repo", "worktree", "remove", "--force", WT)
    sh("git", "-C", "/repo", "worktree", "add", "--detach", WT, "HEAD")
    try:
        for mid, fn, old, new, what in M:
            if want and mid not in want:
                continue
            path = os.path.join(WT, fn)
            src = open(path).read()
            if src.count(old) != 1:
                print(mid, "PATTERN", src.count(old), what, flush=True)
                continue
            open(path, "w").write(src.replace(old, new))
            try:
                p = sh("/venv/bin/python", "notes/X09_mutation_harness.py", cwd=ROOT, env=dict(os.environ, VERIF_REPO=WT))
                res = [ln for ln in p.stdout.splitlines() if ln.startswith("RESULT ")]
                if res:
                    r = json.loads(res[-1][7:])
                    print(mid, "KILLED" if r["hard"] else "survives (drift)" if r["drift"] else "SURVIVES", "|", what, "|", json.dumps(r["hard"]), "| drift", json.dumps(r["drift"]), flush=True)
                else:
                    print(mid, "HARNESS-FAILURE", what, p.stdout[-600:], flush=True)
            finally:
                open(path, "w").write(src)
    finally:
        sh("git", "-C", "/repo", "worktree", "remove", "--force", WT)


if __name__ == "__main__":
    main()
