"""X03 mutation harness: applies one semantic mutant at a time to a scratch worktree of
/repo (never /repo itself), runs ./check X03 --tier quick against it and reports
killed / survived.  Usage: /venv/bin/python notes/X03_mutants.py [name ...]"""
import os
import subprocess
import sys

WT = "/tmp/wt_x03"
ND, UT = "dns/namedict.py", "dns/rdtypes/util.py"
M = {
    # ---- NameDict
    "nd_skip_deepest": (ND, "for i in range(-depth, 0):", "for i in range(-depth + 1, 0):", "namedict"),
    "nd_shallowest_first": (ND, "for i in range(-depth, 0):", "for i in range(-1, -depth - 1, -1):", "namedict"),
    "nd_no_depth_update": (ND, "        self.__store[key] = value\n        self.__update_max_depth(key)", "        self.__store[key] = value", "namedict"),
    "nd_no_recount": (ND, "            for k in self.__store:\n                self.__update_max_depth(k)", "            pass", "namedict"),
    "nd_decrement_depth": (ND, "            self.max_depth = 0\n            for k in self.__store:\n                self.__update_max_depth(k)",
                           "            self.max_depth -= 1\n            self.max_depth_items = 1", "namedict"),
    "nd_accept_any_key": (ND, "        if not isinstance(key, dns.name.Name):\n            raise ValueError(\"NameDict key must be a name\")\n", "", "namedict"),
    "nd_no_empty_fallback": (ND, "        v = self[dns.name.empty]\n        return (dns.name.empty, v)", "        raise KeyError(name)", "namedict"),
    "nd_root_fallback": (ND, "        v = self[dns.name.empty]\n        return (dns.name.empty, v)", "        v = self[dns.name.root]\n        return (dns.name.root, v)", "namedict"),
    "nd_delete_keeps_entry": (ND, "        self.__store.pop(key)\n", "        self.__store[key]\n", "namedict"),
    "nd_depth_clamp_off_by_one": (ND, "            depth = self.max_depth\n", "            depth = self.max_depth - 1\n", "namedict"),
    # ---- processing order
    "po_descending": (UT, "    for k in sorted(by_priority.keys()):\n        rdatas = by_priority[k]\n        random.shuffle(rdatas)",
                      "    for k in sorted(by_priority.keys(), reverse=True):\n        rdatas = by_priority[k]\n        random.shuffle(rdatas)", "procorder"),
    "po_no_shuffle": (UT, "        random.shuffle(rdatas)\n", "", "procorder"),
    "po_text_sort": (UT, "    for k in sorted(by_priority.keys()):\n        rdatas = by_priority[k]\n        random.shuffle(rdatas)",
                     "    for k in sorted(by_priority.keys(), key=str):\n        rdatas = by_priority[k]\n        random.shuffle(rdatas)", "procorder"),
    "po_weights_ignored": (UT, "                weight = rdata._processing_weight() or _no_weight\n                if weight > r:", "                weight = total / len(rdatas)\n                if weight > r:", "procorder"),
    "po_weights_inverted": ("dns/rdtypes/IN/SRV.py", "    def _processing_weight(self):\n        return self.weight", "    def _processing_weight(self):\n        return 65535 - self.weight", "procorder"),
    "po_zero_weight_never": (UT, "_no_weight = 0.1", "_no_weight = 1e9", "procorder"),
    "po_drop_last": (UT, "            del rdatas[n]  # pyright: ignore\n        ordered.append(rdatas[0])", "            del rdatas[n]  # pyright: ignore", "procorder"),
    "po_weighted_unsorted": (UT, "    ordered = []\n    for k in sorted(by_priority.keys()):\n        rdatas = by_priority[k]\n        total",
                             "    ordered = []\n    for k in by_priority.keys():\n        rdatas = by_priority[k]\n        total", "procorder"),
    "po_naptr_fields_swapped": ("dns/rdtypes/IN/NAPTR.py", "return (self.order, self.preference)", "return (self.preference, self.order)", "procorder"),
    "po_srv_weight_as_priority": ("dns/rdtypes/IN/SRV.py", "    def _processing_priority(self):\n        return self.priority", "    def _processing_priority(self):\n        return self.weight", "procorder"),
    "po_default_no_shuffle": ("dns/rdata.py", "        items = list(iterable)\n        random.shuffle(items)\n        return items", "        items = list(iterable)\n        return items", "procorder"),
    "po_mutates_rdataset": ("dns/rdataset.py", "            return self[0]._processing_order(iter(self))  # pyright: ignore",
                            "            r = self[0]._processing_order(iter(self))\n            if type(self.items) is dict and len(r) > 2:\n                self.items.pop(r[-1])\n            return r", "procorder"),
}


def sh(*a, **kw):
    return subprocess.run(a, stdout=subprocess.PIPE, stderr=subprocess.STDOUT, text=True, **kw)


def main():
    names = sys.argv[1:] or list(M)
    if not os.path.isdir(WT):
        sh("git", "-C", "/repo", "worktree", "add", "--detach", WT, "HEAD")
    for name in names:
        fn, old, new, part = M[name]
        sh("git", "-C", WT, "checkout", "--", ".")
        path = os.path.join(WT, fn)
        s = open(path).read()
        if s.count(old) < 1:
            print("%-28s PATCH-DOES-NOT-APPLY" % name)
            continue
        open(path, "w").write(s.replace(old, new))
        env = dict(os.environ, VERIF_REPO=WT, X03_PART=part)
        r = sh("./check", "X03", "--tier", "quick", cwd="/verif", env=env)
        sigs = sorted({ln.split("sig=")[1].split(" :: ")[0] for ln in r.stdout.splitlines() if "sig=" in ln})
        sigs = [x for x in sigs if not x.startswith("X03-F1:")]
        verdict = "KILLED" if sigs else ("MACHINERY rc=%d" % r.returncode if r.returncode == 2 else "SURVIVED")
        print("%-28s %-9s %s" % (name, verdict, "; ".join(sigs[:4])), flush=True)
    sh("git", "-C", "/repo", "worktree", "remove", "--force", WT)   # never leave scratch around


if __name__ == "__main__":
    main()
