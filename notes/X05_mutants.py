"""Mutation harness of X05.  Usage: /venv/bin/python notes/X05_mutants.py [name ...]
Each mutant is applied to a scratch worktree (/tmp/wt_x05_<name>) of /repo HEAD with
notes/X05_fix_generate.diff applied (so that the baseline has no VIOLATION), the quick tier is
run on the families named for it, and the clauses of the reported violations are printed."""
import os
import re
import subprocess
import sys

ROOT = os.path.dirname(os.path.dirname(os.path.abspath(__file__)))
F = "dns/zonefile.py"
POP = """                        ) = self.saved_state.pop(-1)"""
M = {
    # name: (families, old, new)
    "inc_origin_not_restored": ("g3,g3b", POP, POP + "\n                        self.current_origin = self.tok and self._inc_origin"),
    "inc_origin_arg_ignored": ("g3,g3b", "                            self.tok.get_eol()\n                        elif not token.is_eol_or_eof():",
                               "                            new_origin = self.current_origin\n                            self.tok.get_eol()\n                        elif not token.is_eol_or_eof():"),
    "inc_origin_arg_relative_to_zone": ("g3,g3b", "token.value, self.current_origin, self.tok.idna_codec\n                            )\n                            self.tok.get_eol()",
                                        "token.value, self.zone_origin, self.tok.idna_codec\n                            )\n                            self.tok.get_eol()"),
    "inc_pop_outermost_frame": ("g3,g3b", "self.saved_state.pop(-1)", "self.saved_state.pop(0)"),
    "inc_always_allowed": ("g3,g3b", "            if allow_include:\n", "            if True:\n"),
    "directive_list_ignored": ("g3,g4,g7", "            self.allowed_directives = set(_upper_dollarize(d) for d in allow_directives)",
                               "            self.allowed_directives = {\"$GENERATE\", \"$ORIGIN\", \"$TTL\", \"$UNICODE\", \"$INCLUDE\"}"),
    "err_names_parent_file": ("g3,g3b", "            filename, line_number = self.tok.where()",
                              "            filename, line_number = (self.saved_state[0][0] if self.saved_state else self.tok).where()"),
    "ttl_directive_loses_to_last": ("g1,g3", "                if self.default_ttl_known:\n                    ttl = self.default_ttl\n                elif self.last_ttl_known:\n                    ttl = self.last_ttl\n                self.tok.unget(token)",
                                    "                if self.last_ttl_known:\n                    ttl = self.last_ttl\n                elif self.default_ttl_known:\n                    ttl = self.default_ttl\n                self.tok.unget(token)"),
    "ttl_zero_is_missing": ("g1", "        if ttl is None:\n            raise dns.exception.SyntaxError(\"Missing default TTL value\")",
                            "        if not ttl:\n            raise dns.exception.SyntaxError(\"Missing default TTL value\")"),
    "ttl_after_class_not_remembered": ("g1,g5", "                ttl = dns.ttl.from_text(token.value)\n                self.last_ttl = ttl\n                self.last_ttl_known = True\n            except dns.ttl.BadTTL:\n                if self.default_ttl_known:",
                                       "                ttl = dns.ttl.from_text(token.value)\n            except dns.ttl.BadTTL:\n                if self.default_ttl_known:"),
    "blank_owner_is_origin": ("g2,g3", "                self.tok.unget(token)\n            name = self.last_name\n",
                              "                self.tok.unget(token)\n                self.last_name = self.current_origin\n            name = self.last_name\n"),
    "origin_resets_last_owner": ("g2", "                        self.current_origin = self.tok.get_name(self.current_origin)\n",
                                 "                        self.current_origin = self.tok.get_name(self.current_origin)\n                        self.last_name = self.current_origin\n"),
    "rdata_names_use_zone_origin": ("g2", "                self.tok,\n                self.current_origin,\n                self.relativize,", "                self.tok,\n                self.zone_origin,\n                self.relativize,"),
    # (removing the test alone is equivalent: Zone/Rdataset refuse the foreign class one layer below)
    "class_mismatch_relabelled": ("g5,r1", "            if rdclass != self.zone_rdclass:\n                raise dns.exception.SyntaxError(\"RR class is not zone's class\")\n\n        if ttl is None:",
                                  "            rdclass = self.zone_rdclass\n\n        if ttl is None:"),
    "gen_ttl_not_remembered": ("g4", "                    ttl = dns.ttl.from_text(token.value)\n                    self.last_ttl = ttl\n                    self.last_ttl_known = True\n                    token = self._get_identifier()",
                               "                    ttl = dns.ttl.from_text(token.value)\n                    token = self._get_identifier()"),
    "gen_step_ignored": ("g4", "for i in range(start, stop + 1, step):", "for i in range(start, stop + 1):"),
    "gen_offset_sign_ignored": ("g4,g7", "            if offset_sign == \"-\":\n                offset *= -1\n", ""),
    "gen_lhs_relative_to_zone": ("g4", "                name, self.current_origin, self.tok.idna_codec", "                name, self.zone_origin, self.tok.idna_codec"),
    "rrsets_default_ttl_dropped": ("r1", "            default_ttl=default_ttl,\n        )\n        reader.read()", "            default_ttl=None,\n        )\n        reader.read()"),
    "rrsets_forced_ttl_not_exclusive": ("r1", "        if self.force_ttl is not None:\n            ttl = self.force_ttl\n            self.last_ttl = ttl\n            self.last_ttl_known = True\n        else:",
                                        "        if self.force_ttl is not None and False:\n            pass\n        else:"),
    "rrsets_class_none_means_forced": ("r1", "            force_rdclass=rdclass,", "            force_rdclass=rdclass or default_rdclass,"),
    "rrsets_forced_name_after_first_only": ("r1", "        if self.force_name is not None:\n            name = self.force_name\n",
                                            "        if self.force_name is not None:\n            name = self.force_name if self.last_ttl_known else self.zone_origin\n"),
}
# the first mutant needs the included file's origin kept somewhere: done with a second edit
EXTRA = {"inc_origin_not_restored": ("                        self.current_origin = new_origin\n", "                        self.current_origin = new_origin\n                        self._inc_origin = new_origin\n")}


def sh(*a, **kw):
    return subprocess.run(a, stdout=subprocess.PIPE, stderr=subprocess.STDOUT, text=True, **kw)


def one(name):
    fams, old, new = M[name]
    wt = "/tmp/wt_x05_" + name
    sh("git", "-C", "/repo", "worktree", "remove", "--force", wt)
    sh("git", "-C", "/repo", "worktree", "add", "--detach", wt, "HEAD")
    try:
        r = sh("git", "-C", wt, "apply", os.path.join(ROOT, "notes", "X05_fix_generate.diff"))
        assert r.returncode == 0, r.stdout
        p = os.path.join(wt, F)
        s = open(p).read()
        for o, n in [(old, new)] + ([EXTRA[name]] if name in EXTRA else []):
            assert s.count(o) >= 1, "pattern of %s not found" % name
            s = s.replace(o, n, 1)
        open(p, "w").write(s)
        r = sh(os.path.join(ROOT, "check"), "X05", "--tier", "quick", cwd=ROOT, env=dict(os.environ, VERIF_REPO=wt, X05_FAMS=fams))
        sigs = sorted(set(re.findall(r"clause=(\w+) sig=(\S+)", r.stdout)))
        rej = re.findall(r"validated (\d+) traces with Trace_ZoneReader: (\d+) rejected", r.stdout)
        verdict = "KILLED" if r.returncode == 1 else "survived" if r.returncode == 0 else "MACHINERY(rc=%d)" % r.returncode
        print("%-36s %-9s fams=%-10s rejected=%s clauses=%s" % (name, verdict, fams, rej[0][1] + "/" + rej[0][0] if rej else "?",
                                                                  sorted({c for c, _ in sigs})), flush=True)
        for c, s_ in sigs[:4]:
            print("      %s" % s_)
        if r.returncode not in (0, 1):
            print(r.stdout[-1500:])
    finally:
        sh("git", "-C", "/repo", "worktree", "remove", "--force", wt)


if __name__ == "__main__":
    for nm in sys.argv[1:] or list(M):
        one(nm)
