"""X08: corrupt one logged field of a good trace and confirm Trace_ZoneDirect rejects it with the
expected clause (the good traces stay accepted).  Run: /venv/bin/python notes/X08_corrupt_fields.py"""
import copy, os, sys
sys.path.insert(0, '/verif'); os.environ.setdefault("PYTHONHASHSEED", "0")
from vlib import core
core.repo_on_path()
from drivers import x08_direct as d
ctx = core.Ctx("X08", "quick", 0, "model_checking"); ctx.work = '/verif/.work/x08_corrupt'; os.makedirs(ctx.work, exist_ok=True)
ZA = [["@", "NS", 300, [1]], ["@", "SOA", 300, [1]], ["a", "A", 600, [1]]]
def E(op, **kw):
    return dict(op=op, **kw)
hist = [{"op": "init", "zone": ZA, "mut": True},
        E("replace_rdataset", sp="sabs", n="a", ty="CNAME", ttl=300, rds=[2], form="rdataset"),     # 2: evicts A
        E("find_rdataset", sp="rel", n="a", ty="NSEC", cr=True),                                    # 3: empty NSEC next to the CNAME
        E("addto", sp="srel", n="b.a", ty="A", ttl=600, rd=1, cr=True),                             # 4
        E("get_rdataset", sp="abs", n="b.a", ty="A", cr=False),                                     # 5 (+tval)
        E("find_rrset", sp="sup", n="a", ty="CNAME"),                                               # 6
        E("iterate_rdatas", f="ANY"),                                                               # 7 (+cnt)
        E("keys"),                                                                                  # 8
        E("node_info", sp="rel", n="a"),                                                            # 9
        E("find_node", sp="abs", n="OUT", cr=False),                                                # 10: KeyError
        E("get_soa"),                                                                               # 11
        E("eq", other=ZA, so=True, sc=True, same=False),                                            # 12: False
        E("delete_rdataset", sp="rel", n="b.a", ty="A"),                                            # 13: node goes too
        E("txn_add", sp="rel", n="a", ty="A", ttl=300, rds=[1], form="rdata")]                      # 14: evicts CNAME again
good = d.replay(hist, "plain", True, "good_plain")
hv = [{"op": "init", "zone": ZA, "mut": False}, E("delete_node", sp="rel", n="a"), E("find_rdataset", sp="rel", n="a", ty="A", cr=True),
      E("node_find", sp="rel", n="a", ty="NSEC", cr=True), E("get_node", sp="srel", n="a", cr=False)]
goodv = d.replay(hv, "btree", False, "good_btree")
bad = []
def mut(g, name, f):
    t = copy.deepcopy(g); t["tid"] = name; f(t); bad.append(t)
ev = lambda t, i: t["ev"][i - 1]
mut(good, "content_kept_A", lambda t: ev(t, 2)["st"].append(["a", "A", 600, [1]]))
mut(good, "content_ttl", lambda t: ev(t, 4)["st"][-1].__setitem__(2, 300))
mut(good, "content_lost_empty_rdataset", lambda t: ev(t, 3)["st"].remove(["a", "NSEC", 0, []]))
mut(good, "value_created_rds", lambda t: ev(t, 3).__setitem__("val", ["rds", "NSEC", 300, []]))
mut(good, "value_get", lambda t: ev(t, 5).__setitem__("val", ["none"]))
mut(good, "reader_differs", lambda t: ev(t, 5).__setitem__("tval", ["rds", "A", 600, [2]]))
mut(good, "rrset_name_absolute", lambda t: ev(t, 6)["val"].__setitem__(1, "ABS:a.example."))
mut(good, "rdatas_duplicate", lambda t: ev(t, 7).__setitem__("cnt", ev(t, 7)["cnt"] + 1))
mut(good, "rdatas_missing", lambda t: ev(t, 7)["val"][1].pop())
mut(good, "keys_disagree", lambda t: ev(t, 8).__setitem__("same3", False))
mut(good, "kind", lambda t: ev(t, 9)["val"].__setitem__(2, "REGULAR"))
mut(good, "wrapper_not_refused", lambda t: ev(t, 9)["imm"]["refused"].__setitem__(3, "ok"))
mut(good, "kind_of_type", lambda t: ev(t, 9)["kinds"][0].__setitem__(1, "REGULAR"))
mut(good, "outzone_found", lambda t: (ev(t, 10).__setitem__("res", "ok"), ev(t, 10).__setitem__("val", ["node", []])))
mut(good, "outzone_wrong_class", lambda t: ev(t, 10).__setitem__("exc", "ValueError"))
mut(good, "soa", lambda t: ev(t, 11).__setitem__("val", ["soa", 2]))
mut(good, "eq_true", lambda t: (ev(t, 12).__setitem__("val", ["bool", True]), ev(t, 12).__setitem__("ne", False)))
mut(good, "ne_not_negation", lambda t: ev(t, 12).__setitem__("ne", False))
mut(good, "empty_node_left", lambda t: ev(t, 13)["st"].append(["b.a", "EMPTYNODE", 0, []]))
mut(good, "txn_kept_cname", lambda t: ev(t, 14)["st"].append(["a", "CNAME", 300, [2]]))
mut(good, "ownership", lambda t: ev(t, 2).__setitem__("own", False))
mut(goodv, "v_delete_node_ok", lambda t: (ev(t, 2).__setitem__("res", "ok"), ev(t, 2).__setitem__("val", ["nothing"])))
mut(goodv, "v_wrong_exception", lambda t: ev(t, 3).__setitem__("exc", "KeyError"))
mut(goodv, "v_node_create_ok", lambda t: (ev(t, 4).__setitem__("res", "ok"), ev(t, 4).__setitem__("val", ["rds", "NSEC", 0, []])))
mut(goodv, "v_content_changed", lambda t: ev(t, 2).__setitem__("st", ev(t, 2)["st"][:2]))
r = ctx.validate("Trace_ZoneDirect", "Trace_ZoneDirect.cfg", [good, goodv] + bad)
got = {x[0]["tid"]: (x[1], x[2]) for x in r}
for t in [good, goodv] + bad:
    print("%-28s %s" % (t["tid"], "REJECTED at event %s clause %s" % got[t["tid"]] if t["tid"] in got else "accepted"))
ctx.cleanup()
