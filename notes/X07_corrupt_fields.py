"""X07: corrupt one logged field of a real trace at a time and confirm that the trace
specification rejects it with the expected clause (and accepts the unmodified traces).
Usage: cd /verif && /venv/bin/python notes/X07_corrupt_fields.py"""
import copy
import sys

sys.path.insert(0, "/verif")
from vlib import core  # noqa: E402

core.repo_on_path()
from drivers import x07_lexer, x07_typed  # noqa: E402

P = lambda wl, wc, un=False, sk=False, fl=False: {"sk": sk, "wl": wl, "wc": wc, "un": un, "fl": fl}  # noqa: E731
S = lambda text: [ord(c) for c in text]  # noqa: E731
C = lambda h, base=10, arg=-1: {"h": h, "base": base, "arg": arg}  # noqa: E731


def lex(text, pol, tid):
    return x07_lexer.run_job({"tid": tid, "s": S(text), "pol": pol, "src": "str"})


def typed(text, calls, tid):
    return x07_typed.run_job({"tid": tid, "s": S(text), "calls": calls, "src": "str"})


def mut(tr, tid, i, **kw):
    t = copy.deepcopy(tr)
    t["tid"] = tid
    t["ev"][i].update(kw)
    return t


def main():
    ctx = core.Ctx("X07C", "quick", 0, "model_checking")
    base = lex('a\\(b ( "c d" ;x\n e ) f\n', [P(True, True, un=True)], "base")
    skp = lex("a  (\n b", [P(False, False, sk=True)], "skp")
    lexcases = [(base, None), (skp, None)]
    i_id = next(i for i, e in enumerate(base["ev"]) if e.get("k") == "IDENTIFIER")
    i_q = next(i for i, e in enumerate(base["ev"]) if e.get("k") == "QUOTED_STRING")
    i_c = next(i for i, e in enumerate(base["ev"]) if e.get("k") == "COMMENT")
    i_ws = next(i for i, e in enumerate(base["ev"]) if e.get("k") == "WHITESPACE")
    i_eol = next(i for i, e in enumerate(base["ev"]) if e.get("k") == "EOL")
    i_sk = next(i for i, e in enumerate(skp["ev"]) if e["op"] == "skip" and e["n"] > 0)
    lexcases += [
        (mut(base, "kind", i_id, k="QUOTED_STRING"), "Kind_IDENTIFIER"),
        (mut(base, "text", i_id, v=S("a(b")), "Text_IDENTIFIER"),
        (mut(base, "esc", i_id, e=False), "HasEscape"),
        (mut(base, "qtext", i_q, v=S("c")), "Text_QUOTED_STRING"),
        (mut(base, "ctext", i_c, v=S(";x")), "Text_COMMENT"),
        (mut(base, "ws", i_ws, k="IDENTIFIER"), "Kind_WHITESPACE"),
        (mut(base, "depth", i_q, depth=0), "Depth"),
        (mut(base, "line", len(base["ev"]) - 1, line=1), "Line"),
        (mut(base, "lineback", i_eol, line=base["ev"][i_eol]["line"] + 2), "Line"),
        (mut(base, "err", i_q, res="err", fam=True), "Accepted_QUOTED_STRING"),
        (mut(base, "eol", i_eol, k="EOF"), "Kind_EOL"),
        (mut(skp, "skipn", i_sk, n=skp["ev"][i_sk]["n"] + 1), "SkipCount"),
    ]
    bad = lex("a )", [P(False, False)], "refused")
    lexcases += [(bad, None), (mut(bad, "tok-for-err", len(bad["ev"]) - 1, res="tok", k="EOF", v=[], e=False), "Refused_unbalanced"),
                 (mut(bad, "lex-family", len(bad["ev"]) - 1, fam=False), "ErrorIsSyntaxError")]
    cut = copy.deepcopy(base)
    cut["tid"] = "missing-event"
    del cut["ev"][i_q]
    lexcases.append((cut, "*"))
    rej = {tr["tid"]: cl for tr, line, cl in ctx.validate("Trace_Lexer", "Trace_Lexer.cfg", [c[0] for c in lexcases])}

    t1 = typed("65535 z\n", [C("get_uint16"), C("get_identifier"), C("get_eol")], "t1")
    t2 = typed("a b \\065\n", [C("get_remaining", arg=2), C("concatenate_remaining_identifiers", arg=0), C("get_eol")], "t2")
    t3 = typed("65536 z\n", [C("get_uint16")], "t3")
    t4 = typed('"ab" z\n', [C("get_string", arg=2), C("get_identifier")], "t4")
    tcases = [(t1, None), (t2, None), (t3, None), (t4, None),
              (mut(t1, "value", 0, val=[6, 5, 5, 3, 4]), "Value_get_uint16"),
              (mut(t1, "refuse-valid", 0, res="err", fam=True), "Accepted_get_uint16"),
              (mut(t1, "ident", 1, val=S("y")), "Value_get_identifier"),
              (mut(t3, "accept-invalid", 0, res="ok", val=[6, 5, 5, 3, 6]), "Refused_get_uint16"),
              (mut(t3, "family", 0, fam=False), "ErrorIsSyntaxError_get_uint16"),
              (mut(t2, "toks", 0, toks=t2["ev"][0]["toks"][:1]), "Remaining"),
              (mut(t2, "concat", 1, val=S("a")), "Value_concatenate"),
              (mut(t4, "string", 0, val=S('"ab"')), "Value_get_string")]
    rej.update({tr["tid"]: cl for tr, line, cl in ctx.validate("Trace_LexerTyped", "Trace_LexerTyped.cfg", [c[0] for c in tcases])})
    ok = True
    for tr, want in lexcases + tcases:
        got = rej.get(tr["tid"])
        good = (got is None) if want is None else (got is not None if want == "*" else got == want)
        ok &= good
        print("%-16s expected %-26s got %-26s %s" % (tr["tid"], want or "accepted", got or "accepted", "OK" if good else "MISMATCH"))
    ctx.cleanup()
    return 0 if ok else 1


if __name__ == "__main__":
    sys.exit(main())
