"""X06 mutation harness: applies one semantic mutant at a time to a scratch worktree of
/repo (never /repo itself), runs ./check X06 --tier quick (X06_FAST=1: no model runs, smaller
samples) against it and reports killed / survived.  X06-F1 signatures are ignored.
Usage: /venv/bin/python notes/X06_mutants.py [name ...]"""
import os
import subprocess
import sys

WT = os.environ.get("X06_WT", "/tmp/wt_x06")
UP, MS, RC, RD, RN = "dns/update.py", "dns/message.py", "dns/rcode.py", "dns/rdataset.py", "dns/renderer.py"
M = {
    # ---- dns.update
    "u_present_name_class_none": (UP, "                self.prerequisite,\n                name,\n                dns.rdataclass.ANY,\n                dns.rdatatype.ANY,",
                                  "                self.prerequisite,\n                name,\n                dns.rdataclass.NONE,\n                dns.rdatatype.ANY,", "update"),
    "u_absent_type_class_any": (UP, "                dns.rdataclass.NONE,\n                rdtype,", "                dns.rdataclass.ANY,\n                rdtype,", "update"),
    "u_delete_type_deleting_none": (UP, "                        rdtype,\n                        dns.rdatatype.NONE,\n                        dns.rdataclass.ANY,",
                                    "                        rdtype,\n                        dns.rdatatype.NONE,\n                        dns.rdataclass.NONE,", "update"),
    "u_delete_rdata_class_any": (UP, "                for rd in largs:\n                    self._add_rr(name, 0, rd, dns.rdataclass.NONE)",
                                 "                for rd in largs:\n                    self._add_rr(name, 0, rd, dns.rdataclass.ANY)", "update"),
    "u_delete_rdataset_keeps_ttl": (UP, "                for rd in rds:\n                    self._add_rr(name, 0, rd, dns.rdataclass.NONE)",
                                    "                for rd in rds:\n                    self._add_rr(name, rds.ttl, rd, dns.rdataclass.NONE)", "update"),
    "u_replace_is_add": (UP, "        self._add(True, self.update, name, *args)", "        self._add(False, self.update, name, *args)", "update"),
    "u_replace_text_no_delete": (UP, "                if replace:\n                    self.delete(name, rdtype)\n", "", "update"),
    "u_replace_deletes_after": (UP, "                if replace:\n                    self.delete(name, args[0].rdtype)\n                for rd in args:\n                    self._add_rr(name, ttl, rd, section=section)",
                                "                for rd in args:\n                    self._add_rr(name, ttl, rd, section=section)\n                if replace:\n                    self.delete(name, args[0].rdtype)", "update"),
    "u_add_into_prereq": (UP, "        self._add(False, self.update, name, *args)", "        self._add(False, self.prerequisite, name, *args)", "update"),
    "u_rrs_merged_not_in_call_order": (UP, "section, name, self.zone_rdclass, rd.rdtype, covers, deleting, True, True\n", "section, name, self.zone_rdclass, rd.rdtype, covers, deleting, True, False\n", "update"),
    "u_zone_class_ignored": (UP, "        self.zone_rdclass = rdclass\n", "        self.zone_rdclass = dns.rdataclass.IN\n", "update"),
    "u_wire_ignores_deleting": (RD, "            rdclass = override_rdclass\n            want_shuffle = False", "            rdclass = self.rdclass\n            want_shuffle = False", "update"),
    "u_parse_none_not_empty": (UP, "deleting == dns.rdataclass.ANY or section == UpdateSection.PREREQ", "deleting == dns.rdataclass.ANY", "update"),
    "u_no_update_opcode": (UP, "        self.flags |= dns.opcode.to_flags(dns.opcode.UPDATE)\n", "", "update"),
    "u_relative_text_name_absolute": (UP, "    def absent(\n", "    def absent(\n", "skip"),
    "u_str_name_made_absolute": (UP, "        if isinstance(name, str):\n            name = dns.name.from_text(name, None)\n        if len(args) == 0:\n            self.find_rrset(\n                self.update,",
                                 "        if isinstance(name, str):\n            name = dns.name.from_text(name)\n        if len(args) == 0:\n            self.find_rrset(\n                self.update,", "update"),
    "u_add_ttl_dropped": (UP, "                for rd in args:\n                    self._add_rr(name, ttl, rd, section=section)", "                for rd in args:\n                    self._add_rr(name, 0, rd, section=section)", "update"),
    "u_present_rdata_not_ttl0": (UP, "                largs.insert(0, 0)  # pyright: ignore[arg-type]", "                largs.insert(0, 1)  # pyright: ignore[arg-type]", "update"),
    "u_empty_rrset_wire_ttl": (RD, 'file.write(struct.pack("!HHIH", self.rdtype, rdclass, 0, 0))', 'file.write(struct.pack("!HHIH", self.rdtype, rdclass, self.ttl or 1, 0))', "update"),
    # ---- dns.message / dns.rcode / dns.renderer
    "h_set_rcode_keeps_old_ext": (MS, "        self.ednsflags &= 0x00FFFFFF\n", "", "header"),
    "h_rcode_to_flags_shift": (RC, "    ev = (value & 0xFF0) << 20", "    ev = (value & 0xFF0) << 16", "header"),
    "h_rcode_from_flags_mask": (RC, "((ednsflags >> 20) & 0xFF0)", "((ednsflags >> 20) & 0x7F0)", "header"),
    "h_rcode_range_4096": (RC, "    if value < 0 or value > 4095:\n        raise ValueError(\"rcode must be >= 0 and <= 4095\")\n    v = value & 0xF",
                           "    if value < 0 or value > 4096:\n        raise ValueError(\"rcode must be >= 0 and <= 4095\")\n    v = value & 0xF", "header"),
    "h_dnssec_false_clears_all": (MS, "            self.ednsflags &= ~int(dns.flags.DO)", "            self.ednsflags = 0", "header"),
    "h_dnssec_true_overwrites": (MS, "            self.ednsflags |= dns.flags.DO", "            self.ednsflags = dns.flags.DO", "header"),
    "h_use_edns_false_turns_on": (MS, "        if edns is None or edns is False:\n            edns = -1", "        if edns is None:\n            edns = -1", "header"),
    "h_use_edns_version_not_merged": (MS, "            ednsflags &= 0xFF00FFFF\n            ednsflags |= edns << 16\n            if options is None:", "            if options is None:", "header"),
    "h_use_edns_reqpay_default": (MS, "            if request_payload is None:\n                request_payload = payload", "            if request_payload is None:\n                request_payload = DEFAULT_EDNS_PAYLOAD", "header"),
    "h_use_edns_off_keeps_opt_flags": (MS, "        if edns < 0:\n            self.opt = None", "        if edns < 0:\n            self.opt = None if not ednsflags else self.opt", "header"),
    "h_set_opcode_mask": (MS, "        self.flags &= 0x87FF\n", "        self.flags &= 0x8FFF\n", "header"),
    "h_resp_rd_not_copied": (MS, "    response.flags = dns.flags.QR | (query.flags & dns.flags.RD)", "    response.flags = dns.flags.QR", "header"),
    "h_resp_all_flags_copied": (MS, "    response.flags = dns.flags.QR | (query.flags & dns.flags.RD)", "    response.flags = dns.flags.QR | (query.flags & 0x07FF)", "header"),
    "h_resp_edns0_gets_no_opt": (MS, "    if query.edns >= 0:\n        if pad is None:", "    if query.edns > 0:\n        if pad is None:", "header"),
    "h_resp_always_opt": (MS, "    if query.edns >= 0:\n        if pad is None:", "    if True:\n        if pad is None:", "header"),
    "h_resp_payload_swapped": (MS, "response.use_edns(0, 0, our_payload, query.payload, pad=pad)", "response.use_edns(0, 0, query.payload, our_payload, pad=pad)", "header"),
    "h_resp_opcode_not_set": (MS, "    response.set_opcode(opcode)\n", "", "header"),
    "h_resp_pad_default": (MS, "                    pad = 468\n", "                    pad = 128\n", "header"),
    "h_resp_mac_not_carried": (MS, "        response.request_mac = query.mac\n", "", "header"),
    "h_resp_fudge_ignored": (MS, "            query.keyname,\n            fudge,", "            query.keyname,\n            300,", "header"),
    "h_query_always_edns": (MS, "    if kwargs and use_edns is None:", "    if use_edns is None:", "header"),
    "h_query_dnssec_ignored": (MS, "    if want_dnssec:\n        m.want_dnssec(want_dnssec)", "    if want_dnssec and m.opt:\n        m.want_dnssec(want_dnssec)", "header"),
    "h_is_response_ignores_id": (MS, "            or self.id != other.id\n", "", "header"),
    "h_is_response_ignores_opcode": (MS, "            or dns.opcode.from_flags(self.flags) != dns.opcode.from_flags(other.flags)\n", "", "header"),
    "h_padding_loses_ednsflags": (RN, "            opt = _make_opt(ttl, opt_rdata.rdclass, options)", "            opt = _make_opt(ttl & 0xFFFF, opt_rdata.rdclass, options)", "header"),
    "h_from_wire_drops_z_bit": (MS, "        self.message.flags = dns.flags.Flag(flags)\n", "        self.message.flags = dns.flags.Flag(flags & 0xFFBF)\n", "header"),
    "h_from_wire_class_by_qr": (MS, "        factory = _message_factory_from_opcode(dns.opcode.from_flags(flags))", "        factory = _message_factory_from_opcode(dns.opcode.from_flags(flags) if not flags & 0x8000 else 0)", "header"),
    "h_ednsflags_setter_no_create": (MS, "        elif v:\n            self.opt = self._make_opt(v)", "        elif v & 0xFFFF:\n            self.opt = self._make_opt(v)", "header"),
}


def sh(*a, **kw):
    return subprocess.run(a, stdout=subprocess.PIPE, stderr=subprocess.STDOUT, text=True, **kw)


def main():
    names = sys.argv[1:] or [n for n in M if M[n][3] != "skip"]
    if not os.path.isdir(WT):
        sh("git", "-C", "/repo", "worktree", "add", "--detach", WT, "HEAD")
    for name in names:
        fn, old, new, part = M[name]
        sh("git", "-C", WT, "checkout", "--", ".")
        path = os.path.join(WT, fn)
        s = open(path).read()
        if s.count(old) < 1:
            print("%-32s PATCH-DOES-NOT-APPLY" % name, flush=True)
            continue
        open(path, "w").write(s.replace(old, new, 1))
        env = dict(os.environ, VERIF_REPO=WT, X06_PART=part, X06_FAST="1")
        r = sh("./check", "X06", "--tier", "quick", cwd="/verif", env=env)
        sigs = sorted({ln.split("sig=")[1].split(" :: ")[0] for ln in r.stdout.splitlines() if "sig=" in ln})
        sigs = [x for x in sigs if not x.startswith("X06-F1:")]
        verdict = "KILLED" if sigs else ("MACHINERY rc=%d" % r.returncode if r.returncode == 2 else "SURVIVED")
        print("%-32s %-9s %s" % (name, verdict, "; ".join(sigs[:12])), flush=True)
        if verdict.startswith("MACH"):
            print(r.stdout[-1500:])
    sh("git", "-C", "/repo", "worktree", "remove", "--force", WT)   # never leave scratch around


if __name__ == "__main__":
    main()
