"""X09 mutation harness: quick universes (cached), the driver on $VERIF_REPO, hard + strict validation.
Prints one JSON line {"hard": {clause: n}, "drift": {clause: n}} (drift only judged when no hard clause fails);
the known finding X09-F1 is left out.
Run from /verif:  VERIF_REPO=/tmp/wt_x09 /venv/bin/python notes/X09_mutation_harness.py"""
import collections
import json
import os
import sys

sys.path.insert(0, os.path.dirname(os.path.dirname(os.path.abspath(__file__))))
os.environ.setdefault("PYTHONHASHSEED", "0")
sys.dont_write_bytecode = True
from vlib import core  # noqa: E402

core.repo_on_path()
from checks import x09  # noqa: E402
from drivers import x09_machines as drv  # noqa: E402

CACHE = os.path.join(core.ROOT, ".work", "x09_mutation_items.json")


def main():
    ctx = core.Ctx("X09mut", "quick", 0, "model_checking")
    try:
        if os.path.exists(CACHE):
            items = json.load(open(CACHE))
        else:
            items = x09.gen(ctx, x09.STATIC + ["hb", "rb"], depth=2, rdepth=2)
            json.dump(items, open(CACHE, "w"))
        hb = [it for it in items if it[0] == "hb"]
        keep = {json.dumps(it) for it in hb[::4]}
        items = [it for it in items if it[0] != "hb" or json.dumps(it) in keep]
        jobs, batch = [], collections.defaultdict(list)
        for it in items:
            k = it[0]
            if k in drv.STATEFUL:
                jobs.append(("%s%d" % (k, len(jobs)), [it]))
            else:
                batch[k].append(it)
                if len(batch[k]) >= x09.BATCH[k]:
                    jobs.append(("%s%d" % (k, len(jobs)), batch.pop(k)))
        jobs += [("%s%d" % (k, i), v) for i, (k, v) in enumerate(batch.items())]
        traces = ctx.pmap(drv.run_job, jobs)
        rejects = ctx.validate("Trace_Registries", "Trace_Registries.cfg", traces)
        hard = collections.Counter()
        for tr, line, clause in rejects:
            if not x09.classify(tr, line, clause).startswith("X09-F1"):
                hard[clause.split("@")[0] + (":" + tr["kind"])] += 1
        bad = {tr["tid"] for tr, _, _ in rejects}
        drift = [] if hard else ctx.validate("Trace_Registries", "Trace_Registries_strict.cfg", [tr for tr in traces if tr["tid"] not in bad])
        dr = collections.Counter(c.split("@")[0] + ":" + tr["kind"] for tr, _, c in drift)
        print("RESULT " + json.dumps({"hard": dict(hard), "drift": dict(dr)}, sort_keys=True))
    finally:
        ctx.cleanup()


if __name__ == "__main__":
    main()
