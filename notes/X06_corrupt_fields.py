"""X06: corrupt one logged field of a good trace and confirm Trace_UpdateMsg / Trace_MsgHeader
reject it with the expected clause (the good traces stay accepted).
Run: /venv/bin/python notes/X06_corrupt_fields.py"""
import copy, os, sys
sys.path.insert(0, '/verif'); os.environ.setdefault("PYTHONHASHSEED", "0")
from vlib import core
core.repo_on_path()
from drivers import x06_update as up, x06_header as hd
ctx = core.Ctx("X06", "quick", 0, "model_checking"); ctx.work = '/verif/.work/x06_corrupt'; os.makedirs(ctx.work, exist_ok=True)
G = lambda ty, ttl, rds: {"ty": ty, "ttl": ttl, "rds": rds}
C = lambda op, form, n, ty="-", gs=(), sp="relstr", tsp="str", rsp="rel": {"op": op, "form": form, "n": n, "sp": sp, "ty": ty, "tsp": tsp, "gs": list(gs), "rsp": rsp}
uh = [{"op": "init", "zclass": "IN"}, C("present", "name", "a"), C("absent", "type", "b.a", "A"), C("present", "rdata", "@", gs=[G("MX", 0, [2, 1])]),
      C("replace", "text", "a", gs=[G("MX", 300, [1])], rsp="abs"), C("delete", "rdataset", "a", gs=[G("TXT", 300, [1, 2])]),
      C("add", "rdataset", "a", gs=[G("A", 300, [1, 2]), G("MX", 0, [2])]), C("delete", "name", "b.a"), C("delete", "type", "a", "TXT")]
gu = up.replay(uh, "good_u")
QD = {"id": 7, "flags": 256, "ue": -2, "hasef": False, "ext": 0, "z": 0, "haspl": False, "payload": 0, "hasrp": False, "reqpay": 0,
      "hasops": False, "options": [], "pad": 0, "dnssec": False}
hh = [{"op": "make_query", "a": dict(QD, haspl=True, payload=4096, hasops=True, options=["NSID", "PAD"], pad=128)},
      {"op": "set_rcode", "v": 2748, "sp": "int"}, {"op": "want_dnssec", "b": True, "sp": "pos"}, {"op": "use_tsig"},
      {"op": "wire"}, {"op": "is_response"},
      {"op": "make_response", "ra": True, "ourpay": 1400, "haspad": False, "padarg": 0, "fudge": 600},
      {"op": "set_rcode", "v": 23, "sp": "enum"}, {"op": "wire"}, {"op": "use_edns", "sp": "false", "junk": True},
      {"op": "set_opcode", "o": 5}, {"op": "wire"}]
gh = hd.replay(hh, "good_h")
bad = []
def mut(g, name, f):
    t = copy.deepcopy(g); t["tid"] = name; f(t); bad.append(t)
S = lambda i, k, v: (lambda t: t["ev"][i]["st"].__setitem__(k, v))
# ---- update traces: ev[0] init, ev[1..8] calls, ev[9] wire
mut(gu, "u_prereq_class", lambda t: t["ev"][1]["sec"][1][0].__setitem__(2, "NONE"))
mut(gu, "u_prereq_ttl", lambda t: t["ev"][3]["sec"][1][2].__setitem__(3, 300))
mut(gu, "u_update_order", lambda t: t["ev"][4]["sec"][2].reverse())
mut(gu, "u_update_wrong_section", lambda t: t["ev"][7]["sec"][1].append(t["ev"][7]["sec"][2].pop()))
mut(gu, "u_zone_changed", lambda t: t["ev"][2]["sec"][0][0].__setitem__(1, "ANY"))
mut(gu, "u_additional", lambda t: t["ev"][2]["sec"][3].append(["a", "A", "IN", 0, 1]))
mut(gu, "u_call_failed", lambda t: t["ev"][5].__setitem__("res", "err"))
mut(gu, "u_wire_delete_class", lambda t: t["ev"][9]["wire"][2][2].__setitem__(2, "ANY"))
mut(gu, "u_wire_rdata", lambda t: t["ev"][9]["wire"][2][1].__setitem__(4, 2))
mut(gu, "u_wire_name", lambda t: t["ev"][9]["wire"][1][0].__setitem__(0, "OUT:a."))
mut(gu, "u_wire_ttl", lambda t: t["ev"][9]["wire"][2][0].__setitem__(3, 300))
mut(gu, "u_counts", lambda t: t["ev"][9]["counts"].__setitem__(2, 8))
mut(gu, "u_parsed_class", lambda t: t["ev"][9].__setitem__("cls", "QueryMessage"))
mut(gu, "u_parsed_prereq", lambda t: t["ev"][9]["parsed"][1].pop())
mut(gu, "u_opcode", lambda t: t["ev"][9].__setitem__("opcode", 0))
mut(gu, "u_rerender", lambda t: t["ev"][9].__setitem__("again", False))
# ---- header traces
mut(gh, "h_query_payload", S(0, "payload", 1232))
mut(gh, "h_query_options", S(0, "options", ["NSID"]))
mut(gh, "h_rcode_value", S(1, "rcode", 2749))
mut(gh, "h_rcode_ext", S(1, "ext", 170))
mut(gh, "h_rcode_low", S(1, "flags", 256 + 11))
mut(gh, "h_do_not_set", S(2, "z", 0))
mut(gh, "h_do_clobbers_ext", S(2, "ext", 0))
mut(gh, "h_tsig", S(3, "tsig", False))
mut(gh, "h_wire_flags", S(4, "flags", 256))
mut(gh, "h_wire_no_padding_option", S(4, "options", ["NSID", "PAD"]))
mut(gh, "h_wire_class", S(4, "cls", "Message"))
mut(gh, "h_probe", lambda t: t["ev"][5].__setitem__("val", [True, True, False, False, False]))
mut(gh, "h_resp_no_qr", S(6, "flags", 256 + 128))
mut(gh, "h_resp_ra", S(6, "flags", 32768 + 256))
mut(gh, "h_resp_payload", S(6, "payload", 1232))
mut(gh, "h_resp_reqpay", S(6, "reqpay", 0))
mut(gh, "h_resp_pad", S(6, "pad", 0))
mut(gh, "h_resp_no_opt", S(6, "edns", -1))
mut(gh, "h_resp_id", S(6, "id", 8))
mut(gh, "h_resp_tsig_fudge", lambda t: t["ev"][6]["tsiginfo"].__setitem__(1, 300))
mut(gh, "h_resp_tsig_mac", lambda t: t["ev"][6]["tsiginfo"].__setitem__(3, False))
mut(gh, "h_off_keeps_ext", S(9, "rcode", 23))
mut(gh, "h_off_level", S(9, "edns", 0))
mut(gh, "h_opcode", S(10, "opcode", 0))
mut(gh, "h_opcode_clobbers", S(10, "flags", 5 * 2048))
mut(gh, "h_outcome", lambda t: t["ev"][7].__setitem__("res", "err"))
r = ctx.validate("Trace_UpdateMsg", "Trace_UpdateMsg.cfg", [gu] + [t for t in bad if t["tid"].startswith("u_")])
print("Trace_UpdateMsg REJECTED", len(r), [(x[0]["tid"], x[1], x[2]) for x in r])
r = ctx.validate("Trace_MsgHeader", "Trace_MsgHeader.cfg", [gh] + [t for t in bad if t["tid"].startswith("h_")])
print("Trace_MsgHeader REJECTED", len(r), [(x[0]["tid"], x[1], x[2]) for x in r])
print("expected rejects:", sum(t["tid"].startswith("u_") for t in bad), sum(t["tid"].startswith("h_") for t in bad))
ctx.cleanup()
