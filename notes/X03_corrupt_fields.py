"""X03: corrupt one logged field of a good trace and confirm Trace_NameDict / Trace_ProcOrder
reject it with the expected clause (the good traces stay accepted).
Run: /venv/bin/python notes/X03_corrupt_fields.py   (on the fixed tree or /repo; F1 not involved)"""
import copy, os, sys
sys.path.insert(0, '/verif'); os.environ.setdefault("PYTHONHASHSEED", "0")
from vlib import core
core.repo_on_path()
from drivers import x03_namedict as nd, x03_procorder as po
ctx = core.Ctx("X03", "quick", 0, "model_checking"); ctx.work = '/verif/.work/x03_corrupt'; os.makedirs(ctx.work, exist_ok=True)
E = lambda op, k, v=0, sp="l": {"op": op, "k": k, "sp": sp, "v": v}
probes = [[], [""], ["a", ""], ["x", "a", ""], ["q", "x", "a", ""], ["xa", ""], ["q"]]
hist = [{"op": "init", "m": [[["a", ""], 1]]}, E("set", ["x", "a", ""], 2), E("match", ["q", "x", "a", ""]), E("pop", ["a", ""], 7),
        E("has", ["a", ""]), E("del", ["b", ""]), E("get", ["x", "a", ""], 0, "u")]
gnd = nd.replay(hist, probes, "good_nd")
gpo = po.replay({"tid": "good_po", "rtype": "SRV", "kind": "weighted", "recs": [(0, 0, 1), (0, 0, 65535), (0, 10, 5), (0, 10, 5)],
                 "container": "rdataset", "iseed": 1, "seeds": list(range(64))})
bad = []
def mut(g, name, f):
    t = copy.deepcopy(g); t["tid"] = name; f(t); bad.append(t)
mut(gnd, "nd_content", lambda t: t["ev"][1]["st"][0].__setitem__(1, 9))
mut(gnd, "nd_len", lambda t: t["ev"][1].__setitem__("n", 3))
mut(gnd, "nd_maxdepth_low", lambda t: t["ev"][1].__setitem__("md", 2))
mut(gnd, "nd_maxdepth_high", lambda t: t["ev"][1].__setitem__("md", 4))
mut(gnd, "nd_items", lambda t: t["ev"][1].__setitem__("mi", 2))
mut(gnd, "nd_match_shallower", lambda t: t["ev"][2].__setitem__("val", ["hit", ["a", ""], 1]))
mut(gnd, "nd_match_miss", lambda t: t["ev"][2].__setitem__("val", ["err", [], 0]) or t["ev"][2].__setitem__("res", "err"))
mut(gnd, "nd_pop_value", lambda t: t["ev"][3].__setitem__("val", ["val", 7]))
mut(gnd, "nd_has", lambda t: t["ev"][4].__setitem__("val", ["bool", True]))
mut(gnd, "nd_del_outcome", lambda t: t["ev"][5].__setitem__("res", "ok"))
mut(gnd, "nd_probe", lambda t: t["ev"][-1]["tab"][-3].__setitem__(1, "hit"))
mut(gpo, "po_swap_priorities", lambda t: t["ev"][0].__setitem__("out", list(reversed(t["ev"][0]["out"]))))
mut(gpo, "po_duplicate", lambda t: t["ev"][5]["out"].__setitem__(0, t["ev"][5]["out"][1]))
mut(gpo, "po_missing", lambda t: t["ev"][5]["out"].pop())
mut(gpo, "po_mutated", lambda t: t["ev"][9].__setitem__("same", False))
def fixed(t):
    for e in t["ev"][:-1]:
        e["out"] = t["ev"][0]["out"]
mut(gpo, "po_never_shuffled", fixed)
def light_first(t):
    for e in t["ev"][:-1]:
        o = e["out"]; i, j = o.index(1), o.index(2)
        if i > j: o[i], o[j] = o[j], o[i]
mut(gpo, "po_light_always_first", light_first)
r = ctx.validate("Trace_NameDict", "Trace_NameDict_items.cfg", [gnd] + [t for t in bad if t["tid"].startswith("nd_")])
print("Trace_NameDict REJECTED", [(x[0]["tid"], x[1], x[2]) for x in r])
r = ctx.validate("Trace_ProcOrder", "Trace_ProcOrder.cfg", [gpo] + [t for t in bad if t["tid"].startswith("po_")])
print("Trace_ProcOrder REJECTED", [(x[0]["tid"], x[1], x[2]) for x in r])
ctx.cleanup()
