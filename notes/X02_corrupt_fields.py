"""Corrupt one logged field of an otherwise accepted X02 trace and confirm Trace_TtlRange rejects it
with the expected clause (the binding between the log and the specification).   usage: python X02_corrupt_fields.py"""
import copy, os, sys
sys.path.insert(0, '/verif')
os.environ.setdefault("PYTHONHASHSEED", "0")
from vlib import core
core.repo_on_path()
from drivers import x02_ttlrange as drv

ctx = core.Ctx("X02", "quick", 0, "model_checking")
os.rmdir(ctx.work)
ctx.work = '/verif/.work/x02_corrupt'
os.makedirs(ctx.work, exist_ok=True)
c = drv.codes
base = {
    "ttl": drv.run_job(("ttl", "ttl", [c("1w6d4h3m10s")])),
    "ttlbad": drv.run_job(("ttlbad", "ttl", [c("1d5")])),
    "via": drv.run_job(("via", "via", [c("2h")])),
    "range": drv.run_job(("range", "range", [c("4-255/77")])),
    "rangebad": drv.run_job(("rangebad", "range", [c("2-1")])),
    "srow": drv.run_job(("srow", "srow", [[8, 200]])),
    "cmp32": drv.run_job(("cmp32", "s32cmp", [[[0, 1], [32767, 65535]]])),
    "add32": drv.run_job(("add32", "s32add", [[[65535, 65535], [0, 2]]])),
}


def mut(name, f):
    tr = copy.deepcopy(base[name.split(":")[0]])
    tr["tid"] = name
    f(tr["ev"])
    return tr


def setv(ev, i, path, v):
    x = ev[i]
    for p in path[:-1]:
        x = x[p]
    x[path[-1]] = v


cases = [
    (mut("ttl:value-digit", lambda ev: setv(ev, 0, ["res", 1, 0], 50)), "TtlValue"),
    (mut("ttl:ok-to-err", lambda ev: setv(ev, 0, ["res"], ["err", "BadTTL", True, True])), "TtlWellFormedAccepted"),
    (mut("ttlbad:err-to-ok", lambda ev: setv(ev, 0, ["res"], ["ok", c("86400")])), "TtlRefused_TrailingNumber"),
    (mut("ttlbad:class", lambda ev: setv(ev, 0, ["res"], ["err", "ValueError", False, False])), "TtlErrorIsBadTTL"),
    (mut("via:value", lambda ev: setv(ev, 0, ["res", 2, 1], c("7201"))), "ViaValue_field"),
    (mut("range:step", lambda ev: setv(ev, 0, ["res", 1, 2], c("1"))), "RangeValue"),
    (mut("rangebad:accepted", lambda ev: setv(ev, 0, ["res"], ["ok", [c("2"), c("1"), c("1")]])), "RangeRefused_StartAfterStop"),
    (mut("srow:lt-flipped", lambda ev: setv(ev, 0, ["res", 10, 0], 1 - base["srow"]["ev"][0]["res"][10][0])), "SerialCompare_serial"),
    (mut("srow:eq-flipped", lambda ev: setv(ev, 0, ["res", 200, 4], 0)), "SerialCompare_serial"),
    (mut("srow:row-short", lambda ev: ev[0]["res"].pop()), "CmpRowComplete"),
    (mut("srow:add-value", lambda ev: setv(ev, 2, ["res", 256 + 100], 45)), "SerialAdd_add"),
    (mut("srow:add-row-short", lambda ev: ev[2]["res"].pop()), "AddRowComplete"),
    (mut("cmp32:gt", lambda ev: setv(ev, 0, ["res", 2], 1)), "SerialCompare32"),
    (mut("add32:limb", lambda ev: setv(ev, 0, ["res", 2], 2)), "SerialAdd32_add"),
]
ok_traces = [dict(tr, tid="base-" + k) for k, tr in base.items()]
rej = ctx.validate("Trace_TtlRange", "Trace_TtlRange.cfg", ok_traces + [t for t, _ in cases], shards=1)
got = {tr["tid"]: clause for tr, line, clause in rej}
bad = 0
for k in base:
    if "base-" + k in got and k not in ():
        print("UNEXPECTED: unmodified trace %s rejected: %s" % (k, got["base-" + k]))
        bad += 1
for tr, want in cases:
    verdict = got.get(tr["tid"])
    print("%-22s expected %-28s got %s" % (tr["tid"], want, verdict))
    bad += verdict != want
print("CORRUPTION TEST", "FAILED" if bad else "PASSED (%d corrupted traces rejected, %d unmodified accepted)" % (len(cases), len(base)))
ctx.cleanup()
