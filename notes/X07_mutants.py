"""X07 mutation harness: one semantic mutant of dns/tokenizer.py at a time, each in its own
scratch copy of /repo's dns package (never /repo itself), `./check X07 --tier quick` on a
reduced universe (X07_MAXN=2: strings <= 2 + walks + helper tables; typed-only mutants run
X07_PART=typed).  Usage: /venv/bin/python notes/X07_mutants.py [-j N] [name ...]"""
import concurrent.futures as cf
import os
import shutil
import subprocess
import sys

TK = "dns/tokenizer.py"
L, T = "lex", "typed"
M = {
    "paren_no_decrement": (L, "                        self.multiline -= 1\n", "                        pass\n"),
    "close_at_depth0_accepted": (L, "                        if self.multiline <= 0:\n                            raise dns.exception.SyntaxError\n", ""),
    "eof_in_parens_accepted": (L, '        if token == "" and ttype != QUOTED_STRING:\n            if self.multiline:\n                raise dns.exception.SyntaxError("unbalanced parentheses")\n',
                               '        if token == "" and ttype != QUOTED_STRING:\n'),
    "comment_eof_in_parens_accepted": (L, '                            if self.multiline:\n                                raise dns.exception.SyntaxError(\n                                    "unbalanced parentheses"\n                                )\n', ""),
    "newline_in_parens_is_eol": (L, '                if (c != "\\n") or not self.multiline:', "                if True:"),
    "tab_not_delimiter": (L, '_DELIMITERS = {" ", "\\t", "\\n", ";", "(", ")", \'"\'}', '_DELIMITERS = {" ", "\\n", ";", "(", ")", \'"\'}'),
    "tab_not_whitespace": (L, 'if c != " " and c != "\\t":', 'if c != " ":'),
    "escape_not_flagged": (L, "                has_escape = True\n", "                has_escape = False\n"),
    "escape_drops_backslash": (L, "                token += c\n                has_escape = True\n", "                has_escape = True\n"),
    "line_not_counted": (L, "                    self.line_number += 1\n", "                    pass\n"),
    "line_counted_on_cr": (L, '                elif c == "\\n":\n                    self.line_number', '                elif c in ("\\n", "\\r"):\n                    self.line_number'),
    "unget_drops_token": (L, "        self.ungotten_token = token\n", "        pass\n"),
    "unget_ws_always_returned": (L, "                if want_leading:\n                    return utoken\n", "                return utoken\n"),
    "unget_comment_always_returned": (L, "                if want_comment:\n                    return utoken\n", "                return utoken\n"),
    "want_leading_always": (L, "        if want_leading and skipped > 0:", "        if skipped > 0:"),
    "want_leading_needs_two": (L, "        if want_leading and skipped > 0:", "        if want_leading and skipped > 1:"),
    "comment_keeps_semicolon": (L, '                    elif c == ";":\n                        while 1:', '                    elif c == ";":\n                        token = ";"\n                        while 1:'),
    "semicolon_ends_quoted": (L, "_QUOTING_DELIMITERS = {'\"'}", "_QUOTING_DELIMITERS = {'\"', \";\"}"),
    "comment_in_parens_is_eol": (L, '                        elif self.multiline:\n                            self.skip_whitespace()\n                            token = ""\n                            continue\n', ""),
    "want_comment_swallows_newline": (L, "                        if want_comment:\n                            self._unget_char(c)\n", "                        if want_comment:\n"),
    "skip_counts_one_less": (L, "                    return skipped\n", "                    return max(0, skipped - 1)\n"),
    "empty_quoted_is_eof": (L, '        if token == "" and ttype != QUOTED_STRING:\n            if self.multiline:', '        if token == "":\n            if self.multiline:'),
    "quote_newline_accepted": (L, '            elif self.quoting and c == "\\n":\n                raise dns.exception.SyntaxError("newline in quoted string")\n', ""),
    "escaped_eof_accepted": (L, '                if c == "" or (c == "\\n" and not self.quoting):\n                    raise dns.exception.UnexpectedEnd\n', ""),
    "error_not_syntaxerror": (L, "                        if self.multiline <= 0:\n                            raise dns.exception.SyntaxError\n",
                              "                        if self.multiline <= 0:\n                            raise ValueError('unbalanced')\n"),
    # ---- typed helpers
    "uint8_bound": (T, "if value < 0 or value > 255:", "if value < 0 or value > 256:"),
    "uint16_bound": (T, "if value < 0 or value > 65535:", "if value < 0 or value > 65536:"),
    "uint32_bound": (T, "if value < 0 or value > 4294967295:", "if value < 0 or value > 4294967296:"),
    "uint48_bound": (T, "if value < 0 or value > 281474976710655:", "if value < 0 or value > 281474976710656:"),
    "uint16_ignores_base": (T, "        value = self.as_int(token=token, base=base)\n        if value < 0 or value > 65535:", "        value = self.as_int(token=token)\n        if value < 0 or value > 65535:"),
    "negative_accepted": (T, "            if value < 0:\n                raise ValueError\n", ""),
    "int_error_leaks_valueerror": (T, '        except ValueError:\n            raise dns.exception.SyntaxError("expecting an integer")', "        except KeyError:\n            pass"),
    "string_maxlen_off_by_one": (T, '        if max_length and len(token.value) > max_length:\n            raise dns.exception.SyntaxError("string too long")\n        return token.value\n\n    def as_identifier',
                                 '        if max_length and len(token.value) >= max_length:\n            raise dns.exception.SyntaxError("string too long")\n        return token.value\n\n    def as_identifier'),
    "string_accepts_eol": (T, '        if not (token.is_identifier() or token.is_quoted_string()):\n            raise dns.exception.SyntaxError("expecting a string")\n        if max_length and len(token.value) > max_length:\n            raise dns.exception.SyntaxError("string too long")\n        return token.value\n\n    def as_identifier',
                           '        if max_length and len(token.value) > max_length:\n            raise dns.exception.SyntaxError("string too long")\n        return token.value\n\n    def as_identifier'),
    "identifier_accepts_quoted": (T, '        if not token.is_identifier():\n            raise dns.exception.SyntaxError("expecting an identifier")\n        return token.value\n', "        return token.value\n"),
    "concat_allows_empty": (T, "        if not (allow_empty or s):", "        if False:"),
    "concat_accepts_quoted": (T, "            if not token.is_identifier():\n                raise dns.exception.SyntaxError\n            s += token.value", "            s += token.value"),
    "concat_adds_space": (T, "            s += token.value\n", "            s += token.value + ' '\n"),
    "remaining_no_unget": (T, "            if token.is_eol_or_eof():\n                self.unget(token)\n                break\n            tokens.append(token)", "            if token.is_eol_or_eof():\n                break\n            tokens.append(token)"),
    "remaining_stops_one_late": (T, "            if len(tokens) == max_tokens:", "            if len(tokens) - 1 == max_tokens:"),
    "unescape_octal": (T, "                    codepoint = int(c) * 100 + int(c2) * 10 + int(c3)\n                    if codepoint > 255:\n                        raise dns.exception.SyntaxError\n                    c = chr(codepoint)",
                       "                    codepoint = int(c) * 64 + int(c2) * 8 + int(c3)\n                    if codepoint > 255:\n                        raise dns.exception.SyntaxError\n                    c = chr(codepoint)"),
    "unescape_256_accepted": (T, "                    if codepoint > 255:\n                        raise dns.exception.SyntaxError\n                    c = chr(codepoint)", "                    c = chr(codepoint)"),
    "unescape_keeps_backslash": (T, "                    c = chr(codepoint)\n            unescaped += c", "                    c = chr(codepoint)\n                else:\n                    c = '\\\\' + c\n            unescaped += c"),
    "get_eol_accepts_identifier": (T, "        if not token.is_eol_or_eof():\n            raise dns.exception.SyntaxError(", "        if False:\n            raise dns.exception.SyntaxError("),
    "get_ttl_accepts_quoted": (T, '        token = self.get().unescape()\n        if not token.is_identifier():\n            raise dns.exception.SyntaxError("expecting an identifier")\n        return dns.ttl.from_text', "        token = self.get().unescape()\n        return dns.ttl.from_text"),
    "get_int_skips_unescape": (T, "        return self.as_uint8(self.get().unescape())", "        return self.as_uint8(self.get())"),
}


def one(name):
    part, old, new = M[name]
    wt = "/tmp/wt_x07_%s" % name
    shutil.rmtree(wt, ignore_errors=True)
    shutil.copytree("/repo/dns", os.path.join(wt, "dns"))
    path = os.path.join(wt, TK)
    s = open(path).read()
    if s.count(old) < 1:
        shutil.rmtree(wt, ignore_errors=True)
        return "%-32s PATCH-DOES-NOT-APPLY" % name
    open(path, "w").write(s.replace(old, new, 1))
    env = dict(os.environ, VERIF_REPO=wt, X07_MAXN="2")
    if part == T:
        env["X07_PART"] = "typed"
    r = subprocess.run(["./check", "X07", "--tier", "quick"], cwd="/verif", env=env, stdout=subprocess.PIPE, stderr=subprocess.STDOUT, text=True)
    shutil.rmtree(wt, ignore_errors=True)   # never leave scratch around
    sigs = sorted({ln.split("sig=")[1].split(" :: ")[0] for ln in r.stdout.splitlines() if "sig=" in ln})
    sigs = [x for x in sigs if not x.startswith("X07-F1:")]
    verdict = "KILLED" if sigs else ("MACHINERY rc=%d %s" % (r.returncode, r.stdout[-300:]) if r.returncode == 2 else "SURVIVED")
    return "%-32s %-9s %s" % (name, verdict, "; ".join(sigs[:5]))


def main():
    args = sys.argv[1:]
    jobs = 1
    if args[:1] == ["-j"]:
        jobs, args = int(args[1]), args[2:]
    with cf.ThreadPoolExecutor(max_workers=jobs) as ex:
        for line in ex.map(one, args or list(M)):
            print(line, flush=True)


if __name__ == "__main__":
    main()
