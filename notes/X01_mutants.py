"""Mutation harness for X01 (run by hand; not part of the check).
  /venv/bin/python notes/X01_mutants.py [name ...]
Each mutant is one textual replacement in a scratch worktree of /repo (/tmp/wt_x01m, removed
at the end); the check runs against it with VERIF_REPO and VERIF_X01_DIFF=<scratch dir>: the
first run (unchanged tree) stores the TLC-generated universe and digest + verdict of every trace,
the mutant runs re-validate with TLC only the traces that differ (a verdict is a function of the
trace; the TLC laws do not depend on the tree and are not re-run).  killed = the run reports a signature that the unchanged tree
does not (the unchanged tree reports exactly the six signatures of X01-F1 / X01-F2)."""
import json
import os
import re
import subprocess
import sys

WT = "/tmp/wt_x01m"
BASE = {"Aton6:aton:newline-after-embedded-ipv4", "Canon6:canon:newline-after-embedded-ipv4",
        "AfForAddress:inet:newline-after-embedded-ipv4", "FromAddress:fromaddr:newline-after-embedded-ipv4",
        "ToAddressRefuses:toaddr:v4-label-containing-dot", "ToAddressRefuses:toaddr:v6-not-32-one-nibble-labels"}

M = [
    ("ntoa6_tie_last", "dns/ipv6.py", "                if current_len > best_len:\n                    best_start = start\n                    best_len = current_len\n                last_was_zero = False",
     "                if current_len >= best_len:\n                    best_start = start\n                    best_len = current_len\n                last_was_zero = False"),
    ("ntoa6_compress_single", "dns/ipv6.py", "    if best_len > 1:\n", "    if best_len > 0:\n"),
    ("ntoa6_keep_leading_zeros", "dns/ipv6.py", "        if m is not None:\n            chunk = m.group(1)\n", "        if m is not None and False:\n            chunk = m.group(1)\n"),
    ("ntoa6_ignore_trailing_run", "dns/ipv6.py", "    if last_was_zero:\n        end = 8\n", "    if last_was_zero and False:\n        end = 8\n"),
    ("ntoa6_any_5run_is_mapped", "dns/ipv6.py", 'best_len == 5 and chunks[5] == "ffff"', "best_len == 5"),
    ("ntoa6_upper_case", "dns/ipv6.py", "    return thex\n", "    return thex.upper()\n"),
    ("ntoa6_compat_7", "dns/ipv6.py", "if best_start == 0 and (best_len == 6 or", "if best_start == 0 and (best_len in (6, 7) or"),
    ("aton6_nine_groups", "dns/ipv6.py", "    if l > 8:\n", "    if l > 9:\n"),
    ("aton6_five_digits", "dns/ipv6.py", "            if lc > 4:\n", "            if lc > 5:\n"),
    ("aton6_two_double_colons", "dns/ipv6.py", "            if seen_empty:\n                raise dns.exception.SyntaxError\n", "            if seen_empty and False:\n                raise dns.exception.SyntaxError\n"),
    ("aton6_short_ok", "dns/ipv6.py", "    if l < 8 and not seen_empty:\n", "    if l < 7 and not seen_empty:\n"),
    ("aton6_scope_default", "dns/ipv6.py", "    if ignore_scope:\n        parts", "    if True:\n        parts"),
    ("aton6_no_group_length_check", "dns/ipv6.py", "            if lc > 4:\n", "            if lc > 6:\n"),
    ("aton6_bare_double_colon", "dns/ipv6.py", '    elif btext == b"::":\n        btext = b"0::"\n', '    elif btext == b":::":\n        btext = b"0::"\n'),
    ("aton4_octal_leading_zero", "dns/ipv4.py", '        if len(part) > 1 and part[0] == ord("0"):\n            # No leading zeros\n            raise dns.exception.SyntaxError\n', "        pass\n",
     "        b = [int(part) for part in parts]\n", "        b = [int(part, 8) if len(part) > 1 and part[:1] == b'0' else int(part) for part in parts]\n"),
    ("aton4_decimal_leading_zero_FREE", "dns/ipv4.py", '        if len(part) > 1 and part[0] == ord("0"):\n            # No leading zeros\n            raise dns.exception.SyntaxError\n', "        pass\n"),
    ("any_for_af_v6_loopback", "dns/inet.py", '        return "::"\n', '        return "::1"\n'),
    ("ntop_unknown_family_valueerror", "dns/inet.py", "        return dns.ipv6.inet_ntoa(address)\n    else:\n        raise NotImplementedError", "        return dns.ipv6.inet_ntoa(address)\n    else:\n        raise ValueError"),
    ("aton4_sign", "dns/ipv4.py", "        if not part.isdigit():\n", "        if not part.lstrip(b'+').isdigit():\n"),
    ("aton4_leading_zero_octal", "dns/ipv4.py", "        b = [int(part) for part in parts]\n", "        b = [int(part, 8) if part.startswith(b'0') else int(part) for part in parts]\n"),
    ("mc4_upper", "dns/inet.py", "first >= 224 and first <= 239", "first >= 224 and first < 239"),
    ("mc6_fe", "dns/inet.py", "            return first == 255\n", "            return first >= 254\n"),
    ("af_no_scope", "dns/inet.py", "def af_for_address(text: str) -> int:", "def af_for_address(text: str) -> int:\n    if '%' in text:\n        raise ValueError\n"),
    ("canon_accepts_scope", "dns/ipv6.py", "    return inet_ntoa(inet_aton(text))\n", "    return inet_ntoa(inet_aton(text, True))\n"),
    ("lowlevel_keeps_scope", "dns/inet.py", "            return (addrpart, port, 0, int(scope))", "            return (address, port, 0, int(scope))"),
    ("is_mapped_compat", "dns/ipv6.py", '_mapped_prefix = b"\\x00" * 10 + b"\\xff\\xff"', '_mapped_prefix = b"\\x00" * 12'),
    ("from_address_no_reverse", "dns/reversename.py", 'return dns.name.from_text(".".join(reversed(parts)), origin=origin)', 'return dns.name.from_text(".".join(parts), origin=origin)'),
    ("from_address_v6_origin_for_mapped", "dns/reversename.py", "            parts = [str(byte) for byte in v6[12:]]\n            origin = v4_origin", "            parts = [str(byte) for byte in v6[12:]]\n            origin = v6_origin"),
    ("to_address_v4_no_reverse", "dns/reversename.py", '        text = b".".join(reversed(name.labels))', '        text = b".".join(name.labels)'),
    ("to_address_default_origin_only", "dns/reversename.py", "    elif name.is_subdomain(v6_origin):", "    elif name.is_subdomain(ipv6_reverse_domain):"),
    ("e164_no_reverse", "dns/e164.py", "    parts.reverse()\n", "    pass\n"),
    ("e164_keeps_plus", "dns/e164.py", "    parts = [d for d in text if d.isdecimal()]", "    parts = [d for d in text if d.isdecimal() or d == '+']"),
    ("to_e164_multi_digit_label", "dns/e164.py", "if d.isdigit() and len(d) == 1]", "if d.isdigit()]"),
    ("to_e164_plus_inverted", "dns/e164.py", "    if want_plus_prefix:\n", "    if not want_plus_prefix:\n"),
    ("to_e164_no_relativize", "dns/e164.py", "    if origin is not None:\n        name = name.relativize(origin)", "    if origin is not None:\n        name = name.relativize(public_enum_domain)"),
]


def sh(*a, **k):
    return subprocess.run(a, stdout=subprocess.PIPE, stderr=subprocess.STDOUT, text=True, **k)


def main():
    want = set(sys.argv[1:])
    sh("git", "-C", "/repo", "worktree", "remove", "--force", WT)
    sh("git", "-C", "/repo", "worktree", "add", "--detach", WT, "HEAD")
    out = {}
    diffdir = "/verif/.work/x01_mutdiff"
    sh("rm", "-rf", diffdir)
    os.makedirs(diffdir)
    env = dict(os.environ, VERIF_REPO=WT, VERIF_X01_DIFF=diffdir)
    r = sh("/verif/check", "X01", "--tier", "quick", env=env, cwd="/verif")
    base_sigs = set(re.findall(r"sig=(\S+)", r.stdout))
    print("baseline rc=%d signatures=%s" % (r.returncode, sorted(base_sigs)), flush=True)
    assert base_sigs == BASE, base_sigs ^ BASE
    try:
        for name, path, *edits in M:
            if want and name not in want:
                continue
            sh("git", "-C", WT, "checkout", ".")
            fn = os.path.join(WT, path)
            src = open(fn).read()
            bad = [old for old in edits[0::2] if src.count(old) != 1]
            if bad:
                out[name] = "NOT-APPLIED (%r)" % bad
                print(name, out[name], flush=True)
                continue
            for old, new in zip(edits[0::2], edits[1::2]):
                src = src.replace(old, new)
            open(fn, "w").write(src)
            r = sh("/verif/check", "X01", "--tier", "quick", env=env, cwd="/verif")
            sigs = set(re.findall(r"sig=(\S+)", r.stdout))
            new_sigs = sorted(sigs - BASE)
            out[name] = {"rc": r.returncode, "killed": bool(new_sigs), "new_signatures": new_sigs[:6],
                         "machinery": "MACHINERY" in r.stdout}
            print(name, json.dumps(out[name]), flush=True)
    finally:
        sh("git", "-C", "/repo", "worktree", "remove", "--force", WT)
        sh("rm", "-rf", diffdir)
    print(json.dumps(out, indent=1))


if __name__ == "__main__":
    main()
