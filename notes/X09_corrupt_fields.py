"""X09: single-field corruptions of accepted traces must be rejected with the expected hard clause.
Run from /verif:  /venv/bin/python notes/X09_corrupt_fields.py"""
import copy
import os
import sys

sys.path.insert(0, os.path.dirname(os.path.dirname(os.path.abspath(__file__))))
os.environ.setdefault("PYTHONHASHSEED", "0")
sys.dont_write_bytecode = True
from vlib import core  # noqa: E402

core.repo_on_path()
from drivers import x09_machines as drv  # noqa: E402

ITEMS = {
    "row": ["row", "type", 0, "TYPE"], "rrow": ["row", "rcode", 0, ""], "text": ["text", "class", "class255"], "oor": ["oor", "type", 65536, "TYPE"],
    "frow": ["frow", 33024], "erow": ["erow", 49152, 255], "rcrow": ["rcrow", 3840, 65520, 255, 65535], "rcf": ["rcf", 512, 4660],
    "rce": ["rce", 4608, 33157], "ftext": ["ftext", "flags", ["qr", "FLAG6", "CD"]], "hb": ["hb", 10629, ["rcode", 4095], ["opcode", 5], ["dnssec", 1]],
    "rb": ["rb", ["register", 65280, "FOO", 1]],
}


def setk(path, value):
    def f(tr):
        x = tr["ev"]
        for p in path[:-1]:
            x = x[p]
        x[path[-1]] = value
    return f


# (name, base trace, mutation, expected clause prefix)
CASES = [
    ("name of 1 not a word", "row", setk([0, "name", 1], "A B"), "NameForm"),
    ("name of 77 generic for 78", "row", setk([0, "name", 77], "TYPE78"), "NameForm"),
    ("back of 5", "row", setk([0, "back", 5], 6), "RoundTrip"),
    ("generic read of 200", "row", setk([0, "gen", 200], 201), "GenericRead"),
    ("lower-case generic of 200 unknown", "row", setk([0, "genl", 200], -1), "GenericCaseBlind"),
    ("make(12)", "row", setk([0, "mk", 12], -2), "MakeValue"),
    ("ANY not meta", "row", setk([0, "meta", 255], 0), "MetaType"),
    ("A meta", "row", setk([0, "meta", 1], 1), "MetaType"),
    ("SOA not singleton", "row", setk([0, "single", 6], 0), "Singleton"),
    ("short row", "row", lambda tr: [tr["ev"][0].__setitem__(f, tr["ev"][0][f][:-1]) for f in ("name", "back", "gen", "genl", "mk", "mkn", "meta", "single")], "RowComplete"),
    ("rcode text of 12 refused", "rrow", setk([0, "gen", 12], -1), "GenericRead"),
    ("class255 -> 254", "text", setk([0, "res", 0, 1], 254), "GenericDenotes"),
    ("lower-case spelling differs", "text", setk([0, "res", 1, 1], 1), "CaseBlind"),
    ("canonical name does not parse back", "text", setk([0, "res", 0, 3], -1), "Canonical"),
    ("to_text(65536) accepted", "oor", setk([0, "totext"], "TYPE65536"), "ToTextRange"),
    ("make(65536) accepted", "oor", setk([0, "make"], 0), "MakeRange"),
    ("flags text loses QR", "frow", setk([0, "text", 0], ""), "FlagsTextNames"),
    ("flags round trip loses Z", "frow", setk([0, "back", 64], 33024), "FlagsRoundTrip"),
    ("opcode of a word", "frow", setk([0, "opc", 3], 1), "OpcodeFromFlags"),
    ("is_update", "frow", setk([0, "upd", 3], 1), "IsUpdate"),
    ("opcode to_flags", "frow", setk([0, "opf", 3], 2048), "OpcodeToFlags"),
    ("edns text loses DO", "erow", setk([0, "text", 0], "CO"), "EdnsTextNames"),
    ("edns round trip", "erow", setk([0, "back", 9], 49152), "EdnsRoundTrip"),
    ("rcode to_flags high limb", "rcrow", setk([0, "toflags", 255, 1], 65281), "RcodeToFlags"),
    ("rcode from to_flags", "rcrow", setk([0, "back", 1], 1), "RcodeFromToFlags"),
    ("rcode under noise", "rcrow", setk([0, "nres", 7], 15), "RcodeFromFlagsNoise"),
    ("from_flags over words", "rcf", setk([0, "res", 3], 0), "RcodeFromFlags"),
    ("from_flags over limbs", "rce", setk([0, "res", 3], 0), "RcodeFromEdns"),
    ("flags from_text value", "ftext", setk([0, "res", 0, 1], 32768), "FlagsFromText"),
    ("flags canonical", "ftext", setk([0, "res", 0, 3], 32784), "FlagsCanonical"),
    ("header: flags after set_rcode", "hb", setk([1, "flags"], 10629), "Header_rcode_Flags"),
    ("header: extended bits after set_rcode", "hb", setk([1, "e"], [0, 0]), "Header_rcode_EdnsFlags"),
    ("header: rcode() after set_rcode", "hb", setk([1, "rcode"], 15), "Header_rcode_Rcode"),
    ("header: opcode() after set_opcode", "hb", setk([2, "opcode"], 4), "Header_opcode_Opcode"),
    ("header: version after want_dnssec", "hb", setk([3, "edns"], 1), "Header_dnssec_Version"),
    ("header: DO not shown", "hb", setk([3, "etext"], ""), "Header_dnssec_FlagNames"),
    ("register: to_text", "rb", setk([0, "totext", 1], "TYPE65280"), "RegisteredToText"),
    ("register: from_text", "rb", setk([0, "fromtext", 1], -1), "RegisteredFromText"),
    ("register: singleton", "rb", setk([0, "isingle", 1], 0), "RegisteredSingleton"),
]


def main():
    ctx = core.Ctx("X09cor", "quick", 0, "model_checking")
    try:
        base = {k: drv.run_job((k, [it])) for k, it in ITEMS.items()}
        traces, expect = list(base.values()), {}
        for i, (name, b, mut, clause) in enumerate(CASES):
            tr = copy.deepcopy(base[b])
            tr["tid"] = "c%02d" % i
            mut(tr)
            traces.append(tr)
            expect[tr["tid"]] = (name, clause)
        got = {tr["tid"]: c for tr, _, c in ctx.validate("Trace_Registries", "Trace_Registries.cfg", traces)}
        bad = 0
        for k in base:
            if k in got:
                bad += 1
                print("UNEXPECTED rejection of the unmodified trace", k, got[k])
        for tid, (name, clause) in sorted(expect.items()):
            ok = got.get(tid, "").startswith(clause)
            bad += not ok
            print("%-4s %-45s expected %-24s got %s" % ("ok" if ok else "FAIL", name, clause, got.get(tid, "ACCEPTED")))
        print("%d corruptions, %d not rejected as expected; %d unmodified traces accepted" % (len(CASES), bad, len(base) - sum(k in got for k in base)))
        return 1 if bad else 0
    finally:
        ctx.cleanup()


if __name__ == "__main__":
    sys.exit(main())
