"""Mutation harness for X02: the quick universes of checks/x02.py (cached), driver and both trace
configurations against $VERIF_REPO; no model run.  Prints the failing clauses / signatures beyond
the two known findings.      usage: VERIF_REPO=<tree> python X02_mutation_harness.py <label> [kinds,comma,separated]"""
import collections, json, os, sys
sys.path.insert(0, '/verif')
os.environ.setdefault("PYTHONHASHSEED", "0")
from vlib import core
core.repo_on_path()
from checks import x02
from drivers import x02_ttlrange as drv

label = sys.argv[1]
CACHE = '/verif/.work/x02_mut_gens.json'
ctx = core.Ctx("X02", "quick", 0, "model_checking")
os.rmdir(ctx.work)
ctx.work = '/verif/.work/x02_mut_%s' % label
os.makedirs(ctx.work, exist_ok=True)
if os.path.exists(CACHE):
    g = json.load(open(CACHE))
else:
    g = {}
    for kind in ("ttl", "make", "via", "range", "srow", "s32cmp", "s32add"):
        g[kind] = x02.universe(ctx, kind, "quick")
    json.dump(g, open(CACHE, 'w'))
only = sys.argv[2].split(",") if len(sys.argv) > 2 else list(g)
jobs = []
for kind, items in g.items():
    if kind not in only:
        continue
    n = x02.CHUNK[kind]
    jobs += [("%s%d" % (kind, i), kind, items[i:i + n]) for i in range(0, len(items), n)]
traces = ctx.pmap(drv.run_job, jobs)
rejects = ctx.validate("Trace_TtlRange", "Trace_TtlRange.cfg", traces, shards=6)
singles = [s for tr, _, _ in rejects for s in x02.explode(tr)]
final = ctx.validate("Trace_TtlRange", "Trace_TtlRange.cfg", singles, shards=6) if singles else []
rows = [r for r in final if r[0]["ev"][0].get("op") in ("cmp", "add") and not r[2].endswith("RowComplete")][:x02.PINPOINT_ROWS]
if rows:
    pinned = ctx.validate("Trace_TtlRange", "Trace_TtlRange.cfg", [s for tr, _, _ in rows for s in x02.explode(tr, True)], shards=6)
    final = [r for r in final if not any(r is x for x in rows)] + pinned
sigs = collections.Counter(x02.classify(tr, line, clause) for tr, line, clause in final)
bad = {tr["tid"] for tr, _, _ in rejects}
soft = [tr for tr in traces if tr["kind"] in x02.STRICT_KINDS and tr["tid"] not in bad]
drift = collections.Counter(c for _, _, c in ctx.validate("Trace_TtlRange", "Trace_TtlRange_strict.cfg", soft, shards=6))
new = {k: v for k, v in sigs.items() if not k.startswith("X02-F")}
print("RESULT %s %s new=%s known=%s drift=%s" % (label, "KILLED" if new else "survived", json.dumps(new),
                                                 json.dumps({k: v for k, v in sigs.items() if k.startswith("X02-F")}), dict(drift)))
ctx.cleanup()
