import sys, json, copy, os
sys.path.insert(0,'/verif'); os.environ.setdefault("PYTHONHASHSEED","0")
from vlib import core
core.repo_on_path()
from drivers import c01_names as d, c06_order as o
ctx = core.Ctx("C01", "quick", 0, "model_checking"); ctx.work='/verif/.work/c01_corrupt'; os.makedirs(ctx.work, exist_ok=True)
good = {
 'pair': o.run_job(("g1","pair",([[65],[]],[[97],[98],[]]))),
 'succ': o.run_job(("g2","neigh",("succ",[[90]*63],[[111],[]],False))),
 'wtext': d.run_job(("g3","wtext",([[97,46,0],[]],))),
 'ptext': d.run_job(("g4","ptext",([92,50,53,53,46,97],))),
 'decode': d.run_job(("g5","decode",(0,[1,97,0,0xC0,0],3))),
 'wwire': d.run_job(("g6","wwire",(0,[("write",[[97],[98],[]],["none"],True),("write",[[65],[98],[]],["none"],True)]))),
}
bad = {}
def mut(k, f):
    t = copy.deepcopy(good[k]); t["tid"] = "bad_"+k+str(len(bad)); f(t); bad[t["tid"]] = t
mut('pair', lambda t: t["ev"][0]["fc"].__setitem__(1, -t["ev"][0]["fc"][1]))
mut('pair', lambda t: t["ev"][0].__setitem__("heq", False) if False else t["ev"][0]["rich"].__setitem__(2, not t["ev"][0]["rich"][2]))
mut('succ', lambda t: t["ev"][0]["res"].__setitem__(1, t["ev"][0]["n"]))
mut('wtext', lambda t: t["ev"][0]["text"].__setitem__(1, 97))
mut('ptext', lambda t: t["ev"][0]["res"][0][1][0].__setitem__(0, 254))
mut('decode', lambda t: t["ev"][2].__setitem__("to", 3))
mut('decode', lambda t: t["ev"][-1]["res"].__setitem__(2, 3))
mut('wwire', lambda t: t["ev"][1]["res"][1].__setitem__(1, 99))
mut('wwire', lambda t: t["ev"][0]["table"][0].__setitem__(1, 1))
for mod, keys in (("Trace_DnsName", ['pair','succ']), ("Trace_NameText", ['wtext','ptext']), ("Trace_NameWire", ['decode','wwire'])):
    trs = [good[k] for k in keys] + [t for tid, t in bad.items() if any(tid.startswith("bad_"+k) for k in keys)]
    r = ctx.validate(mod, mod + ".cfg", trs)
    print(mod, "traces", [t["tid"] for t in trs], "REJECTED", [(x[0]["tid"], x[1], x[2]) for x in r])
ctx.cleanup()
