#!/venv/bin/python
"""Mutation harness of C04: applies one semantic mutant at a time to a scratch worktree of
/repo (never /repo itself), runs `./check C04 --tier quick` against it and records which
clauses / signatures reject it.  Usage: tools/c04_mutants.py [name ...]"""
import json
import os
import re
import subprocess
import sys

ROOT = os.path.dirname(os.path.dirname(os.path.abspath(__file__)))
WT = "/tmp/wt_c04m"

# name: (file, old, new, what)
MUTANTS = {
    "parser-no-bounds": ("dns/wirebase.py", "        if size > self.remaining():\n            raise dns.exception.FormError\n        output =",
                         "        output =", "Parser.get_bytes does not check the remaining length"),
    "pointer-self-allowed": ("dns/name.py", "if current >= biggest_pointer:", "if current > biggest_pointer:",
                             "a compression pointer may point at itself (endless loop)"),
    "coe-no-resume": ("dns/message.py", "                    self._add_error(e)\n                    self.parser.seek(rdata_start + rdlen)",
                      "                    self._add_error(e)", "continue_on_error does not resume at rdata_start + rdlen"),
    "coe-offset-zero": ("dns/message.py", "self.errors.append(MessageError(e, self.parser.current))",
                        "self.errors.append(MessageError(e, 0))", "continue_on_error records offset 0"),
    "no-truncated-on-success": ("dns/message.py", "    if m.flags & dns.flags.TC and raise_on_truncation:\n        raise Truncated(message=m)",
                                "    if False:\n        raise Truncated(message=m)", "raise_on_truncation ignored when parsing succeeds"),
    "no-trailing-junk": ("dns/message.py", "if not self.ignore_trailing and self.parser.remaining() != 0:",
                         "if False:", "trailing octets accepted"),
    "second-opt-accepted": ("dns/message.py", "                or self.opt\n", "", "a second OPT record is accepted"),
    "rdata-wire-unwrapped": ("dns/rdata.py", "    with dns.exception.ExceptionWrapper(dns.exception.FormError):\n        return cls.from_wire_parser(rdclass, rdtype, parser, origin)",
                             "    if True:\n        return cls.from_wire_parser(rdclass, rdtype, parser, origin)",
                             "rdata.from_wire_parser does not convert exceptions to FormError"),
    "zone-no-file-line": ("dns/zonefile.py", "            ex = dns.exception.SyntaxError(f\"{filename}:{line_number}: {detail}\")",
                          "            ex = dns.exception.SyntaxError(f\"{detail}\")", "zone syntax errors carry no file:line"),
    "quote-eof-accepted": ("dns/tokenizer.py", "                if c == \"\" and self.quoting:\n                    raise dns.exception.UnexpectedEnd",
                           "                if c == \"\" and self.quoting:\n                    self.quoting = False\n                    self.delimiters = _DELIMITERS",
                           "unterminated quoted string accepted at end of input"),
    "quote-newline-accepted": ("dns/tokenizer.py", "            elif self.quoting and c == \"\\n\":", "            elif False:",
                               "newline inside a quoted string accepted"),
    "tsig-last-unchecked": ("dns/message.py", "                or position != count - 1\n", "", "TSIG need not be the last record"),
    "rr-line-unwrapped": ("dns/zonefile.py", "            except Exception:\n                # All exceptions that occur in the processing of rdata",
                          "            except ZeroDivisionError:\n                # All exceptions that occur in the processing of rdata",
                          "zone reader lets non-syntax exceptions of rdata parsing through"),
}


def sh(*cmd, **kw):
    return subprocess.run(cmd, stdout=subprocess.PIPE, stderr=subprocess.STDOUT, text=True, **kw)


def apply(name):
    f, old, new, _ = MUTANTS[name]
    p = os.path.join(WT, f)
    s = open(p).read()
    if True:
        if old not in s:
            raise SystemExit("mutant %s does not apply" % name)
        s = s.replace(old, new, 1)
    open(p, "w").write(s)


def main():
    names = sys.argv[1:] or list(MUTANTS)
    results = {}
    out_fn = os.path.join(ROOT, ".work", "c04_mutants.json")
    for name in names:
        sh("git", "-C", "/repo", "worktree", "remove", "--force", WT)
        r = sh("git", "-C", "/repo", "worktree", "add", "--detach", WT, "HEAD")
        if r.returncode:
            raise SystemExit(r.stdout)
        apply(name)
        env = dict(os.environ, VERIF_REPO=WT)
        r = sh(os.path.join(ROOT, "check"), "C04", "--tier", "quick", env=env, cwd=ROOT)
        sigs = {}
        for line in r.stdout.splitlines():
            m = re.search(r"rejected\s+(\d+)\s+(\S+)", line)
            if m:
                sigs[m.group(2)] = int(m.group(1))
        results[name] = {"what": MUTANTS[name][3], "rc": r.returncode, "signatures": sigs}
        print(name, r.returncode, json.dumps(sigs)[:1500], flush=True)
        with open(out_fn, "w") as f:
            json.dump(results, f, indent=1)
    sh("git", "-C", "/repo", "worktree", "remove", "--force", WT)


if __name__ == "__main__":
    main()
