"""C16 mutation testing: each mutant is a one-place edit of dnspython applied in a scratch git worktree of /repo
(never /repo itself), checked with the reduced pipeline tools/c16_mutrun.py; the worktree is removed afterwards.
usage: /venv/bin/python tools/c16_mutants.py [mutant names]"""
import os, subprocess, sys, json
R = "dns/resolver.py"; A = "dns/asyncresolver.py"; M = "dns/message.py"
MUT = {
 "M01_drop_on_timeout": (R, "                or isinstance(ex, NotImplementedError)\n", "                or isinstance(ex, NotImplementedError)\n                or isinstance(ex, dns.exception.Timeout)\n"),
 "M02_keep_on_formerror": (R, "                isinstance(ex, dns.exception.FormError)\n                or isinstance(ex, EOFError)", "                isinstance(ex, EOFError)"),
 "M03_tcp_retry_other_server": (R, "            self.tcp_attempt = True\n            self.retry_with_tcp = False\n", "            self.tcp_attempt = True\n            self.retry_with_tcp = False\n            self.nameserver = self.nameservers[-1]\n"),
 "M04_nxdomain_early": (R, "            # Make next_nameserver() return None, so caller breaks its\n            # inner loop and calls next_request().\n            return (None, True)", "            raise NXDOMAIN(qnames=self.qnames_to_try, responses=self.nxdomain_responses)"),
 "M05_cache_by_canonical": (R, "                self.resolver.cache.put((self.qname, self.rdtype, self.rdclass), answer)", "                self.resolver.cache.put((answer.canonical_name, self.rdtype, self.rdclass), answer)"),
 "M06_ignore_cname_ttl": (M, "                        min_ttl = min(min_ttl, crrset.ttl)\n", ""),
 "M07_async_full_timeout": (A, "                        timeout=timeout,\n", "                        timeout=self.timeout,\n"),
 "M08_no_backoff": (R, "            backoff = self.backoff\n", "            backoff = 0\n"),
 "M09_full_timeout": (R, "        return min(lifetime - duration, self.timeout)", "        return self.timeout"),
 "M10_servfail_always_retried": (R, "            if rcode != dns.rcode.SERVFAIL or not self.resolver.retry_servfail:", "            if rcode != dns.rcode.SERVFAIL:"),
 "M11_chain_bound_off_by_one": (M, "        while count < MAX_CHAIN:", "        while count <= MAX_CHAIN:"),
 "M11b_chain_bound_gt": (M, "        if count >= MAX_CHAIN:\n            raise ChainTooLong", "        if count > MAX_CHAIN:\n            raise ChainTooLong"),
 "M19_nodata_not_cached": (R, "            if self.resolver.cache:\n                self.resolver.cache.put((self.qname, self.rdtype, self.rdclass), answer)", "            if self.resolver.cache and answer.rrset is not None:\n                self.resolver.cache.put((self.qname, self.rdtype, self.rdclass), answer)"),
 "M20_search_list_after_abs_always": (R, "                    qnames_to_try.insert(0, abs_qname)", "                    qnames_to_try.append(abs_qname)"),
 "M12_negative_ttl_ignores_minimum": (M, "min_ttl = min(min_ttl, srrset.ttl, srdata.minimum)", "min_ttl = min(min_ttl, srrset.ttl)"),
 "M13_ndots_ge": (R, "                if len(qname) > ndots:", "                if len(qname) >= ndots:"),
 "M14_tcp_truncation_keeps_server": (R, "                    # Truncation with TCP is no good!\n                    self.nameservers.remove(self.nameserver)", "                    pass"),
 "M15_lifetime_gt": (R, "        if duration >= lifetime:", "        if duration > lifetime:"),
 "M16_async_no_sleep": (A, "                if backoff:\n                    await backend.sleep(backoff)\n", ""),
 "M17_min_ttl_as_max": (M, "                min_ttl = min(min_ttl, answer.ttl)", "                min_ttl = answer.ttl if min_ttl == dns.ttl.MAX_TTL else max(min_ttl, answer.ttl)"),
 "M18_nxdomain_cached_under_qtype": (R, "                    (self.qname, dns.rdatatype.ANY, self.rdclass), answer\n", "                    (self.qname, self.rdtype, self.rdclass), answer\n"),
}
def run(name):
    f, old, new = MUT[name]
    wt = "/tmp/wt_c16_" + name
    subprocess.run(["git", "-C", "/repo", "worktree", "remove", "--force", wt], capture_output=True)
    subprocess.run(["git", "-C", "/repo", "worktree", "add", "--detach", wt, "HEAD"], check=True, capture_output=True)
    try:
        p = os.path.join(wt, f)
        s = open(p).read()
        assert s.count(old) == 1, (name, s.count(old))
        open(p, "w").write(s.replace(old, new))
        env = dict(os.environ, VERIF_REPO=wt)
        r = subprocess.run(["/venv/bin/python", "/verif/tools/c16_mutrun.py", name], env=env, capture_output=True, text=True, cwd="/verif")
        line = [l for l in r.stdout.splitlines() if l.startswith("MUTANT")]
        return line[0] if line else "MUTANT %s CRASH %s" % (name, r.stderr[-500:])
    finally:
        subprocess.run(["git", "-C", "/repo", "worktree", "remove", "--force", wt], capture_output=True)
if __name__ == "__main__":
    names = sys.argv[1:] or sorted(MUT)
    from concurrent.futures import ThreadPoolExecutor
    with ThreadPoolExecutor(3) as ex:
        for res in ex.map(run, names):
            print(res, flush=True)
