#!/bin/sh
# usage: tools/run_all.sh <tier> <id>...   runs the checks one after the other; log + exit codes in .work/logs
cd /verif
tier=$1; shift
for p in "$@"; do
  t0=$(date +%s)
  ./check $p --tier $tier > .work/logs/all_${tier}_$p.log 2>&1
  rc=$?
  echo "$p $tier exit=$rc wall=$(( $(date +%s) - t0 ))s $(grep -c '^VIOLATION' .work/logs/all_${tier}_$p.log) violations $(grep -c '^KNOWN-FINDING' .work/logs/all_${tier}_$p.log) known" >> .work/logs/all_${tier}_summary.log
done
