#!/usr/bin/env python3
"""Confirm a candidate seeded change before keeping it:
   tools/confirm_seeded.py <candidate_dir> <seeded_id>
candidate_dir holds patch.diff, demo.py, meta.json (written by an independent agent).
Checks in a scratch worktree: patch applies; demo fails with it and passes without; the
repository's test suite still passes (only the baseline's always-failing tests fail).
On success copies the files to /verif/seeded/<seeded_id>/ and records what was run."""
import json
import os
import re
import shutil
import subprocess
import sys

ROOT = os.path.dirname(os.path.dirname(os.path.abspath(__file__)))
KNOWN_FAIL = {"testFromUnicodeIDNA2008", "testToUnicode5"}


def sh(*a, **k):
    return subprocess.run(a, stdout=subprocess.PIPE, stderr=subprocess.STDOUT, text=True, **k)


def main():
    cand, sid = sys.argv[1], sys.argv[2]
    wt = "/tmp/confirm_%s_%d" % (sid, os.getpid())
    sh("git", "-C", "/repo", "worktree", "add", "--detach", wt, "HEAD")
    out = {"confirmed": False}
    try:
        env = dict(os.environ, PYTHONPATH=wt, PYTHONDONTWRITEBYTECODE="1")
        r0 = sh("/venv/bin/python", os.path.join(cand, "demo.py"), env=env, cwd=cand)
        out["demo_without_patch_exit"] = r0.returncode
        r = sh("git", "-C", wt, "apply", os.path.join(cand, "patch.diff"))
        if r.returncode != 0:
            out["error"] = "patch does not apply: " + r.stdout[-300:]
            print(json.dumps(out)); return 1
        r1 = sh("/venv/bin/python", os.path.join(cand, "demo.py"), env=env, cwd=cand)
        out["demo_with_patch_exit"] = r1.returncode
        out["demo_with_patch_tail"] = r1.stdout[-400:]
        rt = sh("/venv/bin/python", "-m", "pytest", "-q", "-p", "no:cacheprovider", "--timeout=900", "-x", "--deselect",
                "tests/test_name.py::NameTestCase::testFromUnicodeIDNA2008", "--deselect",
                "tests/test_name.py::NameTestCase::testToUnicode5", "tests/", cwd=wt, env=dict(os.environ, PYTHONDONTWRITEBYTECODE="1"))
        tail = rt.stdout.strip().splitlines()[-1] if rt.stdout.strip() else ""
        out["test_suite"] = tail
        out["test_suite_ok"] = rt.returncode == 0 and " passed" in tail and "failed" not in tail
        out["confirmed"] = bool(r0.returncode == 0 and r1.returncode != 0 and out["test_suite_ok"])
        if out["confirmed"]:
            dst = os.path.join(ROOT, "seeded", sid)
            os.makedirs(dst, exist_ok=True)
            for f in ("patch.diff", "demo.py"):
                shutil.copy(os.path.join(cand, f), os.path.join(dst, f))
            meta = json.load(open(os.path.join(cand, "meta.json")))
            meta["id"] = sid
            meta["confirmed_by_lead"] = {
                "ran": ["git apply patch.diff in scratch worktree of /repo HEAD",
                        "PYTHONPATH=<worktree> /venv/bin/python demo.py (before and after the patch)",
                        "/venv/bin/python -m pytest -q -p no:cacheprovider --timeout=900 tests/ (2 baseline always-fail IDNA tests deselected)"],
                "demo_without_patch_exit": r0.returncode, "demo_with_patch_exit": r1.returncode, "test_suite": tail,
                "repo_head": sh("git", "-C", "/repo", "rev-parse", "--short", "HEAD").stdout.strip()}
            json.dump(meta, open(os.path.join(dst, "meta.json"), "w"), indent=1)
        print(json.dumps(out))
        return 0 if out["confirmed"] else 1
    finally:
        sh("git", "-C", "/repo", "worktree", "remove", "--force", wt)
        shutil.rmtree(wt, ignore_errors=True)


if __name__ == "__main__":
    sys.exit(main())
