#!/venv/bin/python
"""Mutation test of the C11 check: each mutant is applied to a scratch worktree of /repo
(never /repo itself), ./check C11 is run against it, and the violation signatures are
collected.  Usage: tools/c11_mutants.py [name ...]   (scratch: /tmp/wt_c11m, removed at exit)"""
import json
import os
import re
import subprocess
import sys

WT = "/tmp/wt_c11m"
ROOT = os.path.dirname(os.path.dirname(os.path.abspath(__file__)))
FIX = os.path.join(ROOT, "notes", "C11_fix_initial_version.diff")

MUTANTS = {
    "M1_prune_pinned": ("dns/versioned.py",
        "        if len(self._readers) > 0:\n            least_kept = min(",
        "        if False:\n            least_kept = min("),
    "M2_max_versions_off_by_one": ("dns/versioned.py",
        "return len(zone._versions) > max_versions", "return len(zone._versions) >= max_versions"),
    "M3_live_map": ("dns/zone.py",
        "        self.nodes = dns.immutable.Dict(\n            version.nodes, True, self.zone.map_factory\n        )  # pyright: ignore",
        "        self.nodes = version.nodes"),
    "M4_node_left_mutable": ("dns/zone.py",
        "                version.nodes[name] = ImmutableVersionedNode(node)", "                pass"),
    "M5_rdataset_items_plain_dict": ("dns/rdataset.py",
        "        self.items = dns.immutable.Dict(rdataset.items)", "        self.items = dict(rdataset.items)"),
    "M6_btree_map_not_frozen": ("dns/btreezone.py",
        "        self.nodes.make_immutable()  # type: ignore", "        pass"),
    "M7_btree_delegations_not_frozen": ("dns/btreezone.py",
        "        self.delegations.make_immutable()", "        pass"),
    "M8_reader_ignores_id": ("dns/versioned.py",
        "                    if v.id == id:\n                        version = v\n                        break",
        "                    if v.id <= id:\n                        version = v\n                        break"),
    "M9_end_read_no_prune": ("dns/versioned.py",
        "            self._readers.remove(txn)\n            self._prune_versions_unlocked()",
        "            self._readers.remove(txn)"),
    "M10_set_policy_no_prune": ("dns/versioned.py",
        "            self._pruning_policy = policy\n            self._prune_versions_unlocked()",
        "            self._pruning_policy = policy"),
    "M11_prune_before_append": ("dns/versioned.py",
        "        self._versions.append(version)\n        self._prune_versions_unlocked()",
        "        self._prune_versions_unlocked()\n        self._versions.append(version)"),
    "M12_serial_ge": ("dns/versioned.py",
        "if rds and soa.serial == serial:", "if rds and soa.serial >= serial:"),
    "M13_cow_shares_rdatasets": ("dns/zone.py",
        "                new_node.rdatasets.extend(node.rdatasets)",
        "                new_node.rdatasets.extend(node.rdatasets)\n            if node is not None and hasattr(node, 'id'):\n                object.__setattr__(node, 'rdatasets', new_node.rdatasets)"),
    "M14_immutable_rdataset_missing_override": ("dns/rdataset.py",
        "    def update_ttl(self, ttl):\n        raise TypeError(\"immutable\")\n\n    def add(self, rd, ttl=None):  # pyright: ignore\n        raise TypeError(\"immutable\")",
        "    def add(self, rd, ttl=None):  # pyright: ignore\n        raise TypeError(\"immutable\")"),
    "M15_zone_nodes_publish_early": ("dns/zone.py",
        "        self.version = factory(self.zone, self.replacement)  # pyright: ignore",
        "        self.version = factory(self.zone, self.replacement)  # pyright: ignore\n        if hasattr(self.zone, '_versions') and not self.replacement:\n            self.zone._versions[-1].__dict__['nodes'] = self.version.nodes"),
    "M16_default_policy_keeps_two": ("dns/versioned.py",
        "    def _default_pruning_policy(self, zone, version):\n        return True",
        "    def _default_pruning_policy(self, zone, version):\n        return len(zone._versions) > 2"),
}


def sh(*a, **kw):
    return subprocess.run(a, stdout=subprocess.PIPE, stderr=subprocess.STDOUT, text=True, **kw)


def main():
    names = sys.argv[1:] or list(MUTANTS)
    sh("git", "-C", "/repo", "worktree", "remove", "--force", WT)
    print(sh("git", "-C", "/repo", "worktree", "add", "--detach", WT, "HEAD").stdout.strip().splitlines()[-1])
    results = {}
    try:
        for name in names:
            sh("git", "-C", WT, "checkout", "--", ".")
            if name != "BASE":
                # mutants are applied on top of the proposed D1 fix, so that every remaining
                # violation is due to the mutant
                if "ifactory(wfactory(self, True))" not in open(os.path.join(WT, "dns/versioned.py")).read():
                    r = sh("git", "-C", WT, "apply", FIX)
                    assert r.returncode == 0, r.stdout
            if name not in ("BASE", "FIXED"):
                path, old, new = MUTANTS[name]
                fn = os.path.join(WT, path)
                s = open(fn).read()
                assert s.count(old) == 1, (name, s.count(old))
                open(fn, "w").write(s.replace(old, new))
            env = dict(os.environ, VERIF_REPO=WT, C11_FAST=os.environ.get("C11_FAST", "1"))
            r = sh(os.path.join(ROOT, "check"), "C11", "--tier", "quick", env=env, cwd=ROOT)
            sigs = sorted(set(re.findall(r"clause=(\S+) sig=(\S+)", r.stdout)))
            rc = r.returncode
            results[name] = {"rc": rc, "n_sigs": len(sigs), "sigs": [":".join(s[1].split(":")[:3]) for s in sigs][:8]}
            print(name, "rc=%d" % rc, "KILLED" if rc == 1 else ("survived" if rc == 0 else "MACHINERY"), results[name]["sigs"][:6], flush=True)
            if rc == 2:
                print(r.stdout[-1500:])
    finally:
        sh("git", "-C", "/repo", "worktree", "remove", "--force", WT)
        sh("rm", "-rf", os.path.join(ROOT, "replays", "C11"))
    print(json.dumps(results, indent=1))


if __name__ == "__main__":
    main()
