#!/venv/bin/python
"""One-off builder of specs/c04_specimens.json (the frozen specimen table of C04).

The TEXT of every specimen is hand-written below (one valid record per rdata type, one per
EDNS option type).  The wire octets were produced ONCE with the library and are frozen in
the JSON file, which is the single source of specs/RobustTable.tla (vlib/c04_table.py) and
of the driver's table.  checks/c04.py never calls this tool: a change of the library
cannot change the inputs of the check."""
import json
import os
import sys

ROOT = os.path.dirname(os.path.dirname(os.path.abspath(__file__)))
sys.path.insert(0, "/repo")
import dns.edns  # noqa: E402
import dns.rdata  # noqa: E402

# (class, type, text, arity): arity "fixed" = the number of tokens is fixed by the grammar
# (dropping the last token / appending a token must be refused), "var" otherwise
RD = [
    ("IN", "A", "192.0.2.1", "fixed"),
    ("IN", "AAAA", "2001:db8::1", "fixed"),
    ("IN", "NS", "ns.example.", "fixed"),
    ("IN", "CNAME", "target.example.", "fixed"),
    ("IN", "PTR", "host.example.", "fixed"),
    ("IN", "DNAME", "other.example.", "fixed"),
    ("IN", "MX", "10 mail.example.", "fixed"),
    ("IN", "SOA", "ns.example. admin.example. 1 7200 900 1209600 300", "fixed"),
    ("IN", "TXT", '"hello" "world"', "var"),
    ("IN", "SPF", '"v=spf1 -all"', "var"),
    ("IN", "AVC", '"app=x"', "var"),
    ("IN", "NINFO", '"info"', "var"),
    ("IN", "RESINFO", '"qnamemin"', "var"),
    ("IN", "WALLET", '"btc" "addr"', "var"),
    ("IN", "HINFO", '"cpu" "os"', "fixed"),
    ("IN", "ISDN", '"150862028003217" "004"', "var"),
    ("IN", "X25", '"311061700956"', "fixed"),
    ("IN", "GPOS", '"-32.6882" "116.8652" "10.0"', "fixed"),
    ("IN", "RP", "mbox.example. txt.example.", "fixed"),
    ("IN", "AFSDB", "1 afs.example.", "fixed"),
    ("IN", "RT", "5 relay.example.", "fixed"),
    ("IN", "KX", "10 kx.example.", "fixed"),
    ("IN", "PX", "10 map822.example. mapx400.example.", "fixed"),
    ("IN", "SRV", "1 2 53 srv.example.", "fixed"),
    ("IN", "NAPTR", '100 10 "u" "sip" "!^.*$!sip:a@example.!" .', "fixed"),
    ("IN", "LP", "10 l.example.", "fixed"),
    ("IN", "L32", "10 10.1.2.0", "fixed"),
    ("IN", "L64", "10 2001:0db8:1140:1000", "fixed"),
    ("IN", "NID", "10 0014:4fff:ff20:ee64", "fixed"),
    ("IN", "EUI48", "00-00-5e-00-53-2a", "fixed"),
    ("IN", "EUI64", "00-00-5e-ef-10-00-00-2a", "fixed"),
    ("IN", "LOC", "52 22 23.000 N 4 53 32.000 E -2.00m 1.00m 10000.00m 10.00m", "var"),
    ("IN", "CAA", '0 issue "ca.example.net"', "fixed"),
    ("IN", "URI", '10 1 "ftp://ftp.example/"', "fixed"),
    ("IN", "CERT", "PKIX 1 RSASHA256 AQID", "var"),
    ("IN", "SSHFP", "1 1 0123456789abcdef0123456789abcdef01234567", "var"),
    ("IN", "TLSA", "3 1 1 0123456789abcdef0123456789abcdef0123456789abcdef0123456789abcdef", "var"),
    ("IN", "SMIMEA", "3 1 1 0123456789abcdef0123456789abcdef0123456789abcdef0123456789abcdef", "var"),
    ("IN", "DS", "12345 8 2 0123456789abcdef0123456789abcdef0123456789abcdef0123456789abcdef", "var"),
    ("IN", "CDS", "12345 8 2 0123456789abcdef0123456789abcdef0123456789abcdef0123456789abcdef", "var"),
    ("IN", "DLV", "12345 8 2 0123456789abcdef0123456789abcdef0123456789abcdef0123456789abcdef", "var"),
    ("IN", "DNSKEY", "257 3 8 AQIDBAUG", "var"),
    ("IN", "CDNSKEY", "257 3 8 AQIDBAUG", "var"),
    ("IN", "KEY", "256 3 8 AQIDBAUG", "var"),
    ("IN", "RRSIG", "A 8 2 300 20300101000000 20200101000000 1234 example. AQIDBAUG", "var"),
    ("IN", "SIG", "A 8 2 300 20300101000000 20200101000000 1234 example. AQIDBAUG", "var"),
    ("IN", "NSEC", "next.example. A MX RRSIG NSEC TYPE1234", "var"),
    ("IN", "NSEC3", "1 1 12 aabbccdd 2t7b4g4vsa5smi47k61mv5bv1a22bojr MX RRSIG", "var"),
    ("IN", "NSEC3PARAM", "1 0 12 aabbccdd", "fixed"),
    ("IN", "CSYNC", "66 3 A NS AAAA", "var"),
    ("IN", "ZONEMD", "2018031900 1 1 "
     "616c6c6f77656420746f20636f6e7461696e20612068617368206f662074686520636f6e74656e7473206f6620746865", "var"),
    ("IN", "OPENPGPKEY", "AQIDBAUG", "var"),
    ("IN", "DHCID", "AAIBY2/AuCccgoJbsaxcQc9TUapptP69lOjxfNuVAA2kjEA=", "var"),
    ("IN", "HIP", "2 200100107b1a74df365639cc39f1d578 AwEAAbdxyhNuSutc5EMzxTs9LBPCIkOFH8cI host.example.", "var"),
    ("IN", "IPSECKEY", "10 1 2 192.0.2.38 AQNRU3mG7TVTO2BkR47usntb102uFJtugbo6BSGvgqt4AQ==", "var"),
    ("IN", "AMTRELAY", "10 0 1 203.0.113.15", "fixed"),
    ("IN", "APL", "1:192.168.32.0/21 !1:192.168.38.0/28 2:2001:db8::/32", "var"),
    ("IN", "WKS", "192.0.2.7 6 25 80", "var"),
    ("IN", "NSAP", "0x47.0005.80.005a00.0000.0001.e133.ffffff000161.00", "fixed"),
    ("IN", "NSAP-PTR", "nsap.example.", "fixed"),
    ("IN", "SVCB", '1 svc.example. alpn="h2,h3" port=8443 ipv4hint=192.0.2.1', "var"),
    ("IN", "HTTPS", "1 . alpn=h2 ipv6hint=2001:db8::1 ech=AQID", "var"),
    ("IN", "TKEY", "gss-tsig. 1594203795 1594206664 3 0 AQID BAUG", "var"),
    ("IN", "DSYNC", "CDS NOTIFY 5359 rr.example.", "fixed"),
    ("IN", "HHIT", "AQIDBAUG", "var"),
    ("IN", "BRID", "AQIDBAUG", "var"),
    ("CH", "A", "ch.example. 1234", "fixed"),
    ("IN", "TYPE65280", "\\# 4 0a000001", "var"),
]
# wire-only specimens (no zone-file text form): OPT, TSIG
RDWIRE = [
    ("ANY", "TSIG", bytes.fromhex("0b686d61632d73686132353600" "00005f000000" "012c" "0004" "01020304" "1234" "0000" "0000")),
    ("IN", "OPT", bytes.fromhex("000a0008" "0102030405060708" "fde90002" "abcd")),
]
# EDNS options: (code, octets)
OPTS = [
    (3, b"nsid"), (5, b"\x08\x0d"), (8, bytes.fromhex("00011800c00002")), (8, bytes.fromhex("0002300020010db80000")),
    (9, b"\x00\x00\x0e\x10"), (10, bytes.fromhex("0102030405060708")), (10, bytes.fromhex("0102030405060708a1a2a3a4a5a6a7a8")),
    (11, b"\x00\x64"), (12, b"\x00" * 6), (13, b"\x00\x2a"), (15, b"\x00\x17no key"), (15, b"\x00\x06"),
    (18, b"\x03rpt\x07example\x00"), (22, b"en"), (23, b"mailto:abuse@example"), (24, b"Example Org"), (25, b"db.example"),
    (65001, b"\xde\xad"),
]


def main():
    out = {"comment": "frozen specimen table of C04; built once by tools/c04_mkspecimens.py; edit the tool, not this file",
           "rdata": [], "options": []}
    for cls, ty, text, arity in RD:
        try:
            rd = dns.rdata.from_text(cls, ty, text)
        except Exception as e:
            raise SystemExit("bad specimen %s %s: %r" % (ty, text, e))
        w = rd.to_wire()
        assert dns.rdata.from_wire(cls, ty, w, 0, len(w)) == rd
        toks = split_tokens(text)
        assert " ".join(toks) == text, (toks, text)
        out["rdata"].append({"cls": cls, "type": ty, "toks": toks, "arity": arity, "wire": w.hex()})
    for cls, ty, w in RDWIRE:
        rd = dns.rdata.from_wire(cls, ty, w, 0, len(w))
        assert rd.to_wire() == w
        out["rdata"].append({"cls": cls, "type": ty, "toks": [], "arity": "none", "wire": w.hex()})
    seen = set()
    for code, w in OPTS:
        for k in range(1, 9):
            if (code, k) not in seen:
                seen.add((code, k))
                break
        o = dns.edns.option_from_wire(code, w, 0, len(w))
        assert o.to_wire() == w, (code, o.to_wire(), w)
        out["options"].append({"code": code, "k": k, "wire": w.hex()})
    with open(os.path.join(ROOT, "specs", "c04_specimens.json"), "w") as f:
        json.dump(out, f, indent=0)
    print(len(out["rdata"]), "rdata specimens,", len(out["options"]), "option specimens")


def split_tokens(text):
    """Split on blanks outside double quotes (the specimens use no escaped quotes)."""
    toks, cur, q = [], "", False
    for c in text:
        if c == '"':
            q = not q
            cur += c
        elif c == " " and not q:
            toks.append(cur)
            cur = ""
        else:
            cur += c
    toks.append(cur)
    return toks


if __name__ == "__main__":
    main()
