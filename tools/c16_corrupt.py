"""Corrupt one logged field of good traces and confirm Trace_Resolution rejects each."""
import sys, os, json, copy
sys.path.insert(0, "/verif")
os.environ.setdefault("PYTHONHASHSEED", "0")
from vlib import core
core.repo_on_path()
from drivers import c16_resolver as d
from checks import c16
ctx = core.Ctx("C16corrupt", "quick", 0, "model_checking")
scripts = ctx.generate("Gen_Resolution", c16.gen_cfg(ctx, "g3.cfg", configs="GCfgCache1", requests="GReqRel", outcomes="GOutCache",
                       advances="GAdvZero", maxres=2, maxq=2, idle="{0, 16, 96}"))[::40]
scripts += ctx.generate("Gen_Resolution", c16.gen_cfg(ctx, "g1.cfg", maxq=3))[::150]
good = [d.run_job((s, "g%d" % i))[1] for i, s in enumerate(scripts)]   # async traces (no peer field)
def first(tr, op, pred=lambda e: True):
    for i, e in enumerate(tr["ev"]):
        if e.get("op") == op and pred(e):
            return i
    return None
cases = []
def add(name, tr, fn):
    t = copy.deepcopy(tr); fn(t); t["tid"] = name + ":" + tr["tid"]; cases.append((name, t))
for tr in good:
    i = first(tr, "query")
    if i is not None:
        add("tmo+1", tr, lambda t: t["ev"][i].__setitem__("tmo", t["ev"][i]["tmo"] + 1))
        add("tmo=0", tr, lambda t: t["ev"][i].__setitem__("tmo", 0))
        add("tcp-flip", tr, lambda t: t["ev"][i].__setitem__("tcp", not t["ev"][i]["tcp"]))
        add("srv=9", tr, lambda t: t["ev"][i].__setitem__("srv", 9))
        add("qclass", tr, lambda t: t["ev"][i].__setitem__("qclass", "CH"))
        add("qn", tr, lambda t: t["ev"][i].__setitem__("qn", ["other", ""]))
    j = first(tr, "end", lambda e: e["res"] == "answer")
    if j is not None:
        add("ans-class", tr, lambda t: t["ev"][j]["ans"].__setitem__(4, "CH"))
        add("ttl+1", tr, lambda t: t["ev"][j]["ans"][2].__setitem__("ttl", t["ev"][j]["ans"][2]["ttl"] + 1))
        add("cname", tr, lambda t: t["ev"][j]["ans"][2].__setitem__("cname", ["x", ""]))
        add("created", tr, lambda t: t["ev"][j]["ans"][2].__setitem__("created", t["ev"][j]["ans"][2]["created"] - 1))
        add("res", tr, lambda t: t["ev"][j].__setitem__("res", "NXDOMAIN"))
    k = first(tr, "end", lambda e: len(e["cache"]) > 0)
    if k is not None:
        add("cache-key", tr, lambda t: t["ev"][k]["cache"][0].__setitem__(0, ["canon", ""]))
        add("cache-class", tr, lambda t: t["ev"][k]["cache"][0].__setitem__(2, "CH" if t["ev"][k]["cache"][0][2] == "IN" else "IN"))
        add("cache-drop", tr, lambda t: t["ev"][k].__setitem__("cache", []))
    s = first(tr, "sleep")
    if s is not None:
        add("sleep-missing", tr, lambda t: t["ev"].pop(s))
        add("sleep-long", tr, lambda t: t["ev"][s].__setitem__("d", 33))
# sync/async mismatch
pair = d.run_job((scripts[0], "p0"))
pair[0]["peer"][-1]["res"] = "other"
cases.append(("peer-mismatch", pair[0]))
rej0 = ctx.validate("Trace_Resolution", "Trace_Resolution.cfg", good)
rej = ctx.validate("Trace_Resolution", "Trace_Resolution.cfg", [t for _, t in cases])
rejected = {tr["tid"]: c for tr, l, c in rej}
from collections import Counter, defaultdict
by = defaultdict(Counter)
for name, t in cases:
    by[name][rejected.get(t["tid"], "ACCEPTED")] += 1
print("GOOD traces rejected:", len(rej0), "of", len(good))
for name in by:
    print("CORRUPT", name, dict(by[name]))
# ---- nameserver glue traces
gc = ctx.generate("MC_NameserverGlue", ctx.cfg("gglue.cfg", c16.GLUE_GEN_CFG))[::16]
ggood = [d.glue_job((c, "n%d" % i)) for i, c in enumerate(gc)]
gcases = []
def gadd(name, tr, fn, cond=lambda t: True):
    if cond(tr):
        t = copy.deepcopy(tr); fn(t); t["tid"] = name + ":" + tr["tid"]; gcases.append((name, t))
for tr in ggood:
    gadd("g-rot", tr, lambda t: t["ev"][1]["args"].__setitem__("raise_on_truncation", "absent"), lambda t: t["ev"][1]["args"]["transport"] == "udp")
    gadd("g-timeout", tr, lambda t: t["ev"][0]["args"].__setitem__("timeout", t["ev"][0]["args"]["timeout"] + 1))
    gadd("g-transport", tr, lambda t: t["ev"][0]["args"].__setitem__("transport", "tcp" if t["ev"][0]["args"]["transport"] != "tcp" else "udp"))
    gadd("g-itrail", tr, lambda t: t["ev"][1]["args"].__setitem__("ignore_trailing", "absent"))
    gadd("g-outcome", tr, lambda t: t["ev"][1].__setitem__("outcome", ["return", "tc"]), lambda t: t["ev"][1]["outcome"] != ["return", "tc"])
    gadd("g-async-only", tr, lambda t: t["ev"][1]["args"].__setitem__("ignore_errors", "false"))
grej0 = ctx.validate("Trace_NameserverGlue", "Trace_NameserverGlue.cfg", ggood)
grej = ctx.validate("Trace_NameserverGlue", "Trace_NameserverGlue.cfg", [t for _, t in gcases])
grejected = {tr["tid"]: c for tr, l, c in grej}
gby = defaultdict(Counter)
for name, t in gcases:
    gby[name][grejected.get(t["tid"], "ACCEPTED")] += 1
print("GOOD glue traces rejected:", len(grej0), "of", len(ggood))
for name in gby:
    print("CORRUPT", name, dict(gby[name]))
ctx.cleanup()
