#!/usr/bin/env python3
"""Rebuild MANIFEST.json from the META dict of every checks/cNN.py that exists.
Properties without a check module are listed under not_applicable."""
import ast
import json
import os
import sys

ROOT = os.path.dirname(os.path.dirname(os.path.abspath(__file__)))


def meta_of(path):
    tree = ast.parse(open(path).read())
    out = {}
    for node in tree.body:
        if isinstance(node, ast.Assign) and len(node.targets) == 1 and isinstance(node.targets[0], ast.Name):
            if node.targets[0].id in ("META", "LEVEL"):
                out[node.targets[0].id] = ast.literal_eval(node.value)
    return out


def main():
    props = [json.loads(l) for l in open(os.path.join(ROOT, "properties.jsonl"))]
    na_reasons = {}
    fn = os.path.join(ROOT, "tools", "not_applicable.json")
    if os.path.exists(fn):
        na_reasons = json.load(open(fn))
    # only checks the lead has integrated and verified are registered
    registered = set(json.load(open(os.path.join(ROOT, "tools", "registered.json"))))
    checks, na, served = [], [], []
    for p in props:
        pid = p["id"]
        path = os.path.join(ROOT, "checks", pid.lower() + ".py")
        m = meta_of(path) if os.path.exists(path) else {}
        if "META" not in m or pid in na_reasons or pid not in registered:
            na.append({"property_id": pid, "reason": na_reasons.get(pid, "check not built yet in this round (planned, see DESIGN.md section 4)")})
            continue
        meta = m["META"]
        served.append(pid)
        checks.append({
            "property_id": pid,
            "quick_cmd": "./check %s --tier quick" % pid,
            "thorough_cmd": "./check %s --tier thorough" % pid,
            "evidence_file": "/verif/evidence/%s.json" % pid,
            "replay_cmd_template": "./check %s --replay {path}" % pid,
            "engine": "tlc",
            "level_claimed": {"category": m["LEVEL"], "text": meta["text"], "design_ref": meta.get("design_ref", "DESIGN.md section 4 / " + pid)},
            "level_note": meta["note"],
            "technique": meta["technique"],
        })
    man = {
        "version": 1,
        "setup_cmd": "./setup.sh",
        "hooks": {
            "guard": "DNSPYTHON_VERIF",
            "enable": "no source hooks: drivers rebind module globals (threading, time, sockets) in their own process only; the guard name is reserved",
            "baseline_off_cmd": "cd /repo && env -u DNSPYTHON_VERIF /venv/bin/python -m pytest -ra -q -p no:cacheprovider --timeout=900 --continue-on-collection-errors",
            "source_commits": [],
            "add_only": True,
        },
        "engines": [{"name": "tlc", "path": "/usr/local/bin/tlc", "serves_properties": served,
                     "kind_free_text": "TLC 1.8.0 explicit-state model checker: exhaustive checking of specs/*.tla, behaviour generation (Gen_*), trace validation (Trace_*) of events recorded from the real dnspython code"},
                    {"name": "tlapm+apalache (growth check X04)", "path": "/verif/checks/x04.py", "serves_properties": ["C11", "C12"],
                     "kind_free_text": "TLAPS proofs (2141 obligations) and Apalache inductive checks of the abstract writer-admission and version-retention specifications for ANY number of writers/readers/versions, TLC refinement from the bounded models the C11/C12 conformance checks use; ./check X04 --tier quick re-checks the stored proof fingerprints.  Not a claimed check: it strengthens the design half of C11/C12 (DESIGN.md 9.8)"},
                    {"name": "growth checks X01-X03, X05-X09 (same TLC pipeline)", "path": "/verif/checks", "serves_properties": [],
                     "kind_free_text": "Specifications beyond the listed properties, same contract (./check Xnn --tier quick|thorough, evidence/Xnn.json, notes/Xnn.md): X01 address codecs and reverse names, X02 TTL/range/serial arithmetic, X03 NameDict and processing order, X05 zone-file reader state machine ($ORIGIN/$TTL/$INCLUDE/$GENERATE, inheritance), X06 RFC 2136 update messages and message header/EDNS state, X07 the tokenizer automaton, X08 the zone's direct node API and CNAME exclusivity, X09 registries and header bit fields.  Their findings are in known_findings.json under property Xnn (DESIGN.md 9.8)"}],
        "checks": checks,
        "not_applicable": na,
        "notes": "Every claimed property is decided by an explicit TLA+ specification under specs/: TLC checks the spec, generates behaviours that drivers/ replay on the code in /repo's working tree, and validates the recorded traces (one TLC run per shard). ./check <id> --tier quick|thorough [--replay file]. Known findings: known_findings.json.",
    }
    if not na:
        del man["not_applicable"]
    with open(os.path.join(ROOT, "MANIFEST.json"), "w") as f:
        json.dump(man, f, indent=1)
    print("MANIFEST: %d checks, %d not_applicable" % (len(checks), len(na)))


if __name__ == "__main__":
    sys.exit(main())
