#!/usr/bin/env python3
"""Build seeded/REPORT.md (and print summary counts) from seeded/<id>/{meta,result_first,result}.json."""
import glob
import json
import os
import re

ROOT = os.path.dirname(os.path.dirname(os.path.abspath(__file__)))


def verdict(path, prop=None):
    if not os.path.exists(path):
        return None, ""
    j = json.load(open(path))
    if j.get("invalid"):
        return None, ""
    r = j["results"]
    best = None
    for p, v in r.items():
        det = v["exit"] == 1 and v["violations"] > 0
        clause = re.search(r"clause=(\S+)", v.get("detail", ""))
        c = clause.group(1) if clause else ""
        if det and (best is None or p == prop):
            best = (p, c)
    if best:
        return True, "%s:%s" % best
    return False, ""


def main():
    rows = []
    for d in sorted(glob.glob(os.path.join(ROOT, "seeded", "c*-*")), key=lambda s: (s.split("/")[-1].split("-")[0], int(s.split("-")[-1]))):
        sid = os.path.basename(d)
        meta = json.load(open(os.path.join(d, "meta.json")))
        prop = meta.get("property", sid.split("-")[0].upper())
        f, fc = verdict(os.path.join(d, "result_first.json"), prop)
        l, lc = verdict(os.path.join(d, "result.json"), prop)
        rows.append((sid, prop, str(meta.get("title", ""))[:90], str(meta.get("what_it_needs_to_manifest", ""))[:160].replace("\n", " "), f, fc, l, lc))
    out = ["# Seeded changes and what the checks report\n",
           "Each change was written by an independent agent that saw only the property text and a scratch worktree; it",
           "passes the repository's test suite and comes with a demonstration that fails with it and passes without it",
           "(`seeded/<id>/{patch.diff,demo.py,meta.json}`; confirmed by `tools/confirm_seeded.py`).  `first` = verdict of the",
           "property's quick check the first time it met the change; `now` = verdict after the check was strengthened.\n",
           "| id | property | change | needs | first | now (check:clause) |", "|---|---|---|---|---|---|"]
    for sid, prop, title, needs, f, fc, l, lc in rows:
        fs = "-" if f is None else ("DETECTED" if f else "missed")
        ls = "-" if l is None else ("DETECTED " + lc if l else "missed")
        tri = json.load(open(os.path.join(ROOT, "seeded", sid, "meta.json"))).get("lead_triage")
        if tri and not l:
            ls += " — " + str(tri).replace("|", "/")
        out.append("| %s | %s | %s | %s | %s | %s |" % (sid, prop, title.replace("|", "/"), needs.replace("|", "/"), fs, ls))
    nfirst = sum(1 for r in rows if r[4] is not None)
    dfirst = sum(1 for r in rows if r[4])
    nlast = sum(1 for r in rows if r[6] is not None)
    dlast = sum(1 for r in rows if r[6])
    out.append("\nFirst encounter: %d of %d detected.  Current checks: %d of %d detected.\n" % (dfirst, nfirst, dlast, nlast))
    byp = {}
    for r in rows:
        b = byp.setdefault(r[1], [0, 0, 0, 0])
        if r[4] is not None:
            b[1] += 1
            b[0] += 1 if r[4] else 0
        if r[6] is not None:
            b[3] += 1
            b[2] += 1 if r[6] else 0
    out.append("| property | first | now |\n|---|---|---|")
    for p in sorted(byp):
        b = byp[p]
        out.append("| %s | %d/%d | %d/%d |" % (p, b[0], b[1], b[2], b[3]))
    open(os.path.join(ROOT, "seeded", "REPORT.md"), "w").write("\n".join(out) + "\n")
    print("first: %d/%d  now: %d/%d" % (dfirst, nfirst, dlast, nlast))


if __name__ == "__main__":
    main()
