"""Reduced C16 pipeline for mutation testing: VERIF_REPO must point at the mutated tree."""
import sys, os, json, time
sys.path.insert(0, "/verif")
os.environ.setdefault("PYTHONHASHSEED", "0")
from vlib import core, tlc
core.repo_on_path()
from drivers import c16_resolver as d
from checks import c16
from collections import Counter
name = sys.argv[1]
ctx = core.Ctx("C16m" + name, "quick", 0, "model_checking")
out = {}
try:
    cases = ctx.generate("MC_Chaining", ctx.cfg("gchain.cfg", c16.CHAIN_GEN_CFG.format(maxlen=2)))
    ctr = [d.chain_job((c, "c%d" % i)) for i, c in enumerate(cases)]
    rej = ctx.validate("Trace_Chaining", "Trace_Chaining.cfg", ctr)
    out["chain"] = dict(Counter(c for _, _, c in rej))
    scripts = []
    scripts += ctx.generate("Gen_Resolution", c16.gen_cfg(ctx, "g1.cfg", maxq=3))[::5]
    scripts += ctx.generate("Gen_Resolution", c16.gen_cfg(ctx, "g2.cfg", configs="GCfgSearch", requests="GReqSearch",
                                                      outcomes="GOutNx", advances="GAdvZero", maxq=4))[::3]
    scripts += ctx.generate("Gen_Resolution", c16.gen_cfg(ctx, "g3.cfg", configs="GCfgCache1", requests="GReqRel", outcomes="GOutCache",
                                                      advances="GAdvZero", maxres=2, maxq=2, idle="{0, 16, 96}"))[::3]
    scripts += ctx.generate("Gen_Resolution", c16.gen_cfg(ctx, "g5.cfg", configs="GCfgClock", requests="GReqAbs",
                                                      outcomes="GOutClock", advances="GAdvFull", maxq=3, maxback=2))
    scripts += ctx.generate("Gen_Resolution", c16.gen_cfg(ctx, "g6.cfg", next="GNextSim", configs="GCfgAll", requests="GReqAll",
                                                      outcomes="GOutFull", advances="GAdvFull", maxres=3, maxq=14, maxback=2,
                                                      idle="{0, 16, 96, 4800}"), simulate="num=600", depth=160, seed=1, deadlock=False)
    scripts += ctx.generate("Gen_Resolution", c16.gen_cfg(ctx, "g7.cfg", next="GNextSim", configs="GCfgAll", requests="GReqAll",
                                                      outcomes="GOutFailing", advances="GAdvMid", maxres=2, maxq=20, maxback=0,
                                                      idle="{0, 16}"), simulate="num=300", depth=240, seed=2, deadlock=False)
    jobs = [(s, "s%d" % i) for i, s in enumerate(scripts)]
    pairs = ctx.pmap(d.run_job, jobs, procs=4)
    traces = [tr for p in pairs for tr in p]
    rej = ctx.validate("Trace_Resolution", "Trace_Resolution.cfg", traces, shards=4)
    out["resolution"] = dict(Counter(c for _, _, c in rej))
    out["ntraces"] = len(traces)
    out["rejected"] = len(rej)
except Exception as e:
    out["error"] = repr(e)[:500]
finally:
    ctx.cleanup()
print("MUTANT", name, json.dumps(out, sort_keys=True))
