#!/usr/bin/env python3
"""Run the registered check of each seeded change against a scratch worktree carrying the
change: tools/run_seeded.py [--tier quick] [ids...]   (default: every /verif/seeded/<id>)
Writes the outcome into seeded/<id>/result.json and prints a table.  Never touches /repo's
working tree (uses `git worktree` under /tmp and VERIF_REPO)."""
import argparse
import json
import os
import shutil
import subprocess
import sys
import time

ROOT = os.path.dirname(os.path.dirname(os.path.abspath(__file__)))


def sh(*a, **k):
    return subprocess.run(a, stdout=subprocess.PIPE, stderr=subprocess.STDOUT, text=True, **k)


def main():
    ap = argparse.ArgumentParser()
    ap.add_argument("ids", nargs="*")
    ap.add_argument("--tier", default="quick")
    ap.add_argument("--also", default="", help="comma separated extra property ids to run on every change")
    a = ap.parse_args()
    sdir = os.path.join(ROOT, "seeded")
    ids = a.ids or sorted(d for d in os.listdir(sdir) if os.path.isdir(os.path.join(sdir, d)))
    rows = []
    for sid in ids:
        d = os.path.join(sdir, sid)
        meta = json.load(open(os.path.join(d, "meta.json")))
        props = [meta["property"]] + [p for p in a.also.split(",") if p]
        wt = "/tmp/seeded_%s_%d" % (sid, os.getpid())
        sh("git", "-C", "/repo", "worktree", "add", "--detach", wt, "HEAD")
        try:
            r = sh("git", "-C", wt, "apply", os.path.join(d, "patch.diff"))
            if r.returncode != 0:
                rows.append((sid, props[0], "PATCH-DOES-NOT-APPLY", 0, r.stdout[-200:]))
                continue
            res = {}
            for p in props:
                t0 = time.time()
                env = dict(os.environ, VERIF_REPO=wt)
                r = sh(os.path.join(ROOT, "check"), p, "--tier", a.tier, cwd=ROOT, env=env)
                viol = [l for l in r.stdout.splitlines() if l.startswith("VIOLATION")]
                os.makedirs(os.path.join(ROOT, ".work", "logs"), exist_ok=True)
                open(os.path.join(ROOT, ".work", "logs", "seeded_%s_%s.out" % (sid, p)), "w").write(r.stdout[-20000:])
                res[p] = {"exit": r.returncode, "violations": len(viol), "first": (viol[0] if viol else ""),
                          "detail": next((l.strip() for l in r.stdout.splitlines() if l.startswith("  clause=")), "")[:300],
                          "wall_s": round(time.time() - t0, 1)}
                rows.append((sid, p, "DETECTED" if r.returncode == 1 and viol else ("MACHINERY" if r.returncode == 2 else "missed"),
                             res[p]["wall_s"], res[p]["detail"][:150]))
            json.dump({"tier": a.tier, "results": res}, open(os.path.join(d, "result.json"), "w"), indent=1)
        finally:
            sh("git", "-C", "/repo", "worktree", "remove", "--force", wt)
            shutil.rmtree(wt, ignore_errors=True)
    for row in rows:
        print("%-28s %-4s %-10s %6.1fs  %s" % row)
    # restore the evidence files of the unchanged tree? evidence is rewritten by every run;
    # callers re-run the real checks before committing evidence.
    return 0


if __name__ == "__main__":
    sys.exit(main())
