"""C01 - name text and wire codecs are exact inverses within the DNS length limits;
pointer decoding terminates and goes strictly backwards."""
import concurrent.futures as cf
import faulthandler
import os
import signal
import sys
import json
import random
import re

from checks.c06 import classify as c06_classify, rnd_label, rnd_name
from drivers import c01_names

LEVEL = "model_checking"
faulthandler.register(signal.SIGUSR1, file=sys.stderr, all_threads=True)
META = {
    "text": "NameText.tla (escapify + the from_text parser as an explicit automaton with error kinds), NameWire.tla (the "
            "decoder as an automaton over pos / lowest / hops whose Pointer action is enabled only to a strictly smaller "
            "target; Encode; WriteName with the compression-table rules) and the constructors of DnsName.tla are written "
            "from RFC 1035 and the dns.name documentation. TLC checks on bounded universes: text round trip for every name "
            "over 16 octet classes, the parser automaton on every text over the escape alphabet, the decoder automaton on "
            "every short byte string over the label-type / pointer byte classes at every start offset and on segment-level "
            "buffers reaching 255 / 256 octets and the 0x3FFF pointer limit (pointers strictly backwards, termination "
            "variant, automaton = function), round trip and table soundness of compressed writes around 0x3FFF, validity of "
            "every constructor result at 63/64 and 255/256. The same universes (emitted by TLC) plus seeded random names / "
            "texts / wires over all 256 octets are run on dns.name / dns.tokenizer; the real decoder runs on a recording "
            "dns.wirebase.Parser and Trace_NameWire validates every recorded read / seek as a step of the automaton.",
    "note": "Exhaustive inside the universes of specs/NameUniverse.tla (KLabel/KTwo/KText/KWire per tier); beyond them "
            "seeded random inputs. IDNA paths (non-ASCII str input, to_unicode) are out of scope. The exact escaping and "
            "the exact compression choice are compared only as drift. Trusted: TLC, CommunityModules Json, the projections "
            "in drivers/c01_names.py (RecParser: ~45 lines).",
    "technique": "TLA+ automata + TLC exhaustive check; TLC-emitted universes run on the code; TLC validation of recorded decoder steps",
    "design_ref": "DESIGN.md section 4, C01",
}

GEN_CFG = """INIT GInit
NEXT GNext
CONSTANTS
  MaxLabel = 63
  MaxWire = 255
  KLabel = {klabel}
  KTwo = {ktwo}
  KText = {ktext}
  KWire = {kwire}
  VAlpha = {{65}}
  BigK = {{1, 62, 63}}
  BigFill = {{255, 90}}
  Kind = "{kind}"
INVARIANT Emit
CHECK_DEADLOCK FALSE
"""


def bounds(quick):
    return dict(klabel=3 if quick else 4, ktwo=1 if quick else 2, ktext=5 if quick else 6, kwire=4 if quick else 5)


def gen(ctx, kind, quick):
    cfg = ctx.cfg("gen_%s.cfg" % kind, GEN_CFG.format(kind=kind, **bounds(quick)))
    return [b[0] for b in ctx.generate("Gen_Names", cfg, count=False, heap="6g")]


ORG_EX = ["some", [[101, 120], []]]
ORG_ROOT = ["some", [[]]]
NONE = ["none"]


def wirelen(n):
    return sum(len(x) + 1 for x in n)


# ------------------------------------------------------------------ job construction
def text_jobs(ctx, quick, names, texts, rng):
    jobs = []
    for i, n in enumerate(names):
        jobs.append(("w%d" % i, "wtext", (n,)))
    for i, tx in enumerate(texts):
        jobs.append(("p%d" % i, "ptext", (tx,)))
        if tx and len(tx) <= 5 and all(c < 128 for c in tx):
            jobs.append(("k%d" % i, "tok", [(tx, ORG_EX, True, NONE), (tx, ORG_ROOT, False, ORG_EX), (tx, NONE, True, ORG_EX)]))
    n0 = len(jobs)
    # seeded random names over all 256 octets, incl. 63-octet labels and names at 255 octets
    for i in range(3000 if quick else 40000):
        n = rnd_name(rng)
        if rng.random() < 0.15:
            host = b"abcXYZ019-_*"
            n = [[rng.choice(host) for _ in range(rng.randint(0, 8))] + [rng.choice([9, 10, 11, 12, 13, 31, 0, 32, 127, 133, 160])]
                 for _ in range(rng.randint(1, 3))] + ([[]] if rng.random() < 0.5 else [])
        if rng.random() < 0.1:
            room = 255 - wirelen(n)
            absn = bool(n) and n[-1] == []
            body = n[:-1] if absn else n
            while room > 1:
                k = min(63, room - 1)
                body = [[rng.randrange(256) for _ in range(k)]] + body
                room -= k + 1
            n = body + ([[]] if absn else [])
        jobs.append(("rw%d" % i, "wtext", (n,)))
    # random texts: escapes, digits, dots and arbitrary octets; long labels around 63 / 64
    alpha = [92, 92, 46, 46, 48, 49, 50, 53, 54, 57, 64, 97, 65, 34, 40, 59, 32, 200, 255]
    for i in range(5000 if quick else 60000):
        r = rng.random()
        if r < 0.7:
            tx = [rng.choice(alpha) for _ in range(rng.randint(1, 12))]
        elif r < 0.85:
            k = rng.choice([62, 63, 64, 65])
            tx = [97] * k + rng.choice([[], [46], [46, 98], [92, 48, 48, 49]])
        else:
            lab = [97] * 63
            tx = []
            for _ in range(rng.choice([3, 4])):
                tx += lab[:rng.choice([59, 60, 61, 62, 63])] + [46]
            tx += rng.choice([[], [98], [98, 46]])
        jobs.append(("rp%d" % i, "ptext", (tx,)))
        if all(c < 128 and c not in (32, 34, 40, 41, 59, 9, 10) for c in tx):
            jobs.append(("rk%d" % i, "tok", [(tx, rng.choice([NONE, ORG_ROOT, ORG_EX]), rng.random() < 0.5, rng.choice([NONE, ORG_EX]))]))
    ctx.extra.setdefault("universe", {}).update({"names_text": len(names), "texts": len(texts)})
    ctx.extra["random_text_cases"] = len(jobs) - n0
    return jobs


def tokseq_jobs(ctx, quick, tokpairs, rng):
    """several names through ONE tokenizer / several from_text calls in one process, with origins and
    relativize_to that differ only in letter case, and the same text under different origins"""
    jobs = []
    calls = {}
    for c1, c2 in tokpairs:
        jobs.append(("q%d" % len(jobs), "tokseq", [c1, c2]))
        for c in (c1, c2):
            calls[json.dumps(c)] = c
    calls = list(calls.values())
    norig = sorted({json.dumps(c[1]) for c in calls})
    for tx in sorted({json.dumps(c[0]) for c in calls}):
        os_ = [json.loads(o) for o in norig]
        jobs.append(("q%d" % len(jobs), "ptext", (json.loads(tx), os_ + os_[::-1])))
    n0 = len(jobs)
    for _ in range(1500 if quick else 20000):
        k = rng.randint(3, 7)
        base = rng.choice(calls)
        seq = []
        for _ in range(k):
            c = rng.choice(calls) if rng.random() < 0.6 else base
            if rng.random() < 0.5:
                c = [[(x ^ 0x20) if (65 <= x <= 90 or 97 <= x <= 122) and rng.random() < 0.5 else x for x in c[0]]] + c[1:]
            seq.append(c)
        jobs.append(("q%d" % len(jobs), "tokseq", seq))
    ctx.extra.setdefault("universe", {}).update({"tokenizer_call_pairs": len(tokpairs), "tokenizer_calls": len(calls)})
    ctx.extra["random_tokenizer_sequences"] = len(jobs) - n0
    return jobs


def rnd_message(rng):
    """a plausible compressed message fragment: names sharing suffixes, then corrupted"""
    import io

    import dns.name
    f = io.BytesIO()
    f.write(bytes(rng.choice([0, 0, 3, 12])))
    table = {}
    starts = []
    base = [rnd_label(rng, 8) for _ in range(rng.randint(0, 3))]
    for _ in range(rng.randint(1, 5)):
        labels = [rnd_label(rng, rng.choice([4, 8, 63])) for _ in range(rng.randint(0, 2))] + base[rng.randint(0, len(base)):] + [[]]
        if wirelen(labels) > 255:
            continue
        starts.append(f.tell())
        dns.name.Name([bytes(x) for x in labels]).to_wire(f, table)
    wire = bytearray(f.getvalue())
    for _ in range(rng.choice([0, 0, 1, 1, 2])):
        if wire:
            i = rng.randrange(len(wire))
            wire[i] = rng.choice([0, 1, 63, 64, 128, 191, 192, 193, 255, rng.randrange(256), wire[i] ^ 0x40, wire[i] ^ 0x80])
    if rng.random() < 0.2 and wire:
        del wire[rng.randrange(len(wire)):]
    return list(wire), starts or [0]


def wire_jobs(ctx, quick, plain, segs, wnames, rng):
    jobs = []
    for i, (buf, start) in enumerate(plain):
        jobs.append(("d%d" % i, "decode", (buf["base"], buf["tail"], start)))
    for i, (buf, start) in enumerate(segs):
        jobs.append(("s%d" % i, "decode", (buf["base"], buf["tail"], start)))
    n0 = len(jobs)
    for i in range(4000 if quick else 60000):
        wire, starts = rnd_message(rng)
        st = rng.choice(starts) if rng.random() < 0.8 else rng.randint(0, len(wire))
        jobs.append(("rd%d" % i, "decode", (0, wire, min(st, len(wire)))))
    nrand = len(jobs) - n0
    # compression: names of the universe WNames written one after the other
    absn = [n for n in wnames if n and n[-1] == []]
    reln = [n for n in wnames if not (n and n[-1] == [])]
    small = [n for n in absn if all(c in (97, 65) for x in n for c in x)]
    origins = [NONE, ORG_ROOT, ["some", [[97], []]], ["some", [[98], [65], []]]]
    k = 0

    def add(base, steps):
        nonlocal k
        jobs.append(("c%d" % k, "wwire", (base, steps)))
        k += 1
    for a in absn:
        for b in absn:
            add(0, [("write", a, NONE, True), ("write", b, NONE, True)])
    for a in small:
        for b in small:
            for c in small:
                add(0, [("write", a, NONE, True), ("write", b, NONE, True), ("write", c, NONE, True)])
    for a in reln:
        for o in origins:
            for b in small[:7]:
                add(0, [("write", a, o, True), ("write", b, NONE, True), ("plain", a, o, False), ("plain", a, o, True)])
    for base in (16376, 16380, 16381, 16382, 16383, 16384):
        for a in small[:7]:
            for b in small[:7]:
                add(base, [("write", a, NONE, True), ("write", b, NONE, True), ("write", a, NONE, True)])
    for a in absn[::3]:
        add(0, [("write", a, NONE, False), ("write", a, NONE, True), ("write", a, NONE, False), ("write", a, NONE, True)])
    n1 = len(jobs)
    for i in range(1500 if quick else 20000):
        base = rng.choice([0, 0, 0, 12, 16300, 16383])
        common = [rnd_label(rng, 6) for _ in range(rng.randint(0, 3))]
        steps = []
        for _ in range(rng.randint(1, 6)):
            lab = [rnd_label(rng, rng.choice([3, 6, 63])) for _ in range(rng.randint(0, 2))] + common[rng.randint(0, len(common)):]
            if rng.random() < 0.3:
                lab = [[(c ^ 0x20) if 65 <= c <= 90 or 97 <= c <= 122 else c for c in x] for x in lab]
            if rng.random() < 0.75:
                n, o = lab + [[]], NONE
            else:
                n, o = lab, rng.choice(origins)
            if wirelen(n) > 255:
                continue
            r = rng.random()
            steps.append(("write", n, o, rng.random() < 0.85) if r < 0.85 else ("plain", n, o, rng.random() < 0.5) if r < 0.95
                         else ("digest", n, o))
        if steps:
            add(base, steps)
    ctx.extra.setdefault("universe", {}).update({"wire_cases": len(plain), "segment_cases": len(segs), "write_scripts": n1 - n0 - nrand})
    ctx.extra["random_wire_cases"] = nrand + len(jobs) - n1
    return jobs


def length_jobs(ctx, lens):
    """every encoder on RELATIVE name x absolute origin at the 255 / 256 boundary (LenRel x LenOrg)"""
    rel = [x[1] for x in lens if x[0] == "r"]
    org = [x[1] for x in lens if x[0] == "o"]
    jobs = []
    for n in rel:
        for o in org:
            so = ["some", o]
            jobs.append(("L%d" % len(jobs), "wwire", (0, [("plain", n, so, False), ("plain", n, so, True), ("digest", n, so),
                                                          ("write", n, so, False), ("write", n, so, True)])))
    ctx.extra.setdefault("universe", {}).update({"length_rel": len(rel), "length_origins": len(org), "length_scripts": len(jobs)})
    return jobs


def cons_jobs(ctx, quick, cons, neigh, rng, strnames=()):
    jobs = []
    k = 0

    def add(kind, *args):
        nonlocal k
        jobs.append(("o%d" % k, kind, args))
        k += 1
    valid = []
    for ls in cons:
        add("construct", ls)
        if all(len(x) <= 63 for x in ls) and wirelen(ls) <= 255 and all(x != [] for x in ls[:-1]):
            valid.append(ls)
    # Name(...) from `str` labels (1..4-octet UTF-8 characters) at 63/64 and 255/256 octets
    for spec, ab in strnames:
        add("construct_str", spec, ab, False)
        if len(spec) > 1:
            add("construct_str", spec, ab, True)
    for a in valid:
        add("name", a)
        for b in valid:
            add("concat", a, b)
            add("rel", a, b)
    for n, o in neigh:
        if max([len(x) for x in n] + [0]) >= 61:
            for p in (True, False):
                add("neigh", "succ", n, o, p)
                add("neigh", "pred", n, o, p)
    n0 = len(jobs)
    for _ in range(3000 if quick else 40000):
        ls = [rnd_label(rng, rng.choice([3, 63, 64, 70])) for _ in range(rng.randint(0, 5))]
        if rng.random() < 0.2 and ls:
            ls[rng.randrange(len(ls))] = []
        if rng.random() < 0.5:
            ls.append([])
        add("construct", ls)
        spec = [[rng.randint(1, 4), rng.choice([1, 2, 15, 16, 20, 21, 22, 30, 31, 32, 33, 62, 63, 64])] for _ in range(rng.randint(1, 5))]
        add("construct_str", spec, rng.random() < 0.5, rng.random() < 0.3)
        a, b = rnd_name(rng, absolute=False), rnd_name(rng)
        if rng.random() < 0.3:
            a = [[97] * 63] * rng.choice([2, 3]) + a
            a = a if wirelen(a) <= 255 else a[1:]
        if wirelen(a) <= 255:
            add("concat", a, b)
            add("rel", a, b)
    ctx.extra.setdefault("universe", {}).update({"construct_inputs": len(cons), "valid_construct_inputs": len(valid),
                                               "str_label_names": len(strnames)})
    ctx.extra["random_constructor_cases"] = len(jobs) - n0
    return jobs


# ------------------------------------------------------------------ triage
BIGESC = re.compile(rb"\\(\d\d\d)")


def has_big_escape(octets):
    """a \\DDD escape with DDD > 255 at a position where the parser reads it as an escape"""
    i, n = 0, len(octets)
    while i < n:
        if octets[i] == 92:
            if i + 1 < n and 48 <= octets[i + 1] <= 57:
                d = octets[i + 1:i + 4]
                if len(d) == 3 and all(48 <= c <= 57 for c in d):
                    if int(bytes(d)) > 255:
                        return True
                    i += 4
                    continue
                return False
            i += 2
            continue
        i += 1
    return False


def classify(tr, line, clause):
    ev = tr["ev"]
    e = ev[line - 1] if line and 0 < line <= len(ev) else {}
    op = e.get("op", "?")
    if clause == "LibraryError" and op in ("parse", "tok"):
        rs = e["res"] if op == "parse" else [e["res"]]
        bad = [r for r in rs if r[0] == "err" and not r[2]]
        if bad and all(r[1] == "error" for r in bad) and has_big_escape(e["text"]):
            return "F1:from_text-decimal-escape-above-255:struct.error"
    if clause in ("EncodedLength", "PlainWire") and op == "plain" and e["res"][0] == "ok" and len(e["res"][1]) > 255 \
            and not (e["n"] and e["n"][-1] == []) and e["origin"][0] == "some":
        return "F36:to_wire-without-file-relative-name-plus-origin-exceeds-255"
    if clause == "Consumed" and tr.get("kind") == "decode" and op == "end" and e["res"][0] == "ok":
        seeks = [i for i, x in enumerate(ev) if x.get("op") == "seek"]
        if seeks:
            after_first_pointer = ev[seeks[0] - 1]["pos"] + 1 - tr["start"]
            later_reads = max([x["pos"] + (x.get("n", 1)) for x in ev[seeks[0]:] if x.get("op") in ("u8", "bytes")] + [0]) - tr["start"]
            if e["res"][2] == later_reads > after_first_pointer:
                return "F21:from_wire-consumed-counts-octets-read-after-following-a-pointer"
    if op in ("rel", "succ", "pred", "pair", "name", "sorted", "deepest"):
        return c06_classify(tr, line, clause)        # order clauses seen through the constructor events
    exc = ""
    for k in ("res", "fw"):
        v = e.get(k)
        if isinstance(v, list) and v and v[0] == "err" and isinstance(v[1], str):
            exc = v[1]
    return "%s:%s:%s:%s" % (clause, tr.get("kind", "-"), op, exc)


def split_traces(traces):
    text, wire, order = [], [], []
    for tr in traces:
        op = tr["ev"][0].get("op") if tr["ev"] else "?"
        if "kind" in tr:
            wire.append(tr)
        elif op in ("write", "parse", "tok"):
            text.append(tr)
        else:
            order.append(tr)
    return text, wire, order


def run(ctx):
    quick = ctx.tier == "quick"
    ctx.rule = ("universes emitted by TLC from specs/NameUniverse.tla: NamesA (names over 16 octet classes) + CtlNames (hostname-style "
                "labels with a control octet last / first / inside) -> to_text / "
                "from_text / Tokenizer.get_name under 3 origins; Texts (all texts over the escape alphabet) -> from_text, get_name; TokPairs (ordered pairs of get_name / as_name calls "
                "in ONE tokenizer whose texts, origins, relativize_to differ only in letter case) -> "
                "get_name; PlainCases (all byte strings over 11 byte classes x every start offset) and SegCases (segment "
                "level, 255/256 octets, 0x3FFF) -> recorded decoding; WNames -> all pairs / triples of compressed writes, "
                "bases around 0x3FFF; LenRel x LenOrg -> to_wire(None) / to_digestable / to_wire(file) of relative name + origin "
                "at 255/256; ConstructInputs -> constructors at 63/64 and 255/256; StrNames -> Name() from str labels of 1..4-octet characters at the same limits; plus seeded random names, "
                "texts, corrupted compressed messages and write scripts over all 256 octets. distinct = distinct (operation, "
                "arguments); all are non-trivial except the empty text / empty wire / empty name inputs")
    ctx.assumptions += ["TLC and CommunityModules Json are correct", "driver projections (drivers/c01_names.py, RecParser) are faithful",
                        "exhaustive only inside the universes of specs/NameUniverse.tla; beyond them seeded random inputs",
                        "IDNA (non-ASCII str input, to_unicode) is outside this property",
                        "a relative name's length is the length of its own labels (dns.name allows 255 there)"]
    mc = []
    try:
        _run(ctx, quick, mc)
    except BaseException:
        import traceback
        traceback.print_exc()      # shown at once; the model runs below may still be queued for TLC slots
        raise
    finally:
        for f in mc:
            try:
                f.result()
            except Exception as ex:  # noqa: BLE001 - reported below / by the main path
                ctx.log("model run failed: %s" % str(ex)[:300])
                raise


def _run(ctx, quick, mc):
    if ctx.replay_case:
        job = ctx.replay_case["case"]["job"]
        jobs = [(job[0], job[1], job[2])]
        traces = [c01_names.run_job(jobs[0])]
    else:
        ex = cf.ThreadPoolExecutor(max_workers=8)
        tier = "quick" if quick else "thorough"
        # quick: single-worker model runs (one TLC slot each; the machine-wide slot throttle starves
        # multi-worker requests when many checks run at once); they overlap with the validation
        if not os.environ.get("VERIF_C01_SKIP_MC"):      # (development aid: validation without the model runs)
            mc += _models(ctx, ex, tier)
        gens = {k: ex.submit(gen, ctx, k, quick) for k in ("namesA", "texts", "wires", "segs", "wnames", "cons", "neigh", "len", "ctl", "strnames", "tokpairs")}
        g = {k: f.result() for k, f in gens.items()}
        rng = random.Random(2000 + ctx.seed)
        jobs = text_jobs(ctx, quick, g["namesA"] + g["ctl"], g["texts"], rng)
        jobs += tokseq_jobs(ctx, quick, g["tokpairs"], rng)
        jobs += wire_jobs(ctx, quick, g["wires"], g["segs"], g["wnames"], rng)
        jobs += length_jobs(ctx, g["len"])
        jobs += cons_jobs(ctx, quick, g["cons"], g["neigh"], rng, g["strnames"])
        ctx.log("%d jobs to run on the implementation" % len(jobs))
        traces = ctx.pmap(c01_names.run_job, jobs, chunk=1000)
        ctx.log("implementation runs done")
    _validate(ctx, jobs, traces)


def _models(ctx, ex, tier):
    return [ex.submit(ctx.model, "MC_NameText", "MC_NameText_%s.cfg" % tier, workers=1 if tier == "quick" else 12),
              ex.submit(ctx.model, "MC_NameWire", "MC_NameWire_%s.cfg" % tier, workers=1 if tier == "quick" else 12),
              ex.submit(ctx.model, "MC_DnsName", "MC_DnsName_cons.cfg", workers=1)]


def _validate(ctx, jobs, traces):
    jobmap = {j[0]: j for j in jobs}
    ctx.distinct = set(json.dumps(j[1:], separators=(",", ":")) for j in jobs if j[2] not in (([],), ([], 0, [], 0)))
    ctx.evaluations = sum(len(tr["ev"]) for tr in traces)
    text, wire, order = split_traces(traces)
    for tr in text[:1] + text[len(text) // 2:len(text) // 2 + 1] + wire[2000:2001] + wire[-1:] + order[-1:]:
        ctx.sample(tr)
    # drift (exact escaping, exact compression choice: deterministic parts of the model) is judged by
    # the strict configurations in a side thread while the hard clauses are validated
    def strict_runs():
        return (ctx.validate("Trace_NameText", "Trace_NameText_strict.cfg", [tr for tr in text if tr["ev"][0]["op"] == "write"]),
                ctx.validate("Trace_NameWire", "Trace_NameWire_strict.cfg", [tr for tr in wire if tr.get("kind") == "write"]))
    side = cf.ThreadPoolExecutor(max_workers=1)
    fut = side.submit(strict_runs)
    rejects = []
    try:
        rejects += ctx.validate("Trace_NameText", "Trace_NameText.cfg", text)
        rejects += ctx.validate("Trace_NameWire", "Trace_NameWire.cfg", wire)
        rejects += ctx.validate("Trace_DnsName", "Trace_DnsName.cfg", order)
    finally:
        d1, d2 = fut.result()
    bad = {tr["tid"] for tr, _, _ in rejects}
    d1 = [r for r in d1 if r[0]["tid"] not in bad]          # a trace that fails a hard clause is not drift
    d2 = [r for r in d2 if r[0]["tid"] not in bad]
    ctx.traces = len(text) + len(wire) + len(order)
    ctx.drift = len(d1) + len(d2)
    ctx.extra["drift_detail"] = {"text_not_exact": len(d1), "compression_not_exact": len(d2)}
    for tr, line, clause in rejects:
        sig = classify(tr, line, clause)
        e = tr["ev"][line - 1] if line else {}
        ctx.violation(clause, sig, "trace %s event %s: %s" % (tr["tid"], line, json.dumps(e)[:300]),
                      {"job": jobmap.get(tr["tid"]), "line": line, "trace": tr})
