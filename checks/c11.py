"""C11 - versioned-zone readers see one immutable snapshot; version retention is sound."""
import json

from drivers import c11_versioned

LEVEL = "model_checking"
META = {
    "text": "VersionedZone.tla specifies version retention and snapshot isolation of a multi-version zone (one action per "
            "public call: reader(latest|id|serial), ending a reader, writer begin/stage/commit/rollback, set_max_versions, "
            "set_pruning_policy, mutation attempts). TLC checks its invariants exhaustively on a bounded instance (ids strictly "
            "increase, retained versions are a contiguous run containing the newest and every pinned version, pruning is exact "
            "w.r.t. the policy, committed versions and reader views never change). TLC then emits an EDGE COVER of the bounded "
            "state graph (every transition, reached by a shortest script) plus seeded long simulations; each script is replayed "
            "single-threaded on dns.versioned.Zone and dns.btreezone.Zone (relativize on/off) and after every call the retained "
            "ids, every retained version's content, the registered readers and what every open reader observes through "
            "iterate_rdatasets/get/get_node/iterate_names/name_exists are validated by TLC against the specification. "
            "Immutability: ValueObjectVZ.tla has no action for a successful mutation; for every object reachable from a read "
            "transaction the driver discovers every call that changes a mutable twin of the object and applies it to the real "
            "object; TLC accepts the trace only if every such call raised and left object and zone unchanged, and the spec's "
            "mutator catalogue was covered.",
    "note": "Exhaustive inside the MC/Gen constants (<=2-3 readers, <=3-5 commits, 3-5 contents, histories <=8-10 calls); deeper "
            "histories are seeded TLC simulations. Single-threaded: writer admission/blocking is C12. Attribute rebinding on "
            "plain-Python helper objects (BTree internals, Transaction, Zone) is treated as a bypass, not as a mutator. "
            "Trusted: TLC, the Json module, the projections in drivers/c11_versioned.py and drivers/c11_probe.py.",
    "technique": "TLA+ specification + TLC exhaustive check; TLC-generated edge cover and simulations replayed on the code; "
                 "TLC trace validation; twin-witnessed mutator enumeration judged by a TLA+ value-object specification",
    "design_ref": "DESIGN.md section 4, C11",
}
ZCONFIGS = [(zc, rel) for zc in ("versioned", "btree") for rel in (True, False)]
ALL_OPS = ["open", "openid", "openserial", "openboth", "close", "begin", "stage", "commit", "rollback", "setmax", "setpolicy",
           "mutate", "zmutate"]
SCRIBBLE = ["scribble"]
FAULT = ["commitfault", "reuse"]

GEN_CFG = """INIT GInit
NEXT GNext
{mode}
CONSTANTS
  Contents <- {contents}
  Rids = {rids}
  MaxVersionArgs = {maxargs}
  CustomPolicies = {policies}
  IdArgs = {idargs}
  SerialArgs = {serialargs}
  GenDepth = {depth}
  Ops = {ops}
  InitKinds = {initkinds}
  InitContents <- {initcontents}
  MaxCommits = {maxcommits}
  CloseHows = {closehows}
  EndHows = {endhows}
  IdOffsets <- {idoffsets}
  Styles <- {styles}
CHECK_DEADLOCK FALSE
"""
EDGE = "VIEW vars\nACTION_CONSTRAINT EmitEdge"
SIM = "INVARIANT Emit"


def tset(xs):
    return "{" + ", ".join(json.dumps(x) if isinstance(x, str) else str(x) for x in xs) + "}"


def gen_cfg(ctx, name, **kw):
    d = dict(mode=EDGE, contents="GenContentsSmall", rids=tset([1, 2]), maxargs=tset([0, 1, 2]),
             policies=tset(["oddid", "oldserial", "none"]), idargs=tset([1, 2, 3, 9]), serialargs=tset([0, 1, 7]),
             depth=7, ops=tset(ALL_OPS), initkinds=tset(["fresh"]), initcontents="GenInitOne", maxcommits=3,
             closehows=tset(["rollback"]), endhows=tset(["commit", "rollback"]), idoffsets="GenNoOffsets", styles="GenStyleOwn")
    d.update(kw)
    return ctx.cfg(name, GEN_CFG.format(**d))


def classify(tr, line, clause):
    """Case signature of a rejected trace (matched against known_findings.json).
    D1 = the initial (empty, id 1) version of a new zone is a mutable WritableVersion: a
    mutation attempted through a reader pinned on it succeeds."""
    ev = tr["ev"]
    e = ev[line - 1] if line and 0 < line <= len(ev) else {}
    op = e.get("op", "?")
    zc = tr.get("zclass")
    if tr.get("part") == "probe":
        if (tr.get("fresh") and tr.get("vkind") == "WritableVersion" and tr.get("vid") == 1 and op == "call"
                and e.get("kind") in ("version", "nodes", "zone")
                and clause in ("MutatorRefused", "ObjectUnchanged", "SnapshotUnchanged")):
            return "D1:initial-version-mutable:%s" % zc
        return "%s:probe:%s:%s:%s:%s:%s" % (clause, zc, tr.get("which"), e.get("kind"), e.get("m"), e.get("args"))
    if (op in ("mutate", "zmutate") and clause in ("MutatorRefused", "ZoneMutatorRefused")
            and e.get("vkind") == "WritableVersion" and e.get("vid", 1) == 1 and ev[0].get("kind") == "fresh"
            and ev[0].get("vkinds") == ["WritableVersion"]):
        # only the calls that go through the version / its node map may have succeeded
        bad = [w for w, r in zip(e.get("what", []), e.get("raised", [])) if not r]
        if bad and all(w.startswith(("version.", "setattr version.", "zone.__setitem__", "zone.nodes.")) for w in bad):
            return "D1:initial-version-mutable:%s" % zc
    if (op == "begin" and zc == "btree" and e.get("repl") is False and e.get("exc") == "ValueError"
            and ev[0].get("kind") == "fresh" and ev[0].get("vkinds") == ["WritableVersion"] and e.get("vids") == [1]):
        # D2 (same root cause as D1): the first non-replacement writer of a new B-tree zone cannot clone
        # the initial version, which was never frozen
        return "D2:btree-first-writer-on-new-zone:ValueError"
    return "%s:%s:%s:%s:%s:%s" % (clause, op, e.get("how", e.get("p", "")), zc, "rel" if tr.get("rel") else "abs", e.get("exc", ""))


def nontrivial(script):
    ops = [e["op"] for e in script]
    return "end" in ops and "open" in ops


def run(ctx):
    import os
    quick = ctx.tier == "quick"
    # C11_FAST=1: a strict subset of the quick tier (used by tools/c11_mutants.py only)
    fast = quick and os.environ.get("C11_FAST") == "1"
    ctx.rule = ("behaviours = history scripts emitted by TLC from Gen_VersionedZone: an edge cover of the bounded state graph "
                "(every transition, each reached by a shortest script) from a new zone and from loaded zones, plus seeded "
                "-simulate histories; each replayed on versioned/btree zones x relativize; plus one immutability examination "
                "per (zone class, relativize, snapshot); distinct = distinct (script, zone config); non-trivial = the script "
                "opens a reader and ends a write transaction")
    ctx.assumptions += ["TLC and CommunityModules Json are correct",
                        "driver projections (drivers/c11_versioned.py, drivers/c11_probe.py) are faithful",
                        "single-threaded histories only (writer admission is C12)",
                        "exhaustive only inside the constants of the MC/Gen configs; beyond them seeded simulation",
                        "attribute rebinding on BTree/Transaction/Zone helper objects is a bypass, not a mutator"]
    jobmap = {}
    probe_jobs = []
    if ctx.replay_case:
        case = ctx.replay_case["case"]
        if case.get("part") == "probe":
            probe_jobs = [("probe", case["zclass"], case["rel"], case["fresh"], case["which"], "replay")]
            jobs = []
        else:
            if case.get("random"):
                jobs = [("random", case["random"][0], case["random"][1], case["random"][2], case["zclass"], case["rel"], "replay")]
            else:
                jobs = [(case["script"], case["zclass"], case["rel"], "replay")]
        jobmap = {"replay": jobs[0]} if jobs else {}
    else:
        # (C11_WORKERS: development aid - a single-worker TLC needs one slot of the machine-wide throttle)
        mcw = int(os.environ.get("C11_WORKERS", "16"))
        if not fast:
            ctx.model("MC_VersionedZone", "MC_VersionedZone_quick.cfg" if quick else "MC_VersionedZone_thorough.cfg", workers=mcw)
            ctx.model("MC_ValueObjectVZ", "MC_ValueObjectVZ.cfg", workers=mcw)
        # vacuity: the interesting situations are reachable in the bounded instance
        for vac in () if fast else ("Vac_PrunedWhilePinned", "Vac_PolicyKeeps"):
            cfg = open(ctx_spec("MC_VersionedZone_quick.cfg")).read().replace("INVARIANT TypeOK", "INVARIANT " + vac)
            cfg = "\n".join(ln for ln in cfg.splitlines() if not ln.startswith("PROPERTY")
                            and not (ln.startswith("INVARIANT") and vac not in ln)) + "\n"
            r = ctx.model("MC_VersionedZone", ctx.cfg("vac_%s.cfg" % vac, cfg), expect_ok=False, count=False, workers=mcw)
            if r.violated != vac:
                from vlib.core import Machinery
                raise Machinery("vacuity witness %s is not reachable (violated=%s errors=%s)" % (vac, r.violated, r.errors[:2]))
        scripts = []
        # E1: every transition of the bounded model from a NEW zone
        scripts += ctx.generate("Gen_VersionedZone", gen_cfg(ctx, "e1.cfg", depth=5 if fast else 6 if quick else 8))
        # E2: every transition from a LOADED zone, more contents and handles, no refused-call noise
        scripts += ctx.generate("Gen_VersionedZone", gen_cfg(
            ctx, "e2.cfg", initkinds=tset(["loaded"]), initcontents="GenInitTwo" if not quick else "GenInitOne",
            contents="GenContentsSmall" if quick else "GenContentsMid", rids=tset([1, 2, 3]),
            maxargs=tset([1, 2] if quick else [1, 2, 3]), policies=tset(["oddid", "oldserial"]),
            idargs=tset([2, 3, 4] if quick else [2, 3, 4, 5]), serialargs=tset([0, 1, 2] if quick else [0, 1, 2, 3]),
            ops=tset([o for o in ALL_OPS if o not in ("openboth", "mutate", "zmutate")] + SCRIBBLE + FAULT),
            styles="GenStyleE2" if quick else "GenStyleE2T",
            depth=5 if quick else 7, maxcommits=4 if quick else 5,
            closehows=tset(["commit", "exit"]), endhows=tset(["exit", "raise"])))
        nany = len(scripts)
        # E3 (B-tree zones only): every transition of a model whose contents add / remove an NS
        # delegation ABOVE a name that exists already and is not written by that transaction
        # (the zone re-flags such nodes as glue / not glue), with mutation attempts on every
        # reachable node and the caller re-using the Rdataset objects it handed in
        scripts += ctx.generate("Gen_VersionedZone", gen_cfg(
            ctx, "e3.cfg", initkinds=tset(["loaded"]), initcontents="GenInitDeleg", contents="GenContentsDeleg",
            rids=tset([1, 2]), maxargs=tset([2]), policies="{}", idargs=tset([2, 3]), serialargs="{}",
            ops=tset(["open", "openid", "close", "begin", "stage", "commit", "setmax", "mutate"] + SCRIBBLE),
            styles="GenStyleE3", depth=5 if quick else 7, maxcommits=3 if quick else 4,
            closehows=tset(["exit"]), endhows=tset(["commit"])))
        btree_only = scripts[nany:]
        scripts = scripts[:nany]
        # S1: long random histories from loaded zones, every call
        n = 0 if fast else 600 if quick else 12000
        d = 20 if quick else 40
        simkw = dict(mode=SIM, initcontents="GenInitTwo", contents="GenContents", rids=tset([1, 2, 3]), maxargs=tset([0, 1, 2, 3]),
                     idargs=tset([1]), idoffsets="GenIdOffsets", serialargs=tset([0, 1, 2, 3]), depth=d, maxcommits=12,
                     closehows=tset(["commit", "rollback", "exit"]), endhows=tset(["commit", "exit", "rollback", "raise"]),
                     styles="GenStyleAll")
        if n:
            scripts += ctx.generate("Gen_VersionedZone", gen_cfg(ctx, "s1.cfg", initkinds=tset(["loaded"]), ops=tset(ALL_OPS + SCRIBBLE + FAULT), **simkw),
                                    simulate="num=%d" % n, depth=d + 2, seed=ctx.seed + 1, deadlock=False)
        # S2: long random histories from a new zone (mutation attempts through the initial
        # version are covered by E1; here they would end every history at its first one)
        if n:
            scripts += ctx.generate("Gen_VersionedZone", gen_cfg(
                ctx, "s2.cfg", initkinds=tset(["fresh"]), ops=tset([o for o in ALL_OPS if o not in ("mutate", "zmutate")] + FAULT), **simkw),
                simulate="num=%d" % (n // 2), depth=d + 2, seed=ctx.seed + 2, deadlock=False)
        scripts = [json.loads(x) for x in dict.fromkeys(json.dumps(s, sort_keys=True) for s in scripts)]
        btree_only = [json.loads(x) for x in dict.fromkeys(json.dumps(s, sort_keys=True) for s in btree_only)]
        jobs = []
        for i, s in enumerate(scripts):
            # quick: one of the four zone configurations per script (rotating); thorough: two
            cfgs = [ZCONFIGS[i % 4]] if quick else [ZCONFIGS[i % 4], ZCONFIGS[(i // 4 + i + 1) % 4]]
            for zc, rel in dict.fromkeys(cfgs):
                jobs.append((s, zc, rel, "s%d.%s.%s" % (i, zc, "rel" if rel else "abs")))
        BT = [c for c in ZCONFIGS if c[0] == "btree"]
        for i, s in enumerate(btree_only):
            for zc, rel in ([BT[i % 2]] if quick else BT):
                jobs.append((s, zc, rel, "d%d.%s.%s" % (i, zc, "rel" if rel else "abs")))
        scripts = scripts + btree_only
        # R: seeded random walks weighted towards many live versions and readers
        nr = 240 if fast else 1200 if quick else 20000
        for i in range(nr):
            zc, rel = ZCONFIGS[i % 4]
            fresh = i % 5 == 0
            steps = 30 + (i % 7) * 10 if quick else 30 + (i % 10) * 10
            jobs.append(("random", ctx.seed * 1000003 + i, steps, fresh, zc, rel, "r%d.%s.%s" % (i, zc, "rel" if rel else "abs")))
        jobmap = {j[-1]: j for j in jobs}
        for zc, rel in ZCONFIGS:
            # snapshots: the version that put a delegation above existing names (v1), the one that
            # removed it again (latest), the first load (v0, B-tree only), and a new zone
            snaps = ((False, "latest"), (False, "v1"), (True, "latest")) + (((False, "v0"),) if zc == "btree" else ())
            for fresh, which in snaps:
                probe_jobs.append(("probe", zc, rel, fresh, which, "p.%s.%s.%s.%s" % (zc, "rel" if rel else "abs",
                                                                                     "fresh" if fresh else "loaded", which)))
        ctx.extra["scripts"] = len(scripts)
        ctx.extra["random_walks"] = nr
        ctx.extra["nontrivial_scripts"] = sum(1 for s in scripts if nontrivial(s))
        ctx.distinct = set(j[-1] for j in jobs if j[0] == "random" or nontrivial(j[0]))
    # ---- run the real code
    rejects = []       # (trace, line, clause) of rejected histories
    ntraces = nevents = 0
    first = []
    if len(jobs) + len(probe_jobs) <= 2:
        traces = [c11_versioned.run_job(j) for j in jobs]
        ptraces = [c11_versioned.run_job(j) for j in probe_jobs]
        ntraces, nevents, first = len(traces), sum(len(tr["ev"]) for tr in traces), traces[:2]
        rejects = ctx.validate("Trace_VersionedZone", "Trace_VersionedZone.cfg", traces) if traces else []
    else:
        # one pool: the (few, long) immutability examinations start first, one per task, and run
        # alongside the (many, short) histories.  Histories are replayed AND validated in batches so
        # that the recorded traces of the thorough tier (~ 10^7 events) never sit in memory at once
        # (an unbatched thorough run was OOM-killed at 18 GB).
        import multiprocessing as mp
        BATCH = 60000
        with mp.get_context("fork").Pool(16) as pool:
            pending = pool.map_async(c11_versioned.run_job, probe_jobs, chunksize=1)
            for k in range(0, len(jobs), BATCH):
                part = jobs[k:k + BATCH]
                traces = pool.map(c11_versioned.run_job, part, chunksize=max(1, len(part) // 256))
                ntraces += len(traces)
                nevents += sum(len(tr["ev"]) for tr in traces)
                if not first:
                    first = traces[:2]
                rejects += ctx.validate("Trace_VersionedZone", "Trace_VersionedZone.cfg", traces)
                del traces
            ptraces = pending.get()
    for tr in ptraces:
        tr["part"] = "probe"
    ctx.log("replayed and validated %d histories (%d rejected); %d immutability examinations" % (ntraces, len(rejects), len(ptraces)))
    for tr in first:
        ctx.sample({"tid": tr["tid"], "ev": tr["ev"][:3]})
    for tr in ptraces[:1]:
        ctx.sample({"tid": tr["tid"], "ev": [e for e in tr["ev"] if e["op"] == "call"][:4]})
    ncalls = sum(1 for tr in ptraces for e in tr["ev"] if e.get("op") == "call")
    ctx.extra["history_events"] = nevents
    ctx.extra["mutator_calls_witnessed"] = ncalls
    ctx.extra["objects_examined"] = sum(1 for tr in ptraces for e in tr["ev"] if e.get("op") == "obj")
    ctx.extra["noop_variant_calls"] = sum(1 for tr in ptraces for e in tr["ev"] if e.get("op") == "noop")
    silent = {}
    for tr in ptraces:
        for e in tr["ev"]:
            if e.get("op") == "noop" and e.get("res") != "err":
                k = "%s %s.%s%s" % (e["kind"], e["cls"], e["m"], e["args"])
                silent[k] = silent.get(k, 0) + 1
    # not hidden: every mutator call with no-op arguments that returned instead of raising
    ctx.extra["noop_calls_that_returned_silently"] = silent
    ctx.evaluations = ntraces + ncalls
    # ---- judge
    prejects = ctx.validate("Trace_ValueObjectVZ", "Trace_ValueObjectVZ.cfg", ptraces) if ptraces else []
    for tr, line, clause in rejects:
        sig = classify(tr, line, clause)
        e = tr["ev"][line - 1] if line else {}
        brief = {k: v for k, v in e.items() if k not in ("obs", "vcont")}
        job = jobmap.get(tr["tid"], (None,))
        script = None if job[0] == "random" else job[0]
        ctx.violation(clause, sig, "zone=%s relativize=%s event %s: %s" % (tr.get("zclass"), tr.get("rel"), line, json.dumps(brief)[:400]),
                      {"script": script, "random": tr.get("random"), "zclass": tr.get("zclass"), "rel": tr.get("rel"), "line": line,
                       "trace": tr})
    for tr, line, clause in prejects:
        sig = classify(tr, line, clause)
        e = tr["ev"][line - 1] if line else {}
        obj = {}
        for prev in tr["ev"][:line or 0]:
            if prev.get("op") == "obj":
                obj = prev
        ctx.violation(clause, sig, "zone=%s relativize=%s snapshot=%s object=%s (%s) event %s: %s" % (
            tr.get("zclass"), tr.get("rel"), "new zone" if tr.get("fresh") else tr.get("which"), obj.get("label"), obj.get("cls"),
            line, json.dumps(e)[:300]),
            {"part": "probe", "zclass": tr.get("zclass"), "rel": tr.get("rel"), "fresh": tr.get("fresh"), "which": tr.get("which"),
             "line": line, "object": obj, "event": e})


def ctx_spec(name):
    import os
    from vlib import tlc
    return os.path.join(tlc.SPECS, name)


def selftest(ctx):
    """Corrupt single logged fields of good traces and require that the trace
    specifications reject every corrupted trace (and accept the originals)."""
    import copy
    good = [c11_versioned.run_job(("random", 4242 + i, 40, False, zc, rel, "g%d" % i)) for i, (zc, rel) in enumerate(ZCONFIGS)]
    rej = ctx.validate("Trace_VersionedZone", "Trace_VersionedZone.cfg", good)
    ok = not rej
    print("selftest: %d good history traces, rejected=%d" % (len(good), len(rej)))
    bad = []

    def pick(tr, pred):
        for i, e in enumerate(tr["ev"]):
            if i > 0 and pred(e):
                return i
        return None

    def corrupt(name, base, pred, fn):
        tr = copy.deepcopy(base)
        i = pick(tr, pred)
        if i is None:
            print("selftest: no event for", name)
            return
        fn(tr["ev"][i])
        tr["tid"] = name
        bad.append(tr)

    b = good[0]
    corrupt("drop-oldest-retained-id", b, lambda e: len(e["vids"]) >= 2,
            lambda e: (e["vids"].pop(0), e["vcont"].pop(0)))
    corrupt("extra-retained-id", b, lambda e: True, lambda e: (e["vids"].insert(0, 0), e["vcont"].insert(0, [1, []])))
    corrupt("reader-sees-other-serial", b, lambda e: len(e["obs"]) >= 1, lambda e: e["obs"][0]["iter"].__setitem__(0, e["obs"][0]["iter"][0] + 1))
    corrupt("reader-get-sees-extra-item", b, lambda e: len(e["obs"]) >= 1, lambda e: e["obs"][0]["get"][1].append(["b", 7]))
    corrupt("reader-names-missing-apex", b, lambda e: len(e["obs"]) >= 1 and "@" in e["obs"][0]["names"], lambda e: e["obs"][0]["names"].remove("@"))
    corrupt("reader-on-other-version", b, lambda e: len(e["obs"]) >= 1, lambda e: e["obs"][0].__setitem__("vid", e["obs"][0]["vid"] + 1))
    corrupt("reader-not-registered", b, lambda e: len(e["rd"]) >= 1, lambda e: e["rd"].pop())
    corrupt("old-version-content-changed", b, lambda e: len(e["vcont"]) >= 2, lambda e: e["vcont"][0].__setitem__(0, e["vcont"][0][0] + 5))
    corrupt("open-outcome-flipped", b, lambda e: e["op"] == "open" and e["res"] == "err", lambda e: e.__setitem__("res", "ok"))
    corrupt("mutator-succeeded", b, lambda e: e["op"] in ("mutate", "zmutate"), lambda e: e["raised"].__setitem__(0, False))
    rej = ctx.validate("Trace_VersionedZone", "Trace_VersionedZone.cfg", bad)
    rejected = {r[0]["tid"]: r[2] for r in rej}
    for tr in bad:
        print("selftest: %-32s %s" % (tr["tid"], "rejected (%s)" % rejected[tr["tid"]] if tr["tid"] in rejected else "ACCEPTED"))
        ok = ok and tr["tid"] in rejected
    # immutability traces
    p = c11_versioned.run_job(("probe", "btree", True, False, "latest", "pgood"))
    rej = ctx.validate("Trace_ValueObjectVZ", "Trace_ValueObjectVZ.cfg", [p])
    print("selftest: good immutability trace rejected=%d" % len(rej))
    ok = ok and not rej
    pbad = []
    for name, fn in (("call-succeeded", lambda e: e.__setitem__("res", "ok")),
                     ("object-changed", lambda e: e.__setitem__("after", "0" * 12)),
                     ("zone-changed", lambda e: e.__setitem__("world", "0" * 12)),
                     ("trivial-call", lambda e: e.__setitem__("twin", False))):
        tr = copy.deepcopy(p)
        i = [k for k, e in enumerate(tr["ev"]) if e["op"] == "call"][37]
        fn(tr["ev"][i])
        tr["tid"] = name
        pbad.append(tr)
    tr = copy.deepcopy(p)
    tr["ev"] = [e for e in tr["ev"] if not (e["op"] == "call" and e["kind"] == "rdataset" and e["m"] == "update_ttl")]
    tr["tid"] = "catalogue-entry-never-attempted"
    pbad.append(tr)
    rej = ctx.validate("Trace_ValueObjectVZ", "Trace_ValueObjectVZ.cfg", pbad)
    rejected = {r[0]["tid"]: r[2] for r in rej}
    for tr in pbad:
        print("selftest: %-32s %s" % (tr["tid"], "rejected (%s)" % rejected[tr["tid"]] if tr["tid"] in rejected else "ACCEPTED"))
        ok = ok and tr["tid"] in rejected
    print("selftest:", "OK" if ok else "FAILED")
    return 0 if ok else 1
