"""C16 - stub resolution reaches the documented outcome under every fault sequence;
the synchronous and asynchronous resolvers take identical decisions."""
import concurrent.futures as cf
import json

from drivers import c16_resolver

LEVEL = "model_checking"
META = {
    "text": "Resolution.tla specifies the stub-resolution loop (candidate names by search list/ndots, rounds over the "
            "usable servers, drop/keep/TCP-retry decision per reply, back-off re-arm, per-query budget = min(remaining "
            "lifetime, timeout), cache under the queried name, result classification) and Chaining.tla what is "
            "extracted from one response (CNAME walk bounded by 16, minimum TTL, negative TTL from the closest SOA). "
            "TLC checks their invariants/action properties/termination on bounded universes, then enumerates "
            "environment scripts (configuration, resolve() calls, per-query outcome and clock advance) exhaustively "
            "for small bounds and by seeded simulation for long ones. Each script is run through the real "
            "dns.resolver.Resolver.resolve and dns.asyncresolver.Resolver.resolve with scripted Nameserver objects and "
            "a virtual clock; Trace_Resolution requires every recorded query (server, tcp, timeout, question), sleep "
            "and ending (class, Answer rrset/canonical name/expiration, cache contents) to be a step of the "
            "specification, and the async log to equal the sync log. Trace_Chaining does the same for "
            "resolve_chaining on the response universe. NameserverGlue.tla specifies what a nameserver object must "
            "hand to its transport; the real Do53/DoH/DoT/DoQ nameserver classes are run (query and async_query) over "
            "recording transport stubs and validated by Trace_NameserverGlue, and resolver scripts are also run with "
            "real Do53Nameserver objects over those stubs.",
    "note": "Exhaustive only inside the Gen/MC constants (<=3 servers, <=3 candidates, <=3-5 queries per resolution, small "
            "outcome alphabets); longer sequences and the full alphabet are seeded TLC simulations. The network is replaced "
            "at the dns.nameserver.Nameserver interface, time by vlib/vclock.py (1/16 s ticks); real sockets, rotate=True, "
            "DoH/DoT/DoQ, trio and thread-safety are out of scope. Trusted: TLC, the Json module, the projection in "
            "drivers/c16_resolver.py.",
    "technique": "TLA+ specification + TLC model checking; TLC-generated fault scripts replayed on the code; TLC trace validation",
    "design_ref": "DESIGN.md section 4, C16",
}

GEN_CFG = """INIT GInit
NEXT {next}
CONSTANTS
  Configs <- {configs}
  StartTimes = {{{t0}}}
  MaxRes = {maxres}
  MaxQ = {maxq}
  MaxBack = {maxback}
  TicksPerSec = 16
  MaxChain = 16
  BackoffTable <- GBackoff
  Requests <- {requests}
  IdleAdvances = {idle}
  Outcomes <- {outcomes}
  Advances <- {advances}
INVARIANT {emit}
CHECK_DEADLOCK FALSE
"""

GLUE_GEN_CFG = """INIT Init
NEXT Next
CONSTANTS
  Calls <- MCCalls
  Replies <- MCReplies
INVARIANT Emit
CHECK_DEADLOCK FALSE
"""

CHAIN_GEN_CFG = """INIT Init
NEXT Next
CONSTANTS
  MaxChain = 16
  MaxLen = {maxlen}
INVARIANT Emit
CHECK_DEADLOCK FALSE
"""


def gen_cfg(ctx, name, **kw):
    d = dict(next="GNext", emit="Emit", configs="GCfgSwitches", t0=1600, maxres=1, maxq=3, maxback=1, requests="GReqRel", idle="{0}",
             outcomes="GOutSmall", advances="GAdvSmall")
    d.update(kw)
    return ctx.cfg(name, GEN_CFG.format(**d))


def script_key(s):
    return json.dumps(s, sort_keys=True, separators=(",", ":"))


def nontrivial(s):
    """A script is non-trivial if some query did not simply succeed: it contains at least
    one failing/negative outcome, a second resolution, or a clock jump."""
    outs = [e for e in s if e["op"] == "out"]
    if sum(1 for e in s if e["op"] == "begin") > 1 or len(outs) > 1:
        return True
    return any(e["out"]["k"] == "exc" or e["out"]["rcode"] != "NOERROR" or e["adv"] != 0 for e in outs)


def classify(tr, line, clause):
    if "call" in tr:   # nameserver glue case
        ev = tr.get("ev", [])
        e = ev[line - 1] if line and 0 < line <= len(ev) else {}
        c = tr["call"]
        return "%s:glue:%s:%s:maxsize=%s:reply=%s" % (clause, c.get("kind"), e.get("mode", "?"), c.get("maxsize"), tr.get("reply"))
    ev = tr.get("ev", [])
    e = ev[line - 1] if line and 0 < line <= len(ev) else {}
    cfg = tr.get("cfg", {})
    last = {}
    beg = {}
    for x in ev[:max(0, (line or 1) - 1)]:
        if x.get("op") == "query":
            last = x
        elif x.get("op") == "begin":
            beg = x
    lo = last.get("out", {})
    prev = lo.get("x") if lo.get("k") == "exc" else lo.get("rcode", "-")
    return "%s:%s:%s:after=%s:res=%s:q=%s/%s:rsf=%s:tcp=%s:cache=%s" % (
        clause, tr.get("mode", "?"), e.get("op", "?"), prev, e.get("res", "-"), beg.get("qtype", "-"), beg.get("qclass", "-"),
        cfg.get("rsf"), cfg.get("tcp"), cfg.get("cache"))


def run(ctx):
    quick = ctx.tier == "quick"
    ctx.rule = ("behaviours = environment scripts (resolver configuration, resolve() calls, per-query outcome and clock "
                "advance) enumerated by TLC from Gen_Resolution (exhaustive small universes + seeded -simulate), each run "
                "through the sync and the async resolver; plus the response universe of MC_Chaining through "
                "resolve_chaining; distinct = distinct scripts / responses; non-trivial = the script contains a failing "
                "or negative outcome, a clock jump, several queries or several resolutions")
    ctx.assumptions += ["TLC and CommunityModules Json are correct",
                        "driver projection (drivers/c16_resolver.py) is faithful; the network is replaced at the "
                        "dns.nameserver.Nameserver interface and time by a virtual clock with 1/16 s ticks",
                        "exhaustive only inside the constants of the MC/Gen configs; beyond them seeded simulation",
                        "the environment sets the clock back at most MaxBack times per resolution (otherwise no resolver terminates)"]
    if ctx.replay_case:
        case = ctx.replay_case["case"]
        if case.get("kind") == "glue":
            tr = c16_resolver.glue_job((case["script"], "replay"))
            rejects = ctx.validate("Trace_NameserverGlue", "Trace_NameserverGlue.cfg", [tr])
            report(ctx, rejects, {"replay": case["script"]}, "glue")
        elif case.get("kind") == "chain":
            tr = c16_resolver.chain_job((case["script"], "replay"))
            rejects = ctx.validate("Trace_Chaining", "Trace_Chaining.cfg", [tr])
            report(ctx, rejects, {"replay": case["script"]}, "chain")
        else:
            traces = c16_resolver.run_job((case["script"], "replay"))
            rejects = ctx.validate("Trace_Resolution", "Trace_Resolution.cfg", traces)
            report(ctx, rejects, {"replay": case["script"]}, "resolution")
        ctx.evaluations = ctx.traces
        return

    # ---------------------------------------------------------------- the specifications
    # TLC workers of the model runs: JVM slots are shared machine-wide and a multi-worker run needs five
    # of them at once, which starves when many checks run; the quick models are small enough for one worker
    W = 1 if quick else 8   # only for the one large model (MC_Resolution_thorough, 1.4e6 states)
    pool = cf.ThreadPoolExecutor(max_workers=8)   # independent TLC runs (models and generators) side by side
    models = [pool.submit(ctx.model, "MC_Chaining", "MC_Chaining_quick.cfg" if quick else "MC_Chaining_thorough.cfg", workers=1),
              pool.submit(ctx.model, "MC_Resolution", "MC_Resolution_quick.cfg" if quick else "MC_Resolution_thorough.cfg", workers=W),
              pool.submit(ctx.model, "MC_Resolution", "MC_Resolution_cache.cfg" if quick else "MC_Resolution_cache_thorough.cfg", workers=1),
              pool.submit(ctx.model, "MC_Resolution", "MC_Resolution_live.cfg" if quick else "MC_Resolution_live2.cfg", workers=1)]

    # ---------------------------------------------------------------- Chaining on the code
    models.append(pool.submit(ctx.model, "MC_NameserverGlue", "MC_NameserverGlue.cfg", workers=1))
    glue_gen = pool.submit(ctx.generate, "MC_NameserverGlue", ctx.cfg("gglue.cfg", GLUE_GEN_CFG))
    gens = []

    def gen(*a, **kw):
        gens.append(pool.submit(ctx.generate, *a, **kw))

    chain_gen = pool.submit(ctx.generate, "MC_Chaining", ctx.cfg("gchain.cfg", CHAIN_GEN_CFG.format(maxlen=2 if quick else 3)))
    submit_generators(ctx, quick, gen)
    # wait for every TLC run before any worker process is forked (no fork while threads are running)
    cases = chain_gen.result()
    scripts = []
    for f in gens:
        scripts += f.result()
    for f in models:
        f.result()
    pool.shutdown()
    # ---------------------------------------------------------------- the nameserver glue on the code
    gcases = glue_gen.result()
    gjobs = [(c, "n%d" % i) for i, c in enumerate(gcases)]
    gtraces = ctx.pmap(c16_resolver.glue_job, gjobs)
    ctx.extra["nameserver_glue_cases"] = len(gcases)
    rejects = ctx.validate("Trace_NameserverGlue", "Trace_NameserverGlue.cfg", gtraces, shards=2)
    report(ctx, rejects, {j[1]: j[0] for j in gjobs}, "glue")
    for c in gcases:
        ctx.note_distinct("glue:" + script_key(c))
    ctx.sample({"nameserver_glue": gtraces[len(gtraces) // 3]})

    cjobs = [(c, "c%d" % i) for i, c in enumerate(cases)]
    ctraces = ctx.pmap(c16_resolver.chain_job, cjobs)
    ctx.extra["chaining_cases"] = len(cases)
    rejects = ctx.validate("Trace_Chaining", "Trace_Chaining.cfg", ctraces, shards=4)
    report(ctx, rejects, {j[1]: j[0] for j in cjobs}, "chain")
    for c in cases:   # non-trivial: the response has an answer or authority section, or is not a plain NOERROR
        if c["msg"]["ans"] or c["msg"]["auth"] or c["msg"]["rcode"] != "NOERROR":
            ctx.note_distinct("chain:" + script_key(c))
    ctx.extra["observation_unbounded_negative_ttl_cases"] = sum(
        1 for tr in ctraces if tr["ev"][0].get("err") == "" and tr["ev"][0].get("ttl") == c16_resolver.UNBOUNDED)
    ctx.sample({"chaining": ctraces[len(ctraces) // 2]["ev"][0]})

    # ---------------------------------------------------------------- Resolution on the code
    seen = set()
    uniq = []
    for s in scripts:
        k = script_key(s)
        if k not in seen:
            seen.add(k)
            uniq.append(s)
    ctx.extra["scripts"] = len(scripts)
    ctx.extra["distinct_scripts"] = len(uniq)
    jobs = [(s, "s%d" % i) for i, s in enumerate(uniq)]
    pairs = ctx.pmap(c16_resolver.run_job, jobs)
    traces = [tr for pair in pairs for tr in pair]
    nq = sum(1 for tr in traces for e in tr["ev"] if e.get("op") == "query")
    ctx.extra["queries_issued_by_the_code"] = nq
    ctx.extra["resolutions"] = sum(1 for tr in traces for e in tr["ev"] if e.get("op") == "end")
    ctx.extra["max_queries_in_one_resolution"] = max_queries(traces)
    endings = {}
    for tr in traces:
        for e in tr["ev"]:
            if e.get("op") == "end":
                endings[e.get("res", "?")] = endings.get(e.get("res", "?"), 0) + 1
    ctx.extra["endings"] = endings
    for s in uniq:
        if nontrivial(s):
            ctx.note_distinct("res:" + script_key(s))
    ctx.extra["nontrivial_scripts"] = sum(1 for s in uniq if nontrivial(s))
    for tr in traces[:2]:
        ctx.sample({"tid": tr["tid"], "ev": [{k: v for k, v in e.items() if k != "cache"} for e in tr["ev"][:4]]})
    rejects = ctx.validate("Trace_Resolution", "Trace_Resolution.cfg", traces)
    report(ctx, rejects, {j[1]: j[0] for j in jobs}, "resolution")
    ctx.evaluations = ctx.traces


def submit_generators(ctx, quick, gen):
    # G1: every switch combination (retry_servfail x tcp x raise_on_no_answer), two servers, one search
    #     domain: all outcome sequences of length <= 3 over the small alphabet x {instant, whole timeout}
    gen("Gen_Resolution", gen_cfg(ctx, "g1.cfg", maxq=3))
    if not quick:
        gen("Gen_Resolution", gen_cfg(ctx, "g1b.cfg", configs="GCfgSwitches4", maxq=4))
    # G2: search list / domain / ndots / search flag shapes: all candidates get NXDOMAIN or time out
    gen("Gen_Resolution", gen_cfg(ctx, "g2.cfg", configs="GCfgSearch", requests="GReqSearch",
                                                      outcomes="GOutNx", advances="GAdvZero", maxq=4 if quick else 5))
    # G3: two resolutions sharing a cache (Cache and LRUCache), clock advance in between
    gen("Gen_Resolution", gen_cfg(ctx, "g3.cfg", configs="GCfgCache1" if quick else "GCfgCache",
                                                      requests="GReqRel" if quick else "GReqBoth", outcomes="GOutCache",
                                                      advances="GAdvZero", maxres=2, maxq=2, idle="{0, 16, 96}"))
    # G8: the question's class and type: two (thorough: three) resolutions sharing one cache, same and different
    #     names x classes {IN, CH} x types {A, TXT}; answer / empty answer / NXDOMAIN; entries alive or expired
    gen("Gen_Resolution", gen_cfg(ctx, "g8.cfg", configs="GCfgClass", requests="GReqClass", outcomes="GOutClass",
                                  advances="GAdvZero", maxres=2, maxq=1, idle="{0, 96}"))
    # G9: end to end with REAL dns.nameserver.Do53Nameserver objects over stubbed dns.query / dns.asyncquery
    #     transports (a reply with TC raises Truncated only if the glue asked UDP to): all outcome sequences <= 3
    gen("Gen_Resolution", gen_cfg(ctx, "g9.cfg", configs="GCfgGlue", requests="GReqAbs", outcomes="GOutGlue",
                                  advances="GAdvZero", maxq=3 if quick else 4))
    # G10: the address lookup resolve_name(name, AF_UNSPEC) = AAAA then A for the candidate the first lookup settled
    #      on: relative name, 1-2 search domains, search flag / use_search_by_default, every outcome per query
    gen("Gen_Resolution", gen_cfg(ctx, "g10.cfg", next="GNextName", emit="EmitName", configs="GCfgNameQ" if quick else "GCfgName",
                                  requests="GReqNameQ" if quick else "GReqName", outcomes="GOutName",
                                  advances="GAdvSmall", maxres=2, maxq=2 if quick else 3))
    # G4: one and three servers, every way of failing
    gen("Gen_Resolution", gen_cfg(ctx, "g4.cfg", configs="GCfgThree" if quick else "GCfgOneThree",
                                                      requests="GReqAbs", outcomes="GOutFail10" if quick else "GOutFailing",
                                                      advances="GAdvZero", maxq=3))
    # G5: clock: every advance (incl. past the lifetime and set back) on a short alphabet
    gen("Gen_Resolution", gen_cfg(ctx, "g5.cfg", configs="GCfgClock", requests="GReqAbs",
                                                      outcomes="GOutClock", advances="GAdvFull", maxq=3 if quick else 4, maxback=2))
    # G6: long random behaviours over everything
    n = 2000 if quick else 40000
    gen("Gen_Resolution", gen_cfg(ctx, "g6.cfg", next="GNextSim", configs="GCfgAll", requests="GReqAll",
                                                      outcomes="GOutFull", advances="GAdvFull", maxres=3, maxq=14, maxback=2,
                                                      idle="{0, 16, 96, 4800}"),
                            simulate="num=%d" % n, depth=160, seed=ctx.seed + 1, deadlock=False)
    # G7: random behaviours in which nothing ever succeeds (long runs through the back-off table)
    n2 = 1000 if quick else 20000
    gen("Gen_Resolution", gen_cfg(ctx, "g7.cfg", next="GNextSim", configs="GCfgAll", requests="GReqAll",
                                                      outcomes="GOutFailing", advances="GAdvMid", maxres=2, maxq=20, maxback=0,
                                                      idle="{0, 16}"),
                            simulate="num=%d" % n2, depth=240, seed=ctx.seed + 2, deadlock=False)


def max_queries(traces):
    best = 0
    for tr in traces:
        n = 0
        for e in tr["ev"]:
            if e.get("op") == "begin":
                n = 0
            elif e.get("op") == "query":
                n += 1
                best = max(best, n)
    return best


def report(ctx, rejects, scripts, kind):
    for tr, line, clause in rejects:
        sig = classify(tr, line, clause)
        e = tr["ev"][line - 1] if line and 0 < line <= len(tr["ev"]) else {}
        base = tr["tid"].rsplit(".", 1)[0] if kind == "resolution" else tr["tid"]
        if kind == "glue":
            e = {k: v for k, v in e.items() if k != "args"} if clause == "SyncAsyncIdentical" else e
        script = scripts.get(base, scripts.get("replay"))
        small = {k: v for k, v in tr.items() if k != "peer"}
        ctx.violation(clause, sig, "%s %s event %s: %s" % (kind, tr.get("mode", ""), line, json.dumps(e)[:300]),
                      {"kind": kind, "script": script, "line": line, "trace": small})
