"""C08 - rendered messages respect the size limit; truncation and padding are exact."""
import json

from drivers import c08_limits

LEVEL = "model_checking"
META = {
    "text": "Renderer.tla specifies the budgeted renderer (reserve/release, whole-record-set rollback) and the composite "
            "rendering of a message with OPT/TSIG reserve, truncation and padding; TLC checks I1-I8 (ResultOk) for the intended "
            "reserve policy on every limit of every message of a bounded universe (MC_RendererLimits). Message scripts come "
            "from Gen_Renderer; for each script x EDNS x pad x TSIG key x prefer_truncation and EVERY max_size from 512 to "
            "total+1 the real Message.to_wire runs with a recording subclass of the real Renderer; Trace_RendererLimits "
            "requires every recorded step to be the model's action (position, counts, budget, table after rollbacks) and the "
            "returned octets to satisfy I1-I8, decoded with the specification's own decoder.",
    "note": "Exhaustive over limits and configurations for the generated messages (seeded TLC simulation picks the "
            "messages; the number of messages is the tier's bound). TSIG MAC and time are observed values. Trusted: TLC, "
            "Json module, the recording subclass and projection in drivers/c08_limits.py.",
    "technique": "TLA+ model of the budgeted renderer, TLC exhaustive check of I1-I8; every-limit replay on the code; "
                 "TLC trace validation with an independent wire decoder",
    "design_ref": "DESIGN.md section 4, C08",
}
EX = [101, 120]
KEYS = {"none": [], "unrelated": [[107, 101, 121]], "shared": [[107], EX]}       # key. / k.ex.
EDNS = {"off": ["none"], "on": ["edns", 0, 0, 1232, []], "opts": ["edns", 0, 32768, 4096, [[10, [7] * 8], [15, [1, 1, 1]]]]}
PADS = [0, 16, 128, 468]
# an OPT that already carries a PADDING option (a forwarder re-rendering a parsed padded query, or a caller-supplied
# option): empty and non-empty
# ... and an OPT whose options are held as the library's TYPED option objects with bodies whose text length differs from
# their octet length (EDE, RFC 8914, EXTRA-TEXT "\u00e9\u00e9\u20ac" = 7 octets / 3 characters)
EDNS_X = {"padopt0": ["edns", 0, 0, 1232, [[12, []]]], "padopt5": ["edns", 0, 0, 1232, [[12, [0] * 5], [10, [7] * 8]]],
          "ede8": ["edns", 0, 0, 1232, [[15, [0, 1, 0xC3, 0xA9, 0xC3, 0xA9, 0xE2, 0x82, 0xAC]], [3, [0xC3, 0xA9]]]]}
ALG = lambda name: [list(l.encode()) for l in name.split(".")]
ALG256 = ALG("hmac-sha256")
# every HMAC TSIG algorithm of RFC 8945 table 6.1, truncated variants included (MAC sizes 16..64)
ALGS = [ALG(a) for a in ("hmac-sha256-128", "hmac-sha384-192", "hmac-sha512-256", "hmac-sha1", "hmac-sha224", "hmac-sha384",
                         "hmac-sha512", "hmac-md5.sig-alg.reg.int")]
BADTIME = {"terr": 18, "other": [0, 0, 95, 94, 16, 0], "alg": ALG256}   # TSIG error BADTIME with its 6-octet other data
NOERR = {"terr": 0, "other": [], "alg": ALG256}
# the message rendered is one PARSED from signed wire (tsig present, not re-signed: a forwarder), not one built fresh
PARSED = {**NOERR, "src": "parsed"}


def tset(xs):
    return "{" + ", ".join(json.dumps(x) if isinstance(x, str) else str(x).upper() if isinstance(x, bool) else str(x) for x in xs) + "}"


def gen_scripts(ctx, n, seed):
    from checks import c03
    cfg = c03.gen_cfg(ctx, "c08g.cfg", opcodes=tset([0]), maxrecs=5, names=tset([2, 3, 5]), targets=tset([2, 5]),
                      kinds=tset(["A", "NS", "TXT"]), edns=tset(["off"]), txt=tset([100, 200]), txtn=tset([1, 2, 3]))
    return ctx.generate("Gen_Renderer", cfg, simulate="num=%d" % n, depth=10, seed=seed, deadlock=False)


def configs(extras=True, pads=None, edns=None, keys=None, quick=False):
    """(edns name, edns, pad, key name, key, tsig extras, pt)"""
    for en, ed in EDNS.items():
        if edns and en not in edns:
            continue
        for pad in ((pads or PADS) if en != "off" else [0]):
            for kn, key in KEYS.items():
                if keys and kn not in keys:
                    continue
                for pt in (False, True):
                    yield en, ed, pad, kn, key, NOERR, pt
    for pt in ((False, True) if extras else ()):
        for pad in ((0, 16) if quick else (0, 16, 128)):
            # TSIG with an error and other data (BADTIME response)
            yield "on", EDNS["on"], pad, "badtime", KEYS["shared"], BADTIME, pt
            # OPT already holding a PADDING option
            for en, ed in EDNS_X.items():
                for kn in ("none", "shared"):
                    yield en, ed, pad, kn, KEYS[kn], NOERR, pt
        for pad in ((0, 128) if quick else (0, 16, 128)):
            for kn in ("shared", "unrelated"):
                yield "on", EDNS["on"], pad, kn + "-parsed", KEYS[kn], PARSED, pt
        # the other TSIG algorithms (different MAC sizes)
        for pad in ((128,) if quick else (16, 128)):
            for a in ALGS:
                yield "on", EDNS["on"], pad, "shared-" + bytes(a[0]).decode(), KEYS["shared"], {**NOERR, "alg": a}, pt


def classify(tr, line, clause):
    cfg = tr["cfg"]
    ev = tr["ev"]
    e = ev[line - 1] if line and 0 < line <= len(ev) else {}
    edns = tr["hdr"]["edns"][0] == "edns"
    if clause == "I8_PadMultiple" and cfg["pad"] > 0 and cfg["key"] and e.get("op") == "done":
        # F7: the TSIG owner was written compressed (its size was reserved / padded for uncompressed)
        tsig = [x for x in ev if x.get("op") == "tsigrr"]
        plain = sum(len(l) + 1 for l in cfg["key"]) + 1
        if tsig and tsig[0]["res"] == "ok":
            k = ev.index(tsig[0])
            rdlen = sum(len(l) + 1 for l in cfg["alg"]) + 1 + 16 + len(tsig[0]["mac"]) + len(cfg.get("other", []))
            owner = tsig[0]["pos"] - ev[k - 1]["pos"] - (10 + rdlen)
            if owner < plain:
                return "F7:pad+tsig-owner-compressed:I8_PadMultiple"
    if clause == "TruncationPreferredButRaised" and cfg["pad"] > 0 and cfg["pt"] and edns:
        # F18: the padded OPT (or the TSIG after it) overflowed although only pad's 4-octet header was reserved
        last = [x for x in ev if x.get("op") in ("opt", "tsigrr")]
        if last and last[-1]["res"] == "toobig":
            return "F18:pad+prefer_truncation-opt-reserve-omits-padding:TooBig"
    return "%s:%s:pad%d:%s:%s:pt%d" % (clause, e.get("op", "?"), cfg["pad"], "edns" if edns else "noedns",
                                       "tsig" if cfg["key"] else "notsig", int(cfg["pt"]))


def _rr(sec, name, kind, k, nrd=1, n1=()):
    return {"op": "rr", "sec": sec, "name": name, "kind": kind, "n1": list(n1), "n2": [], "k": k, "nrd": nrd,
            "ttl": [0, 300], "form": "plain"}


A_EX = [[97], EX]
B_A_EX = [[98], [97], EX]
# one fixed member of the Gen_Renderer universe that is always included: in every section a large record set is
# followed by small ones, so "skip the set that does not fit and carry on" differs from "keep a prefix"
SEED_MESSAGE = [{"op": "hdr", "id": 4660, "opcode": 0, "bits": 256, "rcode": 0, "origin": False, "edns": ["none"]},
                {"op": "q", "name": A_EX, "type": 1, "cls": 1},
                _rr(1, A_EX, "TXT", 100, 2), _rr(1, B_A_EX, "TXT", 200), _rr(1, B_A_EX, "A", 1, 2),
                _rr(2, A_EX, "TXT", 100), _rr(2, A_EX, "NS", 1, 1, B_A_EX),
                _rr(3, B_A_EX, "TXT", 100), _rr(3, [[111, 116, 104, 101, 114]], "A", 1),
                {"op": "end"}]


def sweep_jobs():
    """padding boundary sweep: question-name label of 1..32 octets (32 consecutive message sizes) x pad {16,32,128} x TSIG
    key {sharing a suffix, unrelated}: every residue of the pre-padding size modulo the block is hit, in particular the
    one where the PADDING option is EMPTY"""
    jobs = []
    for ln in range(1, 33):
        for en, ed in [("on", EDNS["on"])] + list(EDNS_X.items()):
            sc = [{"op": "hdr", "id": 4660, "opcode": 0, "bits": 256, "rcode": 0, "origin": False, "edns": ed},
                  {"op": "q", "name": [[120] * ln, EX], "type": 1, "cls": 1}, {"op": "end"}]
            for pad in (16, 32, 128):
                for kn, tx in [("shared", NOERR), ("unrelated", NOERR), ("shared", BADTIME), ("shared", PARSED)] + (
                        [("shared", {**NOERR, "alg": a}) for a in ALGS] if en == "on" else []):
                    for pt in (False, True):
                        jobs.append(("sweep.q%d.%s.p%d.%s%d.%s%s.pt%d" % (ln, en, pad, kn, tx["terr"], bytes(tx["alg"][0]).decode(), tx.get("src", ""), pt), sc,
                                     {"pad": pad, "key": KEYS[kn], "pt": pt, "max": 512, **tx}))
    return jobs


def big_jobs():
    """the upper end of the limit: a body just above 64 KiB (two 33 000-octet opaque records) rendered with max_size
    65535, 65536 and 2^20 (the effective limit is clamped to 65535: too-big, or truncation when preferred)"""
    big = lambda name: {"op": "rr", "sec": 1, "name": name, "kind": "BIG", "n1": [], "n2": [], "k": 33000, "nrd": 1,
                        "ttl": [0, 300], "form": "plain"}
    jobs = []
    for en in ("off", "on"):
        sc = [{"op": "hdr", "id": 4660, "opcode": 0, "bits": 256, "rcode": 0, "origin": False, "edns": EDNS[en]},
              {"op": "q", "name": A_EX, "type": 1, "cls": 1}, big(A_EX), big(B_A_EX), {"op": "end"}]
        for mx in (65535, 65536, 1 << 20):
            for pt in (False, True):
                for kn in ("none", "shared"):
                    jobs.append(("big.%s.%d.%s.pt%d" % (en, mx, kn, pt), sc,
                                 {"pad": 0, "key": KEYS[kn], "pt": pt, "max": mx, **NOERR}))
    return jobs


def make_jobs(ctx, scripts, want, lo=520, hi=900, extras_all=True, qscripts=(), qwant=0):
    jobs = []
    used = 0
    nq = len([s for s in qscripts][:qwant])
    scripts = [SEED_MESSAGE] + list(qscripts)[:qwant] + list(scripts)
    want += nq
    for i, s in enumerate(scripts):
        if used >= want:
            break
        base = dict(s[0])
        plain = c08_limits.total_size(s, {"pad": 0, "key": [], "pt": False, "max": 65535, **NOERR})
        if not (lo <= plain <= hi):
            continue
        used += 1
        # quick: the BADTIME / existing-PADDING-option configurations run on the seed message (and in the sweep) only
        if i == 0 or (extras_all and i <= nq):
            cfgs = configs(True, quick=not extras_all)       # full product + BADTIME / PADDING / EDE / algorithm extras
        elif extras_all:
            cfgs = configs(False)                             # thorough, simulated messages: the base product
        elif 1 <= i <= nq:      # quick, multi-question message: reduced product
            cfgs = configs(False, [0, 128], ("off", "on"), ("none", "shared"))
        else:                   # quick, simulated message: reduced product
            cfgs = configs(False, [0, 128], None, ("none", "shared"))
        for en, ed, pad, kn, key, tx, pt in cfgs:
            h = dict(base)
            h["edns"] = ed
            sc = [h] + s[1:]
            cfg0 = {"pad": pad, "key": key, "pt": pt, "max": 65535, **tx}
            total = c08_limits.total_size(sc, cfg0)
            for mx in range(512, max(total + 1, 513) + 1):
                cfg = dict(cfg0)
                cfg["max"] = mx
                jobs.append(("m%d.%s.p%d.%s.pt%d.%d" % (i, en, pad, kn, pt, mx), sc, cfg))
            if pt and total > 520:
                # the SAME message object rendered twice: truncated first, then complete (TCP retry), and the reverse;
                # also a limit at which only ADDITIONAL records are dropped
                for small in sorted({512, (512 + total) // 2, total - 1}):
                    for seq in ([(small, True), (65535, False)], [(65535, False), (small, True)],
                                [(small, True), (small, True)]):
                        cfg = dict(cfg0)
                        cfg["seq"] = seq
                        jobs.append(("m%d.%s.p%d.%s.seq%d.%s" % (i, en, pad, kn, small, "-".join(str(x[0]) for x in seq)),
                                     sc, cfg))
    return jobs, used


def low_level_part(ctx, quick):
    """the low-level Renderer under small budgets through BOTH entry points (add_rrset and add_rdataset): overflow,
    whole-set rollback, counts and table after the rollback, header written afterwards (Trace_Renderer judges)"""
    from checks import c03
    from drivers import c03_message
    S = ctx.generate("Gen_Renderer", c03.gen_cfg(ctx, "c08low.cfg", names=tset([2, 3]), targets=tset([3]), kinds=tset(["A", "NS"]),
                                                 maxrecs=2 if quick else 3, maxes=tset([45, 150] if quick else [45, 56, 150]), tsigsel=tset([False, True])))
    jobs = [("low%d.%s" % (i, mode), s, mode) for i, s in enumerate(S) for mode in ("low", "lowrds")]
    traces = ctx.pmap(c03_message.run_job, jobs)
    ctx.extra["low_level_traces"] = len(traces)
    jm = {j[0]: j for j in jobs}
    for tr, line, clause in ctx.validate("Trace_Renderer", "Trace_Renderer.cfg", traces):
        e = tr["ev"][line - 1] if line else {}
        ctx.violation(clause, "lowlevel:" + c03.classify(tr, line, clause),
                      "low-level Renderer, entry point %s, event %s: %s" % (tr.get("mode"), line, json.dumps(e)[:240]),
                      {"lowlevel": True, "script": jm[tr["tid"]][1], "mode": tr.get("mode"), "line": line, "trace": tr})


def run(ctx):
    quick = ctx.tier == "quick"
    ctx.rule = ("renderings = message script (TLC simulation of Gen_Renderer, kept when 520..900 octets) x EDNS {off,on,options} "
                "x pad {0,16,128,468} x TSIG {none, unrelated key, key sharing a suffix} x prefer_truncation x EVERY max_size "
                "512..total+1; plus a padding boundary sweep (32 consecutive question lengths x pad {16,32,128} x 2 keys); distinct = distinct (message, configuration, limit); non-trivial = limit below the total size")
    ctx.assumptions += ["TLC and CommunityModules Json are correct", "recording subclass / projection in drivers/c08_limits.py is faithful",
                        "TSIG MAC and signing time are observed values (C14 covers their correctness)",
                        "messages are chosen by seeded simulation; limits and configurations are exhaustive for each"]
    ctx.log("start")
    if ctx.replay_case:
        case = ctx.replay_case["case"]
        if case.get("lowlevel"):
            from drivers import c03_message
            from checks import c03
            tr = c03_message.run_job(("replay", case["script"], case["mode"]))
            for tr, line, clause in ctx.validate("Trace_Renderer", "Trace_Renderer.cfg", [tr]):
                ctx.violation(clause, "lowlevel:" + c03.classify(tr, line, clause), "low-level replay", case)
            return
        jobs = [("replay", case["script"], case["cfg"])]
        r = c08_limits.run_job(jobs[0])
        traces = r if isinstance(r, list) else [r]
    else:
        ctx.model("MC_RendererLimits", "MC_RendererLimits_quick.cfg" if quick else "MC_RendererLimits_thorough.cfg", workers=1)
        scripts = gen_scripts(ctx, 60 if quick else 400, ctx.seed + 1)
        from checks import c03
        # messages with several questions whose long, incompressible names alone exceed the 512-octet floor
        qscripts = ctx.generate("Gen_Renderer", c03.gen_cfg(
            ctx, "c08q.cfg", names=tset([7, 8, 9]), kinds=tset(["A"]), maxrecs=1, qmax=3, qsel=tset([True]), secs=tset([1, 3])))
        qscripts = [s for s in qscripts if sum(1 for e in s if e["op"] == "q") == 3]
        jobs, used = make_jobs(ctx, scripts, 2 if quick else 14, extras_all=not quick, qscripts=qscripts[1::7],
                               qwant=1 if quick else 3)
        low_level_part(ctx, quick)
        jobs += sweep_jobs()
        jobs += big_jobs()
        ctx.extra["messages"] = used
        ctx.log("%d messages -> %d renderings" % (used, len(jobs)))
        # drive and validate in batches so that the traces of a thorough run never sit in memory at once
        rejects = []
        seqjobs = {}
        ntr = 0
        distinct = set()
        BATCH = 60000
        for b in range(0, len(jobs), BATCH):
            part = jobs[b:b + BATCH]
            traces = []
            for j, r in zip(part, ctx.pmap(c08_limits.run_job, part)):
                if isinstance(r, list):       # repeated renderings of one message object: one trace each
                    traces += r
                    for tr in r:
                        seqjobs[tr["tid"]] = j
                else:
                    traces.append(r)
            distinct.update(tr["tid"] for tr in traces if tr["ev"][-1].get("res") != "ok" or any(
                x.get("res") == "toobig" for x in tr["ev"]))
            if b == 0:
                for tr in traces[:1]:
                    ctx.sample({"tid": tr["tid"], "cfg": tr["cfg"],
                                "ev": [{k: v for k, v in e.items() if k not in ("table", "wire", "mac")} for e in tr["ev"][:6]]})
            ntr += len(traces)
            rejects += ctx.validate("Trace_RendererLimits", "Trace_RendererLimits.cfg", traces)
            del traces
        ctx.distinct = distinct
        ctx.evaluations = ntr + ctx.extra.get("low_level_traces", 0)
    jobmap = {j[0]: j for j in jobs}
    if ctx.replay_case:
        ctx.evaluations = len(traces)
        rejects = ctx.validate("Trace_RendererLimits", "Trace_RendererLimits.cfg", traces)
    else:
        jobmap.update(seqjobs)
    for tr, line, clause in rejects:
        sig = classify(tr, line, clause)
        e = tr["ev"][line - 1] if line else {}
        j = jobmap.get(tr["tid"], (None, None, None))
        ctx.violation(clause, sig, "cfg=%s event %s (%s): %s" % (json.dumps(tr["cfg"]), line, e.get("op"),
                                                               json.dumps({k: v for k, v in e.items() if k != "wire"})[:240]),
                      {"script": j[1], "cfg": j[2], "line": line, "trace": tr})


def selftest(ctx):
    """binding demo: a good trace is accepted; corrupting ONE logged field gets it rejected"""
    import copy
    ex = [101, 120]
    txt = lambda i: {"op": "rr", "sec": 1, "name": [[97 + i], ex], "kind": "TXT", "n1": [], "n2": [], "k": 100, "nrd": 1,
                     "ttl": [0, 300], "form": "plain"}
    script = [{"op": "hdr", "id": 4660, "opcode": 0, "bits": 256, "rcode": 0, "origin": False, "edns": ["edns", 0, 0, 1232, []]},
              {"op": "q", "name": [[97], ex], "type": 1, "cls": 1}] + [txt(i) for i in range(6)] + [{"op": "end"}]
    good = c08_limits.run_job(("good", script, {"pad": 0, "key": [[107, 101, 121]], "pt": True, "max": 600, **NOERR}))
    muts = []
    for name, fn in [("pos+1", lambda t: t["ev"][4].__setitem__("pos", t["ev"][4]["pos"] + 1)),
                     ("rollback outcome", lambda t: [x for x in t["ev"] if x.get("res") == "toobig"][0].__setitem__("res", "ok")),
                     ("TC bit cleared", lambda t: t["ev"][-1]["wire"].__setitem__(2, t["ev"][-1]["wire"][2] & ~2)),
                     ("ANCOUNT+1", lambda t: t["ev"][-1]["wire"].__setitem__(7, t["ev"][-1]["wire"][7] + 1)),
                     ("limit", lambda t: t["cfg"].__setitem__("max", 520)),
                     ("reserve", lambda t: t["ev"][1].__setitem__("max", t["ev"][1]["max"] + 1))]:
        t = copy.deepcopy(good)
        t["tid"] = name
        fn(t)
        muts.append(t)
    rej = ctx.validate("Trace_RendererLimits", "Trace_RendererLimits.cfg", [good] + muts)
    got = {tr["tid"]: clause for tr, line, clause in rej}
    ok = "good" not in got and all(m["tid"] in got for m in muts)
    for k, v in sorted(got.items()):
        print("selftest C08: corrupted %-16s -> rejected by clause %s" % (k, v))
    print("selftest C08: %s" % ("PASS" if ok else "FAIL"))
    return 0 if ok else 2
