"""X09 - registries (mnemonic <-> number, generic TYPEnnn / CLASSnnn forms) and the header bit-field codecs
(opcode, extended rcode, flag texts) match the Registries specification."""
import collections
import concurrent.futures as cf
import json
import os
import re

from drivers import x09_machines as drv

LEVEL = "model_checking"
META = {
    "text": "Registries.tla specifies bit fields on naturals, the RFC 1035 4.1.1 header word and the RFC 6891 6.1.3 OPT TTL "
            "as layouts (positions are derived, not written), the opcode / 12-bit rcode / flag-text codecs, the text forms "
            "of a registry (mnemonic or RFC 3597 generic form) with their laws, and two state machines (the header of a "
            "Message under set_opcode / set_rcode / flag changes / want_dnssec / use_edns; register_type). TLC checks the "
            "algebra for every width 1..8, every one of the 65536 header words, all 4096 rcodes, every value of every "
            "registry and the frame properties of the machines. TLC emits the universes; the driver evaluates the real "
            "functions on every value 0..max of 14 registries, every header word, every EDNS limb, every rcode under noise, "
            "lexical texts, token sequences and machine behaviours; Trace_Registries recomputes every logged result.",
    "note": "Exhaustive over values (all 65536 types / classes / option codes / EDE codes / SvcParamKeys, all header words); "
            "texts and machine behaviours only inside the declared universes (RegistriesUniverse.tla). The mnemonic tables "
            "are judged by the strict configuration only (drift, never an alarm). Growth check: not a listed property. "
            "Trusted: TLC, the Json module, the projection in drivers/x09_*.py.",
    "technique": "TLA+ specification + TLC exhaustive laws; TLC-enumerated inputs run on the code; TLC trace validation",
    "design_ref": "DESIGN.md section 7 (growing the specification); tools/prompts/x09.txt",
}

GEN_CFG = """INIT GInit
NEXT GNext
CONSTANTS
  Tier = "{tier}"
  Depth = {depth}
  RDepth = {rdepth}
  Kinds = {{{kinds}}}
  HSet = "{hset}"
INVARIANT Emit
CHECK_DEADLOCK FALSE
"""
STATIC = ["row", "text", "oor", "frow", "erow", "rcrow", "rcf", "rce", "ftext"]
BATCH = {"row": 1, "text": 16, "oor": 16, "frow": 1, "erow": 2, "rcrow": 1, "rcf": 4, "rce": 4, "ftext": 16}
ROW_OPS = {"row": ("name", "back", "gen", "genl", "mk", "mkn", "meta", "single", "tsig"), "frow": ("text", "back", "opc", "upd", "opf"),
           "erow": ("text", "back"), "rcrow": ("toflags", "back", "nin", "nres"), "rcf": ("res",), "rce": ("res",)}
# texts outside ASCII (declared here: TLA+ sources stay ASCII); judged "foreign" = free by the specification
FOREIGN = ["ſoa", "ıN", "TYPE١٢", "ＴＹＰＥ1", "TYPE²", "CLASS١", "١٢", "Ä", "Á"]
PINPOINT = 24


def explode(tr):
    """independent events -> one trace per event; rows -> one trace per entry (marked part)"""
    out = []
    for i, e in enumerate(tr["ev"]):
        fields = ROW_OPS.get(e.get("op"))
        n = len(e[fields[0]]) if fields else 0
        if fields and n > 1:
            for k in range(n):
                e1 = dict(e, lo=e["lo"] + k, part=True)
                for f in fields:
                    if f in e:
                        e1[f] = [e[f][k]]
                out.append({"tid": "%s/%d.%d" % (tr["tid"], i, k), "kind": tr["kind"], "ev": [e1]})
        else:
            out.append({"tid": "%s/%d" % (tr["tid"], i), "kind": tr["kind"], "ev": [e]})
    return out


def classify(tr, line, clause):
    """Case signature of a rejected trace (clause ids carry registry / value after '@')."""
    e = tr["ev"][line - 1] if line and 0 < line <= len(tr["ev"]) else {}
    op = e.get("op", "?")
    base = clause.split("@")[0]
    if op == "register" and base in ("RegisteredFromText", "RegisteredFromTextUpper", "RegisteredFromTextLower"):
        txt = clause.split("@", 1)[1] if "@" in clause else ""
        if txt != txt.upper() and e.get("out") == "ok":
            return "X09-F1:register_type:text-not-upper-case-never-parses"
    if op in ("row", "text", "oor"):
        return "%s:%s" % (clause if op == "row" else base, e.get("reg"))
    if op == "register":
        return "%s:register" % base
    if tr.get("kind") == "hb":
        return "%s:header" % base
    return "%s:%s" % (base, op)


def describe(e):
    if e.get("op") == "text":
        return "%s.from_text(%r) -> %s" % (e["reg"], e["text"], e["res"][0])
    if e.get("op") == "register":
        return "register_type(%s, %r, %s): to_text %s, from_text %s" % (e["v"], e["text"], e["single"], dict(zip(e["qv"], e["totext"])), dict(zip(e["qt"], e["fromtext"])))
    return json.dumps(e)[:300]


def gen(ctx, kinds, depth=1, rdepth=1, tag="all", hset="full"):
    cfg = ctx.cfg("gen_%s.cfg" % tag, GEN_CFG.format(tier=ctx.tier, depth=depth, rdepth=rdepth, hset=hset, kinds=", ".join('"%s"' % k for k in kinds)))
    return ctx.generate("Gen_Registries", cfg, count=False)


MC_CFG = """SPECIFICATION MCSpec
CONSTANTS
  Tier = "{tier}"
  Modes = {{{modes}}}
  MDepth = 2
  MRDepth = 2
  ValueRegs = {{{regs}}}
  Slices = {slices}
  Slice = {slice}
  Ops <- MOps
  Rcs <- MRcs
  Names <- MNames
  Vers <- MVers
  ELos <- MELos
  RVals <- GRVals
  RTexts <- GRTexts
INVARIANT FieldLaws
INVARIANT FlagsLaws
INVARIANT RcodeLaws
INVARIANT EhiLaws
INVARIANT ValueLaws
INVARIANT TextLaws
INVARIANT HeaderOK
INVARIANT RegLaws
PROPERTY OpcodeFrame
PROPERTY RcodeFrame
PROPERTY FlagFrame
PROPERTY DnssecFrame
CHECK_DEADLOCK FALSE
"""
SMALL_REGS = ["rcode", "opcode", "algorithm", "dsdigest", "nsec3hash", "section", "updsection", "zonemdscheme", "zonemdhash"]
BIG_REGS = {"quick": ["type", "class"], "thorough": ["type", "class", "option", "ede", "svcparam"]}


def model_runs(ctx):
    """MC_Registries, one TLC process (1 worker = 1 slot) per mode group / slice of the 65536-value sweeps"""
    q = lambda xs: ", ".join('"%s"' % x for x in xs)
    plan = [(["header", "reg"], [], 1, 0), (["fields"], [], 1, 0), (["rcode", "ehi", "text"], [], 1, 0), (["value"], SMALL_REGS, 1, 0)]
    plan += [(["flags"], [], 4, s) for s in range(4)]
    plan += [(["value"], [reg], 2, s) for reg in BIG_REGS[ctx.tier] for s in range(2)]

    def one(p):
        modes, regs, slices, sl = p
        name = "mc_%s_%s_%d.cfg" % ("-".join(modes)[:20], "-".join(regs)[:12], sl)
        cfg = ctx.cfg(name, MC_CFG.format(tier=ctx.tier, modes=q(modes), regs=q(regs), slices=slices, slice=sl))
        return ctx.model("MC_Registries", cfg, workers=1)

    with cf.ThreadPoolExecutor(max_workers=10) as ex:
        list(ex.map(one, plan))


def run(ctx):
    quick = ctx.tier == "quick"
    ctx.rule = ("cases = every item of the universes declared in RegistriesUniverse.tla for the tier, emitted by TLC: one row of 256 "
                "consecutive values for every registry (all values 0..max), all 65536 header words, EDNS low limbs x high limbs, all "
                "4096 rcodes x noise, from_flags over all header words / all high limbs, lexical texts, integers at the edge of the "
                "range, token sequences, behaviours of the header machine (all call sequences of the tier's depth) and of "
                "register_type; distinct non-trivial = distinct (registry, value) pairs with a mnemonic, lexical texts, token "
                "sequences and behaviours; evaluations = calls of the real functions")
    ctx.assumptions += ["TLC and CommunityModules Json are correct", "driver projection (drivers/x09_*.py) is faithful",
                        "texts and behaviours exhaustive only inside the declared universes",
                        "non-ASCII texts are free (str.upper / str.isdecimal fold some of them onto ASCII)"]
    if ctx.replay_case:
        items = [ctx.replay_case["case"]["item"]]
    else:
        if not os.environ.get("X09_SKIP_MC"):  # development / mutation harness only
            model_runs(ctx)
        items = gen(ctx, STATIC + ["hb", "rb"], depth=2, rdepth=2 if quick else 3)
        if not quick:  # deeper header behaviours over the small call universe
            items += gen(ctx, ["hb"], depth=3, tag="deep", hset="small")
        items += [["text", reg, s] for reg in ("type", "class", "rcode") for s in FOREIGN]
        ctx.extra["universe_sizes"] = dict(collections.Counter(it[0] for it in items))
        ctx.extra["exhaustive"] = True
    jobs, batch = [], collections.defaultdict(list)
    for it in items:
        k = it[0]
        if k in drv.STATEFUL:
            jobs.append(("%s%d" % (k, len(jobs)), [it]))
        else:
            batch[k].append(it)
            if len(batch[k]) >= BATCH[k]:
                jobs.append(("%s%d" % (k, len(jobs)), batch.pop(k)))
    jobs += [("%s%d" % (k, i), v) for i, (k, v) in enumerate(batch.items())]
    by_tid = {j[0]: j[1] for j in jobs}
    traces = ctx.pmap(drv.run_job, jobs)
    named = 0
    for tr in traces:
        for e in tr["ev"]:
            op = e.get("op")
            n = len(e[ROW_OPS[op][0]]) if op in ROW_OPS else 1
            ctx.evaluations += n * {"row": 8, "frow": 5, "erow": 2, "rcrow": 3, "text": 10, "ftext": 7, "register": 12}.get(op, 2)
            if op == "row":
                for k, nm in enumerate(e["name"]):
                    if not re.fullmatch(r"[A-Z]*\d+", nm):
                        ctx.distinct.add("%s=%d" % (e["reg"], e["lo"] + k))
            elif op in ("text", "ftext"):
                ctx.distinct.add(json.dumps([op, e.get("reg", e.get("which")), e.get("text", e.get("toks"))]))
        if tr["kind"] in drv.STATEFUL:
            ctx.distinct.add(json.dumps(by_tid[tr["tid"]]))
    for k in ("row", "text", "ftext", "hb", "rb"):
        for tr in [x for x in traces if x["kind"] == k][:1]:
            ctx.sample({"tid": tr["tid"], "item": by_tid[tr["tid"]][0], "ev": [json.dumps(e)[:160] for e in tr["ev"][:2]]})

    # hard clauses: batched first; rejected batches again event by event / row entry by row entry
    rejects = ctx.validate("Trace_Registries", "Trace_Registries.cfg", traces)
    stateless = [r for r in rejects if r[0]["kind"] not in drv.STATEFUL]
    final = [r for r in rejects if r[0]["kind"] in drv.STATEFUL]
    if stateless:
        singles = [s for tr, _, _ in stateless[:PINPOINT] for s in explode(tr)]
        again = ctx.validate("Trace_Registries", "Trace_Registries.cfg", singles)
        final += again if again else stateless[:PINPOINT]  # never lose a rejection
        final += stateless[PINPOINT:]
    for tr, line, clause in final:
        e = tr["ev"][line - 1] if line and line <= len(tr["ev"]) else {}
        parts = tr["tid"].split("/")
        its = by_tid.get(parts[0], [None])
        idx = int(parts[1].split(".")[0]) if len(parts) > 1 and tr["kind"] not in drv.STATEFUL else 0
        ctx.violation(clause, classify(tr, line, clause), describe(e), {"item": its[idx] if idx < len(its) else its[0], "event": e})
    ctx.extra["rejected_by_signature"] = dict(collections.Counter(v.sig for v in ctx.violations))

    # drift: tables, output order, error classes, collisions (never an alarm)
    bad = {tr["tid"] for tr, _, _ in rejects}
    soft = [tr for tr in traces if tr["tid"] not in bad]
    if quick and not ctx.replay_case:  # drift only: the quick tier judges every fourth header behaviour (deterministic)
        hb = [tr["tid"] for tr in soft if tr["kind"] == "hb"]
        keep = set(hb[::4])
        soft = [tr for tr in soft if tr["kind"] != "hb" or tr["tid"] in keep]
        ctx.extra["strict_header_behaviours"] = "%d of %d" % (len(keep), len(hb))
    drift = ctx.validate("Trace_Registries", "Trace_Registries_strict.cfg", soft)
    ctx.traces -= len(soft)  # the same traces, judged a second time
    ctx.drift = len(drift)
    ctx.extra["drift_detail"] = dict(collections.Counter(c.split("@")[0] + "@" + "@".join(c.split("@")[1:2]) for _, _, c in drift))
    ctx.extra["foreign_accepted"] = sorted({"%s:%s" % (e["reg"], e["text"]) for tr in traces for e in tr["ev"]
                                            if e.get("op") == "text" and e["text"] in FOREIGN and e["res"][0][0] == "ok"})
