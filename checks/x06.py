"""X06 - DNS UPDATE message construction (RFC 2136 2.3-2.5) and message header / EDNS state.
Growth of the specification beyond C01-C20 (DESIGN.md section 7); not in MANIFEST.json."""
import json
import os

from drivers import x06_header, x06_update
from vlib.core import Machinery

LEVEL = "model_checking"
META = {
    "text": "UpdateMsg.tla transcribes RFC 2136 2.3-2.5 as the effect of every dns.update.UpdateMessage call form "
            "(present/absent/add/delete/replace x name / type / rdataset / rdata / text) on the four sections; TLC checks "
            "that every message the API can build passes the server-side scans of RFC 2136 3.2.5 / 3.4.1.3, that replace = "
            "delete-rrset then add, that no call touches another section; TLC-generated call histories are replayed on "
            "the real class, and Trace_UpdateMsg requires the sections projected from the object after every call, from "
            "the octets of to_wire() (driver's own parser) and from from_wire() to equal the model's.  MsgHeader.tla models "
            "flags / EDNS state (make_query, use_edns, want_dnssec, set_rcode/rcode with the 12-bit split of RFC 6891 "
            "6.1.3, set_opcode, ednsflags, wire round trip, make_response, is_response); histories are replayed on real "
            "messages and Trace_MsgHeader compares every documented field after every call.",
    "note": "Exhaustive inside the declared universes only (all histories of <= 2 calls over small alphabets, all single calls "
            "over every spelling, every rcode -1..4096 from two start states); beyond that seeded TLC simulation of 5-call "
            "histories.  RFC sentences were written down without network access.",
    "technique": "TLA+ specification + TLC; generated call histories replayed on the code; TLC trace validation",
    "design_ref": "DESIGN.md section 7 (growth: dns.update, message header/EDNS state)",
}

U_CFG = """INIT GInit
NEXT GNext
CONSTANTS
  Names = {names}
  Types = {types}
  RdIds = {{1, 2, 3}}
  TTLs = {{0, 1, 300, 2147483647}}
  ZClasses = {zc}
  GroupSeqs <- {gs}
  MaxCalls = {maxc}
  MinCalls = {minc}
  Ops = {ops}
  Forms = {forms}
  NameSp = {nsp}
  TypeSp = {tsp}
  RdSp = {rsp}
INVARIANT Emit
CHECK_DEADLOCK FALSE
"""
H_CFG = """INIT GInit
NEXT GNext
CONSTANTS
  Ids = {{7}}
  FlagVals <- {flags}
  RcodeVals <- {rcodes}
  Opcodes = {opcodes}
  Levels = {levels}
  ExtVals = {ext}
  ZVals = {z}
  Payloads = {pay}
  OptionSeqs <- {optseqs}
  Pads = {pads}
  Frees <- MCFrees
  MaxCalls = {maxc}
  MinCalls = {minc}
  QSel = "{qsel}"
  AllOps = {ops}
  Order <- {order}
  RcodeSp = {rsp}
INVARIANT Emit
CHECK_DEADLOCK FALSE
"""
# X06_FAST=1: development / mutation-testing convenience (no model runs, smaller samples, no drift pass)
FAST = bool(os.environ.get("X06_FAST"))
U_OPS = ["present", "absent", "add", "replace", "delete"]
U_FORMS = ["name", "type", "rdataset", "rdata", "text"]
H_OPS = ["use_edns", "want_dnssec", "set_rcode", "set_opcode", "flags", "ednsflags", "wire", "make_response", "use_tsig", "is_response"]


def tset(xs):
    return "{" + ", ".join(json.dumps(x) if isinstance(x, str) else str(x) for x in xs) + "}"


def gen(ctx, module, template, name, defaults, **kw):
    sim = {k: kw.pop(k) for k in ("simulate", "depth", "seed") if k in kw}
    limit = kw.pop("limit", None)
    d = dict(defaults)
    d.update(kw)
    d = {k: (tset(v) if isinstance(v, list) else v) for k, v in d.items()}
    return ctx.generate(module, ctx.cfg(name, template.format(**d)), limit=limit, deadlock=False, **sim)


# ------------------------------------------------------------------ part a: UpdateMessage
U_DEF = dict(names=["@", "a"], types=["A", "TXT"], zc=["IN", "CH"], gs="GenGroupsOne", maxc=2, minc=1, ops=U_OPS,
             forms=U_FORMS, nsp=["relstr"], tsp=["str"], rsp=["rel"])


def u_classify(tr, line, clause):
    ev = tr["ev"]
    e = ev[line - 1] if line and 0 < line <= len(ev) else {}
    op, form = e.get("op", "?"), e.get("form", "")
    if op == "present" and form == "rdataset" and clause == "PrereqSection":
        # X06-F1: the records appended by this call are exactly the value-dependent prerequisite of RFC 2136 2.4.2
        # except that each carries the TTL of the rdataset handed over (non-zero)
        before = ev[line - 2]["sec"][1] if line >= 2 else []
        got = e["sec"][1]
        want = [[e["n"], g["ty"], tr["zclass"], g["ttl"], rid] for g in e["gs"] for rid in g["rds"]]
        if got[:len(before)] == before and got[len(before):] == want and any(g["ttl"] != 0 for g in e["gs"]):
            return "X06-F1:present-rdataset-keeps-ttl:prerequisite-ttl-nonzero"
    return "%s:%s:%s:%s" % (clause, op, form, e.get("exc", ""))


def part_update(ctx, quick):
    if ctx.replay_case:
        hists = [ctx.replay_case["case"]["hist"]]
    else:
        if not FAST:
            ctx.model("MC_UpdateMsg", "MC_UpdateMsg_quick.cfg" if quick else "MC_UpdateMsg_thorough.cfg", workers=1 if quick else 16)
        g = lambda name, **kw: gen(ctx, "Gen_UpdateMsg", U_CFG, name, U_DEF, **kw)  # noqa: E731
        hists = []
        # U1: every history of <= 2 (thorough 3, one class) calls, every call form, plain spelling
        hists += g("u1.cfg", zc=["IN"] if FAST else ["IN", "CH"]) if quick else g("u1.cfg", maxc=3, zc=["IN"], names=["a"]) + g("u1b.cfg", zc=["CH"])
        # U2: every single call in every spelling of name / type / RDATA, 3 names, 3 types, the larger value arguments
        hists += g("u2.cfg", names=["b.a"] if FAST else ["@", "a", "b.a"], types=["A", "TXT", "MX"], gs="GenGroupsBig", maxc=1,
                   nsp=["relstr", "absstr", "relname", "absname"], tsp=["str", "lower", "enum", "int"], rsp=["rel", "abs"])
        # U3: seeded random histories of 5 calls over everything; four runs, each mixing two spellings of names and
        # types (TLC's simulator evaluates every successor of every state it visits: the alphabet is kept moderate)
        n = (100 if FAST else 300) if quick else 4000
        for k, (nsp, tsp, rsp) in enumerate(((["relstr", "absname"], ["str", "enum"], ["rel"]), (["absstr", "relname"], ["lower", "int"], ["abs"]),
                                             (["relstr", "absstr"], ["str", "int"], ["abs"]), (["relname", "absname"], ["enum", "lower"], ["rel"]))):
            hists += g("u3%d.cfg" % k, names=["@", "a", "b.a"], types=["A", "TXT", "MX"], gs="GenGroupsBig", maxc=5, minc=5,
                       nsp=nsp, tsp=tsp, rsp=rsp, simulate="num=%d" % n, depth=8, seed=ctx.seed + 61 + k, limit=4 * n)
    jobs = [(h, "u%d" % i) for i, h in enumerate(hists)]
    jobmap = dict((j[1], j[0]) for j in jobs)
    traces = ctx.pmap(x06_update.run_job, jobs) if len(jobs) > 1 else [x06_update.replay(*jobs[0])]
    ctx.sample({"tid": traces[-1]["tid"], "ev": traces[-1]["ev"][1:3]})
    for h in hists:
        if len(h) >= 3:
            ctx.note_distinct("u:" + json.dumps(h, sort_keys=True))
    ctx.extra["update_histories"] = len(hists)
    ctx.extra["update_calls"] = sum(len(h) - 1 for h in hists)
    rejects = ctx.validate("Trace_UpdateMsg", "Trace_UpdateMsg.cfg", traces)
    # traces rejected because of X06-F1 are judged a second time with that one deviation admitted,
    # so that the rest of their history (and their wire form) is still checked
    f1 = [(tr, line, clause) for tr, line, clause in rejects if u_classify(tr, line, clause).startswith("X06-F1:")]
    again = ctx.validate("Trace_UpdateMsg", "Trace_UpdateMsg_f1.cfg", [tr for tr, _, _ in f1]) if f1 else []
    ctx.extra["update_traces_rejected_for_F1"] = len(f1)
    for tr, line, clause in rejects + again:
        e = tr["ev"][line - 1] if line else {}
        ctx.violation(clause, u_classify(tr, line, clause), "UpdateMessage history %s event %s: %s" % (tr["tid"], line, json.dumps(e)[:300]),
                      {"part": "update", "hist": jobmap[tr["tid"]], "line": line, "trace": tr})
    return sum(len(tr["ev"]) for tr in traces)


# ------------------------------------------------------------------ part b: header / EDNS state
H_DEF = dict(flags="MCFlags", rcodes="GenRcodesSmall", opcodes=[0, 5, 15], levels=[0, 1], ext=[0, 18], z=[0, 32769],
             pay=[1232], optseqs="MCOptionNone", pads=[0, 128], maxc=2, minc=0, qsel="mid", ops=H_OPS, order="OrderNone",
             rsp=["int"])


def h_classify(tr, line, clause):
    e = tr["ev"][line - 1] if line and 0 < line <= len(tr["ev"]) else {}
    return "%s:%s:%s" % (clause, e.get("op", "?"), e.get("exc", ""))


def part_header(ctx, quick):
    if ctx.replay_case:
        hists = [ctx.replay_case["case"]["hist"]]
    else:
        if not FAST:
            ctx.model("MC_MsgHeader", "MC_MsgHeader_quick.cfg" if quick else "MC_MsgHeader_thorough.cfg", workers=1 if quick else 16)
            ctx.model("MC_MsgHeader", "MC_MsgHeader_rcode_quick.cfg" if quick else "MC_MsgHeader_rcode.cfg", workers=1 if quick else 16)
        g = lambda name, **kw: gen(ctx, "Gen_MsgHeader", H_CFG, name, H_DEF, **kw)  # noqa: E731
        hists = []
        # H1: every combination of the EDNS arguments of make_query, followed by <= 1 of wire / make_response / is_response
        hists += g("h1.cfg", qsel="full", maxc=1, ops=["wire", "make_response", "is_response"], pay=[1232] if FAST else [512, 1232])
        # H2: every history of <= 2 calls of any kind over small alphabets, 10 different queries
        hists += g("h2.cfg", ext=[18], z=[32769], qsel="few") if quick else g("h2.cfg", optseqs="GenOptionFew")
        # H3: query -> (sign / DO) -> response -> wire -> probe, larger alphabets
        hists += g("h3.cfg", maxc=3, minc=3, order="OrderRespWire", pay=[512, 1232, 4096], optseqs="GenOptionSeqs")
        # H4: every rcode -1..4096 from a message without and with EDNS, then the wire round trip
        hists += g("h4.cfg", qsel="small", maxc=2, minc=2, rcodes="GenRcodes" if FAST else "AllRcodes", order="OrderSweep", rsp=["int"] if quick else ["int", "enum"])
        # H5: seeded random histories of 5 calls, two runs over different larger alphabets (TLC's simulator evaluates
        # every successor of every state it visits: each alphabet is kept moderate)
        n = (200 if FAST else 700) if quick else 10000
        hists += g("h5a.cfg", maxc=5, minc=5, rcodes="GenRcodes", ext=[0, 255], z=[1, 32768], pay=[512, 4096], optseqs="GenOptionFew",
                   pads=[0, 468], rsp=["int", "enum"], simulate="num=%d" % n, depth=8, seed=ctx.seed + 67, limit=4 * n)
        hists += g("h5b.cfg", maxc=5, minc=5, rcodes="GenRcodes", levels=[0, 255], ext=[18, 255], z=[0, 65535], pay=[1232, 65535],
                   optseqs="GenOptionSeqs", rsp=["int"], opcodes=[0, 2, 4, 5], simulate="num=%d" % n, depth=8, seed=ctx.seed + 68, limit=4 * n)
    jobs = [(h, "h%d" % i) for i, h in enumerate(hists)]
    jobmap = dict((j[1], j[0]) for j in jobs)
    traces = ctx.pmap(x06_header.run_job, jobs) if len(jobs) > 1 else [x06_header.replay(*jobs[0])]
    ctx.sample({"tid": traces[-1]["tid"], "ev": traces[-1]["ev"][:2]})
    for h in hists:
        if len(h) >= 3:
            ctx.note_distinct("h:" + json.dumps(h, sort_keys=True))
    ctx.extra["header_histories"] = len(hists)
    ctx.extra["header_calls"] = sum(len(h) for h in hists)
    ctx.extra["header_rcode_values_set"] = len({e["v"] for h in hists for e in h[1:] if e["op"] == "set_rcode"})
    rejects = ctx.validate("Trace_MsgHeader", "Trace_MsgHeader.cfg", traces)
    for tr, line, clause in rejects:
        e = tr["ev"][line - 1] if line else {}
        ctx.violation(clause, h_classify(tr, line, clause), "Message history %s event %s: %s" % (tr["tid"], line, json.dumps(e)[:300]),
                      {"part": "header", "hist": jobmap[tr["tid"]], "line": line, "trace": tr})
    # drift (not a verdict): responses judged a second time with "CD copied" (RFC 4035 3.2.2) and "DO copied" (RFC 3225 3)
    resp = [tr for tr in traces if any(e["op"] == "make_response" and e["res"] == "ok" for e in tr["ev"])]
    resp = resp[::max(1, len(resp) // (4000 if quick else 40000))]   # an even sample over all generators
    if resp and not ctx.replay_case and not rejects and not FAST:
        before = ctx.traces
        bad = ctx.validate("Trace_MsgHeader", "Trace_MsgHeader_strict.cfg", resp)
        ctx.traces = before
        ctx.drift = len(bad)
        ctx.extra["drift_response_does_not_copy"] = {"histories_with_a_response": len(resp),
                                                     "CD": sum(1 for b in bad if b[2] == "RespCopiesCD"),
                                                     "DO": sum(1 for b in bad if b[2] == "RespCopiesDO")}
    return sum(len(tr["ev"]) for tr in traces)


def run(ctx):
    quick = ctx.tier == "quick"
    ctx.rule = ("behaviours = call histories enumerated by TLC from Gen_UpdateMsg / Gen_MsgHeader (exhaustive to depth 1-2(3) "
                "over the declared alphabets + seeded simulation of 5-call histories); distinct non-trivial = distinct "
                "history with >= 2 calls; evaluations = recorded events (calls and wire round trips) that were judged")
    ctx.assumptions += ["TLC and CommunityModules Json are correct", "driver projections (drivers/x06_*.py) are faithful",
                        "exhaustive only inside the declared universes; beyond them seeded simulation",
                        "RFC 2136 / 6891 / 1035 sentences transcribed from memory (no network)"]
    # X06_PART=update|header runs one half only (development / mutation testing convenience)
    part = ctx.replay_case["case"]["part"] if ctx.replay_case else (os.environ.get("X06_PART") or None)
    n = 0
    if part in (None, "update"):
        n += part_update(ctx, quick)
    if part in (None, "header"):
        n += part_header(ctx, quick)
    if n == 0:
        raise Machinery("nothing was run")
    ctx.evaluations = n
