"""C18 - a network exchange returns only a genuine response; stream framing is exact."""
import json

from drivers import c18_query

LEVEL = "model_checking"
META = {
    "text": "UdpExchange.tla specifies one UDP exchange of a stub (query, destination, the four receive options, deadline; "
            "the environment delivers datagrams described by verdict-relevant attribute vectors, would-block events, silence) "
            "with Genuine(d) and the per-datagram verdict written from the property text and the documented option semantics; "
            "StreamFraming.tla specifies two-octet-length framing over a byte stream delivered and accepted in arbitrary "
            "pieces with would-block, end of stream and deadline at any point. TLC checks the invariants (Return => Genuine and "
            "well-formed, genuine reply never skipped, spoof cannot end an ignore_errors exchange, reassembled = sent for every "
            "chunking, EOF/deadline => error, never over-read, send writes every octet once in order, termination) exhaustively "
            "on bounded universes and enumerates exchange / stream scripts; the driver runs each script through dns.query.udp / "
            "receive_udp / udp_with_fallback / send_tcp / receive_tcp / tcp AND the dns.asyncquery equivalents with scripted "
            "duck-typed sockets, a virtual clock and a scripted dns.query._wait_for; Trace_UdpExchange / Trace_StreamFraming "
            "require every datagram taken, every octet run read or written, every wait and the outcome to be a step of the "
            "specification, and the async outcome to equal the sync one.",
    "note": "Exhaustive only inside the Gen/MC constants (datagram sequences <= 2-3 over the stated universes, <= 2-3 cuts per "
            "stream, short deadlines); binding is at the socket-object interface the library exposes (sock=), so real sockets, "
            "selectors, asyncio transports, TLS/DoH/DoQ are not exercised. UPDATE-opcode queries (is_response skips the zone "
            "section) and TSIG are outside the universe. Trusted: TLC, the Json module, the hand-built wire concretiser and the "
            "projection in drivers/c18_query.py.",
    "technique": "TLA+ specifications + TLC exhaustive check; TLC-generated fault scripts replayed on the code through scripted "
                 "sockets (sync and async); TLC trace validation",
    "design_ref": "DESIGN.md section 4, C18",
}

UDP_CFG = """INIT GInit
NEXT GNext
CONSTANTS
  Dgrams <- {dgrams}
  Configs <- {configs}
  MaxDgrams = {maxd}
  MaxBlocks = {maxb}
INVARIANT Emit
CHECK_DEADLOCK FALSE
"""
STREAM_CFG = """INIT GInit
NEXT GNext
CONSTANTS
  Cases <- {cases}
  MaxBlocks = {maxb}
  MaxCuts = {cuts}
  DenseUpTo = {dense}
INVARIANT Emit
CHECK_DEADLOCK FALSE
"""


def classify(tr, line, clause):
    """Case signature of a rejected trace (matched against known_findings.json)."""
    ev = tr.get("ev", [])
    e = ev[line - 1] if line and 0 < line <= len(ev) else {}
    cfg = tr.get("cfg", {})
    flavor = tr.get("flavor")
    if "msg" in cfg:  # stream trace
        m = cfg["msg"]
        return "%s:stream:%s:%s:msg(wf=%s,qr=%s,id=%s,op=%s,q=%s,L=%s)%s:%s:%s" % (
            clause, cfg.get("api"), flavor, m.get("wf"), m.get("qr"), m.get("idm"), m.get("opm"), m.get("qm"), cfg.get("L"),
            (",it" if cfg.get("it") else "") + (",timeout=%s" % cfg["tz"] if cfg.get("tz", "-") != "-" else ""),
            e.get("op"), e.get("exc") or e.get("kind", ""))
    d = e.get("d", {})
    # F15: the async receive path parses with continue_on_error when ignore_errors is set, so
    # a datagram that is malformed after the question (bad RDATA, or trailing octets without
    # ignore_trailing) is returned with errors recorded instead of being skipped
    if (clause == "NeverReturnMalformed" and flavor == "async" and cfg.get("ie") and e.get("op") == "dgram"
            and e.get("obs") == "ret" and d.get("wf") in ("badRdata", "trailing", "badQuestion")
            and not (d.get("wf") == "trailing" and cfg.get("it"))):
        return "F15:async-ignore_errors-returns-malformed:%s" % d["wf"]
    return "%s:udp:%s%s:%s:%s:src=%s,wf=%s,qr=%s,id=%s,op=%s,q=%s,tc=%s:%s:%s" % (
        clause, cfg.get("api"), ("" if cfg.get("qop", "QUERY") == "QUERY" else "(sent=%s)" % cfg["qop"]), flavor,
        ("".join(k for k in ("iu", "ie", "rot", "it", "mcast", "hasq", "anysrc") if cfg.get(k)) or "-")
        + (",timeout=%s" % cfg["tz"] if cfg.get("tz", "-") != "-" else ""),
        d.get("src"), d.get("wf"), d.get("qr"), d.get("idm"), d.get("opm"), d.get("qm"), d.get("tc"),
        e.get("obs", e.get("kind", e.get("op"))), e.get("exc", ""))


def gen_udp(ctx, name, dgrams, configs, maxd, maxb):
    cfg = ctx.cfg(name, UDP_CFG.format(dgrams=dgrams, configs=configs, maxd=maxd, maxb=maxb))
    return ctx.generate("Gen_UdpExchange", cfg)


def gen_stream(ctx, name, cases, cuts, dense, maxb):
    cfg = ctx.cfg(name, STREAM_CFG.format(cases=cases, cuts=cuts, dense=dense, maxb=maxb))
    return ctx.generate("Gen_StreamFraming", cfg)


def generate_jobs(ctx, quick):
    """TLC enumerates the scripts; returns ({tid: udp job}, {tid: stream job})."""
    # ---------------------------------------------------------------- UDP scripts
    us = []
    # U1: every distinguishable datagram x every option set (udp), alone
    us += gen_udp(ctx, "u1.cfg", "GDev2" if quick else "GAll", "GCfgV6", 1, 0)
    # U2: two datagrams, single deviations, both families
    us += gen_udp(ctx, "u2.cfg", "GDev1", "GCfgV4" if quick else "GCfgUdp", 2, 0)
    # U3: three (four) datagrams over one representative per verdict class
    us += gen_udp(ctx, "u3.cfg", "GCoreQ", "GCfgV6", 3 if quick else 4, 0)
    if not quick:
        us += gen_udp(ctx, "u3b.cfg", "GCore", "GCfgV6", 3, 0)
    # U4: every entry point and address configuration (receive_udp with/without query and
    #     destination, udp_with_fallback, multicast destinations)
    us += gen_udp(ctx, "u4.cfg", "GCore" if quick else "GDev1", "GCfgAllApi", 1, 0)
    us += gen_udp(ctx, "u4b.cfg", "GCoreQ" if quick else "GCore", "GCfgRecvFb", 2, 0)
    us += gen_udp(ctx, "u4c.cfg", "GCoreQ" if quick else "GCore", "GCfgUdpMc", 2, 0)
    # U5: the clock: would-blocks, short deadlines, no deadline
    us += gen_udp(ctx, "u5.cfg", "GClockD", "GCfgClock", 2, 3 if quick else 4)
    # U7: the message sent is a NOTIFY, a STATUS or a dynamic UPDATE: same id, opcode and question for each
    us += gen_udp(ctx, "u7.cfg", "GDev1", "GCfgOps", 1, 0)
    us += gen_udp(ctx, "u7b.cfg", "GCoreQ" if quick else "GCore", "GCfgOps", 2, 0)
    us += gen_udp(ctx, "u7c.cfg", "GCore", "GCfgOpsApi", 1, 0)
    if not quick:
        us += gen_udp(ctx, "u6.cfg", "GDev2", "GCfgAllApi", 1, 0)
    seen = set()
    uscripts = []
    for s in us:
        k = udp_key(s)
        if k not in seen:
            seen.add(k)
            uscripts.append(s)
    ujobs = {}
    for i, s in enumerate(uscripts):
        ujobs["u%d" % i] = ("u%d" % i, s, s["cfg"]["qop"], (i * 7 + ctx.seed) % 12)
    # ---------------------------------------------------------------- stream scripts
    ss = []
    ss += gen_stream(ctx, "s1.cfg", "GRecvGoodQ", 2 if quick else 3, 1000, 0)
    if not quick:
        ss += gen_stream(ctx, "s1b.cfg", "GRecvGood", 2, 1000, 1)
    ss += gen_stream(ctx, "s2.cfg", "GRecvLong", 2 if quick else 3, 4, 1)
    ss += gen_stream(ctx, "s3.cfg", "GBodies", 1, 0, 0)
    ss += gen_stream(ctx, "s4.cfg", "GSend", 2 if quick else 3, 40, 0)
    ss += gen_stream(ctx, "s5.cfg", "GTcp", 1 if quick else 2, 1000, 0)
    if not quick:
        ss += gen_stream(ctx, "s4b.cfg", "GSend", 1, 40, 2)
        ss += gen_stream(ctx, "s5b.cfg", "GTcp", 1, 1000, 2)
    ss += gen_stream(ctx, "s6.cfg", "GClock", 1, 0, 3)
    # S7: tcp() / tls() making their own connection: set-up time (connect, handshake) counts against the deadline
    ss += gen_stream(ctx, "s7.cfg", "GOwn", 0 if quick else 1, 0, 3 if quick else 4)
    # S8: other kinds of message sent over the stream
    ss += gen_stream(ctx, "s8.cfg", "GOps", 1, 0, 0)
    sjobs = {}
    for i, s in enumerate(ss):
        sjobs["s%d" % i] = ("s%d" % i, s)
    return ujobs, sjobs


def udp_key(s):
    return json.dumps(s, sort_keys=True)


def run(ctx):
    quick = ctx.tier == "quick"
    ctx.rule = ("behaviours = exchange scripts (configuration + datagram vectors / would-blocks / silence) and stream scripts "
                "(case + accept/chunk sizes / would-block / eof / silence) enumerated by TLC from Gen_UdpExchange and "
                "Gen_StreamFraming; each run on the sync and the async entry point; distinct = distinct (script, flavor); "
                "non-trivial = the script delivers at least one datagram that is not the plain genuine reply, or at least "
                "one short read/write, would-block, eof or silence")
    ctx.assumptions += ["TLC and CommunityModules Json are correct",
                        "the wire concretiser and projections of drivers/c18_query.py are faithful",
                        "the scripted socket / waiter objects honour the contracts of socket.socket (non-blocking), "
                        "dns.query._wait_for and dns.asyncbackend.DatagramSocket/StreamSocket",
                        "exhaustive only inside the constants of the MC/Gen configs"]
    if ctx.replay_case:
        case = ctx.replay_case["case"]
        if case["half"] == "udp":
            utraces = [tr for tr in c18_query.run_udp_job(tuple(case["job"])) if tr["flavor"] == case["flavor"] or tr["tid"].endswith("driver")]
            straces = []
        else:
            straces = [tr for tr in c18_query.run_stream_job(tuple(case["job"])) if tr["flavor"] == case["flavor"] or tr["tid"].endswith("driver")]
            utraces = []
        ujobs = {tr["tid"].rsplit(".", 1)[0]: case["job"] for tr in utraces}
        sjobs = {tr["tid"].rsplit(".", 1)[0]: case["job"] for tr in straces}
    else:
        # ---------------------------------------------------------------- the specifications
        ctx.model("MC_UdpExchange", "MC_UdpExchange_quick.cfg", workers=6)
        if not quick:
            ctx.model("MC_UdpExchange", "MC_UdpExchange_thorough.cfg", workers=8)
        ctx.model("MC_UdpExchange", "MC_UdpExchange_wide.cfg" if quick else "MC_UdpExchange_wide1.cfg", workers=4)
        ctx.model("MC_UdpExchange", "MC_UdpExchange_live.cfg", workers=4)
        ctx.model("MC_StreamFraming", "MC_StreamFraming_quick.cfg" if quick else "MC_StreamFraming_thorough.cfg", workers=4)
        ctx.model("MC_StreamFraming", "MC_StreamFraming_live.cfg", workers=4)
        ujobs, sjobs = generate_jobs(ctx, quick)
        ctx.extra["udp_scripts"] = len(ujobs)
        ctx.extra["stream_scripts"] = len(sjobs)
        ctx.log("running %d UDP scripts and %d stream scripts, sync and async" % (len(ujobs), len(sjobs)))
        utraces = [tr for trs in ctx.pmap(c18_query.run_udp_job, list(ujobs.values())) for tr in trs]
        straces = [tr for trs in ctx.pmap(c18_query.run_stream_job, list(sjobs.values())) for tr in trs]
        ctx.log("recorded %d + %d traces" % (len(utraces), len(straces)))
        good = {"src": "dest", "wf": "yes", "qr": True, "idm": True, "opm": True, "qm": "same", "tc": False}
        for tid, job in ujobs.items():
            if any(e["op"] != "dgram" or e["d"] != good for e in job[1]["ev"]):
                ctx.distinct.add(tid + ".sync")
                ctx.distinct.add(tid + ".async")
        for tid, job in sjobs.items():
            evs = job[1]["ev"]
            if any(e["op"] in ("block", "eof", "silence") for e in evs) or len(evs) > (3 if job[1]["cfg"]["api"] == "tcp" else 2 if job[1]["cfg"]["api"] == "recv" else 1):
                ctx.distinct.add(tid + ".sync")
                ctx.distinct.add(tid + ".async")
        for tr in utraces[:2] + straces[:2]:
            ctx.sample({"tid": tr["tid"], "cfg": tr["cfg"], "ev": [{k: v for k, v in e.items() if k not in ("wire", "bytes")} for e in tr["ev"][:4]]})
    ctx.evaluations = len(utraces) + len(straces)
    rejects = []
    if utraces:
        rejects += [("udp", r) for r in ctx.validate("Trace_UdpExchange", "Trace_UdpExchange.cfg", utraces)]
    if straces:
        rejects += [("stream", r) for r in ctx.validate("Trace_StreamFraming", "Trace_StreamFraming.cfg", straces)]
    for half, (tr, line, clause) in rejects:
        sig = classify(tr, line, clause)
        e = tr["ev"][line - 1] if line else {}
        base = tr["tid"].rsplit(".", 1)[0]
        job = (ujobs if half == "udp" else sjobs).get(base)
        show = {k: v for k, v in e.items() if k not in ("wire", "bytes")}
        ctx.violation(clause, sig, "%s %s %s cfg=%s event %s: %s" % (half, tr.get("flavor"), tr["tid"], json.dumps(tr.get("cfg"))[:260], line, json.dumps(show)[:300]),
                      {"half": half, "flavor": tr.get("flavor"), "job": list(job) if job else None, "line": line, "trace": tr})
