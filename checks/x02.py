"""X02 - TTL text, $GENERATE ranges and RFC 1982 serial arithmetic match the TtlRange specification."""
import collections
import json

from drivers import x02_ttlrange as drv

LEVEL = "model_checking"
META = {
    "text": "TtlRange.tla specifies dns.ttl.from_text (BIND units grammar as an automaton and, independently, by positions; "
            "values as arbitrary-size decimal naturals; limit 2^32-1), dns.grange.from_text (start-stop[/step]) and RFC 1982 "
            "serial comparison/addition (literally, plus a two-limb formulation used for 32 bits). TLC checks the laws on the "
            "declared universes (automaton = fold = positional reading, from_text(str(n)) = n, case blindness, order "
            "independence, additivity, native-integer cross-check, RFC 1982 corollaries for every width 2..8, limb form = "
            "RFC form). TLC emits the universes; the driver evaluates the real functions on every element (complete rows "
            "for serial widths 2..8, boundary pairs for 32 bits); Trace_TtlRange recomputes every logged result.",
    "note": "Exhaustive only inside the declared universes (TTL texts of <=3 number/character pairs over boundary numbers; "
            "range texts of <=5 tokens; all serial pairs for widths 2..8; 256 pairs + 160 amounts for 32 bits). Growth "
            "check: not a listed property. Trusted: TLC, the Json module, the projection in drivers/x02_ttlrange.py.",
    "technique": "TLA+ specification + TLC exhaustive laws; TLC-enumerated inputs run on the code; TLC trace validation",
    "design_ref": "DESIGN.md section 7 (dns.ttl BIND-unit parsing and dns.grange; RFC 1982)",
}

TIERS = {
    "quick": dict(N2="QN2", C2="QC2", N3="QN3", C3="QC3", RTok="QRTok", RLen=5, RMid="QRMid", RLong="QRLong"),
    "thorough": dict(N2="TN2", C2="TC2", N3="TN3", C3="TC3", RTok="TRTok", RLen=5, RMid="TRMid", RLong="TRLong"),
}
GEN_CFG = """INIT GInit
NEXT GNext
CONSTANTS
  Kind = "{kind}"
  N2 <- {N2}
  C2 <- {C2}
  N3 <- {N3}
  C3 <- {C3}
  RTok <- {RTok}
  RLen = {RLen}
  RMidTok <- {RMid}
  RLongTok <- {RLong}
  SBits <- AllBits
INVARIANT Emit
CHECK_DEADLOCK FALSE
"""
CHUNK = {"ttl": 8, "make": 16, "via": 8, "range": 8, "srow": 1, "s32cmp": 16, "s32add": 4}
PARTS = {"ttl": ["ttl1", "ttl2", "ttl3", "ttle"], "via": ["via1", "via2", "via3", "viae"], "range": ["range", "rangemid", "rangelong"]}
STRICT_KINDS = ("make", "range", "srow", "s32add")


def show(cs):
    return "".join(chr(c) if 32 < c < 127 else "\\u%04x" % c for c in cs)


def explode(tr, entries=False):
    """independent events -> one trace per event; with entries: a row -> one trace per entry"""
    out = []
    for i, e in enumerate(tr["ev"]):
        if entries and e.get("op") in ("cmp", "add") and len(e["res"]) > 1:
            for k, x in enumerate(e["res"]):
                e1 = dict(e, lo=e["lo"] + k, full=False, res=[x])
                out.append({"tid": "%s/%d.%d" % (tr["tid"], i, k), "kind": tr["kind"], "ev": [e1]})
        else:
            out.append({"tid": "%s/%d" % (tr["tid"], i), "kind": tr["kind"], "ev": [e]})
    return out


PINPOINT_ROWS = 12  # rejected serial rows taken apart entry by entry (the others are reported as rows)


def via_of(e, clause):
    return next((v for v in e.get("vias", []) if clause.endswith("_" + v)), "?")


def classify(tr, line, clause):
    """Case signature of a rejected single-event trace."""
    e = tr["ev"][line - 1] if line and 0 < line <= len(tr["ev"]) else {}
    op = e.get("op", "?")
    res = e.get("res", ["?"])
    if op in ("ttl", "via") and clause.split("_")[:2] == [op.capitalize() + "Refused", "TrailingNumber"]:
        tail = []
        for c in reversed(e["text"]):
            if not 48 <= c <= 57:
                break
            tail.append(c)
        if tail and all(c == 48 for c in tail):
            return "X02-F1:%s:zero-after-last-unit-accepted" % (op if op == "ttl" else "via-" + via_of(e, clause))
    if op == "range" and clause == "RangeRefused_BadSlash" and res[0] == "ok" and e["text"].count(47) >= 2:
        cs = e["text"]
        if cs.count(45) == 1 and all(48 <= c <= 57 or c in (45, 47) for c in cs):
            return "X02-F2:range:second-slash-accepted"
    if op in ("ttl", "make", "range"):
        return "%s:%s:%s" % (clause, op, res[0] if res[0] == "ok" else res[1])
    if op == "via":
        r = dict(zip(e["vias"], res)).get(via_of(e, clause), ["?", "?"])
        return "%s:%s" % (clause, r[0] if r[0] == "ok" else r[1])
    if op in ("cmp", "add"):
        return "%s:%s:bits%s" % (clause, e.get("kind", op), e.get("bits"))
    return "%s:%s" % (clause, op)


def describe(e):
    if e.get("op") == "via":
        return "TTL text %r via %s" % (show(e["text"]), ", ".join(
            "%s %s" % (n, "-> " + show(r[1]) if r[0] == "ok" else "raised " + r[1]) for n, r in zip(e["vias"], e["res"])))
    if "text" in e:
        r = e["res"]
        got = ("-> " + (show(r[1]) if e["op"] != "range" else "(%s)" % ", ".join(show(x) for x in r[1]))) if r[0] == "ok" else "raised " + r[1]
        return "%s(%r) %s" % (e["op"], show(e["text"]), got)
    return json.dumps({k: v for k, v in e.items() if k != "full"})[:300]


def universe(ctx, kind, tier):
    """the declared universe of one kind, emitted by TLC part by part"""
    seen, items = set(), []
    for part in PARTS.get(kind, [kind]):
        cfg = ctx.cfg("gen_%s.cfg" % part, GEN_CFG.format(kind=part, **TIERS[tier]))
        for b in ctx.generate("Gen_TtlRange", cfg, count=False):
            key = json.dumps(b[0])
            if key not in seen:
                seen.add(key)
                items.append(b[0])
    return items


def run(ctx):
    quick = ctx.tier == "quick"
    ctx.rule = ("cases = every element of the universes declared in TtlRangeUniverse.tla for the tier, emitted by TLC: TTL "
                "texts, range texts, one row <<bits, a>> per serial number of widths 2..8 (the driver pairs it with every b "
                "and every amount -2^bits..2^bits; the trace spec demands complete rows), 32-bit boundary pairs/amounts; "
                "distinct non-trivial = distinct TTL/range texts holding both a digit and a non-digit, plus distinct serial "
                "rows and 32-bit items; evaluations = calls of the real functions / operators")
    ctx.assumptions += ["TLC and CommunityModules Json are correct", "driver projection (drivers/x02_ttlrange.py) is faithful",
                        "exhaustive only inside the declared universes", "Unicode: one non-ASCII decimal digit (U+0661) stands "
                        "for the class and is a free choice; one non-decimal digit (U+00B2) must be refused"]
    jobs = []
    if ctx.replay_case:
        case = ctx.replay_case["case"]
        jobs.append(("replay", case["kind"], [case["item"]]))
    else:
        ctx.model("MC_TtlRange", "MC_TtlRange_%s.cfg" % ctx.tier, workers=1 if quick else 4)
        sizes = {}
        for kind in ("ttl", "make", "via", "range", "srow", "s32cmp", "s32add"):
            items = universe(ctx, kind, ctx.tier)
            sizes[kind] = len(items)
            n = CHUNK[kind]
            for i in range(0, len(items), n):
                jobs.append(("%s%d" % (kind, i), kind, items[i:i + n]))
            for it in items:
                if kind in ("ttl", "range"):
                    if any(48 <= c <= 57 for c in it) and any(not 48 <= c <= 57 for c in it):
                        ctx.distinct.add(kind + ":" + show(it))
                elif kind not in ("make", "via"):
                    ctx.distinct.add(kind + ":" + json.dumps(it))
        ctx.extra["universe_sizes"] = sizes
        ctx.extra["exhaustive"] = True
    traces = ctx.pmap(drv.run_job, jobs)
    for tr in traces:
        for e in tr["ev"]:
            op = e.get("op")
            ctx.evaluations += 6 * len(e["res"]) if op == "cmp" else len(e["res"]) if op == "add" else 6 if op == "cmp32" else 1
    for tr in traces[:2] + [x for x in traces if x["kind"] == "range"][40:41] + [x for x in traces if x["kind"] == "s32add"][:1]:
        ctx.sample({"tid": tr["tid"], "ev": [describe(e) for e in tr["ev"][:3]]})
    stats = collections.Counter()
    for tr in traces:
        for e in tr["ev"]:
            if e.get("op") in ("ttl", "range"):
                stats["%s:%s" % (e["op"], e["res"][0] if e["res"][0] == "ok" else e["res"][1])] += 1
    ctx.extra["outcomes"] = dict(sorted(stats.items()))

    # hard clauses: batched first, rejected batches again event by event (events are independent)
    rejects = ctx.validate("Trace_TtlRange", "Trace_TtlRange.cfg", traces, shards=8)
    singles = [s for tr, _, _ in rejects for s in explode(tr)]
    final = ctx.validate("Trace_TtlRange", "Trace_TtlRange.cfg", singles, shards=8) if singles else []
    if rejects and not final:
        final = rejects  # cannot happen for independent events; never lose a rejection
    rows = [r for r in final if r[0]["ev"][0].get("op") in ("cmp", "add") and not r[2].endswith("RowComplete")][:PINPOINT_ROWS]
    if rows:
        pinned = ctx.validate("Trace_TtlRange", "Trace_TtlRange.cfg", [s for tr, _, _ in rows for s in explode(tr, True)], shards=8)
        if pinned:
            final = [r for r in final if not any(r is x for x in rows)] + pinned
    for tr, line, clause in final:
        e = tr["ev"][line - 1] if line else {}
        item = e.get("text") if "text" in e else [e.get("bits"), e.get("a")] if "bits" in e else [e.get("a"), e.get("b", e.get("n"))]
        kind = {"ttl": "ttl", "make": "make", "via": "via", "range": "range", "cmp": "srow", "add": "srow", "cmp32": "s32cmp", "add32": "s32add"}.get(e.get("op"), tr["kind"])
        ctx.violation(clause, classify(tr, line, clause), describe(e), {"kind": kind, "item": item, "event": e})
    ctx.extra["rejected_events_by_signature"] = dict(collections.Counter(v.sig for v in ctx.violations))

    # drift: the deterministic choices of the library (never an alarm)
    soft = [tr for tr in traces if tr["kind"] in STRICT_KINDS or ctx.replay_case]
    if quick and not ctx.replay_case:  # drift only: the quick tier judges every fourth range trace (deterministic)
        rng = [tr for tr in soft if tr["kind"] == "range"]
        keep = {tr["tid"] for tr in rng[::4]}
        soft = [tr for tr in soft if tr["kind"] != "range" or tr["tid"] in keep]
        ctx.extra["strict_range_traces"] = "%d of %d" % (len(keep), len(rng))
    hard_bad = {tr["tid"] for tr, _, _ in rejects}
    drift = ctx.validate("Trace_TtlRange", "Trace_TtlRange_strict.cfg", [tr for tr in soft if tr["tid"] not in hard_bad], shards=8)
    ctx.traces -= len(soft)  # the same traces, judged a second time
    ctx.drift = len(drift)
    ctx.extra["drift_detail"] = dict(collections.Counter(c for _, _, c in drift))
