"""C14 - TSIG MACs follow RFC 8945; genuine messages verify, altered ones never do."""
import itertools
import json
import os

from drivers import c14_tsig

LEVEL = "model_checking"
META = {
    "text": "Tsig.tla states the RFC 8945 digest composition (request, response bound to the request MAC, later envelopes "
            "of a multi-message exchange with unsigned intermediates digested whole and timers only) over an uninterpreted "
            "injective MAC, and the receiver's validation automaton. TLC checks exhaustively on a bounded universe that every "
            "genuine message validates (all nine algorithm names, every signed/unsigned pattern of a stream), that every "
            "alteration of authenticated content, wrong key / key name / algorithm / request MAC, moved or stripped TSIG and "
            "clock skew beyond the fudge is refused, and the inclusive window edges. TLC enumerates the exchange scripts; the "
            "driver runs each on dns.message / dns.renderer / dns.tsig with a recording HMAC context, and Trace_Tsig requires "
            "(i) the octets the library fed to HMAC to equal the composition concretised by a TLA+ reading of the message "
            "octets (TsigWire.tla), (ii) the MAC on the wire to equal the stdlib HMAC of those octets truncated per the "
            "algorithm table, (iii) from_wire's outcome to follow the automaton, and (iv) for every single-bit flip of every "
            "genuine message: accepted-as-signed only if the RFC-authenticated view is unchanged.",
    "note": "Exhaustive inside the MC/Gen constants (1 key, 9 algorithms, fudge {0,2}(+300), skews around the edge, streams <= 3 "
            "(quick) / 4 (thorough) envelopes, one fault per exchange (two in thorough)); concrete variants (API route, keyring "
            "form, key-name spelling/compression, other data, original id, 48-bit time) are crossed in Python over a declared "
            "universe. Trusted: TLC, Json module, hashlib/hmac, HMAC collision resistance, the driver's tamper/locate helpers "
            "(cross-checked by the Env* clauses of the trace spec).",
    "technique": "TLA+ composition + validation automaton checked by TLC; TLC-generated exchange scripts replayed on the code; "
                 "recorded HMAC inputs and outcomes validated by TLC; exhaustive single-bit fault enumeration",
    "design_ref": "DESIGN.md section 4, C14",
}

GEN_CFG = """INIT GInit
NEXT GNext
CONSTANTS
  KeyNames = {{"k1"}}
  Secrets = {{"s1"}}
  Algs {algs}
  Fudges = {fudges}
  Skews <- {skews}
  Errors = {errors}
  Kinds = {kinds}
  MaxEnv = {maxenv}
  MaxFaults = {maxfaults}
  MaxResign = {maxresign}
  ResignMods = {mods}
  NLens = {nlens}
  Renders = {renders}
  Lens = {lens}
  TotalFaults = {total}
  Regions <- AllRegions
INVARIANT Emit
CHECK_DEADLOCK FALSE
"""
VAC_CFG = """SPECIFICATION Spec
CONSTANTS
  KeyNames = {{"k1"}}
  Secrets = {{"s1"}}
  Algs = {{"hmac-sha256"}}
  Fudges = {{2}}
  Skews <- MCSkews4
  Errors = {{0}}
  Kinds = {{"{kind}"}}
  MaxEnv = 3
  MaxFaults = 1
  MaxResign = {maxresign}
  ResignMods = {{"body"}}
{inv}
CHECK_DEADLOCK FALSE
"""
ALL_MODS = '{"none", "id", "head", "body"}'
AXES = c14_tsig.VARIANT_AXES
ALL_VARIANTS = [dict(zip(AXES, v)) for v in itertools.product(*AXES.values())]


def tset(xs):
    return "{" + ", ".join(json.dumps(x) if isinstance(x, str) else str(x) for x in xs) + "}"


def gen(ctx, name, **kw):
    d = dict(algs="<- AllAlgs", fudges="{0, 2}", skews="GSkews", errors="{0, 16}", kinds=tset(["query", "response", "stream"]),
             maxenv=3, maxfaults=1, lens="{2, 3}", total=1, maxresign=0, mods="{}", nlens="{1}", renders='{"plain"}')
    d.update(kw)
    return ctx.generate("Gen_Tsig", ctx.cfg(name, GEN_CFG.format(**d)), heap="2g")


def faults_of(script):
    return [e for e in script if e["op"] in ("tamper", "benign", "move", "strip", "cfault", "skew")]


TTL_SIG = "TsigTtlCovered:nonzero-ttl-in-tsig-rr:accepted-as-signed"
NOALG_SIG = "SignedWellFormed:renderer-add_tsig-with-Key-ignores-key-algorithm:algorithm-field-is-default"


def classify(tr, line, clause):
    ev = tr["ev"]
    e = ev[line - 1] if line and 0 < line <= len(ev) else {}
    st = tr["start"]
    if clause == "TsigTtlCovered" and e.get("op") == "deliver" and e.get("out") == "ok":
        return TTL_SIG
    if (tr.get("route") == "renderer_noalg" and clause == "SignedWellFormed" and e.get("op") == "send" and e.get("signed")
            and st.get("alg") != "hmac-sha256" and not any(x["op"] != "send" for x in ev[:line])):
        return NOALG_SIG
    fl = ",".join(sorted((x.get("region") or x.get("what") or x["op"]) for x in ev[:line] if x["op"] in
                         ("tamper", "benign", "move", "strip", "cfault", "skew")))
    op = e.get("op", "?") + ("/" + e["mod"] if e.get("op") == "resign" else "")
    return "%s:%s:%s:%s:%s:%s" % (clause, op, st.get("kind"), st.get("alg"), fl or "-", e.get("out", e.get("res", "")))


def run(ctx):
    quick = ctx.tier == "quick"
    ctx.rule = ("behaviours = exchange scripts enumerated by TLC from Gen_Tsig (kind x algorithm x fudge x error x signed/unsigned "
                "pattern x fault); each run on dnspython under concrete variants (route, keyring form, name spelling, other data, "
                "original id, time base); evaluations = from_wire / sign calls incl. one per flipped bit; distinct = distinct "
                "(script, variant); non-trivial = script contains a fault or an unsigned envelope or is flipped bit by bit")
    ctx.assumptions += ["TLC and CommunityModules Json are correct", "hashlib/hmac are correct; HMAC (also truncated) is collision resistant",
                        "driver projection and tamper helpers (drivers/c14_tsig.py) are faithful (Env* clauses cross-check them)",
                        "exhaustive only inside the constants of the MC/Gen configs; GSS-TSIG out of scope"]
    if ctx.replay_case:
        case = ctx.replay_case["case"]
        jobs = [(case["script"], case["var"], "replay", case["flips"])]
    else:
        if os.environ.get("C14_SKIP_MODEL"):  # development aid for mutation testing only (models do not depend on /repo)
            ctx.log("C14_SKIP_MODEL set: exhaustive model runs skipped")
        elif quick:
            ctx.model("MC_Tsig", "MC_Tsig_quick.cfg", heap="3g", workers=1)  # 1 worker = 1 TLC slot: not starved on a busy machine
            ctx.model("MC_Tsig", "MC_Tsig_quick_resign.cfg", heap="3g", workers=1)
            ctx.model("MC_Tsig", "MC_Tsig_quick_stream.cfg", heap="3g", workers=1)
        else:
            ctx.model("MC_Tsig", "MC_Tsig_thorough.cfg", heap="6g")
            ctx.model("MC_Tsig", "MC_Tsig_thorough_resign.cfg", heap="6g")
            ctx.model("MC_Tsig", "MC_Tsig_quick_stream.cfg", heap="3g", workers=1)
            ctx.model("MC_Tsig", "MC_Tsig_thorough_stream.cfg", heap="6g")
        for inv in () if os.environ.get("C14_SKIP_MODEL") else ("Vac_StreamAllAccepted", "Vac_TaintRejected", "Vac_EdgeAccepted",
                                                                 "Vac_EdgeRejected", "Vac_ResignAccepted"):
            rs = inv == "Vac_ResignAccepted"
            r = ctx.model("MC_Tsig", ctx.cfg("vac_%s.cfg" % inv, VAC_CFG.format(inv="INVARIANT " + inv, kind="response" if rs else "stream",
                                                                              maxresign=1 if rs else 0)),
                          expect_ok=False, count=False, workers=1, heap="1g")
            if r.violated != inv:
                from vlib import core
                raise core.Machinery("vacuity witness %s not reachable (violated=%s errors=%s)" % (inv, r.violated, r.errors[:2]))
        scripts = []
        if quick:
            scripts += gen(ctx, "g1.cfg", fudges="{2}", errors="{0}")
            scripts += gen(ctx, "g1b.cfg", algs='= {"hmac-sha256-128", "hmac-md5.sig-alg.reg.int"}', fudges="{0}", errors="{0, 16}", lens="{2}")
            scripts += gen(ctx, "g2.cfg", algs='= {"hmac-sha256"}', fudges="{300}", skews="GSkewsBig", errors="{0}",
                           kinds=tset(["query", "stream"]), lens="{2}")
            # the same Message object rendered again (Resign): genuine for every algorithm; with one fault for two
            # rendering options of Message.to_wire: OPT before the TSIG, padding, truncation to max_size (TC set);
            # genuine for every algorithm (with and without a re-rendering), one fault for one algorithm
            scripts += gen(ctx, "gt1.cfg", fudges="{2}", errors="{0}", total=0, lens="{2}", maxresign=1, mods='{"head"}', nlens="{1, 2}",
                           renders='{"edns", "pad", "trunc"}')
            scripts += gen(ctx, "gt2.cfg", algs='= {"hmac-sha512-256"}', fudges="{2}", errors="{0}", kinds=tset(["response"]),
                           renders='{"trunc", "pad"}')
            scripts += gen(ctx, "gr1.cfg", fudges="{2}", errors="{0}", total=0, lens="{2}", maxresign=1, mods=ALL_MODS, nlens="{2}")
            scripts += gen(ctx, "gr1c.cfg", algs='= {"hmac-sha256"}', fudges="{2}", errors="{0}", total=0, kinds=tset(["query", "response"]),
                           maxresign=2, mods=ALL_MODS, nlens="{3}")
            scripts += gen(ctx, "gr2.cfg", algs='= {"hmac-sha384-192"}', fudges="{2}", errors="{0}",
                           kinds=tset(["query", "response"]), maxresign=1, mods=ALL_MODS, nlens="{2}")
        else:
            scripts += gen(ctx, "g1.cfg", maxenv=4, lens="{2, 3, 4}")
            scripts += gen(ctx, "g2.cfg", algs='= {"hmac-sha256", "hmac-sha512-256"}', fudges="{300}", skews="GSkewsBig", errors="{0}",
                           kinds=tset(["query", "response", "stream"]), lens="{2}")
            scripts += gen(ctx, "g3.cfg", algs='= {"hmac-sha1", "hmac-sha384-192"}', fudges="{2}", errors="{0}", maxfaults=2, total=2,
                           kinds=tset(["response", "stream"]), lens="{3}")
            scripts += gen(ctx, "gt1.cfg", fudges="{2}", errors="{0}", total=0, lens="{2, 3}", maxresign=1, mods='{"head"}', nlens="{1, 2}",
                           renders='{"edns", "pad", "trunc"}')
            scripts += gen(ctx, "gt2.cfg", algs='= {"hmac-sha512-256", "hmac-sha1"}', fudges="{2}", errors="{0}", lens="{2}",
                           renders='{"edns", "pad", "trunc"}')
            scripts += gen(ctx, "gr1.cfg", fudges="{0, 2}", errors="{0}", total=0, lens="{2, 3}", maxresign=2, mods=ALL_MODS, nlens="{2, 3}")
            scripts += gen(ctx, "gr2.cfg", fudges="{2}", errors="{0, 16}", lens="{2}", maxresign=1, mods=ALL_MODS, nlens="{2}")
        jobs = []
        nv = len(ALL_VARIANTS)
        per_genuine = 2 if quick else 24
        per_faulty = 1 if quick else 2
        seen_scripts = set()
        for i, s in enumerate(scripts):
            key = json.dumps(s, sort_keys=True)
            if key in seen_scripts:  # the generator runs overlap (a script without Resign may come from two of them)
                continue
            seen_scripts.add(key)
            genuine = not faults_of(s)
            resign = any(e["op"] == "resign" for e in s)
            n = ((1 if quick else 4) if (resign or s[0].get("render", "plain") != "plain") else per_genuine) if genuine else per_faulty
            # bit flips on every genuine script; on re-rendering scripts, in quick, only for hmac-sha256 with <= 2 renderings (declared cut)
            flip = genuine and (not resign or not quick or (s[0]["alg"] == "hmac-sha256" and s[0]["len"] <= 2))
            render = s[0].get("render", "plain")
            if render != "plain":
                # quick: bit flips on edns / pad renderings for hmac-sha256 only, none on the 500-octet truncated ones;
                # thorough: edns / pad for all, truncated for hmac-sha256 (declared cuts)
                flip = flip and ((render != "trunc" and (not quick or s[0]["alg"] == "hmac-sha256"))
                                 or (render == "trunc" and not quick and s[0]["alg"] == "hmac-sha256"))
            for j in range(n):
                var = ALL_VARIANTS[(i * 37 + j * 53 + ctx.seed * 11) % nv]
                if resign or render != "plain":  # re-rendering / rendering options exist only for Message objects
                    var = dict(var, route="message")
                jobs.append((s, var, "s%d.v%d" % (i, j), flip))
        # the low-level Renderer API given a dns.tsig.Key and no `algorithm` argument: genuine exchanges only
        k = 0
        for i, s in enumerate(scripts):
            if not faults_of(s) and not any(e["op"] == "resign" for e in s) and s[0].get("render", "plain") == "plain" and s[0]["fudge"] == 2 and s[0]["error"] == 0 and (quick is False or s[0]["kind"] != "stream" or s[0]["len"] == 2):
                var = dict(ALL_VARIANTS[(k * 41 + ctx.seed * 7) % nv], route="renderer_noalg")
                jobs.append((s, var, "s%d.noalg" % i, False))
                k += 1
        ctx.extra["scripts"] = len(scripts)
        ctx.extra["genuine_scripts"] = sum(1 for s in scripts if not faults_of(s))
        ctx.extra["resign_scripts"] = len(set(json.dumps(s, sort_keys=True) for s in scripts if any(e["op"] == "resign" for e in s)))
    jobmap = {j[2]: j for j in jobs}
    ctx.log("running %d jobs on dnspython" % len(jobs))
    traces = ctx.pmap(c14_tsig.run_job, jobs)
    ctx.log("driver done")
    flips = sum(e.get("nflips", 0) for tr in traces for e in tr["ev"])
    calls = sum(1 for tr in traces for e in tr["ev"] if e["op"] in ("send", "resign", "deliver"))
    ctx.evaluations = flips + calls
    ctx.extra.update(bit_flips=flips, sign_and_deliver_calls=calls,
                     flips_accepted_unauthenticated=sum(len(e.get("okbits", [])) for tr in traces for e in tr["ev"]),
                     flips_reported_unsigned=sum(len(e.get("unsbits", [])) for tr in traces for e in tr["ev"]))
    fam = {}
    for tr in traces:
        for e in tr["ev"]:
            for k, n in e.get("fam", []):
                fam[k] = fam.get(k, 0) + n
            if e["op"] == "deliver" and e.get("exc"):
                fam["class-level:" + e["exc"]] = fam.get("class-level:" + e["exc"], 0) + 1
    ctx.extra["rejection_exceptions"] = dict(sorted(fam.items()))
    variants_used = set(json.dumps(j[1], sort_keys=True) for j in jobs)
    ctx.extra["variants_used"] = len(variants_used)
    for j in jobs:
        if j[3] or faults_of(j[0]) or any((e["op"] == "send" and not e["signed"]) or e["op"] == "resign" for e in j[0]):
            ctx.note_distinct(json.dumps([j[0], j[1]], sort_keys=True))
    for tr in traces[:3]:
        ctx.sample({"tid": tr["tid"], "var": tr["var"], "ev": [{k: (v if not isinstance(v, list) or len(v) < 12 else "<%d items>" % len(v))
                                                                 for k, v in e.items()} for e in tr["ev"][:3]]})
    for tr in traces:
        tr["route"] = (tr.pop("var", None) or {}).get("route", "")
        for e in tr["ev"]:
            e.pop("fam", None)
    def report(tr, line, clause):
        sig = classify(tr, line, clause)
        e = tr["ev"][line - 1] if line else {}
        j = jobmap.get(tr["tid"], (None, None, None, None))
        short = {k: (v if not isinstance(v, list) or len(v) < 40 else v[:40] + ["..."]) for k, v in e.items()}
        ctx.violation(clause, sig, "exchange %s variant %s event %s: %s" % (tr["start"].get("kind"), json.dumps(j[1]), line, json.dumps(short)[:400]),
                      {"script": j[0], "var": j[1], "flips": j[3], "line": line, "clause": clause})

    def has_ttl(tr):
        return any(e["op"] == "tamper" and e["region"] == "tsig.ttl" for e in tr["ev"])

    # pass 1: every trace without a TSIG-TTL tamper, with the TTL of the TSIG RR treated as not authenticated
    for tr, line, clause in ctx.validate("Trace_Tsig", "Trace_Tsig.cfg", [tr for tr in traces if not has_ttl(tr)], env={"C14_STRICT_TTL": "0"}):
        report(tr, line, clause)
    # pass 2 (TTL authenticated): the TTL-tamper traces (all clauses) and the bit-flip traces (TTL clause only;
    # their other clauses were judged in pass 1).  Selection is structural, not by outcome.
    sel = [tr for tr in traces if tr["flips"] or has_ttl(tr)]
    for tr, line, clause in ctx.validate("Trace_Tsig", "Trace_Tsig.cfg", sel, env={"C14_STRICT_TTL": "1"}):
        if clause == "TsigTtlCovered" or has_ttl(tr):
            report(tr, line, clause)
    ctx.extra["traces_ttl_pass"] = len(sel)


def selftest(ctx):
    """Corrupt single logged fields of good traces and require the named clause to reject
    (demonstrates that the trace specification really reads what the driver logs)."""
    import copy
    st = {"len": 1, "kind": "response", "op": "start", "alg": "hmac-sha384-192", "hash": "sha384", "bits": 192, "minbits": 192,
          "key": "k1", "fudge": 2, "error": 0}
    var = ALL_VARIANTS[5]
    good = c14_tsig.run_job(([st, {"op": "send", "signed": True}, {"op": "deliver"}], var, "good", True))
    bad = c14_tsig.run_job(([st, {"op": "send", "signed": True}, {"op": "cfault", "what": "wrongkey"}, {"op": "deliver"}], var, "wk", False))
    for tr in (good, bad):
        tr["route"] = tr.pop("var")["route"]
        for e in tr["ev"]:
            e.pop("fam", None)
    cases = []

    def mut(name, clause, base, fn):
        tr = copy.deepcopy(base)
        tr["tid"] = name
        fn(tr)
        cases.append((name, clause, tr))

    mut("unchanged", None, good, lambda tr: None)
    mut("unchanged-wrongkey", None, bad, lambda tr: None)
    mut("digest-octet", "Composition", good, lambda tr: tr["ev"][0]["dig"].__setitem__(3, tr["ev"][0]["dig"][3] ^ 1))
    mut("digest-missing-prefix", "Composition", good, lambda tr: tr["ev"][0].__setitem__("dig", tr["ev"][0]["dig"][2:]))
    mut("stdlib-hmac", "MacValue", good, lambda tr: tr["ev"][0]["hm"].__setitem__(0, tr["ev"][0]["hm"][0] ^ 1))
    mut("genuine-refused", "GenuineVerifies", good, lambda tr: tr["ev"][1].__setitem__("out", "BadSig"))
    mut("verifier-digest", "VerifierComposition", good, lambda tr: tr["ev"][1]["dig"].__setitem__(0, 9))
    mut("wrongkey-accepted", "AlteredRejected", bad, lambda tr: tr["ev"][2].__setitem__("out", "ok"))
    mut("wrongkey-family", "Family", bad, lambda tr: tr["ev"][2].__setitem__("out", "BadKey"))
    mut("flip-of-mac-accepted", "FlipAccepted", good, lambda tr: tr["ev"][1]["okbits"].append(tr["ev"][1]["nflips"] - 200))
    mut("flips-incomplete", "FlipCoverage", good, lambda tr: tr["ev"][1].__setitem__("nflips", tr["ev"][1]["nflips"] - 8))
    mut("unsigned-but-has-tsig", "FlipUnsigned", good, lambda tr: tr["ev"][1]["unsbits"].append(20))
    rej = {tr["tid"]: clause for tr, line, clause in ctx.validate("Trace_Tsig", "Trace_Tsig.cfg", [c[2] for c in cases], env={"C14_STRICT_TTL": "0"})}
    ok = True
    matrix = []
    for name, clause, tr in cases:
        got = rej.get(name)
        good_row = (got == clause)
        ok = ok and good_row
        matrix.append({"case": name, "expected_clause": clause, "rejected_by": got, "ok": good_row})
        print("selftest %-24s expected=%-20s got=%-20s %s" % (name, clause, got, "ok" if good_row else "FAIL"))
    with open(os.path.join(os.path.dirname(os.path.dirname(os.path.abspath(__file__))), "evidence", "C14.selftest.json"), "w") as f:
        json.dump({"corrupted_field_matrix": matrix}, f, indent=1)
    return 0 if ok else 2
