"""C04 - untrusted wire or text input only ever raises the library's own errors."""
import gc
import hashlib
import json
import os
import re
import threading

from drivers import c04_robust
from vlib import c04_table, core

LEVEL = "fault_enumeration"
META = {
    "text": "Robustness.tla is a fault generator: it builds small valid inputs abstractly (wire messages as records of typed "
            "fields, wire names, one specimen per rdata type and EDNS option, text names / rdata / TTLs / zone files / text "
            "messages as lines of role-tagged tokens) and applies fault actions (Truncate at every k, FlipLen, SetCount, "
            "PointerTo self/forward/mid-label, BadLabelType, RdlenMismatch, TrailingBytes, OptInWrongSection, TsigNotLast, "
            "SecondOpt; UnterminatedQuote, BadEscape, EmptyQuotedToken, UnbalancedParen, BadTTL, UnknownType/Class, "
            "MissingField, ExtraField, NewlineInQuote, LeadingDirectiveGarbage, numeric extremes) - every single fault at "
            "every position, every pair on the small bases. TLC checks laws of the reference reader (RobustWire.tla) on "
            "every generated input and emits the inputs; the driver feeds each to every parser entry point under every "
            "option vector with a watchdog and logs the outcome as isinstance family tags, plus the outcome of rendering "
            "every returned value to text and wire. Trace_Robustness rebuilds each input from its descriptor and requires: "
            "outcome in the allowed set of the entry point, the verdict where the grammar decides it, continue_on_error "
            "bookkeeping (offsets, records kept, nothing raised after the header but the requested truncation signal), "
            "file:line on zone syntax errors, renderability. Seeded random byte/char strings get the outcome-set clauses.",
    "note": "The quantifier 'all strings of any length' is not enumerable: exhaustive is the single-fault (and on small bases "
            "the double-fault) neighbourhood of the valid inputs listed in Robustness.tla/RobustTable.tla; random strings "
            "(lengths 0-600) are seeded samples. $INCLUDE is not enabled (it opens attacker-named files by design). "
            "Trusted: TLC, the Json module, the projection in drivers/c04_robust.py (family tags, offsets, file:line).",
    "technique": "TLA+ fault-generator specification + reference reader; TLC enumeration; outcomes of the real parsers "
                 "validated by TLC trace checking",
    "design_ref": "DESIGN.md section 4, C04",
}

BATCH = 80000  # inputs per driver / validation batch (bounds the memory of a run)


class _RssWatch:
    """Samples the memory (PSS) of this process and all its descendants (driver workers,
    TLC JVMs) every 2 s; stop() returns the peak in MB.  Evidence only, never a verdict."""

    def __init__(self):
        self.peak = 0
        self.done = threading.Event()
        self.t = threading.Thread(target=self._run, daemon=True)
        self.t.start()

    @staticmethod
    def _tree_rss():
        kids, rss = {}, {}
        for d in os.listdir("/proc"):
            if d.isdigit():
                try:
                    with open("/proc/%s/stat" % d) as f:
                        parts = f.read().rsplit(")", 1)[1].split()
                    kids.setdefault(int(parts[1]), []).append(int(d))
                    rss[int(d)] = int(parts[21]) * 4096
                except (OSError, IndexError, ValueError):
                    pass
        total, todo = 0, [os.getpid()]
        while todo:
            p = todo.pop()
            total += _RssWatch._pss(p, rss.get(p, 0))
            todo += kids.get(p, [])
        return total

    @staticmethod
    def _pss(pid, fallback):
        """Proportional set size (pages shared with forked workers are counted once)."""
        try:
            with open("/proc/%d/smaps_rollup" % pid) as f:
                for line in f:
                    if line.startswith("Pss:"):
                        return int(line.split()[1]) * 1024
        except (OSError, ValueError, IndexError):
            pass
        return fallback

    def _run(self):
        while not self.done.wait(2.0):
            self.peak = max(self.peak, self._tree_rss())

    def stop(self):
        self.done.set()
        self.peak = max(self.peak, self._tree_rss())
        return self.peak // (1 << 20)


ALL_KINDS = ["msg", "namew", "rdw", "optw", "optm", "namet", "rdt", "rdg", "ttl", "zone", "zinc", "msgt"]
GEN_CFG = """INIT Init
NEXT Next
VIEW View
CONSTANTS
  MaxFaults = {mf}
  Kinds = {kinds}
  PairBases = {pairs}
INVARIANT Emit
CHECK_DEADLOCK FALSE
"""
PAIRS_QUICK = ["M1", "M5", "N1", "N2", "L1", "T1"]
PAIRS_THOROUGH = ["M1", "M2", "M3", "M4", "M5", "M6", "N1", "N2", "L1", "L2", "L3", "L4", "T1", "T2", "T3", "Z1", "Z2", "Z3", "Z4", "Z5", "A", "AAAA", "MX", "TXT", "OPT", "TSIG", "NSEC", "NSEC3", "SVCB", "HTTPS", "APL", "LOC", "SOA", "RRSIG", "NAPTR", "HIP", "IPSECKEY", "CAA", "URI", "CERT", "TKEY", "DS", "AMTRELAY", "CSYNC", "GPOS", "ISDN", "NSAP", "CH.A", "8.1", "8.2", "15.1", "15.2", "10.2", "18.1"]


def tset(xs):
    return "{" + ", ".join(json.dumps(x) for x in xs) + "}"


def finish_job(job, table_by_key):
    """Add what the driver needs that is a function of the input alone (class/type/code of
    a specimen key, ASCII-ness and number of newlines of a text)."""
    k = job["kind"]
    if k == "rdw" and "cls" not in job:
        sp = table_by_key["rd"][job["base"]]
        job.update(cls=sp["cls"], type=sp["type"], rdlen=job["len"])
    elif k == "optw" and "code" not in job:
        job.update(code=table_by_key["opt"][job["base"]]["code"], olen=job["len"])
    elif k in ("rdt", "rdg") and "cls" not in job:
        sp = table_by_key["rd"][job["base"]]
        job.update(cls=sp["cls"], type=sp["type"])
    if k in ("rdw", "optw") and "len" not in job:
        job["len"] = job.get("rdlen", job.get("olen"))
    if "s" in job and job.get("src") == "spec":
        # TLA+ strings are ASCII: {U+XXXX} in the specification's text stands for that code
        # point.  senc / subenc keep what the specification wrote (InputBinding), s / sub are
        # what the parsers get.
        job["senc"] = job["s"]
        job["s"] = _UNI.sub(lambda m: chr(int(m.group(1), 16)), job["s"])
        if "sub" in job:
            job["subenc"] = job["sub"]
            job["sub"] = _UNI.sub(lambda m: chr(int(m.group(1), 16)), job["sub"])
    if "s" in job:
        job["ascii"] = 1 if all(ord(c) < 128 for c in job["s"]) else 0
        job["nl"] = job["s"].count("\n")
    return job


# a digit string beyond int()'s limit (4300 digits), or a $GENERATE width of 4+ digits
_HUGE = re.compile(r"[0-9]{4301,}|\$\{[0-9]+,[0-9]{4,}")
# a $ORIGIN directive whose argument does not end with a dot
_REL_ORIGIN = re.compile(r"(^|\n)\$ORIGIN[ \t]+[^ \t\n]*[^. \t\n][ \t]*(\n|$)")
_UNI = re.compile(r"\{U\+([0-9A-F]{4,6})\}")
_BIG_ESC = re.compile(r"\\(2[5-9][0-9]|[3-9][0-9][0-9])")


def fault_names(tr):
    out = []
    for f in tr.get("hist", []):
        out.append(f[0] + ("." + f[3] if f[0] == "tok" else "." + str(f[2]) if f[0] == "ins" else ""))
    return "+".join(out) if out else ("rnd" if tr.get("src") == "rnd" else "base")


def classify(tr, line, clause):
    """Case signature of a rejected trace (matched against known_findings.json)."""
    ev = tr["ev"]
    e = ev[line - 1] if line and 0 < line <= len(ev) else {}
    op = e.get("op", "?")
    kind = tr.get("kind")
    cls = e.get("cls", "-")
    hist = tr.get("hist", [])
    if clause == "OutcomeSet" and "s" in tr and _HUGE.search(tr["s"]) and cls in ("ValueError", "hang", "MemoryError", "OverflowError"):
        return "C04-huge-number:%s:%s" % (op, cls)
    if clause == "OutcomeSet" and kind in ("namet", "zone", "msgt", "rdt") and cls == "struct.error" \
            and _BIG_ESC.search(tr.get("s", "")):
        return "F1:from_text-decimal-escape-above-255:struct.error"
    if clause == "OutcomeSet" and kind == "zone" and cls == "IndexError" and \
            re.search(r'(^|\n)""', tr.get("s", "")):
        return "F2:zone-line-starting-with-empty-quoted-string:IndexError"
    if clause == "Render" and kind == "rdt" and tr.get("type") == "LOC" and e.get("rwc") == "struct.error":
        return "F3:LOC-altitude-out-of-range:struct.error-in-to_wire"
    if clause == "Render" and kind == "rdw" and tr.get("type") == "URI" and e.get("rtc") == "UnicodeDecodeError":
        return "F5:URI-target-not-utf8:UnicodeDecodeError-in-to_text"
    if clause == "Render":
        which = "text:" + e.get("rtc", "-") if e.get("rt", ["ok"])[0] not in ("ok", "none") and "DNSException" not in e.get("rt", []) \
            else "wire:" + e.get("rwc", "-")
        if op == "zone" and which == "text:KeyError" and e.get("opts", [0, 1])[1] == 0 and _REL_ORIGIN.search(tr.get("s", "")):
            return "C04-relative-origin-without-origin:to_text:KeyError"
        if op == "msgt" and which == "wire:struct.error":
            return "C04-msgtext-value-out-of-range:struct.error-in-to_wire"
        if op == "zone" and which == "text:AssertionError" and e.get("opts", [0, 1])[1] == 0:
            return "C04-zone-without-origin:to_text:AssertionError"
        return "Render:%s:%s:%s:%s" % (op, which, tr.get("type", tr.get("base", "-")), fault_names(tr))
    if clause in ("OutcomeSet", "CoeErrorFamily"):
        if clause == "CoeErrorFamily":
            bad = [x["cls"] for x in e.get("errs", []) if "DNSException" not in x["tags"]]
            cls = bad[0] if bad else cls
        if op == "optw" and cls in ("ValueError", "UnicodeDecodeError", "dns.exception.SyntaxError"):
            return "C04-edns-option-from-wire:%s" % cls
        if op == "msgt" and cls == "KeyError":
            return "C04-msgtext-unknown-flag:KeyError"
        if op == "msgt" and cls == "ValueError":
            return "C04-msgtext-number-out-of-range:ValueError"
        if op == "msg" and cls == "NotImplementedError" and e.get("opts", [0] * 6)[5] == 1:
            return "C04-tsig-unknown-algorithm:NotImplementedError"
        if op == "zone" and cls == "AssertionError" and e.get("opts", [0, 1])[1] == 0:
            return "C04-zone-without-origin:check_origin:AssertionError"
        if kind == "rdt" and tr.get("type") == "WKS" and "hang" in e.get("out", []):
            return "C04-wks-unbounded-port:hang"
        return "%s:%s:%s:%s:%s" % (clause, op, cls, tr.get("type", tr.get("base", "-")) if kind in ("rdw", "rdt", "rdg", "optw", "optm") else kind,
                                   fault_names(tr))
    return "%s:%s:%s:%s" % (clause, op, kind, fault_names(tr))


def describe(tr, line):
    e = tr["ev"][line - 1] if line and 0 < line <= len(tr["ev"]) else {}
    inp = tr.get("s")
    if inp is None:
        inp = bytes(tr.get("w", [])).hex()
    return "kind=%s %s input=%r event %s: %s" % (tr.get("kind"), fault_names(tr), inp[:120], line,
                                                   json.dumps({k: e.get(k) for k in ("op", "opts", "out", "cls", "rt", "rtc", "rw", "rwc", "errs", "fp", "ln") if k in e})[:400])


def run(ctx):
    quick = ctx.tier == "quick"
    ctx.rule = ("inputs = every state of the Robustness fault generator (valid bases, every single fault at every position, "
                "every pair of faults on the PairBases) + seeded random byte/char strings; each input goes to every entry "
                "point of its kind under every option vector (light vectors for double faults and random inputs); "
                "distinct = distinct (kind, input octets/text); non-trivial = at least one fault applied or random")
    ctx.assumptions += ["TLC and CommunityModules Json are correct",
                        "driver projection (family tags by isinstance, error offsets, file:line prefix) is faithful",
                        "watchdog: 1 s CPU per call, then a deterministic re-run counting 2e6 traced lines decides 'hang'",
                        "$INCLUDE is not enabled; $GENERATE ranges are the caller's own work factor (only tiny ranges used)",
                        "exhaustive only in the single/double-fault neighbourhood of the bases; random strings are samples"]
    if not c04_table.check_current():
        raise core.Machinery("specs/RobustTable.tla is stale: run /venv/bin/python vlib/c04_table.py")
    table = c04_table.load()
    by_key = {"rd": {r["key"]: r for r in table["rdata"]}, "opt": {o["key"]: o for o in table["options"]}}
    outs, sigs, samples = {}, {}, []
    watch = _RssWatch()
    # thorough validates with fewer, smaller JVMs: several thorough tiers may run side by side
    vkw = {} if quick else {"shards": 8, "heap": "1g"}

    def process(jobs):
        """Run one batch through the driver and the trace specification; nothing of a batch
        but its counters, samples and rejects is kept."""
        for k in range(0, len(jobs), BATCH):
            part = jobs[k:k + BATCH]
            gc.collect()
            gc.freeze()  # the forked workers then leave the inherited objects alone (no copy-on-write)
            try:
                traces = ctx.pmap(c04_robust.run_job, part)
            finally:
                gc.unfreeze()
            ctx.evaluations += sum(len(tr["ev"]) for tr in traces)
            for tr in traces:
                if tr.get("hist") or tr.get("src") == "rnd":
                    key = "%s|%s|%s|%s" % (tr["kind"], tr.get("s") if "s" in tr else bytes(tr["w"]).hex(), tr.get("cur", 0), tr.get("len", 0))
                    ctx.distinct.add(int.from_bytes(hashlib.blake2b(key.encode("utf-8", "surrogatepass"), digest_size=8).digest(), "big"))
                for e in tr["ev"]:
                    o = "%s:%s" % (e["op"], "ok" if e["out"] == ["ok"] else e["cls"])
                    outs[o] = outs.get(o, 0) + 1
            if len(samples) < 4:
                samples.extend(traces[:2])
            rejects = ctx.validate("Trace_Robustness", "Trace_Robustness.cfg", traces, **vkw)
            jobmap = {j["tid"]: j for j in part}
            for tr, line, clause in rejects:
                sig = classify(tr, line, clause)
                sigs[sig] = sigs.get(sig, 0) + 1
                if sigs[sig] <= 200:  # finish() reports one case per signature; bound what is kept
                    ctx.violation(clause, sig, describe(tr, line), {"job": jobmap.get(tr["tid"]), "line": line, "trace": tr})

    if ctx.replay_case:
        job = ctx.replay_case["case"]["job"]
        job["wd"] = ctx.work
        process([job])
    else:
        ctx.model("MC_Robustness", "MC_Robustness_quick.cfg" if quick else "MC_Robustness_thorough.cfg",
                  workers=1 if quick else 16, heap="4g")
        bases = {}
        nspec = 0
        # quick: one generator run; thorough: one per group of kinds, so that only one group
        # of inputs is ever in memory
        groups = [ALL_KINDS] if quick else [["msg"], ["namew", "optw", "optm"], ["rdw"], ["rdt"], ["rdg"],
                                            ["namet", "ttl", "msgt"], ["zone", "zinc"]]
        for g, kinds in enumerate(groups):
            cfg = ctx.cfg("gen%d.cfg" % g, GEN_CFG.format(mf=2, kinds=tset(kinds), pairs=tset(PAIRS_QUICK if quick else PAIRS_THOROUGH)))
            behs = ctx.generate("Gen_Robustness", cfg, count=False, heap="4g")
            jobs = []
            for i, b in enumerate(behs):
                if b["kind"] == "zinc" and not b["hist"]:
                    continue  # not split yet: the same input as a plain zone
                job = dict(b)
                job.update(tid="s%d.%d" % (g, i), src="spec", light=len(b["hist"]) >= 2, wd=ctx.work)
                jobs.append(finish_job(job, by_key))
                if not b["hist"] and b["kind"] in ("msg", "namew", "namet", "ttl", "zone", "msgt"):
                    bases.setdefault(b["kind"], []).append(job.get("w") or job.get("s"))
            del behs
            nspec += len(jobs)
            process(jobs)
            del jobs
        ctx.extra["spec_inputs"] = nspec
        nrnd = 8000 if quick else 300000
        for c in range(0, nrnd, BATCH):
            n = min(BATCH, nrnd - c)
            # chunk c of the seeded random inputs (its own sub-seed: the chunks are independent)
            rnd = c04_robust.random_jobs(ctx.seed * 1000 + c // BATCH, n, table, bases)
            process([finish_job(j, by_key) for j in rnd])
        ctx.extra["random_inputs"] = nrnd
    ctx.extra["entry_point_calls"] = ctx.evaluations
    ctx.extra["outcomes"] = dict(sorted(outs.items(), key=lambda kv: -kv[1])[:60])
    ctx.extra["peak_pss_mb_process_tree"] = watch.stop()
    for tr in samples[:4]:
        ctx.sample({k: v for k, v in tr.items() if k != "ev"} | {"ev": tr["ev"][:2]})
    for sig, n in sorted(sigs.items()):
        ctx.log("rejected %5d  %s" % (n, sig))
    ctx.log("peak memory (PSS) of the process tree: %d MB" % ctx.extra["peak_pss_mb_process_tree"])


def selftest(ctx):
    """Corrupt one logged field of good traces and require rejection by the named clause
    (the uncorrupted traces must be accepted).  Writes evidence/C04.selftest.json."""
    import copy
    import os
    table = c04_table.load()
    by_key = {"rd": {r["key"]: r for r in table["rdata"]}, "opt": {o["key"]: o for o in table["options"]}}
    cfg = ctx.cfg("gen_st.cfg", GEN_CFG.format(mf=1, kinds=tset(["msg", "zone", "namet"]), pairs=tset([])))
    behs = ctx.generate("Gen_Robustness", cfg, count=False)

    def pick(pred):
        b = next(x for x in behs if pred(x))
        job = finish_job(dict(b, tid="st", src="spec", light=False), by_key)
        return c04_robust.run_job(job)

    good_msg = pick(lambda x: x["kind"] == "msg" and x["base"] == "M2" and x["hist"] == [["fld", 2, 6, [192, 0, 2]]])
    good_zone = pick(lambda x: x["kind"] == "zone" and x["base"] == "Z1" and x["hist"] == [["tok", 2, 2, "badttl"]])
    good_name = pick(lambda x: x["kind"] == "namet" and x["base"] == "T1" and x["hist"] == [])
    cases = []

    def corrupt(name, base, clause, fn):
        tr = copy.deepcopy(base)
        fn(tr)
        tr["tid"] = name
        cases.append((name, clause, tr))

    coe = next(i for i, e in enumerate(good_msg["ev"]) if e["opts"] == [0, 0, 0, 1, 0, 0])
    corrupt("outcome-not-library", good_msg, "OutcomeSet", lambda t: t["ev"][0].update(out=["other"], cls="IndexError"))
    corrupt("accepted-faulted-input", good_msg, "Verdict", lambda t: t["ev"][0].update(out=["ok"], cls="-"))
    corrupt("coe-raises", good_msg, "OutcomeSet", lambda t: t["ev"][coe].update(out=["DNSException", "FormError"]))
    corrupt("coe-offset-shifted", good_msg, "Bookkeeping", lambda t: t["ev"][coe]["errs"][0].update(off=20))
    corrupt("coe-error-dropped", good_msg, "Bookkeeping", lambda t: t["ev"][coe].update(errs=[]))
    corrupt("coe-record-lost", good_msg, "Records", lambda t: t["ev"][coe].update(n=[1, 0, 0, 1]))
    corrupt("coe-error-not-library", good_msg, "CoeErrorFamily", lambda t: t["ev"][coe]["errs"][0].update(tags=["other"]))
    corrupt("input-octet-changed", good_msg, "InputBinding", lambda t: t["w"].__setitem__(20, 0))
    corrupt("render-raises", good_name, "Render", lambda t: t["ev"][0].update(rw=["other"], rwc="struct.error"))
    corrupt("hang", good_name, "OutcomeSet", lambda t: t["ev"][0].update(out=["hang"], cls="hang"))
    zd = next(i for i, e in enumerate(good_zone["ev"]) if e["op"] == "zone" and e["opts"] == [1, 1, 0, 1])
    corrupt("zone-error-without-file-line", good_zone, "FileLine", lambda t: t["ev"][zd].update(fp=0, ln=0))
    corrupt("zone-error-wrong-line", good_zone, "ErrLine", lambda t: t["ev"][zd].update(ln=5))
    corrupt("zone-bad-ttl-accepted", good_zone, "Verdict", lambda t: t["ev"][zd].update(out=["ok"], cls="-"))
    goods = [dict(good_msg, tid="good-msg"), dict(good_zone, tid="good-zone"), dict(good_name, tid="good-name")]
    rejects = ctx.validate("Trace_Robustness", "Trace_Robustness.cfg", goods + [c[2] for c in cases])
    got = {tr["tid"]: clause for tr, line, clause in rejects}
    rows = [{"case": n, "expected_clause": c, "rejected_by": got.get(n)} for n, c, _ in cases]
    ok = all(r["rejected_by"] == r["expected_clause"] for r in rows) and not any(t.startswith("good-") for t in got)
    for r in rows:
        ctx.log("selftest %-32s expected %-14s got %s" % (r["case"], r["expected_clause"], r["rejected_by"]))
    with open(os.path.join(core.ROOT, "evidence", "C04.selftest.json"), "w") as f:
        json.dump({"property_id": "C04", "corrupted_traces": rows, "good_traces_accepted": not any(t.startswith("good-") for t in got),
                   "ok": ok}, f, indent=1)
    print("SELFTEST C04 %s (%d corrupted traces)" % ("ok" if ok else "FAILED", len(rows)))
    return 0 if ok else 2
