"""X03 - NameDict deepest match (X03a) and Rdataset.processing_order() (X03b).
Growth of the specification beyond C01-C20 (DESIGN.md section 7); not in MANIFEST.json."""
import json
import math
import os

from drivers import x03_namedict, x03_procorder
from vlib.core import Machinery

LEVEL = "model_checking"
META = {
    "text": "NameDict.tla models dns.namedict.NameDict from its documentation (a dictionary keyed by names, "
            "get_deepest_match = longest stored superdomain, max_depth/max_depth_items attributes); TLC checks its "
            "invariants, enumerates call histories (exhaustive small depths + seeded simulation) which are replayed on "
            "the real class; Trace_NameDict requires every call to be the model's action and the final probe of every "
            "query name to be an allowed deepest match.  ProcOrder.tla is a nondeterministic specification of "
            "processing_order(): the set of allowed output sequences (ascending priority, any order inside a priority, "
            "RFC 2782 selection shown to allow every order); TLC enumerates abstract rdatasets, the driver calls the real "
            "method under many seeds for every concrete type, Trace_ProcOrder accepts an order iff it is allowed and "
            "judges the sample (tied records seen in both orders, heavier SRV/URI record mostly first).",
    "note": "Exhaustive inside the declared universes only (<=9 keys, <=4 calls exhaustive / <=12 simulated; rdatasets of "
            "<=3-4 records over 3-4 priorities and weights, plus all-equal ones up to 6). Sample clauses are statistical "
            "with false-alarm odds < 2^-39 per pair and deterministic for a given VERIF_SEED.",
    "technique": "TLA+ reference model / nondeterministic specification + TLC; generated inputs replayed on the code; TLC trace validation",
    "design_ref": "DESIGN.md section 7 (processing_order, dns.namedict deepest match)",
}

ND_CFG = """INIT GInit
NEXT GNext
CONSTANTS
  Keys <- {keys}
  Queries <- Probes
  Vals = {vals}
  MaxOps = {maxops}
  Ops = {ops}
  Spellings = {sp}
  InitMaps <- {inits}
  MinOps = {minops}
INVARIANT Emit
CHECK_DEADLOCK FALSE
"""
PO_CFG = """INIT GInit
NEXT GNext
CONSTANTS
  GA = {ga}
  GB = {gb}
  GW = {gw}
  MaxRecs = {n}
CHECK_DEADLOCK FALSE
"""
ALLOPS = ["set", "setbad", "del", "pop", "setdefault", "clear", "get", "has", "match"]
WRITES = ("set", "del", "pop", "setdefault", "clear")


def tset(xs):
    return "{" + ", ".join(json.dumps(x) if isinstance(x, str) else str(x) for x in xs) + "}"


def nd_generate(ctx, name, probes, **kw):
    d = dict(keys="Tree5", vals=tset([1, 2]), maxops=3, ops=tset(["set", "del"]), sp=tset(["l"]), inits="GenInitEmpty", minops=1)
    sim = {k: kw.pop(k) for k in ("simulate", "depth", "seed", "limit") if k in kw}
    d.update(kw)
    r = ctx.model("Gen_NameDict", ctx.cfg(name, ND_CFG.format(**d)), workers=1, deadlock=False, **{k: v for k, v in sim.items() if k != "limit"})
    for p in r.prints.get("PRB", [])[:1]:
        probes[:] = sorted(p)
    seen, out = set(), []
    for b in r.prints.get("BEH", []):
        key = json.dumps(b, sort_keys=True)
        if key not in seen:
            seen.add(key)
            out.append(b)
    out = out[:sim.get("limit")]
    ctx.log("generated %d histories from Gen_NameDict/%s" % (len(out), name))
    if not out:
        raise Machinery("Gen_NameDict/%s produced no history" % name)
    return out


def nd_classify(tr, line, clause):
    ev = tr["ev"]
    e = ev[line - 1] if line and 0 < line <= len(ev) else {}
    op = e.get("op", "?")
    if clause == "MaxDepthItems" and op in ("set", "init") and line:
        # F-X03-1: the key assigned was already present (so nothing was added), it is as deep as
        # max_depth, and the counter is exactly one too high
        prev = ev[line - 2]["st"] if line >= 2 else []
        present = any(k == e.get("k") for k, _ in prev)
        depth_items = sum(1 for k, _ in e["st"] if len(k) == e["md"])
        if op == "set" and present and len(e["k"]) == e["md"] and e["mi"] == depth_items + 1:
            return "X03-F1:max_depth_items-overcounts:assign-existing-deepest-key"
    return "%s:%s:%s" % (clause, op, e.get("exc", ""))


def part_namedict(ctx, quick):
    probes = []
    if ctx.replay_case:
        case = ctx.replay_case["case"]
        probes[:] = case["probes"]
        hists = [case["hist"]]
    else:
        ctx.model("MC_NameDict", "MC_NameDict_quick.cfg" if quick else "MC_NameDict_thorough.cfg", workers=1 if quick else 16)
        hists = []
        # A1: every history of set/del calls over the 5-name chain (empty . a. x.a. z.x.a.), two values
        hists += nd_generate(ctx, "a1.cfg", probes, maxops=3 if quick else 4)
        # A2: every history of two calls of ANY kind (all 9 keys, every probe name as a match argument)
        hists += nd_generate(ctx, "a2.cfg", probes, keys="Keys9", ops=tset(ALLOPS), maxops=2, vals=tset([1]),
                             sp=tset(["l"]) if quick else tset(["l", "u"]), inits="GenInitMaps" if not quick else "GenInitEmpty")
        if quick:   # ... and from a constructed initial content
            hists += nd_generate(ctx, "a2b.cfg", probes, keys="Tree7", ops=tset(ALLOPS), maxops=2, vals=tset([1]), sp=tset(["u"]),
                                 inits="GenInitOne", minops=2)
        # A3: every history of set/del calls over the 7-name tree, one value
        hists += nd_generate(ctx, "a3.cfg", probes, keys="Tree7", vals=tset([1]), maxops=3 if quick else 4)
        # A4: long seeded random histories, every call kind, both spellings, constructed initial content
        n, depth = (1500, 8) if quick else (12000, 12)
        hists += nd_generate(ctx, "a4.cfg", probes, keys="Keys9", ops=tset(ALLOPS), sp=tset(["l", "u"]), inits="GenInitMaps",
                             maxops=depth, minops=depth, simulate="num=%d" % n, depth=depth + 2, seed=ctx.seed + 11, limit=6 * n)
    jobs = [(h, probes, "nd%d" % i) for i, h in enumerate(hists)]
    jobmap = {j[2]: j for j in jobs}
    traces = ctx.pmap(x03_namedict.run_job, jobs) if len(jobs) > 1 else [x03_namedict.replay(*jobs[0])]
    for tr in traces[:2]:
        ctx.sample({"tid": tr["tid"], "ev": tr["ev"][:3]})
    for h in hists:
        if sum(1 for e in h if e["op"] in WRITES) >= 2:
            ctx.note_distinct("nd:" + json.dumps(h[1:], sort_keys=True))
    ctx.extra["namedict_histories"] = len(hists)
    ctx.extra["namedict_probe_names"] = len(probes)
    ctx.extra["namedict_match_evaluations"] = sum(len(tr["ev"][-1].get("tab", [])) for tr in traces)
    # run 1: every clause incl. max_depth_items; traces failing ONLY that clause are validated again
    # without it, so that the rest of their history is still judged
    rejects = ctx.validate("Trace_NameDict", "Trace_NameDict_items.cfg", traces)
    again = [tr for tr, line, clause in rejects if clause == "MaxDepthItems"]
    rejects += ctx.validate("Trace_NameDict", "Trace_NameDict.cfg", again)
    ctx.extra["namedict_traces_rejected_for_items_only"] = len(again)
    for tr, line, clause in rejects:
        e = tr["ev"][line - 1] if line else {}
        job = jobmap[tr["tid"]]
        ctx.violation(clause, nd_classify(tr, line, clause), "NameDict history %s event %s: %s" % (tr["tid"], line, json.dumps(e)[:300]),
                      {"part": "namedict", "hist": job[0], "probes": job[1], "line": line, "trace": tr})
    return len(traces)


def npossible(kind, recs):
    if kind == "shuffle":
        return math.factorial(len(recs))
    groups = {}
    for a, b, w in recs:
        groups[(a, b)] = groups.get((a, b), 0) + 1
    return math.prod(math.factorial(n) for n in groups.values())


def po_generate(ctx, name, **kw):
    out = ctx.generate("Gen_ProcOrder", ctx.cfg(name, PO_CFG.format(**{k: (tset(v) if isinstance(v, list) else v) for k, v in kw.items()})),
                       deadlock=False)
    return [tuple(tuple(r) for r in b["recs"]) for b in out]


def part_procorder(ctx, quick):
    nseeds = 64 if quick else 256
    if ctx.replay_case:
        jobs = [ctx.replay_case["case"]["job"]]
    else:
        ctx.model("MC_ProcOrder", "MC_ProcOrder_quick.cfg" if quick else "MC_ProcOrder_thorough.cfg", workers=1 if quick else 16)
        n = 3 if quick else 4
        universe = []
        # B1: priorities x weights (SRV, URI)
        universe += po_generate(ctx, "b1.cfg", ga=[0], gb=[0, 10, 65535], gw=[0, 1, 50, 65535], n=n)
        # B2: (order, preference) pairs without weights (NAPTR; the a = 0 part serves every other type)
        universe += po_generate(ctx, "b2.cfg", ga=[0, 1, 65535], gb=[0, 10, 65535], gw=[0], n=n)
        # B3: up to 6 indistinguishable records (720 allowed orders); B4: one priority, light and heavy weights
        universe += po_generate(ctx, "b3.cfg", ga=[0], gb=[0], gw=[0], n=6)
        universe += po_generate(ctx, "b4.cfg", ga=[0], gb=[7], gw=[1, 65535], n=5)
        # B5: pairs over priorities whose numeric order differs from their order as text (9 < 10 < 300)
        universe += po_generate(ctx, "b5.cfg", ga=[0], gb=[2, 9, 10, 300, 65535], gw=[0], n=2)
        universe = list(dict.fromkeys(universe))
        ctx.extra["procorder_abstract_rdatasets"] = len(universe)
        jobs = []
        for i, recs in enumerate(universe):
            for j, (rtype, (kind, _)) in enumerate(x03_procorder.TYPES.items()):
                if not x03_procorder.applicable(rtype, recs):
                    continue
                k = len(jobs)
                jobs.append({"tid": "po%d.%s" % (i, rtype), "rtype": rtype, "kind": kind, "recs": recs,
                             "container": x03_procorder.CONTAINERS[(i + j) % 3], "iseed": ctx.seed * 7919 + k,
                             "seeds": [ctx.seed * 1000003 + 1000 * (k % 997) + s for s in range(nseeds)]})
    jobmap = {j["tid"]: j for j in jobs}
    traces = ctx.pmap(x03_procorder.run_job, jobs) if len(jobs) > 1 else [x03_procorder.replay(jobs[0])]
    ctx.sample({k: (v[:3] if k == "ev" else v) for k, v in traces[0].items()})
    calls = possible = observed = full = multi = 0
    for tr in traces:
        outs = {tuple(e["out"]) for e in tr["ev"] if e["op"] == "order"}
        calls += len(tr["ev"]) - 1
        p = npossible(tr["kind"], tr["recs"])
        possible += p
        observed += len(outs)
        if p > 1:
            multi += 1
            full += len(outs) == p
            ctx.note_distinct("po:%s:%s" % (tr["rtype"], json.dumps(tr["recs"])))
    ctx.extra.update({"procorder_rdatasets": len(traces), "procorder_calls": calls, "procorder_orders_possible": possible,
                      "procorder_orders_observed": observed, "procorder_rdatasets_with_choice": multi,
                      "procorder_rdatasets_all_orders_observed": full})
    rejects = ctx.validate("Trace_ProcOrder", "Trace_ProcOrder.cfg", traces)
    for tr, line, clause in rejects:
        e = tr["ev"][line - 1] if line else {}
        ctx.violation(clause, "%s:%s:%s" % (clause, tr["rtype"], tr["container"]),
                      "processing_order of %s %s (%s) event %s: %s" % (tr["rtype"], tr["recs"], tr["container"], line, json.dumps(e)[:200]),
                      {"part": "procorder", "job": jobmap[tr["tid"]], "line": line, "trace": tr})
    # drift (not a verdict of the check): the types whose RFC says "lower preference is preferred" but whose
    # class defines no order (RFC 6742 LP/NID/L32/L64, RFC 4025 IPSECKEY, RFC 8777 AMTRELAY) judged as "priority"
    pref = [dict(tr, kind="priority", tid=tr["tid"] + "#pref") for tr in traces if tr["rtype"] in x03_procorder.RFCPREF]
    if pref and not ctx.replay_case:
        before = ctx.traces
        bad = ctx.validate("Trace_ProcOrder", "Trace_ProcOrder.cfg", pref)
        ctx.traces = before
        ctx.drift = sum(1 for tr, line, clause in bad if clause == "PriorityOrder")
        ctx.extra["drift_rfc_preference_ignored"] = {
            "rdatasets_judged": len(pref), "rejected_as_priority": ctx.drift,
            "types": sorted({tr["rtype"] for tr, line, clause in bad})}
    return calls


def run(ctx):
    quick = ctx.tier == "quick"
    ctx.rule = ("NameDict: behaviours = call histories enumerated by TLC from Gen_NameDict (exhaustive to depth 3-4 + seeded "
                "simulation), distinct non-trivial = distinct history with >= 2 writing calls; processing_order: inputs = "
                "abstract rdatasets enumerated by TLC from Gen_ProcOrder x every concrete type that can carry them, "
                "non-trivial = more than one allowed order; evaluations = calls of the real methods that were judged")
    ctx.assumptions += ["TLC and CommunityModules Json are correct", "driver projections (drivers/x03_*.py) are faithful",
                        "exhaustive only inside the declared universes; beyond them seeded simulation",
                        "statistical clauses Shuffled/HeavierFirst: >= 40/60 seeded calls, deterministic per VERIF_SEED"]
    # X03_PART=namedict|procorder runs one half only (development / mutation testing convenience)
    part = ctx.replay_case["case"]["part"] if ctx.replay_case else (os.environ.get("X03_PART") or None)
    n = 0
    if part in (None, "namedict"):
        n += part_namedict(ctx, quick)
    if part in (None, "procorder"):
        n += part_procorder(ctx, quick)
    ctx.evaluations = n + ctx.extra.get("namedict_match_evaluations", 0)
