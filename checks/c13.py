"""C13 - inbound AXFR/IXFR converges to the server's zone or leaves the zone untouched."""
import concurrent.futures as cf
import json
import os
import random

from drivers import c13_xfr
from vlib import core, tlc

LEVEL = "model_checking"
META = {
    "text": "XfrInbound.tla specifies the server side (chains of <=3-4 zone versions with RFC 1982 serials incl. a wrap "
            "across 2^32, every valid AXFR / IXFR / AXFR-style / up-to-date / UDP answer, every cut into messages, one fault "
            "at every position), the client state machine of an inbound transfer (one action per record) and a declarative "
            "reference Ref(stream) read from RFC 5936/1995. TLC checks exhaustively that the client refines the reference "
            "(error => zone untouched and no transaction open, done => reference zone with the target serial, rejected "
            "streams refused, valid streams converge for every cut, the zone changes only at the commit point). Every script "
            "TLC enumerates is rendered to dns.message objects (directly and through to_wire/from_wire as "
            "dns.query._inbound_xfr does) and fed to a real dns.xfr.Inbound on dns.zone.Zone, dns.versioned.Zone and "
            "dns.btreezone.Zone (relativize on/off), and through the whole of dns.query.inbound_xfr and "
            "dns.asyncquery.inbound_xfr over scripted sockets (framing, read loop, UDP modes, TCP retry after UseTCP); "
            "Trace_XfrInbound replays the recorded events against the specification "
            "and the reference.",
    "note": "Exhaustive only inside the MC/Gen constants (zones of NS1 + <=3 further records, <=2 steps quick / <=3 steps "
            "thorough, every cut for unfaulted streams of the small universe, <=1-2 cut points plus one-record-per-message for "
            "faulted ones, a single fault). Fault enumeration = one fault per stream. Trusted: TLC, CommunityModules Json, the "
            "message rendering and zone projection in drivers/c13_xfr.py.",
    "technique": "TLA+ state machine + declarative reference, TLC refinement check; TLC-enumerated scripts replayed on the "
                 "code; TLC trace validation; single-fault enumeration",
    "design_ref": "DESIGN.md section 4, C13",
}

# direct: dns.message objects built by hand; wire: to_wire -> from_wire as _inbound_xfr parses; query: the whole of
# dns.query.inbound_xfr over scripted sockets (framing, read loop, UDP mode, TCP retry after UseTCP)
# aquery: the same through dns.asyncquery.inbound_xfr (its own copy of the read loop) with a scripted Backend (backend=)
CONFIGS = [(zc, rel, via) for via in ("direct", "wire", "query", "aquery") for zc in ("plain", "versioned", "btree")
           for rel in (True, False)]
NC = len(CONFIGS)

GEN_CFG = """INIT {init}
NEXT {next}
CONSTANTS
  Contents <- {contents}
  SerialSeqs <- {sseqs}
  MaxSteps = {steps}
  Kinds <- {kinds}
  FaultKinds <- {faults}
  MaxCuts = {cuts}
  QModes = {qmodes}
  Revs = {revs}
INVARIANT {inv}
CHECK_DEADLOCK FALSE
"""
MC_CFG = """SPECIFICATION Spec
CONSTANTS
  Contents <- {contents}
  SerialSeqs <- {sseqs}
  MaxSteps = {steps}
  Kinds <- {kinds}
  FaultKinds <- {faults}
  MaxCuts = {cuts}
  QModes = {qmodes}
  Revs = {revs}
INVARIANT TypeOK
INVARIANT ErrorLeavesZone
INVARIANT NoTxnLeftOpen
INVARIANT Converges
INVARIANT RejectsMalformed
INVARIANT AcceptsAcceptable
INVARIANT ValidConverges
INVARIANT BehindRefused
INVARIANT Terminates
INVARIANT ZoneContentWellFormed
PROPERTY CommitPoint
PROPERTY DoneIsFinal
CHECK_DEADLOCK FALSE
"""
FIRST = '{"first"}'
BOTHQ = '{"all", "first"}'
ACTIONS = ["BeginMessage", "FirstSoa", "AfterDone", "FinalSoa", "DeleteStartSoa", "AddStartSoa", "UnexpectedSoa",
           "FallbackToAxfr", "Apply", "EndOfMessage", "Eof", "Exit"]
WHYS = {"", "rcode", "question", "malformed", "backwards", "usetcp", "surplus", "serial", "notexact", "early"}


def params(contents, sseqs, steps, faults="AllFaults", cuts=1, qmodes=FIRST, revs="{FALSE}", kinds="AllKinds"):
    return dict(contents=contents, sseqs=sseqs, steps=steps, kinds=kinds, faults=faults, cuts=cuts, qmodes=qmodes, revs=revs)


def run_parallel(ctx, tasks, width):
    """tasks: list of (label, module, cfgpath, workers, kwargs).  Runs the TLC processes `width` at a time and
    books every result into ctx exactly as ctx.model does (sequentially, in task order)."""
    def one(task):
        label, module, cfg, workers, kw = task
        return tlc.run(module, cfg, os.path.join(ctx.work, "p_" + label), workers=workers, **kw)

    with cf.ThreadPoolExecutor(max_workers=width) as ex:
        results = list(ex.map(one, tasks))
    for (label, module, cfg, workers, kw), r in zip(tasks, results):
        tlc.must_pass(r, "TLC %s/%s" % (module, label))
        ctx.log("TLC %s/%s: %d distinct / %d generated states, %.1fs" % (module, label, r.distinct, r.generated, r.wall))
        ctx.states += r.distinct
        ctx.transitions += r.generated
        ctx.model_runs.append({"module": module, "cfg": label, "distinct_states": r.distinct, "states_generated": r.generated,
                               "depth": r.depth, "wall_s": round(r.wall, 1), "violated": r.violated,
                               "coverage_zero": sorted(a for a, (d, n) in r.coverage.items() if n == 0)})
    return results


def random_universe(ctx, k, n_contents):
    """A seeded sub-universe: contents and a serial sequence outside the fixed ones.  Written as a TLA+ module
    extending MC_XfrInbound so that TLC still does the enumeration."""
    rnd = random.Random(ctx.seed * 1000 + k)
    pool = ["NS2", "A1", "A2", "B1"]
    contents = set()
    while len(contents) < n_contents:
        pick = tuple(sorted(x for x in pool if rnd.random() < 0.5))
        contents.add(pick)
    ctext = "{" + ", ".join("{" + ", ".join(("NS1",) + c) + "}" for c in sorted(contents)) + "}"
    # four serials, consecutive ones ordered, the whole span < 2^31 so every pair is ordered
    start = rnd.choice([rnd.randrange(0, 2 ** 32), 2 ** 32 - rnd.randrange(1, 4), 2 ** 31 - rnd.randrange(1, 4),
                        rnd.randrange(0, 4) * 65536 + 65535 - rnd.randrange(0, 2)])
    sers = [start]
    budget = 2 ** 31 - 1
    for i in range(3):
        inc = rnd.choice([1, 1, 2, 65536, rnd.randrange(1, max(2, budget // (3 - i)))])
        inc = max(1, min(inc, budget - (2 - i)))
        budget -= inc
        sers.append((sers[-1] + inc) % 2 ** 32)
    stext = "<<" + ", ".join("<<%d, %d>>" % (s >> 16, s & 0xFFFF) for s in sers) + ">>"
    name = "Rnd_XfrInbound_%d" % k
    text = ("---- MODULE %s ----\nEXTENDS Gen_XfrInbound\nRContents == %s\nRSerials == {%s}\n====\n" % (name, ctext, stext))
    path = os.path.join(ctx.work, name + ".tla")
    with open(path, "w") as f:
        f.write(text)
    return path, ctext, stext


def classify(tr, line, clause):
    """Case signature of a rejected trace (matched against known_findings.json)."""
    ev = tr.get("ev", [])
    msgs = [e for e in ev if e.get("op") == "msg"]
    last = msgs[-1] if msgs else {}
    exc = last.get("exc", "")
    # F10: the message holding the final SOA also holds further records; the transaction was committed, THEN FormError
    # ("answers after final SOA") was raised.  Exactly: the trace spec found the zone changed to what was about to be
    # committed although the surplus was (correctly) refused, and the implementation reports done + FormError + no txn.
    if (clause == "ErrorAfterCommit_surplus" and exc == "FormError" and last.get("stx") and last.get("st", [0, 0, 0, False])[3] is True
            and last.get("txn") is False):
        return "F10:records-after-final-soa-in-same-message:committed-then-FormError"
    via = str(tr.get("via")) + ("/" + tr["umode"] if tr.get("umode") else "")
    if tr.get("leave", "propagate") != "propagate":
        via += "~" + tr["leave"]
    return "%s:%s:%s:%s:%s:%s:%s:%s" % (clause, tr.get("req"), "udp" if tr.get("udp") else "tcp", tr.get("kind"), tr.get("fault"),
                                        tr.get("zclass"), ("rel" if tr.get("rel") else "abs") + "/" + via, exc)


def nontrivial(script):
    n = sum(len(m["rrs"]) for m in script["msgs"])
    return script["fault"]["k"] != "none" or n >= 3


def jobs_for(scripts, offset, per_script):
    jobs = []
    for k, s in enumerate(scripts):
        i = offset + k
        a = i % NC
        picks = [a, (a + 1 + (i // NC) % (NC - 1)) % NC, (a + 7) % NC, (a + 13) % NC][:per_script]
        for cidx in dict.fromkeys(picks):
            zc, rel, via = CONFIGS[cidx]
            # udp_mode of inbound_xfr x kind of request (see replay_query for what the scripted server offers):
            # AXFR: all three modes (the mode only selects the transport of an IXFR); IXFR answered over UDP: ONLY, and
            # TRY_FIRST where the library's TCP retry is expected (unfaulted use-TCP answer); IXFR answered over TCP: NEVER,
            # and TRY_FIRST (a use-TCP datagram first) where the server is known to be ahead of the client
            umode = ""
            if via in ("query", "aquery"):
                r = (i // NC + cidx) % 3
                if s["req"] == "axfr":
                    umode = ("NEVER", "TRY_FIRST", "ONLY")[r]
                elif s["udp"]:
                    umode = "TRY_FIRST" if s["kind"] == "usetcp" and s["fault"]["k"] == "none" and r != 0 else "ONLY"
                else:
                    umode = "TRY_FIRST" if s["kind"] in ("ixfr", "axfrstyle") and r == 0 else "NEVER"
            # query paths over TCP: the connection ends with a clean EOF on the message boundary, after one octet of
            # the next length prefix, or in the middle of the next message (only seen if the transfer is not done by then)
            tail = ("none", "len", "body", "none")[(i // NC + cidx) % 4] if via in ("query", "aquery") and not s["udp"] else "none"
            # direct / wire paths: how the caller leaves the `with Inbound` block (see drivers.c13_xfr.replay)
            leave = ("propagate", "caught", "clean")[(i // NC + cidx) % 3] if via in ("direct", "wire") else "propagate"
            jobs.append((s, zc, rel, via, "s%d.%s.%s.%s%s%s%s" % (i, zc, "rel" if rel else "abs", via, "/" + umode if umode else "",
                                                                  "" if tail == "none" else "+" + tail,
                                                                  "" if leave == "propagate" else "~" + leave), tail, umode, leave))
    return jobs


def replay_and_judge(ctx, jobs, parallel=True):
    """Run the jobs on the implementation, validate the traces, record violations."""
    jobmap = {j[4]: j for j in jobs}
    traces = []
    for tr in (ctx.pmap(c13_xfr.run_job, jobs) if parallel else [c13_xfr.run_job(j) for j in jobs]):
        more = tr.pop("extra", [])
        traces.append(tr)
        for x in more:            # the TCP retry of a TRY_FIRST transfer is a transfer (trace) of its own
            jobmap[x["tid"]] = jobmap[tr["tid"]]
            traces.append(x)
    ctx.log("replayed %d jobs on the implementation (%d transfers)" % (len(jobs), len(traces)))
    ctx.evaluations += len(traces)
    for j in jobs:
        if nontrivial(j[0]):
            ctx.distinct.add(j[4])
    if len(ctx.samples) < 3 and traces:
        tr = traces[len(traces) // 2]
        ctx.sample({"tid": tr["tid"], "req": tr["req"], "kind": tr["kind"], "fault": tr["fault"],
                    "msgs": [len(m["rrs"]) for m in tr["msgs"]], "ev": tr["ev"]})
    # strict pass: free choices pinned to the model, state-machine attributes compared
    rejects = ctx.validate("Trace_XfrInbound", "Trace_XfrInbound.cfg", traces, env={"XFR_STRICT": "1"})
    soft = [r for r in rejects if r[2] in ("StateVars", "ValidStreamAccepted")]
    hard = [r for r in rejects if r[2] not in ("StateVars", "ValidStreamAccepted")]
    if soft:
        again = ctx.validate("Trace_XfrInbound", "Trace_XfrInbound.cfg", [r[0] for r in soft], env={"XFR_STRICT": "0"})
        ctx.traces -= len(soft)
        ctx.drift += len(soft) - len(again)
        hard += again
    for tr, line, clause in hard:
        sig = classify(tr, line, clause)
        e = tr["ev"][line - 1] if line and 0 < line <= len(tr["ev"]) else {}
        job = jobmap.get(tr["tid"])
        ctx.violation(clause, sig,
                      "%s %s kind=%s fault=%s zone=%s relativize=%s via=%s messages=%s event %s: %s" % (
                          tr.get("req"), "udp" if tr.get("udp") else "tcp", tr.get("kind"), tr.get("fault"), tr.get("zclass"),
                          tr.get("rel"), tr.get("via"), json.dumps([m["rrs"] for m in tr.get("msgs", [])])[:400], line, json.dumps(e)[:300]),
                      {"script": job[0] if job else None, "zclass": tr.get("zclass"), "rel": tr.get("rel"), "via": tr.get("via"),
                       "tail": tr.get("tail", "none"), "umode": tr.get("umode", ""), "leave": tr.get("leave", "propagate"), "line": line, "trace": tr if len(ctx.violations) < 200 else {"tid": tr.get("tid")}})


def run(ctx):
    quick = ctx.tier == "quick"
    per_script = 2
    ctx.rule = ("script = (initial zone, request, base serial, messages) enumerated by TLC from Gen_XfrInbound; each replayed on "
                "%d of the 24 configurations {plain, versioned, btree} x relativize x {direct, wire, query, aquery}; distinct = distinct (script, "
                "configuration); non-trivial = faulted, or at least 3 records delivered" % per_script)
    ctx.assumptions += ["TLC and CommunityModules Json are correct",
                        "message rendering and zone projection of drivers/c13_xfr.py are faithful",
                        "exhaustive only inside the constants of the MC/Gen configurations (see notes/C13.md); one fault per stream",
                        "the driver stops reading when the transfer reports done or raises, as dns.query._inbound_xfr does"]
    if ctx.replay_case:
        case = ctx.replay_case["case"]
        replay_and_judge(ctx, [(case["script"], case["zclass"], case["rel"], case["via"], "replay", case.get("tail", "none"),
                                case.get("umode", ""), case.get("leave", "propagate"))],
                         parallel=False)
        return
    # ---------------------------------------------------------------- 1. the specification itself
    if quick:
        mcs = [("mc_small_s2_1step_cut2", params("CSmall", "SS2", 1, cuts=2, qmodes=BOTHQ)),
               ("mc_small_s1_2step_valid_allcuts", params("CSmall", "SS1", 2, faults="NoFaults", cuts=99)),
               ("mc_tiny_s2_2step_cut1", params("CTiny", "SS2", 2, cuts=1)),
               ("mc_ttl_s3_1step_cut0", params("CTtl", "SS3", 1, cuts=0, revs="{TRUE}")),
               ("mc_sig_s1_2step_valid_cut0", params("CSig", "SS1", 2, faults="NoFaults", cuts=0))]
    else:
        mcs = [("mc_small_s123_2step_cut1", params("CSmall", "SS123", 2, cuts=1)),
               ("mc_small_s12_2step_valid_allcuts", params("CSmall", "SS12", 2, faults="NoFaults", cuts=99, qmodes=BOTHQ)),
               ("mc_mid_s2_1step_allcuts", params("CMid", "SS2", 1, cuts=99, revs="{TRUE, FALSE}")),
               ("mc_tiny_s2_3step_cut1", params("CTiny", "SS2", 3, cuts=1)),
               ("mc_ttl_s3_2step_cut1", params("CTtl", "SS3", 2, cuts=1, revs="{TRUE, FALSE}")),
               ("mc_wide_s1_1step_cut1", params("CWide", "SS1", 1, cuts=1)),
               ("mc_sig_s2_2step_reorder_cut1", params("CSig", "SS2", 2, faults="ReorderFaultKinds", cuts=1))]
    only = [x for x in os.environ.get("C13_ONLY", "").split(",") if x]   # development aid (mutation runs): restrict
    if only:                                                              # the generator groups, skip the big MC runs
        mcs = []
        ctx.extra["restricted_to"] = only
    # one TLC worker per run (the work is dominated by the enumeration of initial states, which is sequential, and a
    # single-worker JVM takes one slot of the machine-wide TLC throttle); parallelism comes from splitting every
    # configuration by kind of exchange and running the parts side by side
    tasks = []
    for label, p in mcs:
        for suffix, kinds in (("_ixfr", "KindsIxfr"), ("_other", "KindsOther")):
            q = dict(p, kinds=kinds)
            tasks.append((label + suffix, "MC_XfrInbound", ctx.cfg(label + suffix + ".cfg", MC_CFG.format(**q)), 1, {"heap": "4g"}))
    # vacuity: every action fires and every refusal reason is reached (-workers 1: TLC registers are per worker)
    wcfg = ctx.cfg("witness.cfg", GEN_CFG.format(init="WInit", next="Next", inv="Witness", **params("CTiny", "SS2", 1, cuts=1)))
    tasks.append(("witness", "Gen_XfrInbound", wcfg, 1, {"coverage": True}))
    results = run_parallel(ctx, tasks, width=11 if quick else 8)
    w = results[-1]
    whys = {x[0] for x in w.prints.get("WIT", [])}
    zero = [a for a in ACTIONS if w.coverage.get(a, (0, 0))[1] == 0]
    if whys != WHYS or zero:
        raise core.Machinery("vacuity: reasons reached %s (expected %s); actions never taken %s" % (sorted(whys), sorted(WHYS), zero))
    ctx.extra["refusal_reasons_reached"] = sorted(whys)
    ctx.extra["witnesses"] = len(w.prints.get("WIT", []))
    del results

    # ---------------------------------------------------------------- 2. scripts -> implementation -> trace validation
    if quick:
        gens = [("g_valid_allcuts", "Gen_XfrInbound", params("CSmall", "SS1", 2, faults="NoFaults", cuts=99)),
                ("g_valid_wrap", "Gen_XfrInbound", params("CSmall", "SS2", 2, faults="NoFaults", cuts=1, qmodes=BOTHQ)),
                ("g_faults_1step", "Gen_XfrInbound", params("CSmall", "SS2", 1, cuts=1)),
                ("g_faults_2step", "Gen_XfrInbound", params("CTiny", "SS1", 2, cuts=0)),
                ("g_ttl", "Gen_XfrInbound", params("CTtl", "SS3", 1, faults="ReorderFaultKinds", cuts=0, revs="{TRUE}")),
                # RRSIGs covering two different types at one owner, removed one at a time (re-signed zone)
                ("g_rrsig", "Gen_XfrInbound", params("CSig", "SS1", 2, faults="NoFaults", cuts=1))]
        nrnd, rsteps, rcuts, ncont = 1, 2, 0, 2
        flush_at, width = 10 ** 9, 8
    else:
        gens = [("g_valid_allcuts", "Gen_XfrInbound", params("CSmall", "SS12", 2, faults="NoFaults", cuts=99, qmodes=BOTHQ)),
                ("g_valid_mid", "Gen_XfrInbound", params("CMid", "SS123", 2, faults="NoFaults", cuts=1, revs="{TRUE, FALSE}")),
                ("g_valid_3step", "Gen_XfrInbound", params("CTiny", "SS2", 3, faults="NoFaults", cuts=99)),
                ("g_faults_2step", "Gen_XfrInbound", params("CSmall", "SS2", 2, cuts=0)),
                ("g_faults_2step_cut1", "Gen_XfrInbound", params("CTiny", "SS12", 2, cuts=1)),
                ("g_faults_3step", "Gen_XfrInbound", params("CTiny", "SS1", 3, cuts=0)),
                ("g_faults_mid", "Gen_XfrInbound", params("CMid", "SS3", 1, cuts=0)),
                ("g_ttl", "Gen_XfrInbound", params("CTtl", "SS3", 2, faults="ReorderFaultKinds", cuts=0, revs="{TRUE, FALSE}")),
                ("g_wide", "Gen_XfrInbound", params("CWide", "SS1", 1, cuts=0, qmodes=BOTHQ)),
                ("g_rrsig", "Gen_XfrInbound", params("CSig", "SS2", 2, faults="ReorderFaultKinds", cuts=1))]
        nrnd, rsteps, rcuts, ncont = 3, 2, 0, 3
        flush_at, width = 40000, 3
    gtasks = []
    if only:
        gens = [g for g in gens if g[0] in only]
        nrnd = nrnd if "g_random" in only else 0
    for label, module, p in gens:
        gtasks.append((label, module, ctx.cfg(label + ".cfg", GEN_CFG.format(init="GInit", next="GNext", inv="Emit", **p)), 1, {}))
    for k in range(nrnd):
        path, ctext, stext = random_universe(ctx, k, ncont)
        p = params("RContents", "RSerials", rsteps, cuts=rcuts)
        gtasks.append(("g_random_%d" % k, path, ctx.cfg("g_random_%d.cfg" % k, GEN_CFG.format(init="GInit", next="GNext", inv="Emit", **p)), 1, {}))
        ctx.extra.setdefault("random_universes", []).append({"contents": ctext, "serials": stext})
    per_group = {}
    ctx.extra["scripts_per_group"] = per_group
    ctx.extra["faulted_scripts"] = 0
    pending, total = [], 0

    def flush():
        nonlocal pending, total
        if pending:
            replay_and_judge(ctx, jobs_for(pending, total, per_script))
            total += len(pending)
            pending = []

    # the generators run `width` at a time, ahead of the replay; results are consumed in order and dropped
    for start in range(0, len(gtasks), width):
        batch = gtasks[start:start + width]
        results = run_parallel(ctx, batch, width=width)
        for (label, *_), r in zip(batch, results):
            beh = r.prints.get("BEH", [])
            if not beh:
                raise core.Machinery("generator %s produced no scripts" % label)
            per_group[label] = len(beh)
            ctx.extra["faulted_scripts"] += sum(1 for s in beh if s["fault"]["k"] != "none")
            pending += beh
            r.prints.clear()
            if len(pending) >= flush_at:
                flush()
        del results
    flush()
    ctx.extra["scripts"] = total
    ctx.log("scripts: %s" % per_group)


# ---------------------------------------------------------------------------------- binding self-test
def _corruptions():
    def exit_ev(tr):
        return tr["ev"][-1]

    def ok_msgs(tr):
        return [e for e in tr["ev"] if e.get("op") == "msg" and e.get("res") == "ok"]

    def drop_zone_record(tr):
        z = exit_ev(tr)["zone"]
        if len(z) < 2:
            return False
        z.pop(0)
        return True

    def bump_ttl(tr):
        z = exit_ev(tr)["zone"]
        z[-1][2] += 1
        return True

    def bump_serial(tr):
        for r in exit_ev(tr)["zone"]:
            if r[1] == "SOA":
                r[3][1] = (r[3][1] + 1) % 65536
                return True
        return False

    def flip_ret(tr):
        m = ok_msgs(tr)
        if not m:
            return False
        m[-1]["ret"] = not m[-1]["ret"]
        return True

    def open_txn(tr):
        exit_ev(tr)["open"] = 1
        return True

    def err_to_ok(tr):
        m = [e for e in tr["ev"] if e.get("op") == "msg" and e.get("res") == "err"]
        if not m or tr["fault"] == "none" and tr["kind"] in ("axfr", "ixfr", "axfrstyle", "uptodate"):
            return False
        m[-1].update(res="ok", exc="")
        return True

    def ok_to_err(tr):
        m = ok_msgs(tr)
        if not m or tr["fault"] != "none":
            return False
        m[0].update(res="err", exc="FormError", ret=False)
        del tr["ev"][tr["ev"].index(m[0]) + 1:-1]
        return True

    def flip_delete_mode(tr):
        m = ok_msgs(tr)
        if not m:
            return False
        m[-1]["st"][2] = not m[-1]["st"][2]
        return True

    def raised_cleared(tr):
        if not tr.get("raised"):
            return False
        tr["raised"] = ""
        return True

    return [("inbound_xfr's exception dropped (raised = '')", raised_cleared),
            ("exit.zone: one record removed", drop_zone_record), ("exit.zone: TTL + 1", bump_ttl),
            ("exit.zone: SOA serial + 1", bump_serial), ("msg.ret flipped", flip_ret), ("exit.open = 1", open_txn),
            ("refused message logged as accepted", err_to_ok), ("accepted message of a valid stream logged as refused", ok_to_err),
            ("msg.st.delete_mode flipped (strict pass)", flip_delete_mode)]


def selftest(ctx):
    """Corrupt one logged field of traces the trace specification accepts; every corrupted trace must be rejected."""
    import copy
    cfg = ctx.cfg("st.cfg", GEN_CFG.format(init="GInit", next="GNext", inv="Emit", **params("CTiny", "SS2", 1, cuts=1)))
    scripts = ctx.generate("Gen_XfrInbound", cfg)[::9]
    jobs = [(s, CONFIGS[i % NC][0], CONFIGS[i % NC][1], CONFIGS[i % NC][2], "st%d" % i) for i, s in enumerate(scripts)]
    traces = [c13_xfr.run_job(j) for j in jobs]
    for tr in traces:
        tr.pop("extra", None)
    bad = {id(r[0]) for r in ctx.validate("Trace_XfrInbound", "Trace_XfrInbound.cfg", traces, env={"XFR_STRICT": "1"})}
    good = [tr for tr in traces if id(tr) not in bad]
    ctx.log("selftest: %d of %d traces accepted before corruption" % (len(good), len(traces)))
    report, rc = [], 0
    for name, fn in _corruptions():
        mutated = []
        for tr in good:
            c = copy.deepcopy(tr)
            if fn(c):
                mutated.append(c)
            if len(mutated) >= 60:
                break
        rej = ctx.validate("Trace_XfrInbound", "Trace_XfrInbound.cfg", mutated, env={"XFR_STRICT": "1"})
        clauses = sorted({r[2] for r in rej})
        okk = len(mutated) > 0 and len(rej) == len(mutated)
        report.append({"corruption": name, "traces": len(mutated), "rejected": len(rej), "clauses": clauses, "ok": okk})
        print("selftest %-55s traces=%d rejected=%d %s %s" % (name, len(mutated), len(rej), clauses, "OK" if okk else "NOT-DETECTED"))
        if not okk:
            rc = 2
    with open(os.path.join(core.ROOT, "evidence", "C13.selftest.json"), "w") as f:
        json.dump({"property_id": "C13", "corruptions": report}, f, indent=1)
    return rc
