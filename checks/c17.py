"""C17 - resolver caches: freshness, LRU bound and order, counters (sequential part);
linearizability under concurrency is added on top (CacheLin)."""
import json

from drivers import c17_cache, c17_conc

LEVEL = "model_checking"
META = {
    "text": "(sequential) Cache.tla specifies both resolver caches as a sequential object over integer time (fresh iff now < "
            "expiration; LRU bound enforced after every put and resize; eviction strictly from the least recently used "
            "end; one hit or miss per lookup). TLC checks the invariants/action properties exhaustively on 3 keys, "
            "enumerates all call/clock scripts to a depth bound plus seeded long simulations; each script runs on the "
            "real dns.resolver.Cache and LRUCache under a virtual clock and Trace_Cache requires every call's result, "
            "counters and structural content (LRU ring walked forwards and backwards against the dict) to equal the model's. "
            "(concurrent) CacheLin.tla adds invocation/linearization/return steps per thread; TLC enumerates small multi-threaded "
            "programs, vlib/sched.py runs each on the real caches under every schedule with a bounded number of preemptions "
            "(yield points at every lock operation and, line-level, at every source line of the cache methods) plus seeded random "
            "schedules, and Trace_CacheLin accepts a recorded history only if TLC finds linearization points explaining every "
            "return value and the final ring/dict/counters.",
    "note": "Exhaustive inside the Gen/MC constants (3 keys, 2 values, TTL {1,3}, sizes 1..3, depth 3-4 scripts; depth 6-8 state "
            "space); longer histories are seeded TLC simulations. Trusted: TLC, Json module, the projection in "
            "drivers/c17_cache.py; time is virtual (dns.resolver.time rebound in the driver process). Concurrency: real threads "
            "serialized by a deterministic scheduler (cache.lock replaced by a shim lock); atomicity of one source line is assumed; "
            "programs are 2-3 threads x <=2 calls, preemption bound 1 (quick) / 2 (thorough).",
    "technique": "TLA+ sequential cache model + TLC exhaustive check; TLC-generated scripts replayed on the code; TLC trace validation",
    "design_ref": "DESIGN.md section 4, C17",
}

GEN_CFG = """INIT GInit
NEXT GNext
CONSTANTS
  Keys = {keys}
  Vals = {vals}
  TTLs = {{1, 3}}
  Sizes = {sizes}
  Steps = {steps}
  Kinds = {{"plain", "lru"}}
  MaxLen = {maxlen}
INVARIANT Emit
CHECK_DEADLOCK FALSE
"""


LIN_CFG = """INIT GInit
NEXT GNext
CONSTANTS
  Keys = {{"k1", "k2", "k3"}}
  Vals = {{1, 2}}
  TTLs = {{1}}
  Sizes = {{2}}
  Steps = {{1}}
  Kinds = {{"lru", "plain"}}
  Threads = {threads}
  ProgCalls <- {calls}
  MaxProg = {maxprog}
  MaxRest = {maxrest}
  Setups <- AllSetups
INVARIANT Emit
CHECK_DEADLOCK FALSE
"""


def concurrent_part(ctx, quick):
    """Linearizability: TLC enumerates the multi-threaded programs, the deterministic scheduler
    explores their interleavings on the real caches, TLC searches for a linearization."""
    ctx.model("MC_CacheLin", "MC_CacheLin_quick.cfg")
    if ctx.replay_case:
        jobs = [tuple(ctx.replay_case["case"]["job"])]
    else:
        progs = ctx.generate("Gen_CacheLin", ctx.cfg("lin1.cfg", LIN_CFG.format(
            threads='{"t1", "t2"}', calls="CallsSmall", maxprog=2, maxrest=1 if quick else 2)))
        jobs = [(p, "c%d" % i, 1, False, 2, ctx.seed) for i, p in enumerate(progs)]
        # line-level preemption (every source line of the cache methods is a yield point)
        step = 7 if quick else 1
        # (every program with ONE call per thread - all call pairs x setups x cache kinds - and a
        # sample of the longer ones in the quick tier)
        jobs += [(p, "l%d" % i, 1, True, 2, ctx.seed) for i, p in enumerate(progs)
                 if i % step == 0 or all(len(th) == 1 for th in p["prog"].values())]
        # bytecode-level preemption (a thread can be switched out inside one source line, e.g. between the
        # load and the store of `statistics.hits += 1`): programs made of lookups and counter reads
        def counting(p):
            ops = [c["op"] for th in p["prog"].values() for c in th]
            return all(o in ("get", "hits", "misses", "reset") for o in ops) and "get" in ops
        cj = [(p, "o%d" % i, 1, False, 0, ctx.seed, True) for i, p in enumerate(progs) if counting(p)]
        if quick:   # both cache kinds, every setup, spread evenly
            per = {}
            for j in cj:
                per.setdefault((j[0]["kind"], json.dumps(j[0]["setup"], sort_keys=True)), []).append(j)
            cj = [j for group in per.values() for j in group[:18]]
        jobs += cj
        if not quick:
            wide = ctx.generate("Gen_CacheLin", ctx.cfg("lin2.cfg", LIN_CFG.format(
                threads='{"t1", "t2"}', calls="CallsWide", maxprog=2, maxrest=1)))
            jobs += [(p, "w%d" % i, 2, False, 3, ctx.seed) for i, p in enumerate(wide)]
            three = ctx.generate("Gen_CacheLin", ctx.cfg("lin3.cfg", LIN_CFG.format(
                threads='{"t1", "t2", "t3"}', calls="CallsSmall", maxprog=1, maxrest=1)))
            jobs += [(p, "3t%d" % i, 2, True, 3, ctx.seed) for i, p in enumerate(three)]
    results = ctx.pmap(c17_conc.run_job, jobs)
    traces, runs = [], 0
    jobmap = {j[1]: j for j in jobs}
    for (trs, n) in results:
        runs += n
        traces += trs
    ctx.extra["concurrent_programs"] = len(jobs)
    ctx.extra["concurrent_executions"] = runs
    ctx.extra["concurrent_distinct_histories"] = len(traces)
    ctx.log("concurrent: %d programs, %d executions, %d distinct histories" % (len(jobs), runs, len(traces)))
    if traces:
        ctx.sample({"concurrent_history": traces[len(traces) // 2]["ev"][-6:], "sched": traces[len(traces) // 2]["sched"]})
    for tr in traces:
        ctx.note_distinct("H" + json.dumps(tr["ev"], sort_keys=True))
    ctx.evaluations += runs
    slim = [{k: v for k, v in tr.items() if k != "sched"} for tr in traces]
    rejects = ctx.validate("Trace_CacheLin", "Trace_CacheLin.cfg", slim, dfs=True)
    by_tid = {tr["tid"]: tr for tr in traces}
    for tr, line, clause in rejects:
        full = by_tid[tr["tid"]]
        ops = [e for e in tr["ev"] if e["op"] not in ("call", "ret", "tick", "final")]
        what = ops[0]["op"] if ops else "NotLinearizable"
        progid = tr["tid"].rsplit(".", 1)[0]
        calls = sorted({c["op"] for th in jobmap[progid][0]["prog"].values() for c in th}) if progid in jobmap else []
        sig = "%s:%s:%s:%s" % (what if ops else (clause if clause != "unmatched" else "NotLinearizable"), tr["kind"],
                               "opcode" if full["sched"].get("opcode") else ("line" if full["sched"].get("line") else "lock"), "+".join(calls))
        ctx.violation(clause, sig, "%s cache: no sequential order explains the history %s (schedule %s)" % (
            tr["kind"], json.dumps(tr["ev"][-7:])[:400], json.dumps(full["sched"])),
            {"job": list(jobmap.get(progid, ())), "trace": full})


def classify(tr, line, clause):
    e = tr["ev"][line - 1] if line and 0 < line <= len(tr["ev"]) else {}
    return "%s:%s:%s:%s" % (clause, e.get("op", "?"), tr.get("kind"), e.get("exc", ""))


def run(ctx):
    quick = ctx.tier == "quick"
    ctx.rule = ("scripts of cache calls and clock advances enumerated by TLC from Gen_Cache (all scripts to a depth bound, "
                "then seeded -simulate), each run on dns.resolver.Cache and LRUCache; distinct = distinct script; "
                "non-trivial = contains a put and a later get")
    ctx.assumptions += ["TLC and CommunityModules Json are correct", "virtual clock replaces time.time() inside dns.resolver",
                        "integer ticks stand for real-valued time"]
    if ctx.replay_case and "job" in ctx.replay_case["case"]:
        return concurrent_part(ctx, quick)
    if ctx.replay_case:
        jobs = [(ctx.replay_case["case"]["script"], "replay")]
    else:
        ctx.model("MC_Cache", "MC_Cache_quick.cfg" if quick else "MC_Cache_thorough.cfg")
        scripts = []
        scripts += ctx.generate("Gen_Cache", ctx.cfg("g1.cfg", GEN_CFG.format(
            keys='{"k1", "k2"}', vals="{1, 2}" if not quick else "{1}", sizes="{1, 2}", steps="{1, 3}", maxlen=3 if quick else 4)))
        scripts += ctx.generate("Gen_Cache", ctx.cfg("g2.cfg", GEN_CFG.format(
            keys='{"k1", "k2", "k3"}', vals="{1, 2}", sizes="{1, 2, 3}", steps="{1, 2, 4}", maxlen=24)),
            simulate="num=%d" % (300 if quick else 3000), depth=26, seed=ctx.seed + 1, deadlock=False,
            limit=3000 if quick else 60000)
        jobs = [(s, "s%d" % i) for i, s in enumerate(scripts)]
    traces = ctx.pmap(c17_cache.run_job, jobs)
    jobmap = {j[1]: j[0] for j in jobs}
    for s, tid in jobs:
        ops = [e["op"] for e in s]
        if "put" in ops and "get" in ops[ops.index("put"):]:
            ctx.note_distinct(json.dumps(s, sort_keys=True))
    for tr in traces[:2]:
        ctx.sample({"tid": tr["tid"], "kind": tr["kind"], "ev": tr["ev"][:3]})
    ctx.evaluations = len(traces)
    rejects = ctx.validate("Trace_Cache", "Trace_Cache.cfg", traces)
    for tr, line, clause in rejects:
        e = tr["ev"][line - 1] if line else {}
        ctx.violation(clause, classify(tr, line, clause),
                      "%s cache, event %s: %s" % (tr.get("kind"), line, json.dumps(e)[:300]),
                      {"script": jobmap.get(tr["tid"]), "line": line, "trace": tr})
    if not ctx.replay_case:
        concurrent_part(ctx, quick)
