"""C17 - resolver caches: freshness, LRU bound and order, counters (sequential part);
linearizability under concurrency is added on top (CacheLin)."""
import json

from drivers import c17_cache

LEVEL = "model_checking"
META = {
    "text": "Cache.tla specifies both resolver caches as a sequential object over integer time (fresh iff now < "
            "expiration; LRU bound enforced after every put and resize; eviction strictly from the least recently used "
            "end; one hit or miss per lookup). TLC checks the invariants/action properties exhaustively on 3 keys, "
            "enumerates all call/clock scripts to a depth bound plus seeded long simulations; each script runs on the "
            "real dns.resolver.Cache and LRUCache under a virtual clock and Trace_Cache requires every call's result, "
            "counters and structural content (LRU ring walked forwards and backwards against the dict) to equal the model's.",
    "note": "Exhaustive inside the Gen/MC constants (3 keys, 2 values, TTL {1,3}, sizes 1..3, depth 3-4 scripts; depth 6-8 state "
            "space); longer histories are seeded TLC simulations. Trusted: TLC, Json module, the projection in "
            "drivers/c17_cache.py; time is virtual (dns.resolver.time rebound in the driver process).",
    "technique": "TLA+ sequential cache model + TLC exhaustive check; TLC-generated scripts replayed on the code; TLC trace validation",
    "design_ref": "DESIGN.md section 4, C17",
}

GEN_CFG = """INIT GInit
NEXT GNext
CONSTANTS
  Keys = {keys}
  Vals = {vals}
  TTLs = {{1, 3}}
  Sizes = {sizes}
  Steps = {steps}
  Kinds = {{"plain", "lru"}}
  MaxLen = {maxlen}
INVARIANT Emit
CHECK_DEADLOCK FALSE
"""


def classify(tr, line, clause):
    e = tr["ev"][line - 1] if line and 0 < line <= len(tr["ev"]) else {}
    return "%s:%s:%s:%s" % (clause, e.get("op", "?"), tr.get("kind"), e.get("exc", ""))


def run(ctx):
    quick = ctx.tier == "quick"
    ctx.rule = ("scripts of cache calls and clock advances enumerated by TLC from Gen_Cache (all scripts to a depth bound, "
                "then seeded -simulate), each run on dns.resolver.Cache and LRUCache; distinct = distinct script; "
                "non-trivial = contains a put and a later get")
    ctx.assumptions += ["TLC and CommunityModules Json are correct", "virtual clock replaces time.time() inside dns.resolver",
                        "integer ticks stand for real-valued time"]
    if ctx.replay_case:
        jobs = [(ctx.replay_case["case"]["script"], "replay")]
    else:
        ctx.model("MC_Cache", "MC_Cache_quick.cfg" if quick else "MC_Cache_thorough.cfg")
        scripts = []
        scripts += ctx.generate("Gen_Cache", ctx.cfg("g1.cfg", GEN_CFG.format(
            keys='{"k1", "k2"}', vals="{1, 2}" if not quick else "{1}", sizes="{1, 2}", steps="{1, 3}", maxlen=3 if quick else 4)))
        scripts += ctx.generate("Gen_Cache", ctx.cfg("g2.cfg", GEN_CFG.format(
            keys='{"k1", "k2", "k3"}', vals="{1, 2}", sizes="{1, 2, 3}", steps="{1, 2, 4}", maxlen=24)),
            simulate="num=%d" % (300 if quick else 3000), depth=26, seed=ctx.seed + 1, deadlock=False,
            limit=3000 if quick else 60000)
        jobs = [(s, "s%d" % i) for i, s in enumerate(scripts)]
    traces = ctx.pmap(c17_cache.run_job, jobs)
    jobmap = {j[1]: j[0] for j in jobs}
    for s, tid in jobs:
        ops = [e["op"] for e in s]
        if "put" in ops and "get" in ops[ops.index("put"):]:
            ctx.note_distinct(json.dumps(s, sort_keys=True))
    for tr in traces[:2]:
        ctx.sample({"tid": tr["tid"], "kind": tr["kind"], "ev": tr["ev"][:3]})
    ctx.evaluations = len(traces)
    rejects = ctx.validate("Trace_Cache", "Trace_Cache.cfg", traces)
    for tr, line, clause in rejects:
        e = tr["ev"][line - 1] if line else {}
        ctx.violation(clause, classify(tr, line, clause),
                      "%s cache, event %s: %s" % (tr.get("kind"), line, json.dumps(e)[:300]),
                      {"script": jobmap.get(tr["tid"]), "line": line, "trace": tr})
