"""C07 - records and record sets: value semantics and exact set algebra."""
import concurrent.futures as cf
import json

from drivers import c07_sets

LEVEL = "model_checking"
META = {
    "text": "SetAlgebra.tla specifies record sets as duplicate-free sequences of items whose equality is by canonical "
            "class (not spelling), with operational definitions of every call (in-place and copying, other = self "
            "included), the refusal / singleton / TTL-minimum rules and immutable sets. TLC checks the set-theoretic "
            "laws on EVERY configuration of two handles over five items and the well-formedness invariants and step "
            "properties on all bounded histories. TLC-generated scripts are replayed on dns.set.Set, Rdataset, RRset and "
            "ImmutableRdataset with real MX/NS/A/SOA/CNAME/RRSIG records; Trace_SetAlgebra requires every recorded call "
            "to be the model step and every recorded query to be the set-theoretic function of the model state. "
            "ValueObject.tla specifies records as values: equality, hash and order are functions of the RFC 4034 "
            "canonical encoding computed by the specification from the record's fields; no mutation action exists.",
    "note": "Exhaustive inside the constants of the MC/Gen configs (3 handles, 5 items, TTLs {0,300,600}); longer "
            "histories are seeded TLC simulations. Trusted: TLC, the Json module, the projections in drivers/c07_sets.py.",
    "technique": "TLA+ specification + TLC exhaustive check; TLC-generated scripts replayed on the code; TLC trace validation",
    "design_ref": "DESIGN.md section 4, C07",
}

WORLDS = {  # name -> (Items, InitStates, layers)
    "set": ("ItemsSet", "InitsSet", ("set",)),
    "mx": ("ItemsMX", "InitsMX", ("rds", "rrset")),
    "ns": ("ItemsNS", "InitsNS", ("rds", "rrset")),
    "generic": ("ItemsGeneric", "InitsGeneric", ("rds", "rrset")),
    "dyn": ("ItemsDyn", "InitsDyn", ("rds", "rrset")),
    "cname": ("ItemsCNAME", "InitsCNAME", ("rds", "rrset")),
    "soa": ("ItemsSOA", "InitsSOA", ("rds", "rrset")),
    "mixed": ("ItemsMixed", "InitsMixed", ("rds", "rrset")),
    "rrsig": ("ItemsRRSIG", "InitsRRSIG", ("rds", "rrset")),
}
ALL_IN = ["add", "remove", "discard", "pop", "clear", "update", "union", "inter", "diff", "sym", "delidx", "delslice"]
ALL_COPY = ["union", "inter", "diff", "sym", "copy", "build"]
INVARIANTS = ["TypeOK", "Duplicates_Collapse", "Kind_Respected", "Singleton_Single", "Law_Union", "Law_Intersection",
              "Law_Difference", "Law_SymmetricDifference", "Law_Aliasing", "Law_Build", "Law_Algebra", "Law_Queries", "Law_Singleton"]
PROPERTIES = ["RefusedChangesNothing", "OnlyTargetChanges", "FrozenNeverChanges", "TtlNeverRises"]

COMMON = """CONSTANTS
  Handles = {handles}
  Items <- {items}
  InitStates <- {inits}
  TTLs = {{0, 300, 600}}
  SingletonTypes <- AllSingletonTypes
  SigTypes <- AllSigTypes
  MaxIndex = 3
  DynTypes = {dyn}
"""


def tset(xs):
    return "{" + ", ".join(json.dumps(x) if isinstance(x, str) else str(x) for x in xs) + "}"


def mc_cfg(ctx, name, items, inits, depth, handles="{1, 2, 3}", props=True):
    text = "INIT Init\nNEXT MCNext\n" + COMMON.format(handles=handles, items=items, inits=inits,
                                                      dyn='{"DYN"}' if items == "ItemsDyn" else "{}")
    text += "  MaxDepth = %d\n" % depth
    text += "".join("INVARIANT %s\n" % i for i in INVARIANTS)
    if props:
        text += "".join("PROPERTY %s\n" % p for p in PROPERTIES)
    text += "VIEW HsView\nCHECK_DEADLOCK FALSE\n"
    return ctx.cfg(name, text)


def gen_cfg(ctx, name, world, *, maxlen, inits=None, gin=ALL_IN, gcopy=ALL_COPY, freeze=True,
            spellings=("method", "op", "op2", "list"), handles=(1, 2, 3), sources=(1, 2, 3), ttlargs=(0, 300, 600),
            thin=1, register=None):
    items, winits, _ = WORLDS[world]
    text = "INIT GInit\nNEXT GNext\n" + COMMON.format(handles="{1, 2, 3}", items=items, inits=inits or winits,
                                                      dyn='{"DYN"}' if world == "dyn" else "{}")
    text += "  GenRegister = %s\n" % ("TRUE" if (world == "dyn" if register is None else register) else "FALSE")
    text += "  MaxLen = %d\n  GenIn = %s\n  GenCopy = %s\n  GenFreeze = %s\n  Spellings = %s\n  GenHandles = %s\n  GenSources = %s\n  GenTtlArgs = %s\n  Thin = %d\n" % (
        maxlen, tset(gin), tset(gcopy), "TRUE" if freeze and world != "set" else "FALSE", tset(spellings), tset(handles),
        tset(sources), tset(ttlargs), thin)
    text += "INVARIANT Emit\nCHECK_DEADLOCK FALSE\n"
    return ctx.cfg(name, text)


def dedupe(scripts):
    seen, out = set(), []
    for s in scripts:
        k = json.dumps(s, sort_keys=True)
        if k not in seen:
            seen.add(k)
            out.append(s)
    return out


# ------------------------------------------------------------------------------- signatures
def classify_sets(tr, line, clause):
    ev = tr["ev"]
    e = ev[line - 1] if line and 0 < line <= len(ev) else {}
    op, exc, layer = e.get("op", "?"), e.get("exc", ""), tr.get("layer")
    form = "inplace" if e.get("inplace") else "copy"
    if (clause == "RefusedTtlUnchanged" and layer in ("rds", "rrset") and e.get("inplace")
            and exc in ("DifferingCovers", "IncompatibleTypes")):
        # candidate for the documented defect: only the receiver's TTL moved, and it moved to
        # min(old, offered) - anything else keeps the generic signature
        prev = ev[line - 2]["st"] if line >= 2 else None
        h = e["h"] - 1
        if prev is not None:
            others_same = all(prev[x] == e["st"][x] for x in range(len(prev)) if x != h)
            offered = e["a"]["ttl"] if op == "add" else prev[e["a"]["o"] - 1]["ttl"]
            mine_only_ttl = ({k: v for k, v in prev[h].items() if k != "ttl"} ==
                             {k: v for k, v in e["st"][h].items() if k != "ttl"})
            expect = offered if not prev[h]["items"] else min(prev[h]["ttl"], offered)
            if others_same and mine_only_ttl and offered >= 0 and e["st"][h]["ttl"] == expect:
                if op == "add" and exc == "DifferingCovers":
                    return "C07ttl:refused-add-other-covers-still-lowers-ttl:DifferingCovers"
                if op in ("update", "union", "sym") and exc in ("IncompatibleTypes", "DifferingCovers"):
                    return "C07ttl:refused-merge-of-incompatible-set-still-lowers-ttl:%s" % exc
    return "%s:%s:%s:%s:%s:%s" % (clause, op, form, e.get("sp", ""), layer, exc)


def classify_values(tr, line, clause):
    ev = tr["ev"]
    e = ev[line - 1] if line and 0 < line <= len(ev) else {}
    if tr.get("part") == "records":
        a, b = e.get("a", {}), e.get("b", {})
        if (a.get("ty") == "LP" and b.get("ty") == "LP" and a.get("cls") == b.get("cls")
                and clause in ("EqCanonical", "OrderCanonical", "DigestIsCanonical", "HashFollowsEq")):
            # F11 (C15): LP.to_digestable lower-cases the FQDN although LP is not in the RFC 4034 6.2 list.
            # Only when an upper-case letter is involved; anything else about LP keeps the generic signature.
            def has_upper(r):
                return any(f[0] == "n" and any(65 <= o <= 90 for lab in f[1] for o in lab) for f in r.get("f", []))
            if has_upper(a) or has_upper(b):
                return "F11:LP-embedded-name-compared-case-insensitively:%s" % clause
        return "%s:%s/%s:%s/%s:%s" % (clause, a.get("cls"), a.get("ty"), a.get("mode"), b.get("mode"),
                                      "".join(str(e.get(k, "?")) for k in ("eq", "hasheq", "lt", "gt")))
    cls = tr.get("cls", "?")
    if (e.get("op") == "ctor" and cls == "dns.rdata.GenericRdata" and e.get("attr") == "data"
            and clause in ("ImmutableKind", "ArgumentNotAliased") and e.get("passed") == ["bytearray"]
            and (clause == "ArgumentNotAliased" or "bytearray" in e.get("kinds", []))):
        # F44 (fixed in cd9a417): GenericRdata.__init__ stored a bytearray argument as given
        return "F44:GenericRdata-constructor-keeps-mutable-data:%s" % clause
    if (clause in ("NoRebind", "NoDelete", "FieldUnchanged") and cls.startswith("dns.edns.") and cls.endswith("Option")
            and tr["tid"].startswith("dns.rdtypes.ANY.OPT.OPT.options[")):
        return "C07imm:OPT.options:mutable-edns-option:%s" % cls.rsplit(".", 1)[-1]
    return "%s:%s:%s:%s" % (clause, tr.get("tid"), e.get("attr", "?"), ",".join(e.get("kinds", [])))


VGEN_CFG = """INIT GInit
NEXT GNext
CONSTANTS
  LowerTypes <- RFC4034LowerTypes
  ImmutableKinds = {}
  Values = {}
  NamesFull <- %s
  NamesModes <- %s
INVARIANT Emit
CHECK_DEADLOCK FALSE
"""


def run_values(ctx, quick):
    """parts 2 and 3"""
    if ctx.replay_case:
        case = ctx.replay_case["case"]
        if case["part"] == "records":
            traces = [c07_sets.compare_records((case["pair"], "replay"))]
        else:
            jobs, _ = c07_sets.value_jobs()
            traces = [tr for j in jobs if j[0] == case["root"]
                      for tr in c07_sets.probe_value(j) + c07_sets.probe_ctor(j) if tr["tid"] == case["tid"]]
        pairs = {"replay": case.get("pair")}
    else:
        ctx.model("MC_ValueObject", "MC_ValueObject.cfg", workers=1, heap="2g")
        cfg = ctx.cfg("gv.cfg", VGEN_CFG % (("Names4", "Names2") if quick else ("Names6", "Names3")))
        plist = ctx.generate("Gen_ValueObject", cfg)
        pairs = {"p%d" % i: p for i, p in enumerate(plist)}
        traces = ctx.pmap(c07_sets.compare_records, [(p, tid) for tid, p in pairs.items()])
        ctx.extra["record_pairs"] = len(plist)
        ctx.extra["record_types"] = len({p["a"]["ty"] for p in plist})
        jobs, missing = c07_sets.value_jobs()
        if missing:
            from vlib.core import Machinery
            raise Machinery("rdata classes without a sample instance in drivers/c07_sets.py SAMPLES: %s" % missing)
        vt = []
        for trs in ctx.pmap(c07_sets.probe_value, jobs, procs=1):
            vt += trs
        ct = []
        for trs in ctx.pmap(c07_sets.probe_ctor, [j for j in jobs if not j[0].startswith("Name:")], procs=1):
            ct += trs
        built = [t for t in ct if t["ev"][0].get("built") == "ok"]
        ctx.extra["ctor_variants"] = len(ct)
        ctx.extra["ctor_variants_built"] = len(built)
        ctx.extra["ctor_classes_built"] = len({t["root"] for t in built})
        if not any(t["tid"] == "dns.rdata.GenericRdata#ctor:data" for t in built) or len(built) < 40:
            from vlib.core import Machinery
            raise Machinery("constructor probe is vacuous: %d variants built" % len(built))
        vt += ct
        ctx.extra["objects_probed"] = len(vt) - len(ct)
        ctx.extra["rdata_classes_probed"] = len(jobs) - 4
        ctx.extra["slots_probed"] = sum(len(t["ev"]) for t in vt)
        traces += vt
        for t in vt:
            ctx.distinct.add("imm:" + t["tid"])
        ctx.distinct.update("rec:" + k for k, p in pairs.items() if p["a"] != p["b"])
        ctx.sample({"tid": vt[0]["tid"], "ev": vt[0]["ev"][:2]})
        ctx.sample({k: v for k, v in traces[3]["ev"][0].items() if k not in ("da", "db")})
    ctx.evaluations += len(traces)
    rejects = ctx.validate("Trace_ValueObject", "Trace_ValueObject.cfg", traces)
    for tr, line, clause in rejects:
        sig = classify_values(tr, line, clause)
        e = tr["ev"][line - 1] if line else tr["ev"][0]
        if tr.get("part") == "records":
            what = "records %s %s (%s) vs (%s): %s" % (e.get("a", {}).get("cls"), e.get("a", {}).get("ty"), e.get("a", {}).get("mode"),
                                                     e.get("b", {}).get("mode"), json.dumps({k: v for k, v in e.items() if k not in ("a", "b")})[:300])
            case = {"part": "records", "pair": pairs.get(tr["tid"]), "line": line, "trace": tr}
        else:
            what = "object %s (%s) slot %s: %s" % (tr["tid"], tr.get("cls"), e.get("attr"), json.dumps(e)[:300])
            case = {"part": "immutable", "root": tr.get("root", tr["tid"]),
                    "tid": tr["tid"], "line": line, "trace": tr}
        ctx.violation(clause, sig, what, case)


def run_models(ctx, quick):
    """TLC on the specification itself."""
    jobs = [("laws-all-configurations",
             mc_cfg(ctx, "mc_all.cfg", "AllItems", "AllConfigurations", 1, handles="{1, 2}", props=False))]
    for w, (items, inits, _) in WORLDS.items():
        if quick and w in ("ns", "soa", "generic"):
            continue  # same structure as mx / cname; thorough runs them
        depth = 3 if quick else 4
        jobs.append(("histories-%s-level%d" % (w, depth), mc_cfg(ctx, "mc_%s.cfg" % w, items, inits, depth)))

    def one(j):
        return ctx.model("MC_SetAlgebra", j[1], workers=1, heap="3g")

    # single-worker TLC runs side by side (the machine-wide slot throttle starves multi-worker runs)
    with cf.ThreadPoolExecutor(max_workers=4 if quick else 8) as ex:
        list(ex.map(one, jobs))
    names = {j[1].rsplit("/", 1)[-1]: j[0] for j in jobs}
    for run in ctx.model_runs:
        run["what"] = names.get(run["cfg"], run["cfg"])


def generate_sets(ctx, quick):
    plan = []  # (world, cfg name, generator keywords)
    # G1: every single call in every spelling, on every handle, from every initial state
    for w in WORLDS:
        plan.append((w, "g1_%s.cfg" % w, dict(maxlen=1)))
    # G2: all sequences of two calls over a trimmed call universe
    core_in = ["add", "discard", "union", "inter", "diff", "sym"]
    init2 = {"mx": "Init2MX", "cname": "Init2CNAME", "set": "Init2Set", "rrsig": "Init2RRSIG", "mixed": "Init2Mixed"}
    for w in (("mx", "cname") if quick else ("mx", "cname", "set", "rrsig", "mixed")):
        plan.append((w, "g2_%s.cfg" % w, dict(maxlen=2, gin=core_in, gcopy=["union", "sym"], freeze=False, spellings=("method",),
                                              handles=(1, 2), sources=(1, 2) if quick else (1, 2, 3),
                                              inits=init2[w],
                                              ttlargs=(300,) if quick else (0, 600))))
    # G-dyn: run-time registration of a type, before or after its first use: all sequences of three
    # calls over {add to handle 1/2, register as singleton / as ordinary type}, and all pairs over
    # the merging calls + register from a state in which the type is already in use
    plan.append(("dyn", "gd3_dyn.cfg", dict(maxlen=3, gin=["add"], gcopy=[], freeze=False, spellings=("method",),
                                            handles=(1, 2), ttlargs=() if quick else (300,))))
    plan.append(("dyn", "gd2_dyn.cfg", dict(maxlen=2, gin=["update", "union", "sym"], gcopy=["union", "build"], freeze=False,
                                            spellings=("method",), handles=(1, 2), sources=(1, 2, 3), ttlargs=(300,),
                                            inits="InitsDyn2")))
    if not quick:
        # G2b: three calls, in-place methods on two handles, one TTL
        for w in ("mx", "cname"):
            plan.append((w, "g2b_%s.cfg" % w, dict(maxlen=3, gin=["add", "union", "diff", "sym"], gcopy=[],
                                                   freeze=False, spellings=("method",), handles=(1, 2), ttlargs=(),
                                                   inits=init2[w])))
    # G3: long random scripts over the full call universe
    # (TLC emits every possible last call of a walk; Thin keeps about one in 40 of them)
    n = 60 if quick else 400
    for k, w in enumerate(WORLDS):
        plan.append((w, "g3_%s.cfg" % w, dict(maxlen=8, thin=40, simulate="num=%d" % n, depth=9,
                                              seed=ctx.seed * 100 + k + 1, deadlock=False)))

    def gen(item):
        world, name, kw = item
        kw = dict(kw)
        sim = {k: kw.pop(k) for k in ("simulate", "depth", "seed", "deadlock") if k in kw}
        return [(world, s) for s in dedupe(ctx.generate("Gen_SetAlgebra", gen_cfg(ctx, name, world, **kw), **sim))]

    scripts = []
    with cf.ThreadPoolExecutor(max_workers=6) as ex:
        for out in ex.map(gen, plan):
            scripts.extend(out)
    return scripts


def run(ctx):
    quick = ctx.tier == "quick"
    ctx.rule = ("behaviours = scripts of set calls enumerated by TLC from Gen_SetAlgebra (every single call in every "
                "spelling from every initial state of 7 worlds, all pairs of calls on a trimmed universe, seeded "
                "-simulate), each replayed on the real classes of its world; distinct = distinct (script, class); "
                "non-trivial = the script changes or tries to change a set")
    ctx.assumptions += ["TLC and CommunityModules Json are correct",
                        "driver projection (drivers/c07_sets.py) is faithful",
                        "exhaustive only inside the constants of the MC/Gen configs; beyond them seeded simulation"]
    if not ctx.replay_case or ctx.replay_case["case"]["part"] != "sets":
        run_values(ctx, quick)
        if ctx.replay_case:
            return
    if ctx.replay_case:
        case = ctx.replay_case["case"]
        jobs = [(case["script"], case["layer"], "replay")]
    else:
        run_models(ctx, quick)
        scripts = generate_sets(ctx, quick)
        jobs = []
        for i, (w, s) in enumerate(scripts):
            layers = WORLDS[w][2]
            if len(layers) > 1 and (quick or len(s) == 4):
                layers = (layers[i % 2],)  # alternate Rdataset / RRset (quick; three-call scripts); else both
            for lay in layers:
                jobs.append((s, lay, "%s.%d.%s" % (w, i, lay)))
        ctx.extra["set_scripts"] = len(scripts)
        ctx.distinct.update(j[2] for j in jobs)
    # drive and validate in batches (bounded memory)
    first = True
    for lo in range(0, len(jobs), 40000):
        batch = jobs[lo:lo + 40000]
        if ctx.replay_case:
            traces = [c07_sets.replay_sets(*batch[0])]
        else:
            traces = ctx.pmap(c07_sets.run_sets_job, batch)
        if first and not ctx.replay_case:
            for tr in traces[:2]:
                ctx.sample({"tid": tr["tid"], "ev": [{k: v for k, v in e.items() if k != "q"} for e in tr["ev"][:2]]})
        first = False
        ctx.evaluations += len(traces)
        jobmap = {j[2]: j for j in batch}
        rejects = ctx.validate("Trace_SetAlgebra", "Trace_SetAlgebra.cfg", traces)
        for tr, line, clause in rejects:
            sig = classify_sets(tr, line, clause)
            e = tr["ev"][line - 1] if line else {}
            script = jobmap.get(tr["tid"], (None,))[0]
            what = "%s event %s: %s" % (tr.get("layer"), line, json.dumps({k: v for k, v in e.items() if k != "q"})[:400])
            ctx.violation(clause, sig, what, {"part": "sets", "script": script, "layer": tr.get("layer"), "line": line, "trace": tr})
        del traces


def selftest(ctx):
    """Corrupt single logged fields of traces that the trace specifications accept and
    require every corrupted trace to be rejected (prints a table, no VIOLATION lines)."""
    import copy
    scripts = dedupe(ctx.generate("Gen_SetAlgebra", gen_cfg(ctx, "st_g1.cfg", "mx", maxlen=1, inits="Init2MX")))
    traces = [c07_sets.replay_sets(s, "rds", "st%d" % i) for i, s in enumerate(scripts)]
    bad = {id(r[0]) for r in ctx.validate("Trace_SetAlgebra", "Trace_SetAlgebra.cfg", traces)}
    good = [t for t in traces if id(t) not in bad]
    pick = lambda pred: next(t for t in good if pred(t["ev"][1]))  # noqa: E731
    cases = []

    def mutate(name, tr, fn):
        t = copy.deepcopy(tr)
        t["tid"] = name
        fn(t["ev"][1])
        cases.append(t)

    u = pick(lambda e: e["op"] == "union" and e["inplace"] and len(e["st"][e["h"] - 1]["items"]) >= 3)
    mutate("order-swapped", u, lambda e: e["st"][e["h"] - 1]["items"].reverse())
    mutate("ttl-changed", u, lambda e: e["st"][e["h"] - 1].__setitem__("ttl", e["st"][e["h"] - 1]["ttl"] + 1))
    mutate("operand-changed", u, lambda e: e["st"][e["a"]["o"] - 1 if e["a"]["o"] != e["h"] else (e["h"] % 3)]["items"].append(1))
    mutate("eq-flipped", u, lambda e: e["q"]["eq"][0].__setitem__(1, 1 - e["q"]["eq"][0][1]))
    mutate("subset-flipped", u, lambda e: e["q"]["sub"][1].__setitem__(0, 1 - e["q"]["sub"][1][0]))
    mutate("len-changed", u, lambda e: e["q"]["len"].__setitem__(2, e["q"]["len"][2] + 1))
    mutate("outcome-flipped", u, lambda e: e.__setitem__("res", "err"))
    c = pick(lambda e: e["op"] == "diff" and not e["inplace"] and e["res"] == "ok")
    mutate("copy-not-new", c, lambda e: e.__setitem__("fresh", 0))
    rej = ctx.validate("Trace_SetAlgebra", "Trace_SetAlgebra.cfg", cases)
    rejected = {r[0]["tid"]: r[2] for r in rej}
    # records / immutability
    plist = ctx.generate("Gen_ValueObject", ctx.cfg("st_gv.cfg", VGEN_CFG % ("Names2", "Names2")))
    vt = [c07_sets.compare_records((p, "sv%d" % i)) for i, p in enumerate(plist) if p["a"]["ty"] in ("MX", "NSEC")]
    vt += c07_sets.probe_value(("Name:abs", __import__("dns.name").name.from_text("a.example.")))
    badv = {id(r[0]) for r in ctx.validate("Trace_ValueObject", "Trace_ValueObject.cfg", vt)}
    goodv = [t for t in vt if id(t) not in badv]
    vcases = []

    def vmut(name, tr, fn):
        t = copy.deepcopy(tr)
        t["tid"] = name
        fn(t["ev"][0])
        vcases.append(t)

    r = next(t for t in goodv if t.get("part") == "records" and t["ev"][0]["eq"] == 1 and t["ev"][0]["a"] != t["ev"][0]["b"])
    vmut("rec-eq-flipped", r, lambda e: (e.__setitem__("eq", 0), e.__setitem__("ne", 1), e.__setitem__("qe", 0)))
    vmut("rec-hash-differs", r, lambda e: e.__setitem__("hasheq", 0))
    vmut("rec-digest-octet", r, lambda e: e["da"][1].__setitem__(0, e["da"][1][0] ^ 1))
    o = next(t for t in goodv if t.get("part") == "records" and t["ev"][0]["lt"] == 1)
    vmut("rec-order-flipped", o, lambda e: (e.__setitem__("lt", 0), e.__setitem__("ge", 1)))
    n = next(t for t in goodv if t.get("part") == "immutable")
    vmut("slot-rebound", n, lambda e: e.__setitem__("set", "ok"))
    vmut("slot-list", n, lambda e: e.__setitem__("kinds", ["list"]))
    rej = ctx.validate("Trace_ValueObject", "Trace_ValueObject.cfg", vcases)
    rejected.update({r[0]["tid"]: r[2] for r in rej})
    ok = True
    for t in cases + vcases:
        print("selftest %-18s %s" % (t["tid"], "rejected by " + rejected[t["tid"]] if t["tid"] in rejected else "ACCEPTED (bad)"))
        ok = ok and t["tid"] in rejected
    return 0 if ok else 2
