"""C09 - zones survive write-then-read as text; equivalent zone-file spellings agree;
records outside the origin are ignored; a CNAME never coexists with other data."""
import concurrent.futures as cf
import json

from drivers import c09_zonefile as drv
from vlib import core

LEVEL = "model_checking"
META = {
    "text": "ZoneFile.tla specifies the master-file reader as an automaton over abstract lines (RR with inherited/explicit "
            "owner, TTL, class in either order, relative/absolute names, RFC 3597 generic forms, parenthesised layouts; "
            "$ORIGIN, $TTL, $GENERATE, blank/comment), the writer as the set of line sequences each lossless style vector "
            "allows, and Spell(z), every re-spelling of a zone. TLC proves Read(Write(z,s)) = z over all emission orders "
            "for every zone of a bounded universe x every semantic style vector, and Read(sp) = z for every sp in Spell(z), "
            "plus that nothing outside the origin and no CNAME-with-other-data ever appears. TLC then enumerates spellings, "
            "arbitrary line sequences and (zone, style) pairs; the driver concretises lines to text and loads every prefix "
            "with dns.zone.from_text / from_file / dns.zonefile.read_rrsets on dns.zone.Zone, dns.versioned.Zone and "
            "dns.btreezone.Zone (relativize on/off); the real Zone.to_styled_text / to_file / to_text output for each style "
            "is lexed back to abstract lines. Trace_ZoneFile requires every recorded line to be the reader action of the "
            "model (same outcome, same content), every spelling to load to its zone, the real writer not to refuse any lossless style, and the real re-read of its output to give the "
            "original zone (content and TTLs) with Zone == true. Conformance of the writer's text to the writer "
            "specification (lexed back to abstract lines) is validated too, but only counted as drift in evidence.",
    "note": "Exhaustive inside the MC/Gen constants (4 owner names + $GENERATE names, 16 types incl. DNSKEY, KEY, RRSIGs covering A/DNSKEY/CNAME/NSEC and legacy SIGs covering A/MX, 1-7 rdatas per type, TTLs "
            "{0,5,300,600}, curated zones of 3-5 records + all single-record zones, 384 semantic style vectors x relativized/"
            "absolute; pairwise-exhaustive over all 11 knobs in quick, full 6144-vector product in thorough); random zones of "
            "up to 5 records and deep spellings are seeded TLC simulations. Layout-only knobs (justification, chunking, "
            "comments, nl) are free in the specification and exercised on the code. Trusted: TLC, Json module, the printer / "
            "lexer / projection in drivers/c09_zonefile.py (own wire codec, no dnspython text code).",
    "technique": "TLA+ reader automaton + writer/spelling relations, TLC exhaustive round-trip theorems; TLC-generated "
                 "spellings, line sequences and style vectors run on the code; TLC trace validation",
    "design_ref": "DESIGN.md section 4, C09",
}

BASE = """CONSTANTS
  ZO <- UZO
  LabelRank <- URank
  SpOrigins <- UOrigins
  SpTTLs = {spttls}
  SpNoise <- {noise}
  SpGenerates <- UGenerates
  SpMaxExtra = {maxextra}
  SpForms <- {forms}
"""
GEN_CFG = "INIT GInit\nNEXT GNext\n" + BASE + """  GKinds = {kinds}
  GZones <- {zones}
  GBuildMax = {buildmax}
  GStyles <- {styles}
  GOriginGiven = {og}
  GMaxDev = {maxdev}
  GLines <- {lines}
  GDepth = {depth}
  GProfiles <- {profiles}
  GEmpties = {empties}
INVARIANT Emit
CHECK_DEADLOCK FALSE
"""
MC_CFG = "INIT MCInit\nNEXT MCNext\n" + BASE + """  MCZones <- {zones}
  MCStyles <- {styles}
  MCModes = {modes}
  MCOriginGiven = {og}
{invs}
CHECK_DEADLOCK FALSE
"""
INVS = "INVARIANT RoundTrip\nINVARIANT NeverErr\nINVARIANT Partial\nINVARIANT CnameAlone"


def tset(xs):
    return "{" + ", ".join(json.dumps(x) if isinstance(x, str) else ("TRUE" if x is True else "FALSE" if x is False else str(x))
                           for x in xs) + "}"


def gen_cfg(ctx, name, **kw):
    d = dict(spttls="{300, 5, 0}", noise="UNoise", maxextra=0, forms="FullForms", kinds=tset(["spell"]), zones="GZCur", buildmax=0, styles="PairwiseStyles",
             og=tset([True]), maxdev=1, lines="RLinesSmall", depth=2, profiles="PFull",
             empties=tset(["none"]))
    d.update(kw)
    return ctx.cfg(name, GEN_CFG.format(**d))


def mc_cfg(ctx, name, **kw):
    d = dict(spttls="{300, 5, 0}", noise="UNoise", maxextra=0, forms="McForms", zones="ZonesQuick", styles="SemStyles", modes=tset(["write"]),
             og=tset([True, False]), invs=INVS)
    d.update(kw)
    return ctx.cfg(name, MC_CFG.format(**d))


ZCL = ["plain", "versioned", "btree"]
RAPIS = ["text", "file", "path"]
WAPIS = ["styled_text", "file_text", "file_bin", "path"]


def has_inzone_embedded(recs):
    for r in recs:
        for n in r[3][0]:
            if n[-1:] == ["example"]:
                return True
    return False


def classify(tr, line, clause):
    """Case signature of a rejected trace (matched against known_findings.json).  The specific
    signatures are produced only for the exact failing cases of the documented defects."""
    ev = tr["ev"]
    e = ev[line - 1] if line and 0 < line <= len(ev) else {}
    op = e.get("op", "?")
    exc = e.get("exc", "")
    st = tr.get("style", {})
    rel = tr.get("rel")
    if op == "line":
        ln = e.get("ln", {})
        if clause == "RefusalFamily" and ln.get("k") == "bad" and exc == "IndexError":
            return "F2:empty-quoted-first-token:IndexError"
        if ln.get("k") == "rr" and ln.get("gen") and ln.get("ty") != "TYPE65280" and ln.get("names"):
            # the \\# form of a known type that embeds a name: decoded with the current origin, re-encoded without
            if clause == "Outcome" and exc == "SyntaxError":
                return "F8:reader:generic-rdata-of-known-type-with-embedded-name"
            if clause == "ZoneAfterLine" and any(n[:1] == ["ABS!"] for r in e.get("zone", []) for n in r[3][0]):
                return "F8:reader:generic-rdata-of-known-type-with-embedded-name"
    if op == "line" and e.get("ln", {}).get("k") == "gen" and clause in ("ZoneAfterLine", "Outcome"):
        g = e["ln"]
        sides = [g["lhs"]["items"]] + ([g["rhs"]["items"]] if g["rhs"].get("kind") == "name" else [])
        mods = [[it for it in side if it[0] == "mod"] for side in sides]
        if any(it[3] in ("n", "N") for side in mods for it in side):
            return "F48:$GENERATE-nibble-field-cut-to-width"
        if any(len(side) > 1 for side in mods) or (g["rhs"].get("kind") == "addr" and False):
            return "F49:$GENERATE-only-last-$-of-a-side-substituted"
    if op in ("line", "spelled") and clause in ("ZoneAfterLine", "Outcome", "OriginLearned", "SpellingAgrees", "SpellingLoads",
                                                "SpellingOrigin", "SpellingModel"):
        upto = [x.get("ln", {}) for x in ev[:line] if x.get("op") == "line"]
        if any(x.get("k") == "origin" and x["name"][0] == "rel" for x in upto):
            return "F20:relative-$ORIGIN-not-appended-to-current-origin"
    if op == "spelled" and clause == "SpellingLoads":
        lines = [x.get("ln", {}) for x in ev if x.get("op") == "line"]
        if exc == "SyntaxError" and any(x.get("k") == "rr" and x.get("gen") and x.get("ty") != "TYPE65280" and x.get("names") for x in lines):
            return "F8:reader:generic-rdata-of-known-type-with-embedded-name"
    if op == "write" and clause == "WriterTotal" and st.get("generic") and rel and exc == "NeedAbsoluteNameOrOrigin" \
            and has_inzone_embedded(tr.get("zone", [])):
        return "F8:writer:want_generic-on-relativized-zone:NeedAbsoluteNameOrOrigin"
    if op == "reread" and clause == "RereadLoads" and st.get("generic") and not rel and exc == "SyntaxError" \
            and has_inzone_embedded(tr.get("zone", [])):
        return "F8:reader:generic-rdata-of-known-type-with-embedded-name"
    cfg = "%s/%s/%s/%s" % (tr.get("zclass"), "rel" if rel else "abs", tr.get("api"), tr.get("rapi", "-"))
    if tr.get("empties", "none") != "none":
        cfg += "/empties=" + tr["empties"]
    knobs = ",".join(k for k in sorted(st) if st[k] not in (False, "none", ["none"], "lf") and not (k == "sorted" and st[k])) if tr.get("kind") == "write" else ""
    lk = e.get("ln", {}).get("k", "") if op == "line" else ""
    return "%s:%s:%s:%s:%s:%s" % (clause, op, lk, cfg, knobs, exc)


def reader_jobs(ctx, behs, tag, quick):
    jobs = []
    for i, b in enumerate(behs):
        lines = b["lines"]
        has_dir = any(l["k"] in ("origin", "ttl", "gen", "bad") for l in lines)
        combos = []
        for j in range(2):
            k = i * 7 + j * 5
            rel = bool((i + j) % 2)
            api = ["text", "text", "file", "path", "rrsets"][k % 5]
            if api == "rrsets" and (has_dir or not b["og"]):
                api = "text"
            combos.append((rel, ZCL[(i + j) % 3], api))
        for rel, zc, api in dict.fromkeys(combos):
            jobs.append({"kind": b["kind"], "tid": "%s%d.%s.%s.%s" % (tag, i, zc, "rel" if rel else "abs", api), "lines": lines,
                         "og": b["og"], "rel": rel, "zclass": zc, "api": api, "zone": sorted(b.get("zone", []), key=repr),
                         "work": ctx.work})
    return jobs


def writer_jobs(ctx, behs, tag, quick):
    jobs = []
    for i, b in enumerate(behs):
        st = b["style"]
        for rel in (True, False):
            k = i * 2 + (1 if rel else 0)
            apis = [WAPIS[k % 4]]
            if st["nl"] == "crlf":
                apis = [["file_bin", "path"][k % 2]]
            if drv.kw_expressible(st) and k % 3 == 0:
                apis.append("text_kw")
            if not quick:
                apis = list(dict.fromkeys(apis + ([WAPIS[(k + 1) % 4]] if st["nl"] != "crlf" else [])))
            for api in apis:
                rapi = RAPIS[(k + len(api)) % 3]
                if st["nl"] == "crlf" and rapi == "text":
                    rapi = "file"
                og = not (st["wantOrigin"] and k % 2 == 0)
                ep = b.get("empties", "none")
                jobs.append({"kind": "write", "tid": "%s%d.%s.%s" % (tag, i, "rel" if rel else "abs", api),
                             "zone": sorted(b["zone"], key=repr), "rel": rel, "zclass": ZCL[k % 3] if ep == "none" else "plain",
                             "style": st, "api": api, "rapi": rapi, "og": og, "work": ctx.work, "empties": ep})
    return jobs


def run(ctx):
    quick = ctx.tier == "quick"
    ctx.rule = ("behaviours = (a) spellings of a zone, (b) arbitrary abstract line sequences, (c) (zone, style vector) pairs, all "
                "enumerated by TLC from Gen_ZoneFile (exhaustive small universes + seeded -simulate); each run on the real "
                "reader/writer for 2 of the zone-class x relativize x API configurations; distinct = "
                "distinct (behaviour, configuration); non-trivial = contains at least one record line / one non-default knob")
    ctx.assumptions += ["TLC and CommunityModules Json are correct",
                        "driver printer/lexer/projection (drivers/c09_zonefile.py) are faithful",
                        "exhaustive only inside the constants of the MC/Gen configs; beyond them seeded simulation",
                        "CRLF output is read back through a text-mode file (universal newlines), never through from_text",
                        "style.origin is either unset or the zone's own origin"]
    jobmap = {}
    if ctx.replay_case:
        job = dict(ctx.replay_case["case"]["job"])
        job["work"] = ctx.work
        jobmap[job["tid"]] = job
        traces = [drv.run_job(job)]
    else:
        # every TLC invocation (theorems, vacuity witnesses, generators) runs concurrently in its own JVM
        n = 1000 if quick else 8000
        tasks = {
            # ---- the round-trip theorems on the specification
            "mc_write": lambda: ctx.model("MC_ZoneFile", mc_cfg(ctx, "mc_write.cfg", zones="ZonesQuick" if quick else "ZonesThorough"),
                                          workers=1 if quick else 8, heap="4g"),
            "mc_spell": lambda: ctx.model("MC_ZoneFile", mc_cfg(ctx, "mc_spell.cfg", modes=tset(["spell"]), maxextra=2 if quick else 3,
                                                               zones="ZonesSpellQuick" if quick else "ZonesSpellThorough"),
                                          workers=1 if quick else 8),
            # ---- behaviours
            # S1: every single-record zone, every spelling with <= 2 non-canonical features
            "s1": lambda: ctx.generate("Gen_ZoneFile", gen_cfg(ctx, "s1.cfg", zones="GZSingles" if quick else "GZSinglesT", maxdev=2)),
            # S2: one directive / noise line anywhere, owner / TTL / name inheritance forms
            "s2": lambda: ctx.generate("Gen_ZoneFile", gen_cfg(ctx, "s2.cfg", zones="GZSmall", maxextra=1 if quick else 2, maxdev=9,
                                                              profiles="PInherit", og=tset([True, False]))),
            # S3: random deep spellings of curated and random zones (<= 5 records)
            "s3": lambda: ctx.generate("Gen_ZoneFile", gen_cfg(ctx, "s3.cfg", zones="GZCur", buildmax=5, maxextra=3, maxdev=9,
                                                              profiles="PSim", og=tset([True, False])),
                                       simulate="num=%d" % n, depth=20, seed=ctx.seed + 1, deadlock=False, limit=n),
            # S4: the zones the nibble / multi-$ $GENERATE lines expand to: $GENERATE versus its expansion
            "s4": lambda: ctx.generate("Gen_ZoneFile", gen_cfg(ctx, "s4.cfg", zones="GZGen", maxextra=0 if quick else 1, maxdev=1,
                                                              profiles="PInherit")),
            # S5: two directive lines that are $ORIGIN (absolute / relative to the current origin) or blank,
            #     anywhere around records spelled with every inheritance form
            "s5": lambda: ctx.generate("Gen_ZoneFile", gen_cfg(ctx, "s5.cfg", zones="GZOrigins", maxextra=2, maxdev=9,
                                                              profiles="PInherit", spttls="{}", noise="UNoNoise")),
            "r1": lambda: ctx.generate("Gen_ZoneFile", gen_cfg(ctx, "r1.cfg", kinds=tset(["read"]), lines="RLinesMid" if quick else "RLinesFull", depth=2)),
            "r2": lambda: ctx.generate("Gen_ZoneFile", gen_cfg(ctx, "r2.cfg", kinds=tset(["read"]), lines="RLinesSmall" if quick else "RLinesTiny",
                                                              depth=3 if quick else 4)),
            "r3": lambda: ctx.generate("Gen_ZoneFile", gen_cfg(ctx, "r3.cfg", kinds=tset(["read"]), lines="RLinesFull", depth=6,
                                                              og=tset([True, False])),
                                       simulate="num=%d" % n, depth=9, seed=ctx.seed + 2, deadlock=False, limit=n),
            "w1": lambda: ctx.generate("Gen_ZoneFile", gen_cfg(ctx, "w1.cfg", kinds=tset(["write"]), zones="GZCur" if quick else "GZW1Thorough",
                                                              styles="PairwiseStyles" if quick else "AllStyles")),
            "w2": lambda: ctx.generate("Gen_ZoneFile", gen_cfg(ctx, "w2.cfg", kinds=tset(["write"]), zones="GZSingles",
                                                              styles="SingleKnobStyles" if quick else "PairwiseStyles")),
            # W4: zone objects that also hold EMPTY rdatasets (first / middle / last of a node) and nodes made of
            #     empty rdatasets only; they hold no record, the round trip is on records
            "w4": lambda: ctx.generate("Gen_ZoneFile", gen_cfg(
                ctx, "w4.cfg", kinds=tset(["write"]), zones="GZEmpties", styles="PairwiseStyles" if quick else "EmptiesStylesThorough",
                empties=tset(["first", "mid", "last", "firstlast", "nodes"]))),
            # R4: a CNAME against every type family at one owner, every order
            "r4": lambda: ctx.generate("Gen_ZoneFile", gen_cfg(ctx, "r4.cfg", kinds=tset(["read"]), lines="RLinesCname",
                                                              depth=2 if quick else 3)),
            "w3": lambda: ctx.generate("Gen_ZoneFile", gen_cfg(ctx, "w3.cfg", kinds=tset(["write"]), zones="GZNone", buildmax=5,
                                                              styles="AllStyles", profiles="PInherit"),
                                       simulate="num=%d" % n, depth=10, seed=ctx.seed + 3, deadlock=False, limit=n),
        }
        with cf.ThreadPoolExecutor(max_workers=len(tasks)) as ex:
            futs = {k: ex.submit(f) for k, f in tasks.items()}
            res = {k: f.result() for k, f in futs.items()}
        spell = res["s1"] + res["s2"] + res["s3"] + res["s4"] + res["s5"]
        read = res["r1"] + res["r2"] + res["r3"] + res["r4"]
        write = res["w1"] + res["w2"] + res["w3"] + res["w4"]
        write = [b for b in write if b["kind"] == "write"]
        spell = [b for b in spell if b["kind"] == "spell"]
        # vacuity: the generated behaviours must exercise what the theorems are about
        alll = [l for b in spell for l in b["lines"]]
        witnesses = {
            "$GENERATE replaces its expansion": any(l["k"] == "gen" for l in alll),
            "$GENERATE nibble bases and several $ per side": any(
                l["k"] == "gen" and any(it[0] == "mod" and it[3] in ("n", "N") for it in l["lhs"]["items"]) for l in alll) and any(
                l["k"] == "gen" and sum(1 for it in l["lhs"]["items"] if it[0] == "mod") > 1 for l in alll),
            "relative $ORIGIN after another $ORIGIN": any(
                [l["name"][0] for l in b["lines"] if l["k"] == "origin"][1:2] == ["rel"] for b in spell),
            "inherited owner and TTL": any(l["k"] == "rr" and l["owner"] == ["blank"] and l["ttl"] == ["none"] for l in alll),
            "$ORIGIN-relative names": any(l["k"] == "rr" and any(n[0] in ("rel", "at") for n in l["names"]) for l in alll),
            "class before TTL": any(l["k"] == "rr" and l["ord"] == "ct" for l in alll),
            "parenthesised layout": any(l["k"] == "rr" and l["lay"] != "single" for l in alll),
            "generic rdata": any(l["k"] == "rr" and l["gen"] and l["ty"] != "TYPE65280" for l in alll),
            "ignored out-of-zone record": any(l["k"] == "rr" and l["owner"][0] == "abs" and l["owner"][1][-1:] != ["example"] for l in alll),
            "$TTL and $ORIGIN lines": any(l["k"] == "ttl" for l in alll) and any(l["k"] == "origin" for l in alll),
            "zone of five records": any(len(b["zone"]) == 5 for b in spell) and any(len(b["zone"]) == 5 for b in write),
            "empty rdatasets planted": {b.get("empties") for b in write} >= {"none", "first", "mid", "last", "firstlast", "nodes"},
            "CNAME next to DNSKEY / RRSIG lines": any(
                {l.get("ty") for l in b["lines"]} >= {"CNAME", "DNSKEY"} for b in read) and any(
                {l.get("ty") for l in b["lines"]} >= {"CNAME", "RRSIG/DNSKEY"} for b in read),
            "every knob set in some style": all(any(b["style"][k] != DEFAULT_STYLE[k] for b in write) for k in DEFAULT_STYLE),
        }
        missing = [k for k, v in witnesses.items() if not v]
        if missing:
            raise core.Machinery("generated behaviours never exercise: %s" % ", ".join(missing))
        jobs = reader_jobs(ctx, spell, "s", quick) + reader_jobs(ctx, read, "r", quick) + writer_jobs(ctx, write, "w", quick)
        # the API that is known to drop its style argument gets a handful of jobs of its own
        ts = [b for b in write if b["style"]["nl"] == "lf" and not b["style"]["generic"]
              and (b["style"]["dedup"] or b["style"]["omitClass"] or b["style"]["wantOrigin"] or b["style"]["defTTL"] != ["none"])]
        for i, b in enumerate(ts[:30]):
            j = writer_jobs(ctx, [b], "t%d." % i, True)[0]
            j.update(api="text_style", tid=j["tid"] + ".ts")
            jobs.append(j)
        ctx.extra.update(spellings=len(spell), line_sequences=len(read), zone_style_pairs=len(write))
        jobmap = {j["tid"]: j for j in jobs}
        traces = ctx.pmap(drv.run_job, jobs)
        for j in jobs:
            if j["kind"] == "write":
                if j["style"] != DEFAULT_STYLE:
                    ctx.distinct.add(j["tid"])
            elif any(l["k"] == "rr" for l in j["lines"]):  # noqa: E501
                ctx.distinct.add(j["tid"])
        for tr in traces:
            if tr.get("text") and len(ctx.samples) < 4 and tr["tid"].endswith(("7.plain.rel.text", "3.rel.styled_text")):
                ctx.sample({"tid": tr["tid"], "text": tr["text"][:400]})
        for tr in traces[:2]:
            ctx.sample({"tid": tr["tid"], "ev": tr["ev"][:2]})
    ctx.evaluations = sum(len(tr["ev"]) for tr in traces)
    # observation, not a clause of the property: `nl` is applied between nodes only (see notes/C09.md)
    ctx.drift = sum(1 for tr in traces for e in tr["ev"] if e.get("op") == "write" and e.get("nlok") is False)
    for tr in traces:
        tr.pop("text", None)
    # writer-format conformance is SOFT: its own traces, rejections are drift (never a VIOLATION)
    conf = []
    for tr in traces:
        if tr.get("kind") == "write":
            for e in tr["ev"]:
                if e.get("op") == "write" and e.get("res") != "err":
                    conf.append({"tid": tr["tid"] + "#conf", "kind": "conf", "og": tr["og"], "rel": tr["rel"],
                                 "zclass": tr["zclass"], "api": tr["api"], "zone": tr["zone"], "style": tr["style"],
                                 "ev": [{"op": "wconf", "res": e["res"], "lines": e["lines"], "ncomments": e["ncomments"]}]})
    soft = ctx.validate("Trace_ZoneFile", "Trace_ZoneFile.cfg", conf) if conf else []
    fmt = {}
    for tr, line, clause in soft:
        key = "to_text(style=) ignores style" if tr.get("api") == "text_style" else clause
        fmt[key] = fmt.get(key, 0) + 1
    ctx.extra["writer_format_conformance"] = {"checked": len(conf), "mismatches": fmt or {"none": 0}}
    ctx.drift += len(soft)
    rejects = ctx.validate("Trace_ZoneFile", "Trace_ZoneFile.cfg", traces)
    for tr, line, clause in rejects:
        sig = classify(tr, line, clause)
        e = tr["ev"][line - 1] if line else {}
        job = dict(jobmap.get(tr["tid"], {}))
        job.pop("work", None)
        what = "%s zone=%s relativize=%s api=%s event %s: %s" % (tr.get("kind"), tr.get("zclass"), tr.get("rel"), tr.get("api"),
                                                                line, json.dumps(e)[:300])
        ctx.violation(clause, sig, what, {"job": job, "line": line, "trace": tr})


DEFAULT_STYLE = {"sorted": True, "wantOrigin": False, "org": "none", "defTTL": ["none"], "dedup": False, "omitClass": False,
                 "generic": False, "comments": False, "just": False, "chunk": False, "nl": "lf"}
