"""X05 - the zone-file reader's state across lines ($ORIGIN, $TTL, $INCLUDE, $GENERATE, owner /
TTL / class inheritance) and the forcing options of dns.zonefile.read_rrsets.
Growth of the specification beyond C01-C20 (DESIGN.md section 7); not in MANIFEST.json."""
import concurrent.futures as cf
import hashlib
import itertools
import json
import os

from drivers import x05_reader
from vlib.core import Machinery

LEVEL = "model_checking"
META = {
    "text": "ZoneReader.tla models the reader of zone-file text as a state machine over lines (stack of saved states for "
            "$INCLUDE, current origin, last stated owner, $TTL default, last stated TTL, SOA minimum, output records), written "
            "from RFC 1035 5.1, RFC 2308 4, BIND's $GENERATE documentation and the docstrings of dns.zone.from_text/from_file "
            "and dns.zonefile.read_rrsets; every point those sources leave open is a field of a policy record. TLC checks laws "
            "on the model (a redundant $ORIGIN/$TTL changes nothing wherever it is inserted, $INCLUDE restores the origin, an "
            "include is textual inclusion under the keep policy) and enumerates line sequences; the driver writes them into "
            "files (main + included files), loads every prefix through from_text/from_file (plain and versioned zones, both "
            "relativize settings), a Reader with a recording transaction, and read_rrsets with its forcing options; "
            "Trace_ZoneReader accepts a recorded load iff some policy explains the outcome, the loaded records and the file "
            "named in the error.",
    "note": "Exhaustive inside the declared alphabets (<= 4-5 lines per family, include depth <= 2) plus seeded simulation of "
            "6-line sequences; names are at or below the zone origin; one physical line per abstract line.",
    "technique": "TLA+ reference model with explicit policy nondeterminism + TLC; generated inputs replayed on the code; TLC trace validation",
    "design_ref": "DESIGN.md section 7 (growth); C09 covers write-then-read and spellings of one record",
}

GEN_CFG = """INIT GInit
NEXT GNext
CONSTANTS
  Alphabet <- {alpha}
  MaxLines = {n}
  MaxDepth = {depth}
INVARIANT Emit
CHECK_DEADLOCK FALSE
"""
BASE = {"api": "zone", "zcls": "IN", "zorigin": "example.", "inc": "yes", "incDoc": "text", "dirs": ["*"],
        "fname": "", "fttl": -1, "fcls": "", "ftype": "", "dttl": -1}
DRVS = [{"how": h, "factory": f, "rel": r} for h, f in (("text", "plain"), ("file", "versioned"), ("path", "plain"), ("reader", "plain"),
                                                         ("text", "versioned"), ("file", "plain"), ("path", "versioned"))
        for r in (True, False)]


def mkcfg(drv, **kw):
    c = dict(BASE, **kw)
    c["api"] = "reader" if drv["how"] == "reader" else "rrsets" if drv["how"] == "rrsets" else "zone"
    c["incDoc"] = "text" if drv["how"] == "text" else "file" if drv["how"] in ("file", "path") else "reader"
    if drv["how"] == "reader" and c["inc"] == "dflt":
        c["inc"] = "no"   # Reader's own default is not documented: always passed explicitly
    return c


def generate_all(ctx, name, alpha, n, depth=2, **sim):
    limit = sim.pop("limit", None)
    out = ctx.generate("Gen_ZoneReader", ctx.cfg(name, GEN_CFG.format(alpha=alpha, n=n, depth=depth)), deadlock=False, limit=limit, **sim)
    return [(name.split(".")[0], h) for h in out]


INC_CFGS = [dict(inc="yes"), dict(inc="no"), dict(inc="dflt"), dict(dirs=["$TTL", "$ORIGIN", "$INCLUDE"]),
            dict(dirs=["$INCLUDE"]), dict(dirs=["$ORIGIN", "$TTL", "$GENERATE"], inc="yes")]
GEN_CFGS = [dict(), dict(dirs=["$TTL", "$GENERATE"]), dict(dirs=["$TTL", "$ORIGIN"]), dict()]
RR_OPTS = [dict(fname=fn, fttl=ft, fcls=fc, zcls=zc, ftype=fy, dttl=dt, zorigin=zo)
           for fn in ("", "f.example.") for ft in (-1, 9) for (fc, zc) in (("", "IN"), ("IN", "IN"), ("", "CH"), ("CH", "CH"))
           for fy in ("", "MX") for dt in (-1, 3) for zo in (".", "example.")]


def jobs_for(ctx, fam, k, hist, quick):
    """The API configurations one behaviour is loaded through (round-robin, deterministic)."""
    s = ctx.seed
    if fam == "r1":
        opts = [o for j, o in enumerate(RR_OPTS) if (j + k + s) % 2 == 0]
        # texts that have a second reading are not inputs of the abstract line (environment assumption):
        # no owner column although the name is not forced; "<pref> <target>" with neither TTL nor type stated
        # while the TTL is not forced (the preference would be read as the TTL)
        opts = [o for o in opts if not any((l["owner"][0] == "omit" and not o["fname"]) or
                                           (not l["yg"] and l["ttl"] < 0 and o["fttl"] < 0) for l in hist)]
        return [(mkcfg({"how": "rrsets"}, **o), {"how": "rrsets", "factory": "-", "rel": bool((k + j) % 2)}) for j, o in enumerate(opts)]
    ndrv = 1 if quick or fam in ("g1", "g2", "g3", "g3b") else 2
    drvs = [DRVS[(k * 3 + s + j * 5) % len(DRVS)] for j in range(ndrv)]
    if fam in ("g3", "g3b", "g6"):
        extra = [INC_CFGS[(k + s + j) % len(INC_CFGS)] for j in range(1)] + [INC_CFGS[0]]
    elif fam in ("g4", "g7"):
        extra = [GEN_CFGS[(k + s) % len(GEN_CFGS)]]
    elif fam == "g5":
        extra = [dict(zcls="IN"), dict(zcls="CH")]
    else:
        extra = [dict()]
    if fam == "g6":
        extra = extra[:1] if quick else extra
    needs_in = any(l["y"] in ("A", "AAAA") for l in hist)
    out = []
    for d, x in itertools.product(drvs, extra):
        if needs_in and x.get("zcls", "IN") != "IN":
            continue
        out.append((mkcfg(d, **x), d))
    return out


def dnspython_expand(parts, i):
    """What the pinned reader makes of a template (used ONLY to recognise the known defects X05-F1/F2
    in an already rejected trace, never for a verdict): the LAST modifier form is applied to every
    textually identical occurrence; nibble output is cut to `width` characters."""
    text = x05_reader.tpl(parts)
    mods = [p for p in parts if p["k"] == "m"]
    if not mods:
        return text
    m = mods[-1]
    v = i + m["o"]
    if m["b"] in "nN":
        hexa = format(v, "x").zfill(m["w"])
        val = ".".join(hexa[::-1])[:m["w"]]
        val = val.upper() if m["b"] == "N" else val
    else:
        val = format(v, m["b"]).zfill(m["w"])
    return text.replace(x05_reader.tpl([m]), val)


def classify(tr, line, clause):
    e = tr["ev"][line - 1] if line and 0 < line <= len(tr["ev"]) else {}
    r = e.get("res", {})
    if e.get("k") == "gen":
        sides = [e["lhs"], e["rhs"]]
        mods = [[p for p in side if p["k"] == "m"] for side in sides]
        if clause == "Outcome" and r.get("exc") == "SyntaxError" and e["ttl"] >= 0 and e["cls"] == tr["cfg"]["zcls"] and e["ord"] == "ct":
            return "X05-F3:generate-class-before-ttl-refused"
        if clause in ("Content", "Outcome"):
            multi = any(len({json.dumps(m, sort_keys=True) for m in ms}) > 1 for ms in mods)
            nib = any(m["b"] in "nN" and 2 * len(format(e["lo"] + m["o"], "x")) - 1 > m["w"] for ms in mods for m in ms)
            if multi and not nib:
                return "X05-F2:generate-only-one-modifier-per-side-honoured"
            if nib and not multi and r.get("st") == "ok":
                want = {dnspython_expand(e["lhs"], i).rstrip(".").lower() for i in range(e["lo"], e["hi"] + 1, e["step"])}
                got = {x["o"].lower() for x in r["recs"] if x["y"] == e["y"]}
                if all(any(g == w or g.startswith(w + ".") or (w == "" and g) for g in got) for w in want):
                    return "X05-F1:generate-nibble-cut-to-width"
    return "%s:%s:%s:%s:%s" % (clause, e.get("k", "?"), tr["tid"].split(".")[0], tr["cfg"]["api"], r.get("exc", ""))


def run(ctx):
    quick = ctx.tier == "quick"
    ctx.rule = ("behaviours = line sequences enumerated by TLC from Gen_ZoneReader (exhaustive per alphabet + seeded simulation) x "
                "API configurations; every prefix is loaded by the real reader, one judged event per line; distinct non-trivial = "
                "distinct (sequence, configuration) with >= 2 lines")
    ctx.assumptions += ["TLC and CommunityModules Json are correct", "driver printer/projection (drivers/x05_reader.py) is faithful",
                        "all names are at or below the zone origin; one physical line per abstract line",
                        "RFC / BIND ARM sentences were written down without network access"]
    if ctx.replay_case:
        case = ctx.replay_case["case"]
        jobs = [case["job"]]
    else:
        # single-worker JVMs only: a multi-worker run needs 5 of the machine's 20 TLC slots at once and can starve
        ctx.model("MC_ZoneReader", "MC_ZoneReader_quick.cfg" if quick else "MC_ZoneReader_thorough.cfg", workers=1)
        if not quick:
            ctx.model("MC_ZoneReader", "MC_ZoneReader_allpol.cfg", workers=1)
        ctx.model("MC_ZoneReader", "MC_ZoneReader_gen.cfg", workers=1)
        beh = []
        only = os.environ.get("X05_FAMS")   # development convenience (mutation harness): run some families only

        def generate(ctx, name, *a, **kw):
            return generate_all(ctx, name, *a, **kw) if not only or name.split(".")[0] in only.split(",") else []
        nsim = 1500 if quick else 20000
        plan = [("g1.cfg", "G1", 4 if quick else 5, {}), ("g2.cfg", "G2", 4 if quick else 5, {}), ("g3.cfg", "G3", 4 if quick else 5, {}),
                ("g3b.cfg", "G3b", 4 if quick else 5, {}), ("g4.cfg", "G4", 3 if quick else 4, {}), ("g5.cfg", "G5", 3 if quick else 4, {}),
                ("g7.cfg", "G7", 2, {}), ("r1.cfg", "R1", 2 if quick else 3, {}),
                ("g6.cfg", "G6", 6, dict(simulate="num=%d" % nsim, depth=8, seed=ctx.seed + 5, limit=nsim))]
        with cf.ThreadPoolExecutor(max_workers=len(plan)) as ex:   # single-worker JVMs, run side by side
            for part in ex.map(lambda a: generate(ctx, a[0], a[1], a[2], **a[3]), plan):
                beh += part
        jobs = []
        for k, (fam, hist) in enumerate(beh):
            for j, (cfg, drv) in enumerate(jobs_for(ctx, fam, k, hist, quick)):
                jobs.append({"tid": "%s.%d.%d" % (fam, k, j), "lines": hist, "cfg": cfg, "drv": drv})
        ctx.extra["behaviours"] = len(beh)
    stats = {"loads": 0, "loads_refused": 0, "records_projected": 0, "located": 0, "line_off": 0, "line_examples": [],
             "free": 0, "not_pola": 0, "pola_examples": []}
    chunk = 40000   # bounded memory: drive, validate and drop one batch of traces at a time
    for lo in range(0, len(jobs), chunk):
        process(ctx, jobs[lo:lo + chunk], quick, stats)
    ctx.extra.update({k: stats[k] for k in ("loads", "loads_refused", "records_projected")})
    if not ctx.replay_case:
        ctx.drift = stats["line_off"]
        ctx.extra["drift_error_line_number"] = {"traces_with_located_refusal": stats["located"], "line_number_differs": stats["line_off"],
                                                "example": stats["line_examples"]}
        if stats["free"]:
            ctx.extra["reading_PolA"] = {"traces_where_a_policy_field_matters": stats["free"], "not_explained_by_PolA": stats["not_pola"],
                                         "example": stats["pola_examples"]}
    ctx.evaluations = stats["loads"]


def process(ctx, jobs, quick, stats):
    jobmap = {j["tid"]: j for j in jobs}
    traces = ctx.pmap(x05_reader.run_job, jobs) if len(jobs) > 1 else [x05_reader.replay(jobs[0])]
    for tr in traces[:2]:
        ctx.sample({"tid": tr["tid"], "cfg": tr["cfg"], "drv": tr["drv"], "ev": [{k: e[k] for k in ("k", "res") if k in e} for e in tr["ev"][:3]]})
    for tr in traces:
        stats["loads"] += len(tr["ev"])
        stats["loads_refused"] += sum(1 for e in tr["ev"] if e.get("res", {}).get("st") == "err")
        stats["records_projected"] += sum(len(e["res"]["recs"]) for e in tr["ev"] if "res" in e)
        if len(tr["ev"]) >= 2:
            ctx.note_distinct(hashlib.sha1(json.dumps([tr["cfg"], tr["drv"], [{k: v for k, v in e.items() if k != "res"} for e in tr["ev"]]],
                                                      sort_keys=True).encode()).hexdigest()[:16])
    rejects = ctx.validate("Trace_ZoneReader", "Trace_ZoneReader.cfg", traces)
    for tr, line, clause in rejects:
        e = tr["ev"][line - 1] if line else {}
        ctx.violation(clause, classify(tr, line, clause), "trace %s (%s) line %s: %s" % (tr["tid"], json.dumps(tr["drv"]), line, json.dumps(e)[:300]),
                      {"job": jobmap[tr["tid"]], "line": line, "trace": tr})
    if ctx.replay_case:
        return
    # drift (never a verdict): the line number in "file:line:" messages, judged on the accepted traces that contain a refusal
    bad = {id(r[0]) for r in rejects}
    witherr = [tr for tr in traces if id(tr) not in bad and any(e.get("res", {}).get("syn") for e in tr["ev"])]
    before = ctx.traces
    if witherr:
        off = ctx.validate("Trace_ZoneReader", "Trace_ZoneReader_lines.cfg", witherr)
        stats["located"] += len(witherr)
        stats["line_off"] += len(off)
        stats["line_examples"] = (stats["line_examples"] + [dict(tr["ev"][ln - 1]["res"], tid=tr["tid"]) for tr, ln, c in off[:3] if ln])[:3]
    # measured (never a verdict): is the pinned tree explained by ONE reading, PolA (restore owner and TTL state after an
    # include, inherit the owner into it, SOA MINIMUM as default, read_rrsets inherits, $GENERATE sets the owner,
    # from_text's include default off)?  Judged on the accepted traces in which a policy field can matter.
    if not quick or os.environ.get("X05_PINNED"):
        free = [tr for tr in traces if id(tr) not in bad and (tr["cfg"]["api"] == "rrsets" or any(
            e.get("k") in ("inc", "gen") or e.get("y") == "SOA" for e in tr["ev"]))]
        off = ctx.validate("Trace_ZoneReader", "Trace_ZoneReader_pinned.cfg", free)
        stats["free"] += len(free)
        stats["not_pola"] += len(off)
        stats["pola_examples"] = (stats["pola_examples"] + [tr["tid"] for tr, ln, c in off[:3]])[:3]
    ctx.traces = before
