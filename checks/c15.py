"""C15 - key-free DNSSEC computations equal an independent RFC 4034 / 4035 / 5155 / 6840 /
8976 reference (specs/Dnssec.tla)."""
import concurrent.futures as cf
import copy
import json
import os
import random

from drivers import c15_dnssec
from vlib import c15_table

LEVEL = "model_checking"
META = {
    "text": "Dnssec.tla states, as operators written from the RFCs, the canonical RDATA form (which embedded names fold is "
            "a per-type table transcribed from RFC 4034 6.2 / RFC 6840 5.1 / RFC 3597 7: specs/canon_rfc4034.json), the "
            "canonical RR order, the RRSIG signature input with wildcard owner reconstruction, the key tag, the DS digest "
            "input and RDATA, the NSEC3 iteration structure and base32hex presentation, the type bitmap encoding, the NSEC "
            "chain and the set of signed RRsets of a zone (cuts, glue, empty non-terminals, wildcards), and the ZONEMD SIMPLE "
            "digest input. TLC checks the oracle's internal laws on the declared universes (MC_Dnssec), emits the universes "
            "(Gen_Dnssec), computes every hashed preimage (Pre_Dnssec), and - in Trace_Dnssec - recomputes every output "
            "recorded from the real code: Rdata/Name.to_digestable, _make_rrsig_signature_data, key_id, make_ds / make_cds / "
            "make_ds_rdataset, nsec3_hash, Bitmap.from_rdtypes, sign_zone(rrset_signer=recording stub), "
            "Zone.compute_digest / verify_digest (own digest accepted; after a single change accepted iff the preimage is unchanged).",
    "note": "Exhaustive inside the universes of specs/DnssecUniverse.tla; beyond them seeded random names / RRsets / zones "
            "(testing with the TLA+ oracle). Hash values themselves are computed by hashlib over TLC's preimages (trusted). "
            "'cryptography' is not installed: signing / validating with keys is out of scope (the property says key-free).",
    "technique": "TLA+ operators + TLC law checking; TLC-emitted universes and TLC-computed preimages; TLC trace validation",
    "design_ref": "DESIGN.md section 4, C15",
}

GEN_CFG = """INIT GInit
NEXT GNext
CONSTANTS
  Thorough = {thorough}
  Kind = "{kind}"
INVARIANT Emit
CHECK_DEADLOCK FALSE
"""

OBSOLETE = {3: "MD", 4: "MF", 7: "MB", 8: "MG", 9: "MR", 14: "MINFO", 30: "NXT", 38: "A6"}
ORG_REL = [[67, 68]]  # "CD": the origin of the relative-name modes


def fold(label):
    return [c + 32 if 65 <= c <= 90 else c for c in label]


def under_org(name):
    return len(name) >= 1 and fold(name[-1]) == fold(ORG_REL[0])


def respell(name):
    """the name as it reads after relativizing to ORG_REL and appending ORG_REL again"""
    return name[:-1] + ORG_REL if under_org(name) else name


def respell_to(name, org):
    """generic form: the name as it reads after relativizing to org and appending org again"""
    k = len(org)
    if k and len(name) >= k and [fold(x) for x in name[-k:]] == [fold(x) for x in org]:
        return name[:len(name) - k] + org
    return name


def respell_segs(segs):
    return [["n", respell(s[1])] if s[0] == "n" else s for s in segs]


# ------------------------------------------------------------------ jobs
def jobs_canon(cases, quick):
    out = []
    for x in cases:
        if x["k"] == "ncanon":
            out.append({"k": "ncanon", "n": x["n"], "mode": "abs"})
            if under_org(x["n"]):
                out.append({"k": "ncanon", "n": respell(x["n"]), "mode": "rel", "org": ORG_REL})
            continue
        out.append({"k": "canon", "key": x["key"], "t": x["t"], "c": x["c"], "segs": x["segs"], "mode": "abs"})
        if any(s[0] == "n" and under_org(s[1]) for s in x["segs"]):
            out.append({"k": "canon", "key": x["key"], "t": x["t"], "c": x["c"], "segs": respell_segs(x["segs"]),
                        "mode": "rel", "org": ORG_REL})
    return out


def jobs_sig(cases, quick):
    out = []
    others = ["tuple", "rel", "reltuple"]
    for i, x in enumerate(cases):
        modes = ["abs", others[i % 3]] if quick else ["abs", "rel", others[i % 2 * 2]]
        for m in modes:
            j = {"k": "sig", "key": x["key"], "t": x["t"], "c": x["c"], "owner": x["owner"], "rrs": x["rrs"],
                 "sg": x["sg"], "mode": m}
            if m in ("rel", "reltuple"):
                j["org"] = ORG_REL
                j["owner"] = respell(x["owner"])
                j["rrs"] = [respell_segs(s) for s in x["rrs"]]
                j["sg"] = dict(x["sg"], signer=respell(x["sg"]["signer"]))
            out.append(j)
    return out


def text_safe(name):
    return all(lab and all(48 <= c <= 57 or 65 <= c <= 90 or 97 <= c <= 122 for c in lab) for lab in name)


def jobs_key(cases, rng):
    """DS cases are multiplied by the ARGUMENT FORM of the owner (environment choice; the oracle only sees the
    absolute owner): absolute Name (always); for owners made of letters / digits and short keys also absolute text,
    relative text + origin ('@', one, two, ... labels; origin = the rest, down to the root) and relative Name + origin"""
    out = []
    for i, x in enumerate(cases):
        j = dict(x)
        if x["k"] == "nsec3":
            j["mode"] = ["bytes", "hex", "none"][i % 3]
        out.append(j)
        if x["k"] == "ds" and len(x["key"]) <= 8 and text_safe(x["owner"]):
            out.append(dict(x, form="text"))
            for cut in range(len(x["owner"]) + 1):
                out.append(dict(x, form="reltext", cut=cut))
                out.append(dict(x, form="relname", cut=cut))
    return out


def jobs_bitmap(cases, rng):
    out = []
    for x in cases:
        order = list(x["types"])
        rng.shuffle(order)
        if len(order) > 1 and rng.random() < 0.3:
            order.append(order[0])
        out.append({"k": "bitmap", "types": x["types"], "order": order})
    return out


def flipcase(name):
    return [[c ^ 0x20 if (65 <= c <= 90 or 97 <= c <= 122) else c for c in lab] for lab in name]


def mutations(z, rng, limit):
    """single changes of a zone (environment choices); whether the digest must change is decided by TLC"""
    muts = []
    rrs = z["rrs"]
    for i in range(len(rrs)):
        m = copy.deepcopy(z)
        del m["rrs"][i]
        if any(r["t"] == 6 for r in m["rrs"]):
            muts.append(m)
    sets = sorted({(json.dumps(r["o"]), r["t"]) for r in rrs})
    for o, t in sets:
        m = copy.deepcopy(z)
        for r in m["rrs"]:
            if json.dumps(r["o"]) == o and r["t"] == t:
                r["ttl"] = [0, 0, 0, 61]
        muts.append(m)
    for o in sorted({json.dumps(r["o"]) for r in rrs}):
        m = copy.deepcopy(z)
        for r in m["rrs"]:
            if json.dumps(r["o"]) == o:
                r["o"] = flipcase(r["o"])
        if json.dumps(m["origin"]) == o:
            continue  # the origin keeps its spelling; only non-apex owners are re-spelled
        muts.append(m)
    for i, r in enumerate(rrs):
        for k, s in enumerate(r["segs"]):
            m = copy.deepcopy(z)
            if s[0] == "n":
                m["rrs"][i]["segs"][k][1] = flipcase(s[1])
            elif r["t"] == 6:
                m["rrs"][i]["segs"][k][1][7] ^= 1  # SOA refresh (the serial stays: it is copied into the ZONEMD)
            else:
                m["rrs"][i]["segs"][k][1][-1] ^= 0x20
            if any(json.dumps(x) == json.dumps(m["rrs"][i]) for n, x in enumerate(m["rrs"]) if n != i):
                continue
            muts.append(m)
    m = copy.deepcopy(z)
    m["rrs"].append({"o": [[110, 101, 119]] + z["origin"], "t": 1, "c": 1, "ttl": [0, 0, 1, 44], "segs": [["b", [192, 0, 2, 99]]]})
    muts.append(m)
    m = copy.deepcopy(z)
    m["rrs"].reverse()
    muts.append(m)
    m = copy.deepcopy(z)
    m["rrs"].append(copy.deepcopy(m["rrs"][0]))
    muts.append(m)
    if limit is not None and len(muts) > limit:
        muts = rng.sample(muts, limit)
    return muts


def jobs_zone(cases, quick, rng):
    out = []
    n = 0
    for x in cases:
        z = x["z"]
        for rel in (True, False):
            n += 1
            if x["zmd"] == 0:
                for m in (["plain", ["txn", "versioned"][n % 2]] if quick else ["plain", "txn", "versioned"]):
                    out.append({"k": "nsec", "z": z, "rel": rel, "mode": m})
            out.append({"k": "zonemd", "z": z, "rel": rel, "alg": 1 + n % 2,
                        "muts": mutations(z, rng, 3 if quick else 6)})
    return out


# ------------------------------------------------------------------ known answers printed in the RFCs
RFC4034_KEY = ("AQOeiiR0GOMYkDshWoSKz9XzfwJr1AYtsmx3TGkJaNXVbfi/2pHm822aJ5iI9BMzNXxeYCmZDRD99WYwYqUSdjMmmAphXdvxegXd/M5+X7Or"
               "zKBaMbCVdFLUUh6DhweJBjEVv5f2wwjM9XzcnOf+EPbtG9DMBmADjFDc2w/rljwvFw==")


def lab(text):
    return [[ord(c) for c in x] for x in text.split(".") if x]


def jobs_vectors():
    """RFC 4034 5.4 (DS of dskey.example.com, SHA-1 2BB183AF...), RFC 5155 Appendix A (salt aabbccdd, 12 iterations)"""
    import base64
    key = [1, 0, 3, 5] + list(base64.b64decode(RFC4034_KEY))
    return [{"k": "ds", "owner": lab("dskey.example.com"), "key": key, "dt": 1, "vec": "2bb183af5f22588179a53b0a98631fad1a292118"},
            {"k": "keytag", "rd": key},
            {"k": "nsec3", "n": lab("example"), "salt": [0xAA, 0xBB, 0xCC, 0xDD], "iter": 12, "mode": "hex",
             "vec": "0p9mhaveqvm6t7vbl5lop2u3t2rp3tom"},
            {"k": "nsec3", "n": lab("a.example"), "salt": [0xAA, 0xBB, 0xCC, 0xDD], "iter": 12, "mode": "bytes",
             "vec": "35mthgpgcu1qg68fab165klnsnk3dpvl"},
            {"k": "nsec3", "n": lab("X.Y.W.EXAMPLE"), "salt": [0xAA, 0xBB, 0xCC, 0xDD], "iter": 12, "mode": "bytes",
             "vec": "2vptu5timamqttgl4luu9kg21e0aor3s"}]


def check_vectors(jobs, traces):
    """the oracle side (TLC preimage + hashlib + the driver's iteration) must reproduce the RFC's printed values;
    a mismatch means the ORACLE is wrong: machinery failure, not a violation"""
    import base64
    import hashlib
    bad = []
    for j, tr in zip(jobs, traces):
        if "vec" not in j:
            continue
        e = tr["ev"][0]
        if j["k"] == "ds":
            got = hashlib.sha1(bytes(j["pre"])).hexdigest()
        else:
            got = base64.b32encode(bytes(e["digs"][-1])).decode().translate(
                str.maketrans("ABCDEFGHIJKLMNOPQRSTUVWXYZ234567", "0123456789ABCDEFGHIJKLMNOPQRSTUV")).lower()
        if got != j["vec"]:
            bad.append("%s: oracle %s, RFC %s" % (j["k"], got, j["vec"]))
    return bad


# ------------------------------------------------------------------ seeded random inputs beyond the universes
def rnd_label(rng):
    n = rng.choice([1, 1, 2, 3, 5, 8, 20, 63])
    pool = rng.choice([b"AZaz", b"abcXYZ019-_", bytes(range(256)), b"@[`{\x00\xff.*"])
    return [rng.choice(pool) for _ in range(n)]


def rnd_name(rng, maxlabels=4):
    while True:
        n = [rnd_label(rng) for _ in range(rng.randint(0, maxlabels))]
        if sum(len(x) + 1 for x in n) + 1 <= 200:
            return n


def case_variant(rng, name):
    return [[c ^ 0x20 if (65 <= c <= 90 or 97 <= c <= 122) and rng.random() < 0.5 else c for c in x] for x in name]


def carry_key(rng, key):
    """environment choice: re-tune one 16-bit word of a random DNSKEY RDATA so that the RFC 4034 App. B octet sum S
    has (S % 65536) + (S // 65536) >= 65536 - the only place where 'add the carry once and truncate' differs from an
    end-around-carry fold (about 1 random key in 1000 gets there by itself)"""
    key = list(key)
    if len(key) < 8:
        return key
    pos = 4 + 2 * rng.randrange((len(key) - 4) // 2)   # an aligned word of the key body
    for _ in range(4):
        key[pos] = key[pos + 1] = 0
        s = sum(b if i & 1 else b << 8 for i, b in enumerate(key))
        hi = (s >> 16) + 1
        target = 0x10000 - rng.randint(1, max(1, hi))     # low half so close to FFFF that adding hi overflows
        w = (target - s) & 0xFFFF
        key[pos], key[pos + 1] = w >> 8, w & 255
        s = sum(b if i & 1 else b << 8 for i, b in enumerate(key))
        if (s & 0xFFFF) + (s >> 16) >= 0x10000:
            break
    return key


def jobs_random(templates, rng, count):
    out = []
    multi = [t for t in templates if t["num"] not in (5, 6, 30, 39, 47)]
    for _ in range(count):
        t = rng.choice(templates)
        cls = t.get("cls", 1)
        base = rnd_name(rng)
        fill = lambda tt: [["n", case_variant(rng, base) if rng.random() < 0.6 else rnd_name(rng)] if s[0] == "n" else ["b", list(s[1])]  # noqa: E731
                           for s in tt["tmpl"]]
        r = rng.random()
        if r < 0.3:
            out.append({"k": "canon", "key": t["key"], "t": t["num"], "c": cls, "segs": fill(t), "mode": "abs"})
        elif r < 0.8:
            t = rng.choice(multi)
            cls = t.get("cls", 1)
            owner = rnd_name(rng, 3)
            if rng.random() < 0.3:
                owner = [[42]] + owner[:2]
            n = rng.choice([1, 2, 2, 3, 4, 6])
            sg = {"cov": [t["num"] >> 8, t["num"] & 255], "alg": rng.choice([5, 8, 13, 15]),
                  "labels": rng.randint(0, len(owner) + 1), "ottl": [rng.randrange(256) for _ in range(4)],
                  "exp": [rng.randrange(256) for _ in range(4)], "inc": [rng.randrange(256) for _ in range(4)],
                  "tag": [rng.randrange(256) for _ in range(2)], "signer": owner[rng.randint(0, len(owner)):]}
            sj = {"k": "sig", "key": t["key"], "t": t["num"], "c": cls, "owner": owner, "rrs": [fill(t) for _ in range(n)],
                  "sg": sg, "mode": rng.choice(["abs", "tuple"])}
            if base and rng.random() < 0.5:
                # relative modes: origin = a suffix of the base name, so the case variants of base become RELATIVE names
                # and the other random names stay ABSOLUTE inside one RRset; sometimes the owner lives below the origin
                org = base[rng.randrange(len(base)):]
                if rng.random() < 0.5:
                    sj["owner"] = owner[:1] + org
                    sg["labels"] = rng.randint(0, len(sj["owner"]) + 1)
                    sg["signer"] = org
                sj.update(mode=rng.choice(["rel", "reltuple"]), org=org, owner=respell_to(sj["owner"], org),
                          rrs=[[["n", respell_to(x[1], org)] if x[0] == "n" else x for x in segs] for segs in sj["rrs"]])
                sg["signer"] = respell_to(sg["signer"], org)
            out.append(sj)
        elif r < 0.9:
            key = [rng.randrange(256), rng.randrange(256), 3, rng.choice([1, 5, 8, 13, 15, 253])] + \
                  [rng.randrange(256) for _ in range(rng.choice([3, 4, 31, 32, 33, 64, 65, 130, 259]))]
            if rng.random() < 0.5:
                key = carry_key(rng, key)
            out.append({"k": "keytag", "rd": key})
            dsj = {"k": "ds", "owner": rnd_name(rng), "key": key, "dt": rng.choice([1, 2, 4])}
            if rng.random() < 0.5:   # a letters-and-digits owner in a random argument form
                dsj["owner"] = [[rng.choice(b"abzABZ019") for _ in range(rng.randint(1, 5))] for _ in range(rng.randint(0, 4))]
                dsj["form"] = rng.choice(["text", "reltext", "reltext", "relname"])
                dsj["cut"] = rng.randint(0, len(dsj["owner"]))
            out.append(dsj)
        else:
            out.append({"k": "nsec3", "n": rnd_name(rng), "salt": [rng.randrange(256) for _ in range(rng.choice([0, 1, 4, 8, 255]))],
                        "iter": rng.choice([0, 1, 2, 5, 17, 50]), "mode": rng.choice(["bytes", "hex"])})
            ts = sorted(rng.sample(range(1, 65536), rng.randint(1, 6)) + rng.sample(range(1, 260), rng.randint(0, 5)))
            ts = sorted(set(ts))
            order = list(ts)
            rng.shuffle(order)
            out.append({"k": "bitmap", "types": ts, "order": order})
    return out


# ------------------------------------------------------------------ TLC passes
def gen(ctx, kind, quick):
    cfg = ctx.cfg("gen_%s.cfg" % kind, GEN_CFG.format(kind=kind, thorough="FALSE" if quick else "TRUE"))
    return [b[0] for b in ctx.generate("Gen_Dnssec", cfg, count=False, heap="4g")]


def preimages(ctx, jobs):
    """TLC (Pre_Dnssec) computes the octets that get hashed, for every ds / nsec3 / zonemd job"""
    need = [j for j in jobs if j["k"] in ("ds", "nsec3", "zonemd")]
    if not need:
        return
    shards = max(1, min(8, len(need) // 300))
    files = []
    for i in range(shards):
        fn = os.path.join(ctx.work, "pre_%d.ndjson" % i)
        with open(fn, "w") as f:
            for j in need[i::shards]:
                slim = {k: v for k, v in j.items() if k not in ("muts", "pre")}
                f.write(json.dumps(slim, separators=(",", ":")) + "\n")
        files.append(fn)
    with cf.ThreadPoolExecutor(max_workers=16) as ex:
        res = list(ex.map(lambda fn: ctx.model("Pre_Dnssec", "Pre_Dnssec.cfg", env={"TRACE_FILE": fn}, workers=1,
                                               count=False, heap="3g"), files))
    pre = {}
    for r in res:
        for tid, octets in r.prints.get("PRE", []):
            pre[tid] = octets
    for j in need:
        if j["tid"] not in pre:
            raise RuntimeError("Pre_Dnssec produced no preimage for %s" % j["tid"])
        j["pre"] = pre[j["tid"]]
    ctx.extra["preimages_from_tlc"] = len(pre)


# ------------------------------------------------------------------ triage of rejects
def lower_all_wire(segs):
    out = []
    for s in segs:
        if s[0] == "n":
            for lab in s[1]:
                out += [len(lab)] + fold(lab)
            out.append(0)
        else:
            out += s[1]
    return out


def plain_wire(segs):
    return list(c15_dnssec.seg_wire(segs))


def bitmap_types(bm):
    types, i = set(), 0
    while i + 2 <= len(bm):
        w, n = bm[i], bm[i + 1]
        for j, octet in enumerate(bm[i + 2:i + 2 + n]):
            for b in range(8):
                if octet & (0x80 >> b):
                    types.add(w * 256 + j * 8 + b)
        i += 2 + n
    return types


def is_f14(e):
    """exactly the known case: every NSEC of the chain is as the RFCs say, except that at a zone cut the bitmap also
    carries the types of the non-authoritative RRsets stored at the cut"""
    z = e["z"]
    apex = json.dumps([fold(x) for x in z["origin"]])
    at = {}
    for r in z["rrs"]:
        at.setdefault(json.dumps([fold(x) for x in r["o"]]), set()).add(r["t"])
    hit = False
    for owner, nxt, bm, ttl in e["chain"]:
        k = json.dumps([fold(x) for x in owner])
        present = at.get(k, set())
        cut = k != apex and 2 in present
        got = bitmap_types(bm)
        if got != present | {46, 47}:
            return False
        if cut and present - {2, 43}:
            hit = True
    return hit


def is_apex_only_rel(e):
    z = e["z"]
    return e["rel"] and e["chain"] == [] and all(r["o"] == z["origin"] for r in z["rrs"])


def is_releq(e):
    """exactly the known case: in a relative mode two different RRs of the set, each with at least one name below the
    origin, read the same once the origin is left out (`@` vs `.`, `a` vs `a.`): the library's comparison of rdatas
    with relative names completes them with the ROOT, finds them equal and the RRset silently keeps only one"""
    if e.get("mode") not in ("rel", "reltuple") or "org" not in e:
        return False
    org = [fold(x) for x in e["org"]]
    k = len(org)
    seen = {}
    for segs in e["rrs"]:
        full, stripped, has_rel = [], [], False
        for s in segs:
            if s[0] != "n":
                full.append(s[1])
                stripped.append(s[1])
                continue
            n = [fold(x) for x in s[1]]
            full.append(n)
            if k and len(n) >= k and n[len(n) - k:] == org:
                has_rel = True
                n = n[:len(n) - k]
            stripped.append(n)
        if not has_rel:
            continue
        key = json.dumps(stripped)
        if key in seen and seen[key] != json.dumps(full):
            return True
        seen.setdefault(key, json.dumps(full))
    return False


def classify(tr, line, clause):
    ev = tr["ev"]
    e = ev[line - 1] if line and 0 < line <= len(ev) else {}
    op = e.get("op", "?")
    out = e.get("out", ["?", "?"])
    exc = out[1] if isinstance(out, list) and out and out[0] == "err" else ""
    if op == "canon" and clause == "CanonCase" and out[0] == "ok":
        if e["t"] == 107 and out[1] == lower_all_wire(e["segs"]):
            return "F11:LP-canonical-form-lowercases-fqdn"
        if e["t"] == 1 and e["c"] == 3 and out[1] == lower_all_wire(e["segs"]):
            return "C15-CHA:CH-A-canonical-form-lowercases-domain"
        if e["t"] in OBSOLETE and out[1] == plain_wire(e["segs"]):
            return "C15-OBS:rfc4034-6.2-type-parsed-as-generic-not-lowercased"
    if op == "sig" and clause == "SigStructure" and out[0] == "ok" and is_releq(e):
        return "C15-RELEQ:rdatas-with-relative-names-compared-as-if-relative-to-root:rrset-drops-a-record"
    if op == "sig" and clause in ("SigCase", "SigStructure") and out[0] == "ok":
        if e["t"] == 107:
            return "F11:LP-canonical-form-lowercases-fqdn:sig"
        if e["t"] == 1 and e["c"] == 3:
            return "C15-CHA:CH-A-canonical-form-lowercases-domain:sig"
        if e["t"] in OBSOLETE:
            return "C15-OBS:rfc4034-6.2-type-parsed-as-generic-not-lowercased:sig"
    if op == "nsec" and clause == "NsecBitmap" and is_f14(e):
        return "F14:nsec-bitmap-at-delegation-includes-non-authoritative-types"
    if op == "nsec" and clause == "NsecOwners" and is_apex_only_rel(e):
        return "C15-APEX:sign_zone-relativized-apex-only-zone-gets-no-nsec"
    if op == "nsec":
        exc = e.get("res", ["", ""])[1] if e.get("res", ["ok"])[0] == "err" else ""
        return "%s:nsec:rel=%s:%s:%s" % (clause, e.get("rel"), e.get("mode"), exc)
    if op in ("canon", "sig"):
        return "%s:%s:type=%s:class=%s:%s:%s" % (clause, op, e.get("t"), e.get("c"), e.get("mode"), exc)
    if op == "ds":
        return "%s:ds:owner-as-%s:dt=%s" % (clause, e.get("form"), e.get("dt"))
    if op == "zmut":
        return "%s:zmut:%s" % (clause, e.get("verdict"))
    return "%s:%s:%s" % (clause, op, exc)


def nontrivial(j):
    if j["k"] == "canon":
        return any(s[0] == "n" and s[1] for s in j["segs"])
    if j["k"] == "sig":
        return True
    if j["k"] == "nsec" or j["k"] == "zonemd":
        return len({json.dumps(r["o"]) for r in j["z"]["rrs"]}) > 1
    return True


# ------------------------------------------------------------------ the check
def run(ctx):
    from vlib.core import Machinery
    quick = ctx.tier == "quick"
    rng = random.Random(1500 + ctx.seed)
    ctx.rule = ("universes emitted by TLC from specs/DnssecUniverse.tla: every RDATA template of specs/canon_rfc4034.json "
                "(every type with embedded names, RFC 4034 6.2 types without a dnspython class included) x 7 name patterns "
                "per name slot (lower / UPPER / MiXed, order-flipping, edge octets, >=128, root) x absolute / relative+origin; "
                "RRsets of 1-3 records x owners (cases, wildcards, root) x every RRSIG label count 0..len+1 x rrset / tuple / "
                "relative forms; DNSKEYs (4 algorithms x 7 odd/even bodies) x owners x digest types; NSEC3 names x salts x "
                "iterations; type sets; zones over {@, a, b.a, C, d (cut), g.d (glue), x.y, *.w} x content menus x "
                "relativized / absolute x plain / txn / versioned; ZONEMD of each zone plus single-change mutants; plus seeded "
                "random names / RRsets / zones.  One event per evaluation; distinct = distinct job inputs; non-trivial = "
                "has a non-root embedded name / more than one owner name")
    ctx.assumptions += ["TLC and CommunityModules Json are correct", "hashlib is correct and collision-free on the inputs used",
                        "driver projection (drivers/c15_dnssec.py) is faithful",
                        "specs/canon_rfc4034.json transcribes RFC 4034 6.2 / RFC 6840 5.1 / RFC 3597 7 correctly",
                        "exhaustive only inside the universes of specs/DnssecUniverse.tla; beyond them seeded random inputs",
                        "signing / validating with private keys is out of scope (python 'cryptography' is not installed)"]
    if not c15_table.generate(check_only=True):
        c15_table.generate()
        ctx.log("specs/DnssecTable.tla regenerated from specs/canon_rfc4034.json")
    ncmp, disagree = c15_table.crosscheck()
    ctx.extra["canon_table_crosscheck_with_schemas_json"] = {"types_compared": ncmp, "disagreements": disagree}
    mc = []
    if ctx.replay_case:
        jobs = [ctx.replay_case["case"]["job"]]
    else:
        ex = cf.ThreadPoolExecutor(max_workers=16)
        if not os.environ.get("C15_ONLY"):
            # the laws of the oracle on the whole universe, in six parts side by side (one worker each: the work is
            # the evaluation of the invariants on initial states, which TLC does in one thread anyway)
            base = open(os.path.join(os.path.dirname(c15_table.DST), "MC_Dnssec_quick.cfg" if quick else "MC_Dnssec_thorough.cfg")).read()
            mc = [ex.submit(ctx.model, "MC_Dnssec", ctx.cfg("mc_%s.cfg" % part, base.replace('MPart = "all"', 'MPart = "%s"' % part)),
                            workers=1, heap="4g") for part in ("rest", "zone", "sig0", "sig1", "sig2", "sig3")]
        # developer knob (mutation testing / debugging only): C15_ONLY=canon,sig,... restricts the universes
        only = [k for k in os.environ.get("C15_ONLY", "").split(",") if k]
        kindsel = [k for k in ("canon", "sig", "key", "bitmap", "zone") if not only or k in only]
        gkinds = [g for k in kindsel for g in (["sig0", "sig1", "sig2", "sig3"] if k == "sig" else [k])]
        futs = {k: ex.submit(gen, ctx, k, quick) for k in gkinds}
        uni = {k: f.result() for k, f in futs.items()}
        if "sig0" in uni:
            uni["sig"] = [x for k in ("sig0", "sig1", "sig2", "sig3") for x in uni.pop(k)]
        for k in ("canon", "sig", "key", "bitmap", "zone"):
            uni.setdefault(k, [])
        ctx.extra["universe"] = {k: len(v) for k, v in uni.items()}
        jobs = (jobs_canon(uni["canon"], quick) + jobs_sig(uni["sig"], quick) + jobs_key(uni["key"], rng)
                + jobs_bitmap(uni["bitmap"], rng) + jobs_zone(uni["zone"], quick, rng))
        vec = jobs_vectors()
        templates = c15_table.load()["types"]
        rnd = jobs_random(templates, rng, 1500 if quick else 30000)
        if only:
            rnd = [j for j in rnd if j["k"] in only or (j["k"] in ("keytag", "ds", "nsec3") and "key" in only)]
        ctx.extra["random_cases"] = len(rnd)
        jobs = vec + jobs + rnd
        for i, j in enumerate(jobs):
            j["tid"] = "%s%d" % (j["k"][0], i)
    try:
        preimages(ctx, jobs)
    except RuntimeError as exn:
        raise Machinery(str(exn))
    ctx.log("%d evaluations to run on the implementation" % len(jobs))
    traces = ctx.pmap(c15_dnssec.run_job, jobs, chunk=200)
    bad = check_vectors(jobs, traces)
    if bad:
        raise Machinery("the oracle does not reproduce the RFC's known answers: %s" % bad)
    kinds = {}
    for j, tr in zip(jobs, traces):
        kinds[j["k"]] = kinds.get(j["k"], 0) + 1
        if kinds[j["k"]] == 3 and j["k"] in ("canon", "sig", "ds", "nsec3", "keytag"):
            ctx.sample(tr["ev"][0], cap=5)
    ctx.extra["jobs_by_kind"] = kinds
    ctx.extra["events"] = sum(len(tr["ev"]) for tr in traces)
    jobmap = {j["tid"]: j for j in jobs}
    ctx.distinct = set(json.dumps({k: v for k, v in j.items() if k not in ("tid", "pre")}, separators=(",", ":"), sort_keys=True)
                       for j in jobs if nontrivial(j))
    ctx.evaluations = ctx.extra["events"]
    rejects = ctx.validate("Trace_Dnssec", "Trace_Dnssec.cfg", traces, env={"JAVA_TOOL_OPTIONS": "-Xss32m"})
    for f in mc:
        f.result()
    # drift (never an alarm): wildcard owners whose RRSIG label count is not "labels below the asterisk" are refused
    # by the library although RFC 4035 5.3.2 defines a result (DESIGN section 4 C15 leaves the refusal free)
    ctx.drift = sum(1 for tr in traces for e in tr["ev"] if e.get("op") == "sig" and e["out"][0] == "err" and e["owner"]
                    and e["owner"][0] == [42] and e["sg"]["labels"] <= len(e["owner"]) and e["sg"]["labels"] != len(e["owner"]) - 1)
    ctx.extra["drift_detail"] = {"wildcard_owner_with_other_label_count_refused": ctx.drift}
    for tr, line, clause in rejects:
        sig = classify(tr, line, clause)
        e = tr["ev"][line - 1] if line else {}
        ctx.violation(clause, sig, "event %s" % json.dumps(e)[:600], {"job": jobmap.get(tr["tid"]), "line": line})
