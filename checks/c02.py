"""C02 - every record type's wire form round-trips and re-encodes byte-identically; decoding arbitrary
octets either reports a format error or consumes exactly rdlen and is a fixed point."""
import concurrent.futures as cf
import json
import os
import random

from drivers import c02_rdata
from vlib import core, schema_gen, tlc

LEVEL = "model_checking"
META = {
    "text": "specs/schemas.json is a hand-written table (from the defining RFCs) of the RDATA layout of all 69 implemented "
            "types plus the RFC 3597 generic form; RdataCodec.tla defines a generic Encode/Decode over it, with per-type "
            "well-formedness predicates. TLC checks the codec laws (Decode(Encode(v)) = v, unique re-encoding / fixed point, "
            "exact consumption) on a bounded universe of boundary values and single-octet faults, enumerates that universe "
            "(Gen_RdataCodec), and the driver builds every value as a real dnspython object through the public constructor, "
            "records to_wire (with and without origin), from_wire inside a larger message, equality, re-encoding and the "
            "octets consumed; every faulted, ill-formed and seeded random octet string is offered to dns.rdata.from_wire. "
            "Trace_RdataCodec recomputes each expected value with the specification's Encode/Decode and requires byte "
            "equality, the specification's verdict where the table decides it, exact consumption, FormError on refusal and "
            "the decode-then-encode fixed point.",
    "note": "Exhaustive only inside the declared universe (per-field boundary sets, all vectors differing from a base vector "
            "in at most 2 fields, every single-octet fault of the FaultSet on the vectors differing in at most 1 field in "
            "quick / all vectors in thorough); beyond it seeded random octets. Names inside RDATA are not compressed on "
            "output (not a clause of C02). Trusted: TLC, the Json module, the value builder / projection in drivers/c02_rdata.py.",
    "technique": "TLA+ table-driven codec specification + TLC law checking; TLC-enumerated value universe replayed on the "
                 "code; TLC trace validation against an independent encoder/decoder",
    "design_ref": "DESIGN.md section 4, C02 and Appendix A",
}

GEN_CFG = """INIT Init
NEXT Next
CONSTANTS
  Wide = {wide}
  Depth = {depth}
  Types {types}
INVARIANT Emit
CHECK_DEADLOCK FALSE
"""
TRACE_CFG = """INIT TraceInit
NEXT TraceNext
CONSTANTS
  Wide = {wide}
  Depth = {depth}
CONSTRAINT Accepted
POSTCONDITION Post
CHECK_DEADLOCK FALSE
"""
UNKNOWN_FIXED = [3, 4, 7, 8, 9, 10, 14, 30, 31, 32, 34, 38, 40, 54, 57, 58, 100, 101, 102, 103, 110, 248, 259, 263,
                 4096, 32768, 32770, 65279, 65280, 65534, 65535]


def _options(octets):
    """(code, data) items of an OPT RDATA, as far as they parse"""
    out, i = [], 0
    while i + 4 <= len(octets):
        code = octets[i] * 256 + octets[i + 1]
        ln = octets[i + 2] * 256 + octets[i + 3]
        if i + 4 + ln > len(octets):
            break
        out.append((code, octets[i + 4:i + 4 + ln]))
        i += 4 + ln
    return out


def _ede_text_nuls(octets, need):
    """some EDE option (code 15) carries EXTRA-TEXT ending in at least `need` NUL octets"""
    for code, data in _options(octets):
        if code == 15 and len(data) >= 2 + need and all(x == 0 for x in data[len(data) - need:]):
            return True
    return False


def _svcb_keys(octets):
    """SvcParamKeys of an SVCB/HTTPS RDATA whose target name is uncompressed, as far as they parse"""
    i = 2
    while i < len(octets) and octets[i] != 0:
        if octets[i] >= 64:
            return []
        i += 1 + octets[i]
    i += 1
    keys = []
    while i + 4 <= len(octets):
        keys.append(octets[i] * 256 + octets[i + 1])
        i += 4 + octets[i + 2] * 256 + octets[i + 3]
    return keys


def _overlapping_pointer(octets, off=3):
    """some compression pointer in the RDATA leads backwards into the same RDATA to a run of labels
    that extends over the pointer itself (so octets after the pointer are read as label content)"""
    n = len(octets)
    for i in range(n - 1):
        if octets[i] >= 192:
            t = ((octets[i] & 63) << 8 | octets[i + 1]) - off
            if 0 <= t < i:
                pos = t
                while pos < n and 0 < octets[pos] < 64:
                    pos += 1 + octets[pos]
                if pos > i + 1:
                    return True
    return False


def classify(tr, line, clause):
    """Case signature of a rejected trace.  The two defects found with this check (F20, F23, both
    repaired in /repo since) keep their specific signature for exactly the failing configuration;
    everything else gets a generic one."""
    ev = tr.get("ev", [])
    e = ev[line - 1] if line and 0 < line <= len(ev) else {}
    op = e.get("op", "?")
    ty = tr.get("ty", "?")
    # F20: EDE EXTRA-TEXT: one trailing NUL is stripped by from_wire but kept by the constructor / to_wire
    if ty == "OPT" and op == "enc" and clause in ("DecodedEqual", "DecodedValue", "ReencodeIdentical", "FixedPoint") \
            and e.get("res") == "ok" and _ede_text_nuls(e.get("wire", []), 1):
        return "F20:ede-extra-text-trailing-nul:%s" % clause
    if ty == "OPT" and op == "dec" and clause == "FixedPoint" and e.get("res") == "ok" and _ede_text_nuls(e.get("b", []), 2):
        return "F20:ede-extra-text-trailing-nul:%s" % clause
    # F46 (fixed in /repo b78564a): the first lookup of an IN-only type in the process was in class ANY (255);
    # the generic fallback was cached under (ANY, type), the class-independent registry key, so the type's
    # home class was served by GenericRdata afterwards
    if op == "enc" and clause == "ImplementationUsed" and tr.get("tid", "").startswith("fresh:any-first:"):
        return "F46:class-any-first-lookup-caches-generic-under-class-independent-key:%s" % ty
    # F23: a name whose pointer leads to labels overlapping the pointer: the name parser resumes at the
    # furthest octet read instead of after the pointer, so left-over RDATA octets are accepted
    if op == "dec" and clause in ("NoTrailingOctets", "MustReject", "MustAccept", "ReencodeSpec") and e.get("res") == "ok" \
            and _overlapping_pointer(e.get("b", [])):
        return "F23:name-pointer-overlap-hides-trailing-octets"
    if op == "dec":
        return "%s:%s:dec:%s:%s:%s" % (clause, ty, e.get("ft", ["?"])[0], e.get("res", "?"), e.get("exc", ""))
    if op == "enc":
        return "%s:%s:enc:%s:%s" % (clause, ty, "origin" if e.get("org") else "noorigin", e.get("exc", e.get("res", "")))
    return "%s:%s:%s" % (clause, ty, op)


def generate_universe(ctx, cfg):
    """Run Gen_RdataCodec and collect its BEH lines.  TLC's own progress messages share stdout with
    PrintT, so a BEH line may start in the middle of an output line: search, do not anchor.  (A lost
    line is caught anyway: Trace_RdataCodec asserts the number of vectors per type, UniverseCovered.)"""
    r = ctx.model("Gen_RdataCodec", cfg, workers=1)
    items = []
    for line in r.out.splitlines():
        i = line.find('"BEH ')
        if i >= 0 and line.rstrip().endswith('"'):
            items.append(json.loads(tlc._unescape(line.rstrip()[i + 5:-1])))
    ctx.log("universe: %d (type, value vector) items from Gen_RdataCodec" % len(items))
    if not items:
        raise core.Machinery("Gen_RdataCodec emitted nothing")
    return items


def coverage_table(ctx):
    """which loaded implementations are in the table, which are not (never silently skipped)"""
    loaded = c02_rdata.loaded_types()
    by_ct = {}
    for key, t in c02_rdata.TABLE.items():
        if key != "UNKNOWN":
            by_ct[(c02_rdata.CLASSES[t["class"]], t["code"])] = key
    covered, uncovered = [], []
    for c, t, impl in loaded:
        (covered if (c, t) in by_ct else uncovered).append("%s/%d %s" % ("IN" if c == 1 else "CH" if c == 3 else c, t, impl))
    stale = sorted(k for (c, t), k in by_ct.items() if (c, t) not in {(c2, t2) for c2, t2, _ in loaded})
    ctx.extra["types_loaded"] = len(loaded)
    ctx.extra["types_in_table"] = len(by_ct)
    ctx.extra["types_covered"] = sorted(by_ct[(c, t)] for c, t, _ in loaded if (c, t) in by_ct)
    ctx.extra["types_uncovered"] = uncovered
    ctx.extra["table_entries_without_implementation"] = stale
    if uncovered:
        ctx.log("UNCOVERED (no table entry): %s" % ", ".join(uncovered))
    return covered, uncovered


def run(ctx):
    quick = ctx.tier == "quick"
    schema_gen.generate()
    ctx.rule = ("case = one octet string checked against the specification: the encoding of one (type, value vector) with or "
                "without origin, or one faulted / ill-formed / random octet string offered as RDATA of one type; distinct = "
                "distinct (type, octets, origin) cases; non-trivial = every case (each is a full Encode or Decode comparison)")
    ctx.assumptions += ["TLC and the CommunityModules Json module are correct",
                        "value builder and projection of drivers/c02_rdata.py are faithful (they map table kinds to constructor arguments)",
                        "specs/schemas.json transcribes the RFC layouts correctly; 'free' entries (implementation may reject more) weaken the verdict clause only for the listed value regions",
                        "exhaustive only inside the declared universe; beyond it seeded random octets"]
    wide = "FALSE" if quick else "TRUE"
    depth = 2
    tcfg = ctx.cfg("trace_rdatacodec.cfg", TRACE_CFG.format(wide=wide, depth=depth))
    if ctx.replay_case:
        case = ctx.replay_case["case"]
        judge(ctx, tcfg, [c02_rdata.run_job(case["job"])], {case["job"]["tid"]: case["job"]})
        return
    coverage_table(ctx)
    # C02_ONLY=MX,SRV restricts a run to some table keys (development / mutant hunting only: the
    # law check of the specification is skipped and the evidence says so)
    only = [x for x in os.environ.get("C02_ONLY", "").split(",") if x]
    if only:
        ctx.extra["restricted_to_types"] = only
        types = "= {" + ", ".join(json.dumps(x) for x in only) + "}"
    else:
        types = "<- TypeNames"
        ctx.model("MC_RdataCodec", "MC_RdataCodec_quick.cfg" if quick else "MC_RdataCodec_thorough.cfg")
    items = generate_universe(ctx, ctx.cfg("gen_rdatacodec.cfg", GEN_CFG.format(wide=wide, depth=depth, types=types)))
    rng = random.Random(ctx.seed * 7919 + 17)
    by_type = {}
    for it in items:
        by_type.setdefault(it["ty"], []).append(it)
    jobs = []
    n_vec = {}
    fresh_vs = {}   # per type: the base vector and (if any) one vector with a relative name
    named = {}      # per name-bearing type: one vector (near the base) whose names contain letters
    for ty, its in sorted(by_type.items()):
        n_vec[ty] = len(its)
        for i, it in enumerate(its):
            if it["k"] == "vec" and ty != "UNKNOWN":
                if it.get("base"):
                    fresh_vs.setdefault(ty, []).insert(0, [it["v"], bool(it.get("rel"))])
                elif it.get("rel") and it.get("near") and not any(r for _, r in fresh_vs.get(ty, [])):
                    fresh_vs.setdefault(ty, []).append([it["v"], True])
                if it.get("near") and ty not in named and c02_rdata.swapcase_names(ty, it["v"]) is not None:
                    named[ty] = it["v"]
            job = {"tid": "%s#%d" % (ty, i), "ty": ty, "k": it["k"], "rel": it.get("rel", False)}
            if it["k"] == "vec":
                job["v"] = it["v"]
                # quick: the fault set on the vectors that differ from the base vector in at most one field
                job["faults"] = (not quick) or bool(it.get("near"))
                if ty == "UNKNOWN":
                    job["utype"] = UNKNOWN_FIXED[i % len(UNKNOWN_FIXED)]
            else:
                job["b"] = it["b"]
                if ty == "UNKNOWN":
                    job["utype"] = 65280
            jobs.append(job)
    del items
    ctx.extra["vectors"] = len(jobs)
    # two values that differ only in the letter case of their names, decoded one after the other with the
    # same origin in ONE process, in both orders (a decoder must not remember the spelling of an earlier name)
    nseq = 0
    for ty in sorted(named):
        cands = [named[ty]] + [v for v, rel in fresh_vs.get(ty, []) if v != named[ty]]
        for n, v in enumerate(cands):
            v2 = c02_rdata.swapcase_names(ty, v)
            if v2 is None:
                continue
            for o, vs in (("ab", [v, v2]), ("ba", [v2, v])):
                jobs.append({"tid": "%s#case%d%s" % (ty, n, o), "ty": ty, "k": "seq", "vs": vs})
                nseq += 1
    ctx.extra["case_sequence_jobs"] = nseq
    # re-entrant encoding: an OPT record one of whose (user-defined) options encodes another record
    # inside its own to_wire()
    if "OPT" in by_type:
        jobs.append({"tid": "OPT#reent", "ty": "OPT", "k": "reent",
                     "v": [[[3, [1, 2]], [65001, [1, 2, 3]], [10, [1, 2, 3, 4, 5, 6, 7, 8]], [65002, []]]]})
    ctx.extra["vectors_per_type"] = n_vec
    stats = {"enc": 0, "dec": 0, "acc": 0, "refused": {}, "unenc": [], "base_wires": {}, "hang": 0}
    # spread the types over the batches / shards (long encodings are expensive for TLC)
    def order(j):
        x = j["tid"].split("#")[1]
        return (int(x) if x.isdigit() else 10 ** 6, j["ty"], j["tid"])
    jobs.sort(key=order)
    cost = lambda j: 150 if j.get("faults") else 2  # noqa: E731
    batch, acc, nb = [], 0, 0
    limit = 10 ** 9 if quick else 250000
    first = True
    held, heldmap = [], {}
    for j in jobs + [None]:
        if j is not None:
            batch.append(j)
            acc += cost(j)
        if batch and (j is None or acc >= limit):
            traces = ctx.pmap(c02_rdata.run_job, batch)
            nb += 1
            ctx.log("driver: batch %d, %d value-vector / ill-formed jobs executed" % (nb, len(batch)))
            if first:
                first = False
                for tr in traces[:2]:
                    ctx.sample({"tid": tr["tid"], "ty": tr["ty"], "ev": [{k: v for k, v in e.items() if k != "fts"} for e in tr["ev"][:2]]})
                traces = traces + [{"tid": "cover:%s" % ty, "ty": ty, "ev": [{"op": "cover", "n": n}]} for ty, n in sorted(n_vec.items())]
            account(ctx, traces, stats)
            if quick:
                held, heldmap = traces, {x["tid"]: x for x in batch}   # validated together with the random octets below
            else:
                judge(ctx, tcfg, traces, {x["tid"]: x for x in batch})
            batch, acc = [], 0
    # registry order scenario, each order in a FRESH interpreter: the first lookup of every type in the
    # process is in a class without implementation (HS), then its home class - and the reverse as control
    fitems = [{"ty": ty, "vs": vs, "wire": stats["base_wires"][ty][0]} for ty, vs in sorted(fresh_vs.items())
              if stats["base_wires"].get(ty)]
    orders = sorted(c02_rdata.FOREIGN_ORDERS)
    with cf.ThreadPoolExecutor(max_workers=4) as ex:
        fres = list(ex.map(lambda o: c02_rdata.run_fresh(o, fitems), orders))
    ftraces = [tr for r in fres for tr in r]
    fmap = {tr["tid"]: {"tid": tr["tid"], "ty": tr["ty"], "k": "fresh", "order": tr["tid"].split(":")[1],
                        "item": next(x for x in fitems if x["ty"] == tr["ty"])} for tr in ftraces}
    ctx.extra["fresh_process_order_scenarios"] = len(ftraces)
    ctx.log("driver: %d fresh-process lookup-order traces (%d new interpreters)" % (len(ftraces), len(orders)))
    account(ctx, ftraces, stats)
    if quick:
        held, heldmap = held + ftraces, dict(heldmap, **fmap)
    else:
        judge(ctx, tcfg, ftraces, fmap)
    # seeded random octets for every type and ~50 unknown type codes
    nrand = 180 if quick else 4000
    rjobs = []
    for ty in sorted(by_type):
        if ty == "UNKNOWN":
            continue
        bs = c02_rdata.random_rdata(rng, stats["base_wires"].get(ty, []), nrand)
        for j in range(0, len(bs), 60):
            rjobs.append({"tid": "%s#rand%d" % (ty, j // 60), "ty": ty, "k": "rand", "bs": bs[j:j + 60]})
    ucodes = list(UNKNOWN_FIXED)
    implemented = {t["code"] for t in c02_rdata.TABLE.values() if "code" in t}
    while len(ucodes) < 50:
        c = rng.randrange(1, 65536)
        if c not in implemented and c not in ucodes and not (128 <= c <= 255) and c != 41:
            ucodes.append(c)
    for c in (ucodes if "UNKNOWN" in by_type else []):
        bs = c02_rdata.random_rdata(rng, stats["base_wires"].get("UNKNOWN", []), 30 if quick else 300)
        rjobs.append({"tid": "UNKNOWN#rand%d" % c, "ty": "UNKNOWN", "k": "rand", "bs": bs, "utype": c})
    ctx.extra["unknown_type_codes"] = sorted(ucodes)
    ctx.extra["random_octet_strings"] = sum(len(j["bs"]) for j in rjobs)
    rtraces = ctx.pmap(c02_rdata.run_job, rjobs)
    ctx.log("driver: %d random-octet jobs executed" % len(rjobs))
    for tr in rtraces[:1]:
        ctx.sample({"tid": tr["tid"], "ty": tr["ty"], "ev": tr["ev"][:2]})
    account(ctx, rtraces, stats)
    rmap = {x["tid"]: x for x in rjobs}
    if quick:
        # one validation run, 8 JVMs: a TLC start costs ~3-4 CPU-s, which dominates small shards
        rmap.update(heldmap)
        judge(ctx, tcfg, held + rtraces, rmap, shards=8)
    else:
        judge(ctx, tcfg, rtraces, rmap)
    ctx.extra.update({"encode_cases": stats["enc"], "decode_cases": stats["dec"], "decode_cases_accepted_by_impl": stats["acc"],
                      "library_calls_that_did_not_return": stats["hang"],
                      "constructor_accepted_but_not_encodable": stats["unenc"][:20],
                      "wellformed_vectors_refused_by_constructor_per_type": stats["refused"]})
    # drift (never alarms): RFC 9460 2.2 tells receivers to refuse SvcParamKeys that are not strictly
    # increasing; the library refuses decreasing keys but accepts a repeated one (fixed point and rdlen hold)
    ctx.extra["svcb_octets_with_nonincreasing_keys_accepted"] = stats.get("svcb_unordered", 0)
    # drift: the constructor accepts an AliasMode record with SvcParams that from_text/from_wire refuse
    ctx.extra["svcb_aliasmode_with_params_constructible"] = c02_rdata.aliasmode_probe()
    ctx.drift = sum(stats["refused"].values()) + stats.get("svcb_unordered", 0) + int(ctx.extra["svcb_aliasmode_with_params_constructible"])
    ctx.evaluations = stats["enc"] + stats["dec"]
    ctx.log("%d encode cases, %d decode cases recorded" % (stats["enc"], stats["dec"]))


def account(ctx, traces, stats):
    """counters for the evidence (no verdicts)"""
    for tr in traces:
        ev = tr["ev"]
        if ev and ev[0].get("op") == "enc":
            e0 = ev[0]
            if e0.get("built") == "err":
                stats["refused"][tr["ty"]] = stats["refused"].get(tr["ty"], 0) + 1
            elif e0.get("wire") == [-1]:
                stats["unenc"].append(json.dumps([tr["ty"], e0.get("v"), e0.get("exc")]))
            elif isinstance(e0.get("wire"), list):
                bw = stats["base_wires"].setdefault(tr["ty"], [])
                if len(bw) < 40:
                    bw.append(e0["wire"])
        for e in ev:
            op = e.get("op")
            if op == "enc":
                stats["enc"] += 1
                ctx.distinct.add(hash((tr["ty"], bytes(x & 255 for x in e.get("wire", [])), e.get("org"))))
            elif op == "dec":
                stats["dec"] += 1
                stats["acc"] += e.get("res") == "ok"
                if tr["ty"] in ("SVCB", "HTTPS") and e.get("res") == "ok":
                    ks = _svcb_keys(e.get("b", []))
                    if any(a >= b for a, b in zip(ks, ks[1:])):
                        stats["svcb_unordered"] = stats.get("svcb_unordered", 0) + 1
                ctx.distinct.add(hash((tr["ty"], bytes(e.get("b", [])))))
            elif op == "hang":
                stats["hang"] += 1


def judge(ctx, tcfg, traces, jobmap, shards=16):
    rejects = ctx.validate("Trace_RdataCodec", tcfg, traces, heap="2g", shards=shards)
    for tr, line, clause in rejects:
        sig = classify(tr, line, clause)
        e = tr["ev"][line - 1] if line and 0 < line <= len(tr["ev"]) else {}
        job = dict(jobmap.get(tr["tid"], {"tid": tr["tid"], "ty": tr.get("ty")}))
        if e.get("op") in ("dec", "hang") and "b" in e and tr["tid"] in jobmap:
            # minimal replay: just this octet string
            job = {"tid": tr["tid"], "ty": tr["ty"], "k": "rand", "bs": [e["b"]]}
            if "utype" in jobmap[tr["tid"]]:
                job["utype"] = jobmap[tr["tid"]]["utype"]
        ctx.violation(clause, sig, "type %s event %s: %s" % (tr.get("ty"), line, json.dumps({k: v for k, v in e.items() if k != "fts"})[:400]),
                      {"job": job, "line": line, "event": {k: v for k, v in e.items() if k != "fts"}})


def selftest(ctx):
    """Binding demonstration without touching any repository: one good trace must be accepted and
    each copy with ONE corrupted logged field must be rejected by Trace_RdataCodec."""
    import copy
    schema_gen.generate()
    tcfg = ctx.cfg("trace_rdatacodec.cfg", TRACE_CFG.format(wide="FALSE", depth=2))
    job = {"tid": "MX#good", "ty": "MX", "k": "vec", "v": [258, {"abs": True, "labels": [[65, 98]]}], "rel": False, "faults": True}
    good = c02_rdata.run_job(job)

    def variant(name, fn):
        tr = copy.deepcopy(good)
        tr["tid"] = "MX#" + name
        fn(tr["ev"])
        return tr

    def first_dec(ev, res):
        return next(i for i, e in enumerate(ev) if e["op"] == "dec" and e["res"] == res)

    variants = [
        variant("wire-octet", lambda ev: ev[0]["wire"].__setitem__(1, 3)),
        variant("decoded-field", lambda ev: ev[0]["dec"].__setitem__(0, 259)),
        variant("consumed", lambda ev: ev[0].__setitem__("cons", ev[0]["cons"] - 1)),
        variant("reencoding", lambda ev: ev[0]["reenc"].__setitem__(0, 9)),
        variant("equality", lambda ev: ev[0].__setitem__("eq", False)),
        variant("verdict-accept-to-reject", lambda ev: ev[first_dec(ev, "ok")].__setitem__("res", "err")),
        variant("verdict-reject-to-accept", lambda ev: ev[first_dec(ev, "err")].update(
            {"res": "ok", "pres": "ok", "cons": 0, "reenc": [], "reenc2": [], "eq2": True})),
        variant("not-a-formerror", lambda ev: ev[first_dec(ev, "err")].__setitem__("formerr", False)),
        variant("fault-input", lambda ev: ev[first_dec(ev, "ok")]["b"].append(0)),
        variant("fault-dropped", lambda ev: ev.pop()),
    ]
    rejects = ctx.validate("Trace_RdataCodec", tcfg, [good] + variants)
    rej = {tr["tid"]: clause for tr, line, clause in rejects}
    ok = "MX#good" not in rej and all(v["tid"] in rej for v in variants)
    out = {"good_trace_accepted": "MX#good" not in rej,
           "corruptions": {v["tid"]: rej.get(v["tid"], "ACCEPTED (not detected)") for v in variants}}
    with open(os.path.join(core.ROOT, "evidence", "C02.selftest.json"), "w") as f:
        json.dump(out, f, indent=1)
    print(json.dumps(out, indent=1))
    return 0 if ok else 2
