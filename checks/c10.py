"""C10 - zone transactions match the ZoneTxn reference model and are all-or-nothing."""
import itertools
import json

from drivers import c10_txn

LEVEL = "model_checking"
META = {
    "text": "ZoneTxn.tla is a reference model of the transaction API (one action per public call). TLC checks its "
            "invariants/action properties exhaustively on a bounded universe, enumerates transaction scripts from it "
            "(every single call in every argument form and name spelling from several initial zones, all pairs of writing "
            "calls on a trimmed universe, seeded random long scripts), and the driver replays each on dns.zone.Zone, "
            "dns.versioned.Zone and dns.btreezone.Zone (relativize on/off). Trace_ZoneTxn then requires every recorded "
            "call to be the model's action from the current model state: same outcome, same content visible in the "
            "transaction after every call, same zone content after commit / rollback / exception, refusal after the end.",
    "note": "Exhaustive only inside the Gen/MC constants (<=3 owner names, 7 types, 2 rdatas, 2 TTLs, <=2-3 calls); longer "
            "histories are seeded TLC simulations. Trusted: TLC, the Json module, the ~100-line projection in drivers/c10_txn.py.",
    "technique": "TLA+ reference model + TLC exhaustive check; TLC-generated scripts replayed on the code; TLC trace validation",
    "design_ref": "DESIGN.md section 4, C10",
}
ZCONFIGS = [(zc, rel) for zc in ("plain", "versioned", "btree") for rel in (True, False)]

GEN_CFG = """INIT GInit
NEXT GNext
CONSTANTS
  Names = {names}
  Types = {types}
  RdIds = {rdids}
  TTLs = {ttls}
  Serials <- GenSerials
  SerialArgs <- {serialargs}
  InitZones <- {inits}
  MaxOps = {maxops}
  Spellings = {spellings}
  AddForms = {addforms}
  DelForms = {delforms}
  Kinds = {kinds}
  Ops = {ops}
  Replacements = {repl}
  Ends = {ends}
INVARIANT Emit
CHECK_DEADLOCK FALSE
"""


def tset(xs):
    return "{" + ", ".join(json.dumps(x) if isinstance(x, str) else str(x) for x in xs) + "}"


FULL_TYPES = ["SOA", "NS", "A", "CNAME", "NSEC", "RRSIG/A", "RRSIG/NS", "RRSIG/CNAME"]


def gen_cfg(ctx, name, **kw):
    d = dict(names=tset(["@", "a", "b.a"]), types=tset(FULL_TYPES), rdids=tset([1, 2]), ttls=tset([300, 600]),
             serialargs="GenSerialArgs", inits="GenInitZones", maxops=1, spellings=tset(["rel", "abs"]),
             addforms=tset(["rdata", "rdataset", "rrset"]), delforms=tset(["rdata", "rdataset", "rrset"]),
             kinds=tset(["write", "read"]), repl="{FALSE, TRUE}", ends=tset(["commit", "rollback", "raise", "cm_commit"]))
    d.update(kw)
    return ctx.cfg(name, GEN_CFG.format(**d))


def classify(tr, line, clause):
    """Case signature of a rejected trace (matched against known_findings.json)."""
    ev = tr["ev"]
    e = ev[line - 1] if line and 0 < line <= len(ev) else {}
    op = e.get("op", "?")
    rel = tr.get("rel")
    other = (e.get("sp") == "abs" and rel) or (e.get("sp") == "rel" and rel is False)
    exc = e.get("exc", "")
    zc = tr.get("zclass")
    if op in ("deltype", "delrds") and other and exc == "KeyError" and zc in ("plain", "versioned"):
        return "F9:delete-last-rdataset-via-other-spelling:KeyError"
    if op in ("add", "replace") and e.get("type") == "SOA" and other and exc == "ValueError":
        return "F16:soa-via-other-spelling-of-origin:ValueError"
    if op == "serial" and exc == "ValueError" and not e.get("neg") and not (e.get("relative") and e["value"][0] >= 32768):
        nf = e.get("nameform")
        if (nf == "default" and rel is False) or (nf == "abs" and rel) or (nf == "rel" and rel is False):
            return "F16:update_serial-via-other-spelling-of-origin:ValueError"
    return "%s:%s:%s:%s:%s" % (clause, op, zc, "rel" if rel else "abs", exc)


def run(ctx):
    quick = ctx.tier == "quick"
    ctx.rule = ("behaviours = transaction scripts enumerated by TLC from Gen_ZoneTxn (exhaustive small universes + "
                "seeded -simulate); each replayed on plain/versioned/btree zones x relativize on/off; distinct = "
                "distinct (script, zone config); non-trivial = script contains at least one write call")
    ctx.assumptions += ["TLC and CommunityModules Json are correct", "driver projection (drivers/c10_txn.py) is faithful",
                        "exhaustive only inside the constants of the MC/Gen configs; beyond them seeded simulation"]
    jobmap = {}
    if ctx.replay_case:
        case = ctx.replay_case["case"]
        jobmap["replay"] = (case["script"], case["zclass"], case["rel"], "replay")
        jobs = [jobmap["replay"]]
    else:
        ctx.model("MC_ZoneTxn", "MC_ZoneTxn_quick.cfg" if quick else "MC_ZoneTxn_thorough.cfg")
        scripts = []
        ALL = ["add", "replace", "delname", "deltype", "delrds", "serial", "get", "exists", "getnode", "names", "changed",
               "outzone", "cbraise"]
        WR = ["add", "replace", "delname", "deltype", "delrds", "serial"]
        # G1: every single call (all argument forms and name spellings) from every initial zone,
        #     ended by commit and by an exception
        scripts += ctx.generate("Gen_ZoneTxn", gen_cfg(
            ctx, "g1.cfg", maxops=1, ops=tset(ALL), inits="GenInitMid" if quick else "GenInitZones",
            kinds=tset(["write"]), repl="{FALSE}", ends=tset(["commit", "raise"] if quick else ["commit", "rollback", "raise", "cm_commit"])))
        # G1b: read-only and replacement transactions
        scripts += ctx.generate("Gen_ZoneTxn", gen_cfg(
            ctx, "g1b.cfg", maxops=1, ops=tset(ALL), inits="GenInitSmall", spellings=tset(["rel"]),
            addforms=tset(["rdataset"]), delforms=tset(["rdataset"]), kinds=tset(["read", "write"]), repl="{TRUE, FALSE}",
            types=tset(["SOA", "A", "CNAME"]), rdids=tset([1]), ttls=tset([300]), serialargs="GenSerialSmall",
            ends=tset(["commit", "rollback"])))
        # G1c: zones created WITHOUT an origin: the transaction learns it (a $ORIGIN line read by
        #      dns.zonefile.Reader) and nothing of it may be visible outside before the commit
        scripts += ctx.generate("Gen_ZoneTxn", gen_cfg(
            ctx, "g1c.cfg", maxops=3, ops=tset(["learn", "add", "get"]), inits="GenInitEmpty", names=tset(["@"]),
            types=tset(["SOA", "NS"]), rdids=tset([1]), ttls=tset([300]), serialargs="GenSerialSmall",
            spellings=tset(["rel"]), addforms=tset(["rdataset"]), delforms=tset(["rdataset"]),
            kinds=tset(["write"]), repl="{TRUE, FALSE}", ends=tset(["commit", "raise"])))
        # G2: all sequences of two writing calls over a trimmed universe
        scripts += ctx.generate("Gen_ZoneTxn", gen_cfg(
            ctx, "g2.cfg", maxops=2, ops=tset(WR), names=tset(["a"] if quick else ["@", "a"]),
            types=tset(["A", "CNAME", "NSEC"] if quick else ["SOA", "A", "CNAME", "NSEC", "RRSIG/A"]),
            serialargs="GenSerialSmall", inits="GenInitSmall",
            spellings=tset(["rel"]), addforms=tset(["rdata"]), delforms=tset(["rdataset"]), kinds=tset(["write"]),
            repl="{FALSE}", ends=tset(["commit"])))
        if not quick:
            scripts += ctx.generate("Gen_ZoneTxn", gen_cfg(
                ctx, "g3.cfg", maxops=3, ops=tset(["add", "replace", "delname", "deltype", "delrds"]), names=tset(["a"]),
                types=tset(["A", "CNAME", "NSEC"]), rdids=tset([1, 2]), ttls=tset([300, 600]),
                serialargs="GenSerialSmall", inits="GenInitC",
                spellings=tset(["abs"]), addforms=tset(["rdataset"]), delforms=tset(["rdata"]), kinds=tset(["write"]),
                repl="{FALSE}", ends=tset(["raise"])))
        # G4: long random behaviours over the full universe
        n = 1500 if quick else 6000
        scripts += ctx.generate("Gen_ZoneTxn", gen_cfg(ctx, "g4.cfg", maxops=12, ops=tset(ALL), kinds=tset(["write"])),
                                simulate="num=%d" % n, depth=16, seed=ctx.seed + 1, deadlock=False, limit=4 * n)
        jobs = []
        for i, s in enumerate(scripts):
            # quick: two of the six zone configurations per script (spread deterministically);
            # thorough: all six
            if quick:
                cfgs = [ZCONFIGS[i % 6], ZCONFIGS[(i // 6 + i + 3) % 6]]
            elif len(s) > 5 or i % 2:   # thorough: all six for single calls, three of six for longer scripts
                cfgs = [ZCONFIGS[i % 6], ZCONFIGS[(i + 2) % 6], ZCONFIGS[(i + 4 + i // 6) % 6]]
            else:
                cfgs = ZCONFIGS
            for zc, rel in dict.fromkeys(cfgs):
                jobs.append((s, zc, rel, "s%d.%s.%s" % (i, zc, "rel" if rel else "abs")))
        ctx.extra["scripts"] = len(scripts)
        jobmap = {j[3]: j for j in jobs}
        nontrivial = sum(1 for s in scripts if any(e["op"] not in ("init", "begin", "end", "get", "exists", "getnode", "names", "changed") for e in s))
        ctx.extra["nontrivial_scripts"] = nontrivial
        ctx.distinct = set(j[3] for j in jobs if any(e["op"] not in ("init", "begin", "end", "get", "exists", "getnode", "names", "changed") for e in j[0]))
    # replay and validate in batches (keeps memory bounded in the thorough tier)
    rejects = []
    total = 0
    BATCH = 120000
    for b in range(0, len(jobs), BATCH):
        part = jobs[b:b + BATCH]
        traces = [c10_txn.replay(*part[0])] if ctx.replay_case else ctx.pmap(c10_txn.run_job, part)
        if b == 0:
            for tr in traces[:3]:
                ctx.sample({"tid": tr["tid"], "ev": tr["ev"][:4]})
        total += len(traces)
        rejects += ctx.validate("Trace_ZoneTxn", "Trace_ZoneTxn.cfg", traces)
        del traces
    ctx.evaluations = total
    for tr, line, clause in rejects:
        sig = classify(tr, line, clause)
        e = tr["ev"][line - 1] if line else {}
        script = jobmap.get(tr["tid"], (None,))[0]
        ctx.violation(clause, sig, "zone=%s relativize=%s event %s: %s" % (tr.get("zclass"), tr.get("rel"), line, json.dumps(e)[:300]),
                      {"script": script, "zclass": tr.get("zclass"), "rel": tr.get("rel"), "line": line,
                       "trace": tr})
