"""X04 - unbounded safety arguments for the versioned-zone specifications (C11, C12).

Re-runs, from scratch (no proof cache), the TLAPS proofs that the inductive invariants of
WriterAdmissionAbs / VersionedZoneAbs hold for ANY number of threads / readers / versions,
the Apalache inductive checks of the same invariants (fixed thread count, unbounded
counters), and the TLC refinement checks tying the abstractions to WriterAdmission.tla /
VersionedZone.tla (the specifications bound to the real code by C12 / C11)."""
import concurrent.futures as cf
import os
import re
import shutil
import subprocess
import time

from vlib import core, tlc

LEVEL = "proof"
META = {
    "text": "For any number of threads: at most one write transaction is open in a dns.versioned.Zone, the lock is "
            "held only inside the short critical sections, the waiter queue is well formed, no wake-up is lost and "
            "no newcomer overtakes a waiter (WriterAdmission); for any number of readers, versions, commits and any "
            "pruning policy: version ids increase, the retained versions are a contiguous tail of the history, the "
            "newest and every pinned version are retained, committed versions are immutable and readers keep their "
            "snapshot (VersionedZone).",
    "note": "notes/X04.md",
    "technique": "inductive invariants proved with TLAPS (SMT/Zenon/Isabelle/LS4) for arbitrary parameters, "
                 "cross-checked with Apalache (--init=IndInit --length=1), abstractions tied to the TLC-checked "
                 "specifications of C11/C12 by TLC refinement checks",
    "design_ref": "DESIGN.md section 7 (growing the specification); C11, C12",
}

WA_FILES = ["WriterAdmissionAbs.tla", "WriterAdmissionAbs_proofs.tla", "Apa_WriterAdmission.tla",
            "WriterAdmission.tla", "WriterAdmissionRef_proofs.tla"]
PROOF_MODULES = ("WriterAdmissionAbs_proofs", "WriterAdmissionRef_proofs", "VersionedZoneAbs_proofs")
VZ_FILES = ["VersionedZoneAbs.tla", "VersionedZoneAbs_proofs.tla", "Apa_VersionedZone.tla"]
APA = "apalache-mc"
TLAPM = "tlapm"


def _env():
    e = dict(os.environ)
    e.pop("JAVA_TOOL_OPTIONS", None)
    return e


# ---------------------------------------------------------------------------- TLAPS
_BLOCK = re.compile(r"@!!BEGIN\n(.*?)@!!END", re.S)


def run_tlapm(workdir, module, threads=8, fp=None, timeout=6000, stretch=3):
    """Prove <module>.tla in workdir.  fp=None: from scratch (empty fingerprint cache);
    fp=<file>: obligations whose fingerprint is in <file> (proved by an earlier from-scratch
    run) are accepted, every other obligation is proved again.  Returns a dict."""
    shutil.rmtree(os.path.join(workdir, ".tlacache"), ignore_errors=True)
    cmd = [TLAPM, "--stretch", str(stretch), "--threads", str(threads), "--toolbox", "0", "0"]
    if fp:
        shutil.copy(fp, os.path.join(workdir, "stored.fp"))
        cmd += ["--usefp", "stored.fp"]         # (--cleanfp would discard them again)
    else:
        cmd += ["--cleanfp"]
    cmd += [module + ".tla"]
    t0 = time.time()
    with tlc._Slots(1):
        t0 = time.time()
        p = subprocess.run(cmd, cwd=workdir, env=_env(), stdout=subprocess.PIPE, stderr=subprocess.STDOUT,
                           text=True, errors="replace", timeout=timeout)
    out = p.stdout
    status = {}
    for blk in _BLOCK.findall(out):
        f = dict(ln[3:].split(":", 1) for ln in blk.splitlines() if ln.startswith("@!!") and ":" in ln)
        if f.get("type") != "obligation":
            continue
        oid = int(f["id"])
        cur = status.setdefault(oid, {"loc": f.get("loc"), "status": "to be proved", "prover": None, "cached": False})
        st = f.get("status")
        if st in ("proved", "trivial"):
            cur.update(status=st, prover=f.get("prover"), cached=f.get("already") == "true")
        elif st == "failed" and cur["status"] not in ("proved", "trivial"):
            cur["status"] = "failed"
    m_all = re.search(r"All (\d+) obligations? proved", out)
    m_fail = re.search(r"(\d+)/(\d+) obligations? failed", out)
    total = int(m_all.group(1)) if m_all else int(m_fail.group(2)) if m_fail else len(status)
    proved = sum(1 for s in status.values() if s["status"] in ("proved", "trivial"))
    by = {}
    for s in status.values():
        if s["status"] in ("proved", "trivial"):
            by[s["prover"] or "?"] = by.get(s["prover"] or "?", 0) + 1
    lines = open(os.path.join(workdir, module + ".tla")).read().splitlines()
    failed = []
    for oid, s in sorted(status.items()):
        if s["status"] not in ("proved", "trivial"):
            ln = int((s["loc"] or "0").split(":")[0])
            failed.append("%s.tla:%d %s" % (module, ln, lines[ln - 1].strip()[:100] if 0 < ln <= len(lines) else ""))
    backend = [(oid, s) for oid, s in sorted(status.items()) if s["status"] == "proved"]
    samples = []
    for oid, s in backend[:: max(1, len(backend) // 3)][:3]:
        ln = int(s["loc"].split(":")[0])
        samples.append("%s.tla:%d [%s] %s" % (module, ln, s["prover"], lines[ln - 1].strip()[:110]))
    theorems = re.findall(r"^(?:THEOREM|LEMMA) (\w+) ==", "\n".join(lines), re.M)
    return {"module": module, "theorems": theorems, "cmd": " ".join(cmd), "rc": p.returncode, "obligations": total, "proved": proved,
            "all_proved": bool(m_all) and p.returncode == 0 and proved == total and not failed,
            "cached": sum(1 for s in status.values() if s["cached"]), "by_backend": by, "failed": failed,
            "fingerprints": os.path.join(workdir, ".tlacache", module + ".tlaps", "fingerprints"),
            "samples": samples, "wall_s": round(time.time() - t0, 1), "tail": "\n".join(out.splitlines()[-15:])}


def tool_versions():
    tb = []
    try:
        out = subprocess.run([TLAPM, "--config"], stdout=subprocess.PIPE, stderr=subprocess.STDOUT, text=True,
                             env=_env(), timeout=120).stdout
        for key in ("version", "Isabelle version", "zenon version", "Z3 version"):
            m = re.search(r"^%s == \"(.*)\"$" % re.escape(key), out, re.M)
            if m:
                tb.append("tlapm %s: %s" % (key, m.group(1)) if key != "version" else "tlapm (proof manager) " + m.group(1))
        ls4 = "/opt/veriftools/tlapm/lib/tlapm/backends/bin/ls4"
        if os.path.exists(ls4):
            tb.append("LS4 + ptl_to_trp (PTL back end of tlapm): " + ls4)
    except Exception as e:  # pragma: no cover
        tb.append("tlapm --config failed: %r" % e)
    try:
        out = subprocess.run([APA, "version"], stdout=subprocess.PIPE, stderr=subprocess.STDOUT, text=True,
                             env=_env(), timeout=120).stdout
        tb.append("Apalache " + out.strip().splitlines()[-1] + " (with its bundled Z3)")
    except Exception as e:  # pragma: no cover
        tb.append("apalache-mc version failed: %r" % e)
    return tb


# ---------------------------------------------------------------------------- Apalache
def run_apalache(workdir, module, tag, args, expect, timeout=900):
    """expect: 'ok' (no error up to the length) or 'violated' (non-vacuity witness)."""
    outdir = os.path.join(workdir, "apa_out", tag)
    cmd = ["timeout", str(timeout), APA, "check", "--out-dir=" + outdir] + args + [module + ".tla"]
    with tlc._Slots(1):
        t0 = time.time()
        p = subprocess.run(cmd, cwd=workdir, env=_env(), stdout=subprocess.PIPE, stderr=subprocess.STDOUT,
                           text=True, errors="replace")
    out = p.stdout
    m = re.search(r"EXITCODE: (\w+)(?: \((\d+)\))?", out)
    code = (m.group(1), int(m.group(2) or 0)) if m else ("NONE", p.returncode)
    if code[0] == "OK" and "The outcome is: NoError" in out:
        got = "ok"
    elif code == ("ERROR", 12) and re.search(r"invariant \d+ violated", out):
        got = "violated"
    else:
        got = "error"
    shutil.rmtree(outdir, ignore_errors=True)
    return {"tag": tag, "cmd": " ".join(cmd[2:]), "expect": expect, "got": got, "pass": got == expect,
            "wall_s": round(time.time() - t0, 1), "tail": "\n".join(out.splitlines()[-12:])}


def apalache_jobs(tier):
    jobs = []
    sizes = ["CInit3"] if tier == "quick" else ["CInit3", "CInit4", "CInit6"]
    for ci in sizes:
        c = ["--cinit=" + ci]
        jobs += [("Apa_WriterAdmission", "wa_base_" + ci, c + ["--init=Init", "--inv=ApaIndInv", "--length=0"], "ok"),
                 ("Apa_WriterAdmission", "wa_step_" + ci, c + ["--init=IndInit", "--inv=ApaIndInv", "--length=1"], "ok"),
                 ("Apa_WriterAdmission", "wa_goal_" + ci, c + ["--init=IndInit", "--inv=Safety", "--length=0"], "ok")]
    for wit in ("Wit_Queue", "Wit_Handoff"):
        jobs.append(("Apa_WriterAdmission", "wa_" + wit, ["--cinit=CInit3", "--init=IndInit", "--inv=" + wit, "--length=0"],
                     "violated"))
    c = ["--cinit=CInit", "--next=ApaNext"]
    jobs += [("Apa_VersionedZone", "vz_base", c + ["--init=Init", "--inv=ApaIndInv", "--length=0"], "ok"),
             ("Apa_VersionedZone", "vz_step", c + ["--init=IndInit", "--inv=ApaIndInv", "--length=1"], "ok"),
             ("Apa_VersionedZone", "vz_goal", c + ["--init=IndInit", "--inv=Safety", "--length=0"], "ok")]
    for wit in ("Wit_Rich", "Wit_BigIds"):
        jobs.append(("Apa_VersionedZone", "vz_" + wit, c + ["--init=IndInit", "--inv=" + wit, "--length=0"], "violated"))
    return jobs


REFINEMENTS = {
    "quick": [("MC_WriterAdmissionRef", "MC_WriterAdmissionRef_quick.cfg"),
              ("MC_WriterAdmissionRef", "MC_WriterAdmissionRef_byid.cfg"),      # readers opening by id / by initial id
              ("MC_WriterAdmissionAbs", "MC_WriterAdmissionAbs_quick.cfg"),
              ("MC_VersionedZoneRef", "MC_VersionedZoneRef_quick.cfg")],
    "thorough": [("MC_WriterAdmissionRef", "MC_WriterAdmissionRef_quick.cfg"),
                 ("MC_WriterAdmissionRef", "MC_WriterAdmissionRef_byid.cfg"),
                 ("MC_WriterAdmissionRef", "MC_WriterAdmissionRef_quick2.cfg"),
                 ("MC_WriterAdmissionRef", "MC_WriterAdmissionRef_thorough.cfg"),
                 ("MC_WriterAdmissionRef", "MC_WriterAdmissionRef_thorough3.cfg"),
                 ("MC_WriterAdmissionAbs", "MC_WriterAdmissionAbs_thorough.cfg"),
                 ("MC_VersionedZoneRef", "MC_VersionedZoneRef_quick.cfg"),
                 ("MC_VersionedZoneRef", "MC_VersionedZoneRef_thorough.cfg")],
}


def stage(ctx, specdir):
    d = os.path.join(ctx.work, "proof")
    os.makedirs(d, exist_ok=True)
    for fn in WA_FILES + VZ_FILES:
        shutil.copy(os.path.join(specdir, fn), d)
    return d


def generated_proof_is_current(specdir):
    """the two generated proof modules must be what their generators produce"""
    for gen, mod in (("x04_genproof.py", "WriterAdmissionAbs_proofs.tla"), ("x04_genref.py", "WriterAdmissionRef_proofs.tla")):
        p = subprocess.run(["/venv/bin/python", os.path.join(core.ROOT, "tools", gen), "--stdout", specdir],
                           stdout=subprocess.PIPE, text=True)
        if p.returncode != 0 or p.stdout != open(os.path.join(specdir, mod)).read():
            return False
    return True


def fp_file(specdir, module):
    return os.path.join(specdir, "x04_fp", module + ".fp")


def prove_all(ctx, specdir, tier, refinements=True, use_fp=None):
    """Runs everything; returns (tlaps results, apalache results).  TLC refinement runs go
    through ctx.model (they raise on failure).  quick: TLAPS re-checks against the stored
    fingerprints of the last from-scratch run (changed obligations are proved again);
    thorough: TLAPS from scratch."""
    d = stage(ctx, specdir)
    threads = 8 if tier == "quick" else 12
    if use_fp is None:
        use_fp = tier == "quick"
    mods = []
    for m in PROOF_MODULES:
        wd = os.path.join(d, "tlaps_" + m)          # one directory each: separate caches
        os.makedirs(wd, exist_ok=True)
        for fn in WA_FILES + VZ_FILES:
            shutil.copy(os.path.join(d, fn), wd)
        fp = fp_file(specdir, m) if use_fp and os.path.exists(fp_file(specdir, m)) else None
        mods.append((wd, m, fp))
    with cf.ThreadPoolExecutor(max_workers=8) as ex:
        fut_t = [ex.submit(run_tlapm, wd, m, threads, fp) for (wd, m, fp) in mods]
        fut_a = [ex.submit(run_apalache, d, mod, tag, args, exp) for (mod, tag, args, exp) in apalache_jobs(tier)]
        fut_m = []
        if refinements:
            for mod, cfg in REFINEMENTS[tier]:
                path = os.path.join(specdir, mod + ".tla")
                if tier == "quick":     # small models, one worker (one throttle slot) each, side by side
                    fut_m.append(ex.submit(ctx.model, path, os.path.join(specdir, cfg), workers=1, timeout=7200))
                else:
                    ctx.model(path, os.path.join(specdir, cfg), workers=8, timeout=7200)
        for f in fut_m:
            f.result()
        tl = [f.result() for f in fut_t]
        ap = [f.result() for f in fut_a]
    return tl, ap


def run(ctx):
    specdir = os.environ.get("X04_SPECS", tlc.SPECS)
    if not generated_proof_is_current(specdir):
        raise core.Machinery("a generated proof module in specs/ is not what tools/x04_gen*.py generates")
    tl, ap = prove_all(ctx, specdir, ctx.tier)
    for r in tl:
        ctx.log("tlapm %s: %d/%d obligations proved (%s), %d by stored/duplicate fingerprint, %.0fs" % (
            r["module"], r["proved"], r["obligations"], r["by_backend"], r["cached"], r["wall_s"]))
    for r in ap:
        ctx.log("apalache %-16s expect=%-8s got=%-8s %.0fs" % (r["tag"], r["expect"], r["got"], r["wall_s"]))
    bad = ["tlapm %s rc=%s: %s\n%s" % (r["module"], r["rc"], r["failed"][:5], r["tail"]) for r in tl if not r["all_proved"]]
    bad += ["apalache %s: expected %s got %s\n%s" % (r["tag"], r["expect"], r["got"], r["tail"]) for r in ap if not r["pass"]]
    if os.environ.get("X04_SAVE_FP") and not bad and ctx.tier == "thorough":
        os.makedirs(os.path.join(specdir, "x04_fp"), exist_ok=True)
        for r in tl:
            shutil.copy(r["fingerprints"], fp_file(specdir, r["module"]))
            ctx.log("saved fingerprints of %s" % r["module"])
    ob = sum(r["obligations"] for r in tl) + len(ap)
    done = sum(r["proved"] for r in tl) + sum(1 for r in ap if r["pass"])
    nontrivial = sum(n for r in tl for b, n in r["by_backend"].items() if b != "tlapm") + len(ap)
    ctx.evaluations = ob
    ctx.distinct = set(range(nontrivial))
    ctx.rule = ("one case = one proof obligation: (a) every leaf obligation tlapm generates from the structured proofs "
                "of WriterAdmissionAbs_proofs (one per action x conjunct of the inductive invariant, + Init, + "
                "invariant => properties, + PTL steps), WriterAdmissionRef_proofs (one per PlusCal action: it implements an "
                "abstract step) and VersionedZoneAbs_proofs; (b) every Apalache run (base, "
                "inductive step, invariant => Safety, and non-vacuity witnesses that must be violated).  Non-trivial = "
                "discharged by a back end (SMT/Zenon/Isabelle/LS4) or by Apalache, not by tlapm's own simplifier.")
    for r in tl:
        for s in r["samples"]:
            ctx.sample(s, cap=10)
    for r in ap[:3]:
        ctx.sample("apalache-mc " + r["cmd"].split(" ", 1)[1] + " -> " + r["got"], cap=10)
    ctx.extra.update({
        "obligations": ob, "discharged": done,
        "checker_cmd": "; ".join([r["cmd"] for r in tl] + ["apalache-mc check --cinit=.. --init=IndInit --inv=ApaIndInv --length=1 "
                                                          "Apa_WriterAdmission.tla | Apa_VersionedZone.tla (see apalache_runs)"]),
        "trusted_base": tool_versions() + [
            "TLC 1.8: refinement VersionedZone => VersionedZoneAbs on bounded instances only (RECURSIVE Prune is outside "
            "TLAPS and Apalache); the refinement WriterAdmission => WriterAdmissionAbs is PROVED (TLAPS) and re-checked by TLC",
            "the correspondence WriterAdmission.tla / VersionedZone.tla <-> dns.versioned is what C12 / C11 establish by trace validation"],
        "tlaps": [{k: r[k] for k in ("module", "theorems", "obligations", "proved", "by_backend", "cached", "wall_s")} for r in tl],
        "apalache_runs": [{k: r[k] for k in ("tag", "cmd", "expect", "got", "wall_s")} for r in ap],
        "tlaps_mode": "from scratch" if ctx.tier == "thorough" else "re-check against the fingerprints of the last "
                      "from-scratch run (specs/x04_fp); obligations without a matching fingerprint are proved again",
        "explanation": "unbounded (TLAPS): thread / reader / version / commit counts arbitrary; bounded: Apalache thread "
                       "count and start-state collection sizes, TLC refinement instances (see notes/X04.md)",
    })
    ctx.assumptions += [
        "thread ids are non-zero and writers are disjoint from readers / policy threads (ThreadsAssumption)",
        "version ids are natural numbers (IdAssumption)",
        "VersionedZoneAbs over-approximates VersionedZone.tla: checked by TLC on the bounded instances of C11, argued by "
        "inspection beyond them (identity refinement mapping; PruneRel is what every Prune result satisfies)",
    ]
    if bad:
        raise core.Machinery("proof obligations not discharged:\n" + "\n".join(bad))
