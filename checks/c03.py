"""C03 - messages survive render-then-parse; header counts; re-render identical; compression sound."""
import json

from drivers import c03_message

LEVEL = "model_checking"
META = {
    "text": "Renderer.tla / MessageCodec.tla specify the incremental renderer (compression table, counts, budget, rollback) "
            "and the message wire codec (header packing, 12-bit rcode split, EDNS, RFC 2136 forms, name compression and an "
            "independent name decoder). TLC checks TableSound / CountsMatch / RoundTrip (Parse o Render = id with sound "
            "pointers) / Budget / RefusedIsNoop exhaustively on a bounded universe, enumerates message scripts (Gen_Renderer), "
            "and the driver steps each through the real dns.renderer.Renderer and through Message.to_wire / from_wire / == / "
            "to_wire. Trace_Renderer requires every recorded call to be the model's action (position, table, counts), decodes "
            "the REAL octets with the specification's decoder against the abstract records, and compares the parsed message "
            "object, the real == verdict and the re-rendered octets.",
    "note": "Exhaustive inside the MC/Gen constants (<=6 names with case-variant sharing, 6 rdata kinds, <=2-3 record sets, "
            "3 opcodes, 5 EDNS states, 9 update forms); larger messages by seeded TLC simulation. RDATA is abstract "
            "(opaque octets + embedded names with observed compress flags). Trusted: TLC, Json module, the projection in "
            "drivers/c03_message.py.",
    "technique": "TLA+ model of renderer + codec, TLC exhaustive check; TLC-generated message scripts replayed on the code; "
                 "TLC trace validation with an independent wire decoder",
    "design_ref": "DESIGN.md section 4, C03",
}

GEN_CFG = """INIT GInit
NEXT GNext
CONSTANTS
  Opcodes = {opcodes}
  MaxRecs = {maxrecs}
  NameSel = {names}
  TargetSel = {targets}
  KindSel = {kinds}
  FormSel = {forms}
  EdnsSel = {edns}
  RcodeSel = {rcodes}
  BitSel = {bits}
  OriginSel = {origins}
  TtlSel <- {ttls}
  TxtLens = {txt}
  TxtCounts = {txtn}
  BigLens = {big}
  IdSel = {ids}
  PadSel = {pads}
  ZoneClsSel = {zcls}
  MaxSel = {maxes}
  OptIdx = {optidx}
  SecSel = {secs}
  QuestionSel = {qsel}
  QMax = {qmax}
  PayloadSel = {payloads}
  ChildMax = {childmax}
  TsigSel = {tsigsel}
  XfrSel = {xfrsel}
INVARIANT Emit
CHECK_DEADLOCK FALSE
"""
ALL_FORMS = ["rrset-exists", "rrset-exists-value", "name-in-use", "rrset-absent", "name-not-in-use",
             "add", "del-rrset", "del-name", "del-rr"]
F19_FORMS = ("rrset-exists", "name-in-use", "rrset-absent", "name-not-in-use", "del-name")


def tset(xs):
    return "{" + ", ".join(json.dumps(x) if isinstance(x, str) else str(x).upper() if isinstance(x, bool) else str(x) for x in xs) + "}"


def gen_cfg(ctx, name, **kw):
    d = dict(opcodes=tset([0]), maxrecs=2, names=tset([2, 3, 4]), targets=tset([2, 4]), kinds=tset(["A", "NS"]),
             forms=tset(ALL_FORMS), edns=tset(["off"]), rcodes=tset([0]), bits=tset([256]), origins=tset([False]),
             ttls="TtlOne", txt=tset([]), txtn=tset([1]), big=tset([]), ids=tset([4660]), pads=tset([0]), zcls=tset([1]), maxes=tset([65535]), optidx=tset([0]), secs=tset([1, 2, 3]), qsel=tset([True, False]), qmax=1, payloads=tset([70000]), childmax=0, tsigsel=tset([False]), xfrsel=tset([False]))
    d.update(kw)
    return ctx.cfg(name, GEN_CFG.format(**d))


def classify(tr, line, clause):
    ev = tr["ev"]
    e = ev[line - 1] if line and 0 < line <= len(ev) else {}
    op = e.get("op", "?")
    forms = sorted({x["form"] for x in ev if x.get("op") == "rr" and x.get("form") in F19_FORMS})
    if clause == "ParsedEqualsOriginal" and op == "msg" and tr.get("mode") == "builder" and forms and e.get("eqn") is True:
        return "F19:update-builder-class-ANY-NONE-rrset-vs-parsed-deleting:ParsedEqualsOriginal"
    kinds = ",".join(sorted({x["kind"] for x in ev if x.get("op") == "rr"}))
    return "%s:%s:opcode%s:%s:%s:%s" % (clause, op, tr.get("hdr", {}).get("opcode"), tr.get("mode"), kinds,
                                        e.get("exc", e.get("res", "")))


def scripts_for(ctx, quick):
    S = []
    VARIANT_CFGS = ("g1c.cfg", "g10.cfg", "g2f.cfg", "g2b.cfg", "g2c.cfg", "g2d.cfg", "g3b.cfg", "g3c.cfg", "g4.cfg", "g9.cfg")
    varkeys = set()

    def g(name, **kw):
        out = ctx.generate("Gen_Renderer", gen_cfg(ctx, name, **kw))
        if name in VARIANT_CFGS:       # these also get the from_wire parameter sweep
            varkeys.update(json.dumps(s, sort_keys=True) for s in out)
        return out
    # G1: queries: every sharing pattern of owner / target names over <= 2 record sets
    S += g("g1.cfg", names=tset([2, 4] if quick else [2, 3, 4]), kinds=tset(["A", "NS"]), edns=tset(["off"] if quick else ["off", "opts"]))
    S += g("g1c.cfg", names=tset([1, 3, 4]), targets=tset([3, 1]), kinds=tset(["NS"]))
    # G1b: the other rdata kinds (uncompressed signer, two names, SRV)
    S += g("g1b.cfg", names=tset([2, 4]), kinds=tset(["RRSIG", "SOA", "SRV"]), targets=tset([2, 4, 5] if not quick else [2, 4]))
    # G2: header sweep: opcodes x flag words x rcodes (12-bit split) x EDNS states
    S += g("g2.cfg", opcodes=tset([0, 4, 5]), maxrecs=0, edns=tset(["off", "v0", "do", "opts", "v1"]),
           rcodes=tset([0, 1, 15, 16, 2561, 4095]), bits=tset([0, 256, 33920, 34736, 560]))
    # G2b: boundary message ids (0 is what DoH/DoQ put on the wire), every opcode
    S += g("g2b.cfg", opcodes=tset([0, 4, 5]), maxrecs=1, names=tset([2]), kinds=tset(["NS"]), targets=tset([4]),
           edns=tset(["off", "do"]), ids=tset([0, 65535]), forms=tset(["add", "del-rrset"]), bits=tset([256, 560]))
    # G2c: EDNS padding x extended rcode x EDNS version/flags/options (the padded OPT is rebuilt by the renderer)
    S += g("g2c.cfg", opcodes=tset([0, 5]), maxrecs=1, names=tset([2]), kinds=tset(["A"]), edns=tset(["v0", "do", "opts", "v1"]),
           rcodes=tset([0, 23, 4095]), pads=tset([16, 128]), forms=tset(["add"]), ids=tset([4660, 0]))
    # G2d: every EDNS option code 0..20 and 65001 with boundary bodies, as generic (code, body) pairs
    S += g("g2d.cfg", maxrecs=0, edns=tset(["v0"]), optidx=tset(range(1, 69)), qsel=tset([False]))
    S += g("g2e.cfg", maxrecs=0, opcodes=tset([0, 5]), edns=tset(["opts"]), optidx=tset([8, 21, 33, 36, 47, 68]), pads=tset([0, 16]))
    # G2f: advertised UDP payload boundary values (0, 1, 511 are below the RFC 6891 minimum but must survive as written)
    S += g("g2f.cfg", maxrecs=0, opcodes=tset([0, 5]), edns=tset(["v0", "do"]), payloads=tset([0, 1, 511, 512, 513, 65535]),
           pads=tset([0, 16]))
    # G10: chains of owners each a child of the previous one, up to 24 deep (k-th owner = k pointer hops)
    S += g("g10.cfg", names=tset([]), kinds=tset([]), maxrecs=0, childmax=24, qsel=tset([False]))
    # G1d: legacy SIG next to RRSIG, two covered types at one owner in one section
    S += g("g1d.cfg", names=tset([2]), targets=tset([4]), kinds=tset(["SIG", "A"]), maxrecs=3, secs=tset([1, 3]), qsel=tset([False]))
    # G3d: update forms on a type whose RDATA may be empty (RDLENGTH 0 with class NONE / zone class is a record)
    S += g("g3d.cfg", opcodes=tset([5]), names=tset([2]), kinds=tset(["NULL"]), maxrecs=2, edns=tset(["off"]))
    # G11: zone-transfer style answer sections (SOA, records, SOA, records of the same owner/type again, SOA ...) parsed
    #      with from_wire(xfr=True): every record keeps its own place, header counts = records, identical re-render
    S += g("g11.cfg", names=tset([1, 2]), targets=tset([5]), kinds=tset(["SOA", "A"]), maxrecs=4 if quick else 5, secs=tset([1]),
           qsel=tset([False]), xfrsel=tset([True]))
    # G3: dynamic updates: every RFC 2136 form
    S += g("g3.cfg", opcodes=tset([5]), names=tset([2, 4]), targets=tset([4]), kinds=tset(["A"] if quick else ["A", "NS"]))
    # G3b: updates of a zone whose class is not IN (CH): class ANY/NONE forms must come back with the ZONE's class
    S += g("g3b.cfg", opcodes=tset([5]), names=tset([2, 4]), targets=tset([4]), kinds=tset(["NS", "TXT"]), txt=tset([3]),
           zcls=tset([3]), maxrecs=2 if not quick else 1)
    S += g("g3c.cfg", opcodes=tset([5]), names=tset([2]), targets=tset([4]), kinds=tset(["NS"]), zcls=tset([3, 4]), maxrecs=2,
           edns=tset(["off", "do"]))
    # G8: low-level renderer under small budgets: an RRset that overflows is rolled back and is followed by record
    #     sets sharing the rolled-back owner / suffixes (stale or missing table entries at the rollback point)
    S += g("g8.cfg", names=tset([2, 3]), targets=tset([3]), kinds=tset(["A", "NS"]), maxrecs=3 if not quick else 2,
           maxes=tset([45, 56]))
    S += g("g8b.cfg", names=tset([3]), targets=tset([3]), kinds=tset(["A", "NS"]), maxrecs=3 if quick else 4, maxes=tset([40, 45, 56, 70]))
    # G4: rendering relative to an origin
    S += g("g4.cfg", opcodes=tset([0, 5]), names=tset([2, 4, 5]), targets=tset([2, 5]), kinds=tset(["NS"]),
           origins=tset([True]), forms=tset(["add", "rrset-exists", "del-rr"]))
    # G7: a 16 KiB opaque record pushes later names beyond offset 0x3FFF (not addressable by pointers)
    S += g("g7.cfg", names=tset([2]), targets=tset([2]), kinds=tset(["NS"]), big=tset([16360] if quick else [16350, 16360]), maxrecs=3)
    # G7b: a multi-label name that STRADDLES offset 0x4000 (starts at 0x3FFC..0x3FFF): each of its suffixes lies on
    #      either side of the pointer limit; followed by reuse of every suffix as owner and as RDATA name
    S += g("g7b.cfg", names=tset([1, 2, 3]), targets=tset([1, 2]), kinds=tset(["NS"]), big=tset([16351, 16352, 16353, 16354] if not quick else [16352, 16354]),
           maxrecs=3, secs=tset([1]), qsel=tset([False]))
    # G9: bodies larger than 512 octets and larger than the payload their own OPT advertises (512 / 1232): the parsed
    #     message is re-rendered with DEFAULT to_wire() arguments
    S += g("g9.cfg", names=tset([2]), kinds=tset(["TXT"]), txt=tset([250]), txtn=tset([3]), maxrecs=3, edns=tset(["v1", "v0"]))
    if not quick:
        S += g("g5.cfg", maxrecs=3, names=tset([2, 3, 4]), kinds=tset(["A", "NS"]), edns=tset(["do"]))
    # G6: long random messages over the whole universe
    n = 300 if quick else 8000
    S += ctx.generate("Gen_Renderer", gen_cfg(
        ctx, "g6.cfg", opcodes=tset([0, 4, 5]), maxrecs=6, names=tset([1, 2, 3, 4, 5, 6]), targets=tset([2, 3, 4, 5]),
        kinds=tset(["A", "NS", "RRSIG", "SOA", "SRV", "TXT"]), edns=tset(["off", "v0", "do", "opts", "v1"]),
        rcodes=tset([0, 3, 23, 4095]), bits=tset([0, 256, 33920]), origins=tset([False, True]), ttls="TtlMany",
        txt=tset([0, 1, 70])), simulate="num=%d" % n, depth=12, seed=ctx.seed + 1, deadlock=False)
    return S, varkeys


def run(ctx):
    quick = ctx.tier == "quick"
    ctx.rule = ("behaviours = message scripts enumerated by TLC from Gen_Renderer (exhaustive small universes + seeded "
                "-simulate); each stepped through the real Renderer and Message.to_wire/from_wire/to_wire (updates also "
                "through the UpdateMessage builder API); distinct = distinct (script, build mode); non-trivial = at least "
                "one record set or EDNS")
    ctx.assumptions += ["TLC and CommunityModules Json are correct", "driver projection (drivers/c03_message.py) is faithful",
                        "RDATA is abstract: opaque octets plus embedded names; per-type compress flags are observed, not dictated",
                        "exhaustive only inside the constants of the MC/Gen configs; beyond them seeded simulation"]
    ctx.log("start")
    if ctx.replay_case:
        case = ctx.replay_case["case"]
        jobs = [("replay", case["script"], case["mode"], True)]
        traces = [c03_message.run_job(jobs[0])]
    else:
        ctx.model("MC_Renderer", "MC_Renderer_quick.cfg" if quick else "MC_Renderer_thorough.cfg", workers=1 if quick else 16)
        scripts, varkeys = scripts_for(ctx, quick)
        seen = set()
        jobs = []
        for s in scripts:
            key = json.dumps(s, sort_keys=True)
            if key in seen:
                continue
            seen.add(key)
            i = len(seen)
            if s[0]["max"] != 65535 or s[0].get("tsig"):
                jobs.append(("s%d.low" % i, s, "low"))      # Message.to_wire clamps the limit to >= 512
                continue
            jobs.append(("s%d.direct" % i, s, "direct", key in varkeys))
            if any(e.get("op") == "rr" and e["form"] != "plain" for e in s):
                jobs.append(("s%d.builder" % i, s, "builder"))
        ctx.extra["scripts"] = len(seen)
        traces = ctx.pmap(c03_message.run_job, jobs)
        traces += c03_message.code_traces()
        ctx.distinct = set(j[0] for j in jobs if len(j[1]) > 2 or j[1][0]["edns"][0] == "edns")
        for tr in traces[:2]:
            ctx.sample({"tid": tr["tid"], "ev": [{k: v for k, v in e.items() if k not in ("table",)} for e in tr["ev"][:3]]})
    jobmap = {j[0]: j for j in jobs}
    ctx.evaluations = len(traces)
    rejects = ctx.validate("Trace_Renderer", "Trace_Renderer.cfg", traces, env={"JAVA_TOOL_OPTIONS": "-Xss64m"})
    for tr, line, clause in rejects:
        sig = classify(tr, line, clause)
        e = tr["ev"][line - 1] if line else {}
        j = jobmap.get(tr["tid"], (None, None, None))
        ctx.violation(clause, sig, "mode=%s event %s (%s): %s" % (tr.get("mode"), line, e.get("op"), json.dumps(e)[:300]),
                      {"script": j[1], "mode": j[2], "line": line, "trace": tr})


def selftest(ctx):
    """binding demo: a good trace is accepted; corrupting ONE logged field gets it rejected"""
    import copy
    ex = [101, 120]
    rr = lambda sec, name, kind, n1: {"op": "rr", "sec": sec, "name": name, "kind": kind, "n1": n1, "n2": [], "k": 1,
                                      "nrd": 1, "ttl": [0, 300], "form": "plain"}
    script = [{"op": "hdr", "id": 4660, "opcode": 0, "bits": 256, "rcode": 2561, "origin": False,
               "edns": ["edns", 0, 32768, 1232, [[10, [7] * 8]]], "pad": 0, "zcls": 1, "max": 65535},
              {"op": "q", "name": [[97], ex], "type": 1, "cls": 1},
              rr(1, [[65], [69, 88]], "NS", [[98], [97], ex]), rr(3, [[98], [97], ex], "A", []), {"op": "end"}]
    good = c03_message.run_job(("good", script, "direct"))
    muts = []
    for name, fn in [("pos+1", lambda t: t["ev"][2].__setitem__("pos", t["ev"][2]["pos"] + 1)),
                     ("table offset+1", lambda t: t["ev"][2]["table"][0].__setitem__(1, t["ev"][2]["table"][0][1] + 1)),
                     ("counts", lambda t: t["ev"][3].__setitem__("counts", [1, 1, 0, 2])),
                     ("wire octet", lambda t: t["ev"][-2]["wire"].__setitem__(30, t["ev"][-2]["wire"][30] ^ 1)),
                     ("pointer target", lambda t: t["ev"][-1]["wire"].__setitem__(
                         t["ev"][-1]["wire"].index(192) + 1, 13)),
                     ("parsed rcode", lambda t: t["ev"][-1]["parsed"].__setitem__("rcode", 1)),
                     ("eq verdict", lambda t: t["ev"][-1].__setitem__("eq", False)),
                     ("re-render", lambda t: t["ev"][-1]["wire2"].__setitem__(5, 9))]:
        t = copy.deepcopy(good)
        t["tid"] = name
        fn(t)
        muts.append(t)
    rej = ctx.validate("Trace_Renderer", "Trace_Renderer.cfg", [good] + muts)
    got = {tr["tid"]: clause for tr, line, clause in rej}
    ok = "good" not in got and all(m["tid"] in got for m in muts)
    for k, v in sorted(got.items()):
        print("selftest C03: corrupted %-16s -> rejected by clause %s" % (k, v))
    print("selftest C03: %s" % ("PASS" if ok else "FAIL"))
    return 0 if ok else 2
