"""C12 - versioned-zone writers are serialized, FIFO and deadlock-free in every schedule."""
import hashlib
import itertools
import json
import os

from drivers import c12_admission as drv
from vlib import core, sched

LEVEL = "model_checking"
META = {
    "text": "WriterAdmission.tla (PlusCal, one label per group of source lines between two observable operations; "
            "line-granular inside lock holds) specifies the admission protocol of dns.versioned.Zone: lock, queue of "
            "events, exclusive-right token, deferred version setup, commit/rollback, readers, pruning. TLC checks "
            "MutualExclusion, FIFO, NoCuts, LockDiscipline (readers never wait for a write transaction), queue "
            "well-formedness / no lost wake-up, SerialEquivalence (read-modify-write transactions), "
            "ReadersSeeCommitted, PublishedIsCommitted, deadlock freedom on all interleavings, and liveness "
            "(waiting ~> admitted, Termination) under weak fairness. Binding: (i) an exact edge cover of the TLC state "
            "graph at lock/event granularity is executed as schedules on the real zone under a deterministic scheduler "
            "that replaces dns.versioned.threading; (ii) preemption-bounded and seeded random LINE-LEVEL schedules "
            "(sys.settrace on the admission code) are recorded from the real code; every recorded operation of every "
            "run must be the specification's step (Trace_WriterAdmission), the projected shared state must equal the "
            "specification's at every lock acquire/release, and the final content must be the serial application in "
            "admission order.",
    "note": "Exhaustive inside the MC constants (quick: 3 writers x 1 txn + 1 reader; thorough adds 4 writers, 2 "
            "transactions per writer, 2 readers); line-level exploration is complete only up to k preemptions "
            "(quick 1, thorough 2) from the non-preemptive schedules of every priority order; liveness is checked on "
            "the model, on the code only as absence of deadlock / step-budget overrun in every executed schedule. "
            "Trusted: TLC, vlib/sched.py (one thread runs at a time; GIL-independent), the projection in "
            "drivers/c12_admission.py.",
    "technique": "PlusCal/TLA+ model checked with TLC (safety + liveness); TLC state-graph edge cover replayed on the code "
                 "under a deterministic scheduler; preemption-bounded line-level schedules validated by TLC trace validation",
    "design_ref": "DESIGN.md section 2.4 and section 4, C12",
}

GEN_CFG = """INIT GInit
NEXT GNext
VIEW GView
CONSTANTS
  Writers = {writers}
  Readers = {readers}
  NTxn = {ntxn}
  NReads = {nreads}
  MCHows = {hows}
  Plans <- {plans}
  RPlans <- MCRPlans
  RModes <- MCRModes
  MCRModeSet = {rmodes}
  InitVid = 2
  Policers = {policers}
  PPlans <- MCPPlans
  EagerLabels <- {eager}
ACTION_CONSTRAINT EmitEdge
CHECK_DEADLOCK FALSE
"""


SLIM = ("tid", "plan", "rplan", "rmode", "pplan", "vid0", "ev")


def tset(xs):
    return "{" + ", ".join(json.dumps(x) if isinstance(x, str) else str(x) for x in xs) + "}"


def gen_schedules(ctx, name, writers, readers, ntxn, nreads, hows, eager, plans="MCPlans", policers=(), rmodes=("latest",)):
    """Edge cover of the (reduced) state graph: one schedule per maximal emitted path."""
    cfg = ctx.cfg(name, GEN_CFG.format(writers=tset(writers), readers=tset(readers), ntxn=ntxn, nreads=nreads,
                                       hows=tset(hows), plans=plans, eager=eager, policers=tset(policers), rmodes=tset(rmodes)))
    raw = ctx.generate("Gen_WriterAdmission", cfg, tag="SCH", deadlock=False)
    items = sorted({(json.dumps([x["p"], x["rp"], x["rm"], x["pp"]]), x["s"]) for x in raw})
    keep = []
    for i, (p, s) in enumerate(items):
        if i + 1 < len(items) and items[i + 1][0] == p and items[i + 1][1].startswith(s):
            continue  # a proper prefix of another emitted path: its edges are covered by the longer one
        keep.append(tuple(json.loads(p)) + (s,))
    ctx.log("%s: %d edges emitted, %d maximal paths" % (name, len(items), len(keep)))
    ctx.extra.setdefault("graph_edges", 0)
    ctx.extra["graph_edges"] += len(items)
    return keep


def key_of(tr):
    return hashlib.sha1(drv.ev_key(tr).encode()).hexdigest()


def classify(tr, line, clause):
    """Case signature of a rejected trace.  No defect is known for C12, so every signature is
    generic: failing clause + operation + granularity."""
    ev = tr["ev"]
    e = ev[line - 1] if line and 0 < line <= len(ev) else {}
    return "%s:%s:%s" % (clause, e.get("op", "?"), tr.get("mode"))


def stats(traces, ctx):
    """Non-vacuity witnesses measured on the executed traces."""
    n_wait = n_two = n_window = n_dead = n_sub = 0
    for tr in traces:
        waits = sum(1 for e in tr["ev"] if e["op"] == "wait")
        n_wait += waits > 0
        n_two += any(e["op"] == "release" and len(e["st"]["wq"]) >= 2 for e in tr["ev"])
        # a lock acquisition by a NEWCOMER while the exclusive right is handed to a woken waiter
        # that has not re-taken the lock yet: the "taking cuts" window
        owner = {e["o"]: e["t"] for e in tr["ev"] if e["op"] == "newevent"}
        n_window += any(e["op"] == "acquire" and e["st"]["wt"] == 0 and e["st"]["we"] != 0
                        and owner.get(e["st"]["we"]) != e["t"] for e in tr["ev"])
        n_dead += any(e["op"] in ("deadlock", "budget", "crash", "driver_crash") for e in tr["ev"])
        n_sub += tr["meta"]["subs"] > 0
    ctx.extra["traces_with_waiting_writer"] = ctx.extra.get("traces_with_waiting_writer", 0) + n_wait
    ctx.extra["traces_with_two_queued"] = ctx.extra.get("traces_with_two_queued", 0) + n_two
    ctx.extra["traces_with_lock_taken_in_cut_window"] = ctx.extra.get("traces_with_lock_taken_in_cut_window", 0) + n_window
    ctx.extra["traces_with_deadlock_or_crash"] = ctx.extra.get("traces_with_deadlock_or_crash", 0) + n_dead
    ctx.extra["traces_with_substituted_schedule"] = ctx.extra.get("traces_with_substituted_schedule", 0) + n_sub


def replay_job(tr):
    """Everything --replay needs: the plan and the exact schedule that was run."""
    return {"tid": "replay", "plan": tr["plan"], "rplan": tr["rplan"], "rmode": tr.get("rmode", []), "pplan": tr.get("pplan", []),
            "mode": tr["mode"], "zclass": tr.get("zclass", "versioned"), "handoff": bool(tr.get("handoff")),
            "policy": ["list", tr.get("ran", [])]}


def run(ctx):
    quick = ctx.tier == "quick"
    ctx.rule = ("evaluations = schedules executed on the real dns.versioned.Zone under the deterministic scheduler: "
                "(a) one per maximal path of the exact edge cover of the TLC state graph at lock/event granularity, "
                "(b) every line-level schedule with <= k deviations from the non-preemptive schedule of every thread "
                "priority order, (c) seeded random line-level schedules; runs whose recorded event sequences are identical "
                "are validated once; distinct = distinct recorded event sequences; non-trivial = at least one writer had to "
                "queue and wait")
    ctx.assumptions += [
        "TLC and the CommunityModules Json module are correct",
        "vlib/sched.py runs exactly one logical thread at a time, so the recorded total order is the real order",
        "line-level interleaving (sys.settrace 'line' events) is the finest granularity explored: races inside one "
        "source line (between bytecodes) are not explored",
        "liveness is proved on the bounded model under weak fairness; on the code it is observed as absence of deadlock "
        "and of step-budget overruns in the executed schedules",
        "exhaustive only inside the MC/Gen constants and the preemption bound; beyond them seeded random schedules",
    ]
    seen = {}
    runs = 0
    try:
        ctx.log(sched._selfcheck(20))
    except AssertionError as e:
        raise core.Machinery("scheduler self-check failed: %r" % (e,))

    def add(traces):
        nonlocal runs
        for tr in traces:
            runs += 1
            seen.setdefault(key_of(tr), tr)

    mini = getattr(ctx, "mini", False)  # reduced workload used by selftest()
    if ctx.replay_case:
        job = ctx.replay_case["case"]["job"]
        tr = drv.run_job(job)
        add([tr])
    else:
        # ---------------------------------------------------------------- 1. the specification
        if quick:
            cfgs = ["MC_WriterAdmission_quick.cfg", "MC_WriterAdmission_quick_byid.cfg", "MC_WriterAdmission_live_quick.cfg",
                    "MC_WriterAdmission_live_quick2.cfg"]
        else:
            cfgs = ["MC_WriterAdmission_thorough3.cfg", "MC_WriterAdmission_live.cfg", "MC_WriterAdmission_thorough4.cfg",
                    "MC_WriterAdmission_thorough.cfg", "MC_WriterAdmission_thorough2.cfg", "MC_WriterAdmission_thorough_pol.cfg",
                    "MC_WriterAdmission_thorough_byid.cfg", "MC_WriterAdmission_quick_byid.cfg",
                    "MC_WriterAdmission_live_quick.cfg", "MC_WriterAdmission_live_quick2.cfg"]
        if os.environ.get("VERIF_C12_SKIP_MODEL"):  # development aid for mutation runs only (the spec is unchanged)
            cfgs = ["MC_WriterAdmission_live_quick2.cfg"]
        if mini:
            cfgs = []
        for c in cfgs:  # one after another: vlib/tlc.py throttles concurrent JVMs machine-wide, so starting
            ctx.model("MC_WriterAdmission", c)  # them side by side only multiplies the wait for slots
        # ---------------------------------------------------------------- 2. spec -> code
        # how a transaction ends is part of the script: explicit commit / rollback, or a with-block left by a
        # BaseException that is not an Exception ("exit" = SystemExit); every non-commit ending is the spec's rollback path
        sch = gen_schedules(ctx, "genA.cfg", [1, 2, 3], [5], 1, 1, ["commit", "rollback"] if mini else ["commit", "rollback", "exit"],
                            "EagerA", plans="MCPlansLive" if mini else "MCPlansSym")
        if not mini:
            sch += gen_schedules(ctx, "genP.cfg", [1, 2], [5], 1, 2, ["commit", "rollback"], "EagerA", plans="MCPlansCommit",
                                 policers=[7], rmodes=("byid", "byinit") if not quick else ("byid",))
        if not quick:
            sch += gen_schedules(ctx, "genB.cfg", [1, 2, 3], [5], 1, 1, ["commit", "rollback", "empty"], "EagerA", plans="MCPlansSym")
            sch += gen_schedules(ctx, "genC.cfg", [1, 2], [5], 2, 1, ["commit", "rollback"], "EagerA", plans="MCPlansLive")
            sch += gen_schedules(ctx, "genD.cfg", [1, 2, 3, 4], [5], 1, 1, ["commit", "rollback"], "EagerA", plans="MCPlansLive")
        jobs = [{"tid": "g%d" % i, "plan": p, "rplan": rp, "rmode": rm, "pplan": pp, "mode": "ops", "policy": ["list", [int(c) for c in s]]}
                for i, (p, rp, rm, pp, s) in enumerate(sch)]
        if not quick:  # the same protocol through the B-tree zone class (it inherits writer())
            jobs += [dict(j, tid="b" + j["tid"], zclass="btree") for j in jobs[::11]]
        out = ctx.pmap(drv.run_job, jobs)
        ctx.extra["schedules_from_tlc"] = len(jobs)
        ctx.extra["tlc_schedules_replayed_without_substitution"] = sum(1 for tr in out if tr["meta"]["subs"] == 0)
        add(out)
        ctx.log("executed %d TLC schedules, %d distinct traces so far" % (len(jobs), len(seen)))
        for tr in [x for x in out if sum(e["op"] == "wait" for e in x["ev"]) >= 2][:2]:
            ctx.sample({"tid": tr["tid"], "plan": tr["plan"], "rplan": tr["rplan"], "schedule": tr.get("sched"),
                        "events": [[e["t"], e["op"], e["o"]] for e in tr["ev"]], "first_event": tr["ev"][0]})
        # ---------------------------------------------------------------- 3. code -> spec, line level
        # (plan, rplan, rmode, pplan)
        plans = [([["commit"], ["rollback"] if mini else ["interrupt"], ["commit"]], [1], ["latest"], []),
                 ([["commit"], ["commit"]], [2], ["byid"], [3, 1])]
        if mini:
            plans = plans[:1]
        if not quick:
            plans += [([["rollback"], ["commit"], ["rollback"]], [1], ["latest"], []),
                      ([["commit", "rollback"], ["commit", "commit"]], [1], ["latest"], []),
                      ([["empty"], ["commit"], ["rollback"]], [0, 1], ["latest", "latest"], []),
                      ([["commit"], ["commit"]], [1], ["byinit"], [2, 1])]
        bjobs = []
        for pi, (plan, rplan, rmode, pplan) in enumerate(plans):
            tids = [i + 1 for i, h in enumerate(plan) if h] + [5 + i for i, n in enumerate(rplan) if n] + ([7] if pplan else [])
            perms = list(itertools.permutations(tids))
            if quick and len(tids) > 3 and pi > 0:
                perms = perms[::3]  # 8 of the 24 priority orders of the 4-thread by-id/policy plan
            for prio in perms:
                base = {"tid": "p%d.%s" % (pi, "".join(map(str, prio))), "plan": plan, "rplan": rplan, "rmode": rmode,
                        "pplan": pplan, "mode": "lines", "policy": ["pre", list(prio), []]}
                bjobs.append({"tid": base["tid"], "base": base, "k": 1, "kinds": None})
        # hand-off: OS thread 1 opens the transaction of writer 1, a helper (OS thread 8) ends it, thread 1 calls
        # writer() again as writer 2 while the first may still be open; writer 3 competes
        if not mini:
            for hi, how1 in enumerate(["commit", "rollback"]):
                for prio in itertools.permutations([1, 8, 3]):
                    base = {"tid": "h%d.%s" % (hi, "".join(map(str, prio))), "plan": [[how1], ["commit"], ["commit"]], "rplan": [0],
                            "rmode": ["latest"], "pplan": [], "handoff": True, "mode": "lines", "policy": ["pre", list(prio), []]}
                    bjobs.append({"tid": base["tid"], "base": base, "k": 1, "kinds": None})
        # a targeted sub-family of k = 2: the first deviation inside the pruning / commit / reader-registration code
        # (a thread is switched out in the middle of the retention bookkeeping), the second at an API return of
        # another thread (it is switched out while it still holds its transaction).  This is where "a reader opened BY
        # ID pins a version that a concurrent prune then drops" lives; readers open by id under the default and under a
        # multi-version policy.
        RET = ["_prune_versions_unlocked", "_commit_version", "_commit_version_unlocked", "_end_read", "set_pruning_policy", "reader"]
        API = ["ropen", "rread", "rclosed", "returned", "body", "ended", "policyset"]
        for pi, (plan, rplan, rmode, pplan) in enumerate([([["commit"], ["commit"]], [1], ["byinit"], []),
                                                          ([["commit"], ["commit"]], [1], ["byinit"], [3]),
                                                          ([["commit"]], [2], ["byid"], [2])][:1 if mini else 3]):
            tids = [i + 1 for i, h in enumerate(plan) if h] + [5] + ([7] if pplan else [])
            for prio in itertools.permutations(tids):
                base = {"tid": "t%d.%s" % (pi, "".join(map(str, prio))), "plan": plan, "rplan": rplan, "rmode": rmode,
                        "pplan": pplan, "mode": "lines", "policy": ["pre", list(prio), []]}
                bjobs.append({"tid": base["tid"], "base": base, "k": 2, "kinds": None,
                              "levels": [{"kinds": ["line"], "funcs": RET}, {"kinds": API}]})
        if not quick:
            # k = 2: every pair of deviations, below every first deviation of three priority orders
            plan, rplan, _, _ = plans[0]
            for prio in ([1, 2, 3, 5], [3, 5, 2, 1], [2, 1, 5, 3]):
                base = {"tid": "q.%s" % "".join(map(str, prio)), "plan": plan, "rplan": rplan, "mode": "lines",
                        "policy": ["pre", list(prio), []]}
                tr0, res0 = drv.run_one(base)
                for (i, t) in sched.deviations_of(res0):
                    b = dict(base, policy=["pre", list(prio), [[i, t]]], tid="%s_%d.%d" % (base["tid"], i, t))
                    bjobs.append({"tid": b["tid"], "base": b, "k": 1, "kinds": None})
        res = ctx.pmap(drv.run_bounded, bjobs, chunk=1)
        nb = sum(r["runs"] for r in res)
        ctx.extra["preemption_bounded_line_level_runs"] = nb
        before = len(seen)
        for r in res:
            for tr in r["traces"]:
                seen.setdefault(key_of(tr), tr)
        runs += nb
        ctx.log("executed %d preemption-bounded line-level schedules (%d new distinct traces)" % (nb, len(seen) - before))
        # seeded random line-level schedules (also 4 writers / 2 transactions / 2 readers)
        nrand = 150 if mini else 400 if quick else 6000
        rplans = [([["commit"], ["rollback"], ["commit"]], [1], ["latest"], []),
                  ([["commit", "raise"], ["exit", "commit"]], [2], ["byid"], [2, 0, 1]),
                  ([["commit"], ["genexit"], ["rollback"], ["commit"]], [1, 2], ["latest", "byinit"], []),
                  ([["empty"], ["commit"], ["commit"]], [2], ["byinit"], [3, 1])]
        rjobs = []
        for i in range(nrand):
            plan, rplan, rmode, pplan = rplans[i % len(rplans)]
            if i % 5 == 4:
                plan, rplan, rmode, pplan = [["commit"], ["rollback", "commit"], ["exit"]], [1], ["latest"], []
            rjobs.append({"tid": "r%d" % i, "plan": plan, "rplan": rplan, "rmode": rmode, "pplan": pplan, "mode": "lines",
                          "handoff": i % 5 == 4,
                          "policy": ["rand", ctx.seed * 1000003 + i, (0.05, 0.15, 0.4)[i % 3]]})
        before = len(seen)
        out = ctx.pmap(drv.run_job, rjobs)
        ctx.extra["random_line_level_runs"] = len(rjobs)
        add(out)
        ctx.log("executed %d random line-level schedules (%d new distinct traces)" % (len(rjobs), len(seen) - before))
        ctx.sample({"tid": out[0]["tid"], "plan": out[0]["plan"], "schedule": out[0].get("sched"), "events": len(out[0]["ev"])})
    traces = list(seen.values())
    for i, tr in enumerate(traces):
        tr["tid"] = "%s#%d" % (tr["tid"], i)
    stats(traces, ctx)
    ctx.evaluations = runs
    ctx.distinct = {key_of(tr) for tr in traces if any(e["op"] == "wait" for e in tr["ev"])}
    ctx.extra["distinct_traces"] = len(traces)
    slim = [{k: tr[k] for k in SLIM} for tr in traces]
    by_tid = {tr["tid"]: tr for tr in traces}
    rejects = ctx.validate("Trace_WriterAdmission", "Trace_WriterAdmission.cfg", slim)
    ctx.extra["traces_with_timed_wait_expired"] = sum(1 for tr in traces if any(e["op"] == "wait_timeout" for e in tr["ev"]))
    ctx.extra["traces_with_reader_by_id"] = sum(1 for tr in traces if any(m != "latest" for m in tr["rmode"])
                                                and any(e["op"] in ("ropen", "rfail") for e in tr["ev"]))
    ctx.extra["traces_with_reader_refused"] = sum(1 for tr in traces if any(e["op"] == "rfail" for e in tr["ev"]))

    def report(s, line, clause, oracle):
        tr = by_tid[s["tid"]]
        sig = classify(tr, line, clause)
        e = tr["ev"][line - 1] if line else {}
        ctx.violation(clause, sig, "[%s] plan=%s readers=%s/%s policy=%s mode=%s schedule=%s event %s: %s" % (
            oracle, json.dumps(tr["plan"]), tr["rplan"], tr["rmode"], tr["pplan"], tr["mode"], tr.get("sched", "")[:80], line,
            json.dumps(e)[:300]), {"job": replay_job(tr), "line": line, "oracle": oracle, "trace": tr["ev"]})

    for s, line, clause in rejects:
        report(s, line, clause, "protocol")
    if rejects:
        # second, protocol-independent oracle on the rejected traces: report the consequence for the property
        # (deadlock / lost wake-up, mutual exclusion, serial equivalence, pinned version dropped, ...) as well
        bad = [s for s, _, _ in rejects]
        n0 = ctx.traces
        for s, line, clause in ctx.validate("Trace_WriterOutcome", "Trace_WriterOutcome.cfg", bad):
            report(s, line, clause, "outcome")
        ctx.traces = n0  # the same traces, judged a second time


def selftest(ctx):
    """Demonstrates the binding (prints no VIOLATION lines, writes evidence/C12.selftest.json):
    (a) one field of a good trace is corrupted in several ways - each must be rejected;
    (b) every in-memory mutant of mutants/c12_mutants.py that touches dns/versioned.py is
        compiled, bound as dns.versioned in this process, and explored with a reduced
        workload - non-equivalent mutants must be rejected, equivalent ones accepted."""
    import copy
    import sys
    import types

    import dns.versioned

    from mutants.c12_mutants import EQUIVALENT, MUTANTS, mutate

    result = {"corruptions": {}, "mutants": {}}
    ok = True
    # (a) corrupt logged fields of a good trace
    good = drv.run_job({"tid": "good", "plan": [["commit"], ["rollback"], ["commit"]], "rplan": [1], "mode": "ops",
                        "policy": ["list", [int(c) for c in "33222111335533232222221211111123555551"]]})

    def variant(name, f):
        tr = copy.deepcopy(good)
        tr["tid"] = name
        f(tr["ev"])
        return {k: tr[k] for k in SLIM}

    def first(ev, op, nth=1):
        return [e for e in ev if e["op"] == op][nth - 1]

    variants = [
        variant("unchanged", lambda ev: None),
        variant("queue_order_swapped", lambda ev: [e for e in ev if e["op"] == "release" and len(e["st"]["wq"]) == 2][0]["st"]["wq"].reverse()),
        variant("final_content_lost_update", lambda ev: first(ev, "final")["st"]["pub"].pop()),
        variant("reader_sees_other_version", lambda ev: first(ev, "ropen").__setitem__("c", [31])),
        variant("writer_snapshot_stale", lambda ev: first(ev, "returned", 3).__setitem__("snap", [])),
        variant("woke_wrong_waiter", lambda ev: first(ev, "set").__setitem__("o", 2)),
        variant("release_dropped", lambda ev: ev.remove(first(ev, "release", 2))),
        variant("deadlock_reported", lambda ev: ev.__setitem__(slice(20, None), [{"op": "deadlock", "t": 0, "o": 0}])),
    ]
    rej = ctx.validate("Trace_WriterAdmission", "Trace_WriterAdmission.cfg", variants)
    rejected = {tr["tid"]: clause for tr, line, clause in rej}
    for v in variants:
        name = v["tid"]
        result["corruptions"][name] = rejected.get(name, "accepted")
        want_reject = name != "unchanged"
        if (name in rejected) != want_reject:
            ok = False
        ctx.log("corruption %-28s -> %s" % (name, result["corruptions"][name]))
    # (b) in-memory mutants
    orig = dns.versioned
    src0 = open(orig.__file__).read()
    ctx.mini = True
    try:
        for name, (f, reps) in MUTANTS.items():
            if f != "dns/versioned.py":
                continue
            mod = types.ModuleType("dns.versioned")
            mod.__file__ = orig.__file__
            exec(compile(mutate(src0, reps, name), orig.__file__, "exec"), mod.__dict__)
            dns.versioned = mod
            sys.modules["dns.versioned"] = mod
            ctx.violations = []
            try:
                run(ctx)
            finally:
                dns.versioned = orig
                sys.modules["dns.versioned"] = orig
            clauses = sorted({v.clause for v in ctx.violations})
            killed = bool(clauses)
            result["mutants"][name] = {"killed": killed, "clauses": clauses[:12], "expected_equivalent": name in EQUIVALENT}
            if killed == (name in EQUIVALENT):
                ok = False
            ctx.log("mutant %-28s -> %s %s" % (name, "KILLED" if killed else "survived", clauses[:6]))
    finally:
        ctx.mini = False
        ctx.violations = []
    result["ok"] = ok
    with open(os.path.join(os.path.dirname(os.path.dirname(os.path.abspath(__file__))), "evidence", "C12.selftest.json"), "w") as fh:
        json.dump(result, fh, indent=1)
    print("SELFTEST property=C12 %s" % ("ok" if ok else "FAILED"))
    return 0 if ok else 2
