"""C05 - every record type's master-file text parses back to an equal record."""
import json
import random

from drivers import c05_text as drv

LEVEL = "model_checking"
META = {
    "text": "Two layers. (i) Exact: CharString.tla (RFC 1035 5.1 escapes, octet and code-point readings) and RdTokenizer.tla "
            "(the automaton of Tokenizer.get: one action per character class, paren depth, quoting, push-back, "
            "want_leading / want_comment) are model-checked (escape -> quote -> tokenize -> unescape is the identity on all "
            "octet-class strings; token streams well-formed), then dns.rdata._escapify, Tokenizer.get/unget, Token.unescape "
            "and unescape_to_bytes are run on every string of the declared universes and Trace_RdTokenizer compares them "
            "token by token with the automaton. (ii) Per type: RdataText.tla models what text must carry (value + "
            "relativity of names under every origin/relativize configuration and lossless style); for every value vector "
            "of every implemented type (universe declared in RdTextUniverse.tla, layouts from schemas.json) the driver "
            "records wire -> text -> wire under every configuration, the RFC 3597 generic form, and records built from "
            "text (numeric boundary substitutions); Trace_RdataText holds them to the clauses of the property.",
    "note": "Level model_checking applies to the escape/tokenizer layers; the ~90 per-type formatters are not transcribed: "
            "for them the round-trip law itself, stated in TLA+, is the oracle on spec-declared inputs (exploration). "
            "Exhaustive only inside the declared universes (strings <= 5-6 over 8 tokenizer classes, <= 3-4 over 16 octet "
            "classes; per field kind the value sets of RdTextUniverse, single-field variations). Trusted: TLC, the Json "
            "module, the wire builder and projections in drivers/c05_text.py, specs/schemas.json layouts.",
    "technique": "TLA+ automaton/laws checked by TLC; universes declared in TLA+; real code run on them; TLC trace validation",
    "design_ref": "DESIGN.md section 4, C05",
}

GEN_CFG = """INIT GInit
NEXT GNext
CONSTANTS
  Wide = %s
INVARIANT Emit
CHECK_DEADLOCK FALSE
"""
F4_TYPES = {"HINFO": (0, 1), "X25": (0,), "ISDN": (0, 1), "NAPTR": (2, 3, 4), "CAA": (2,)}
ORIGIN_WIRE = [7, 101, 120, 97, 109, 112, 108, 101, 0]


def _contains(hay, needle):
    n = len(needle)
    return any(hay[i:i + n] == needle for i in range(len(hay) - n + 1))


def _loc_numbers(text):
    """(altitude, [metre values]) of a LOC text; None where it cannot be read"""
    import re
    m = re.search(r"[EW]\s+(-?[0-9.]+)m?((?:\s+-?[0-9.]+m?)*)", text or "")
    if not m:
        return None, []
    vals = [m.group(1)] + [x.rstrip("m") for x in m.group(2).split()]
    return vals[0], vals


def classify(tr, line, clause):
    """Case signature of a rejected trace.  Known defects get a specific signature only for
    their exact failing case; anything else gets the generic one and is reported."""
    ev = tr.get("ev", [])
    e = ev[line - 1] if line and 0 < line <= len(ev) else {}
    ty, kind = tr.get("ty", "?"), tr.get("kind", "?")
    if kind in ("tok", "free", "law", "unesc", "crash"):
        return "%s:%s:%s" % (clause, kind, e.get("op", "?"))
    if kind == "fresh" or str(tr.get("tid", "")).startswith("fresh:"):
        return "%s:%s:fresh:%s:%s:%s" % (clause, ty, tr.get("what", "?"), e.get("op", "?"),
                                         e.get("parsex") or e.get("encx") or e.get("t2x") or e.get("textx") or "")
    src = ev[0] if ev else {}
    vec = src.get("vec", [])
    exc = e.get("textx") or e.get("parsex") or e.get("encx") or e.get("t2x") or ""
    if ty == "LOC" and kind == "text":
        alt, vals = _loc_numbers(src.get("txt"))
        try:
            if clause == "EncodeOk" and e.get("op") == "src" and alt is not None and not (-100000.0 <= float(alt) <= 42849672.95):
                return "F3:LOC:altitude-out-of-range:accepted-from-text:to_wire:%s" % e.get("encx", "")
            if clause in ("WireEq", "Equal") and any("." in v and len(v.split(".")[1]) > 2 for v in vals):
                return "F22:LOC:metre-value:to_text-rounds-encoder-truncates:text"
        except ValueError:
            pass
    if ty == "LOC" and kind == "wire" and clause in ("WireEq", "Equal") and str(tr.get("what", "")).endswith(":altitude"):
        return "F22:LOC:metre-value:to_text-rounds-encoder-truncates:wire"
    if ty in F4_TYPES and kind == "wire" and clause in ("WireEq", "ParseOk", "Equal") and e.get("op") == "rt":
        hi = [i for i in F4_TYPES[ty] if i < len(vec) and isinstance(vec[i], list) and any(isinstance(o, int) and o >= 128 for o in vec[i])]
        if hi:
            return "F4:%s:character-string-octet>=128:code-point-unescape:%s" % (ty, clause)
    if ty == "URI" and kind == "wire" and len(vec) == 3:
        tgt = bytes(vec[2])
        try:
            tgt.decode()
            utf8 = True
        except UnicodeDecodeError:
            utf8 = False
        if not utf8 and clause in ("TextOk", "TextAgain") and exc == "UnicodeDecodeError":
            return "F5:URI:target-not-utf8:to_text:UnicodeDecodeError"
        if utf8 and any(o in (34, 92, 127) or o < 32 for o in tgt) and clause in ("ParseOk", "WireEq", "Equal"):
            return "F5:URI:target-needs-escaping:not-escaped:%s" % clause
    if clause == "GenericParse" and e.get("gc") in ("grel", "gabs") and exc == "SyntaxError" and _contains(src.get("w0", []), ORIGIN_WIRE):
        return "F20:generic-form-of-known-type:name-under-origin:%s:SyntaxError" % e.get("gc")
    if ty == "IPSECKEY" and kind == "wire" and clause == "ParseOk" and len(vec) == 5 and vec[4] == [] and vec[2] == 0:
        return "F21:IPSECKEY:no-public-key-algorithm-0:text-not-reparsable"
    return "%s:%s:%s:%s:%s:%s" % (clause, ty, kind, e.get("op", "?"), e.get("oc", e.get("gc", "")), exc)


def describe(tr, line):
    ev = tr.get("ev", [])
    e = dict(ev[line - 1]) if line and 0 < line <= len(ev) else {}
    for k in ("wire1", "ub", "uc", "ucb"):
        if isinstance(e.get(k), list) and len(e[k]) > 24:
            e[k] = e[k][:24] + ["..."]
    src = ev[0] if ev else {}
    return "type=%s %s event %s: %s | source: %s" % (tr.get("ty", tr.get("kind")), tr.get("what", ""), line, json.dumps(e)[:260],
                                                    json.dumps({k: src.get(k) for k in ("via", "oin", "txt", "w0") if k in src})[:200])


def random_vectors(U, seed, n):
    """seeded vectors outside the enumerated universe: random octets in every character-string,
    label and opaque field (same trace specification, no coverage claim)"""
    rng = random.Random(seed * 104729 + 11)
    out = []
    pool = [0, 9, 10, 32, 34, 40, 41, 46, 48, 57, 59, 64, 65, 92, 97, 122, 126, 127, 128, 159, 160, 195, 200, 233, 255]
    schemas = drv.load_schemas()

    def octs(lo, hi):
        return [rng.choice(pool) if rng.random() < 0.8 else rng.randrange(256) for _ in range(rng.randrange(lo, hi))]
    for i in range(n):
        t = schemas[i % len(schemas)]
        key, fields = t["key"], t["fields"]
        vec = [drv.field_dom(U, key, k, f)["base"] for k, f in enumerate(fields)]
        touched = False
        for k, f in enumerate(fields):
            kd = f["kind"]
            if "%s.%d" % (key, k + 1) in U["special"] and key not in ("CAA", "URI", "X25"):
                continue
            if kd in ("cstr", "cstropt") or (kd in ("rest", "u8len") and key in ("CAA", "URI")):
                vec[k] = octs(1, 9)
                touched = True
            elif kd == "cstrs":
                vec[k] = [octs(0, 7) for _ in range(rng.randrange(1, 4))]
                touched = True
            elif kd == "name":
                labels = [octs(1, 5) for _ in range(rng.randrange(0, 3))]
                vec[k] = labels + (U["origin"] if rng.random() < 0.6 else [])
                touched = True
            elif kd in ("rest", "u16len"):
                vec[k] = [rng.randrange(256) for _ in range(rng.randrange(1, 80))]
                touched = True
        if not touched:
            continue
        nameish = t["relative"] and any(f["kind"] in drv.NAMEISH for f in fields)
        out.append({"tid": "%s.r%d" % (key, i), "ty": key, "cls": t["cls"], "code": t["code"],
                    "wire": list(drv.enc_vec(fields, vec)), "what": "random", "names": nameish, "vec": vec})
    return out


def run(ctx):
    quick = ctx.tier == "quick"
    ctx.rule = ("exact layer: one trace per (string of the declared universe, get() mode) - all strings up to the tier's "
                "length over 8 tokenizer classes / 16 octet classes / 8 escape-text classes; per-type layer: one trace per "
                "(value vector, origin given to from_wire) with one event per (origin configuration, style) and per generic "
                "configuration, plus one trace per text obtained by one numeric boundary substitution; distinct = distinct "
                "trace ids whose source was accepted by the library (rejected inputs carry no obligation)")
    ctx.assumptions += ["TLC and CommunityModules Json are correct",
                        "wire layouts of specs/schemas.json and the wire builder of drivers/c05_text.py are right "
                        "(a wrong one only loses vectors: from_wire rejects them, which is counted per type)",
                        "per-type presentation grammars are not modelled: the round-trip law is the oracle",
                        "exhaustive only inside the declared universes; beyond them seeded random values"]
    if ctx.replay_case:
        return replay(ctx)
    # ---------------------------------------------------------------- models
    ctx.model("MC_RdTokenizer", "MC_RdTokenizer_quick.cfg" if quick else "MC_RdTokenizer_thorough.cfg", workers=1)
    for vac in ("VacUnexpectedEnd", "VacSyntaxError", "VacCommentOnEof", "VacEscapedQuoted"):
        r = ctx.model("MC_RdTokenizer", "MC_RdTokenizer_%s.cfg" % vac, expect_ok=False, count=False, workers=1)
        if r.violated != vac:
            from vlib import core
            raise core.Machinery("vacuity witness %s is not reachable in RdTokenizer (violated=%s)" % (vac, r.violated))
    ctx.model("MC_CharString", "MC_CharString_quick.cfg" if quick else "MC_CharString_thorough.cfg", workers=1)
    ctx.model("MC_RdataText", "MC_RdataText_quick.cfg", workers=1)
    U = ctx.generate("Gen_RdTextUniverse", ctx.cfg("gen_universe.cfg", GEN_CFG % ("FALSE" if quick else "TRUE")))[0]
    drv.set_universe(U)
    # ---------------------------------------------------------------- exact layer
    ejobs = drv.exact_jobs(ctx.tier, ctx.seed)
    etraces = ctx.pmap(drv.run_exact, ejobs)
    ctx.log("exact layer: %d traces" % len(etraces))
    ejob_of = {tr["tid"]: j for tr, j in zip(etraces, ejobs)}
    rej = ctx.validate("Trace_RdTokenizer", "Trace_RdTokenizer.cfg", etraces)
    for tr, line, clause in rej:
        ctx.violation(clause, classify(tr, line, clause), describe(tr, line),
                      {"layer": "exact", "job": ejob_of.get(tr["tid"]), "line": line, "trace": tr})
    kinds = {}
    for tr in etraces:
        kinds[tr["kind"]] = kinds.get(tr["kind"], 0) + 1
        if tr["kind"] != "crash":
            ctx.distinct.add(tr["tid"])
    ctx.extra["exact_traces"] = kinds
    for tr in etraces[5000:5002]:
        ctx.sample({"tid": tr["tid"], "s": tr["s"], "ev": tr["ev"][:3]})
    # ---------------------------------------------------------------- per-type layer
    loaded = set(drv.loaded_types())
    have = {(t["cls"], t["code"]) for t in drv.load_schemas()}
    missing = sorted(loaded - have)
    if missing:
        from vlib import core
        raise core.Machinery("implemented rdata types without a schema entry: %s" % missing)
    wj = drv.vectors(U)
    wj += random_vectors(U, ctx.seed, 1500 if quick else 20000)
    wjobs = [dict(j, oin=o, part=p) for j in wj for o in (("none", "org") if j["names"] else ("none",)) for p in ("rt", "gen")]
    tjobs = drv.text_jobs(U, wj) + drv.alt_jobs(U)
    wtraces = ctx.pmap(drv.run_wire, wjobs)
    ttraces = ctx.pmap(drv.run_text, tjobs)
    ctx.log("per-type layer: %d wire-born, %d text-born traces" % (len(wtraces), len(ttraces)))
    job_of = {tr["tid"]: ("wire", j) for tr, j in zip(wtraces, wjobs)}
    job_of.update({tr["tid"]: ("text", j) for tr, j in zip(ttraces, tjobs)})
    cov = {}
    for tr in wtraces + ttraces:
        c = cov.setdefault(tr["ty"], {"wire_vectors": 0, "wire_accepted": 0, "texts": 0, "texts_accepted": 0, "round_trips": 0})
        acc = bool(tr["ev"] and tr["ev"][0].get("acc"))
        if tr["kind"] == "wire":
            c["wire_vectors"] += 1
            c["wire_accepted"] += acc
        elif tr["kind"] == "text":
            c["texts"] += 1
            c["texts_accepted"] += acc
        c["round_trips"] += max(0, len(tr["ev"]) - 1)
        if acc:
            ctx.distinct.add(tr["tid"])
    uncovered = sorted(t["key"] for t in drv.load_schemas() if cov.get(t["key"], {}).get("wire_accepted", 0) == 0)
    if uncovered:
        from vlib import core
        raise core.Machinery("types without a single accepted vector: %s" % uncovered)
    ctx.extra["types_covered"] = cov
    ctx.extra["types_covered_count"] = len(cov)
    ctx.extra["universe"] = {"styles": sorted(s["id"] for s in U["styles"]), "orgconfigs": sorted(c["id"] for c in U["orgconfigs"]),
                             "genconfigs": sorted(c["id"] for c in U["genconfigs"]), "numsubst": len(U["numsubst"])}
    for tr in wtraces[:2] + ttraces[:1]:
        ctx.sample({"tid": tr["tid"], "ty": tr["ty"], "ev": tr["ev"][:2]})
    # fresh-interpreter scenario: order of first lookups of a type (foreign class first / home class first)
    fitems = drv.fresh_items(U, wj)
    ftraces = []
    for order in ("foreign-first", "home-first"):
        ftraces += drv.run_fresh(order, fitems, U)
    for tr in ftraces:
        job_of[tr["tid"]] = ("fresh", {"order": tr.get("what"), "ty": tr.get("ty")})
        if tr["kind"] != "crash":
            ctx.distinct.add(tr["tid"])
    ctx.extra["fresh_traces"] = {"orders": ["foreign-first", "home-first"], "types": len(fitems), "traces": len(ftraces),
                                 "foreign_classes": list(drv.FOREIGN_CLASSES)}
    ctx.log("fresh-interpreter scenario: %d types x 2 orders, %d traces" % (len(fitems), len(ftraces)))
    alltr = wtraces + ttraces + ftraces
    ctx.evaluations = len(etraces) + sum(max(1, len(tr["ev"]) - 1) for tr in alltr)
    rej = ctx.validate("Trace_RdataText", "Trace_RdataText.cfg", alltr)
    for tr, line, clause in rej:
        layer, job = job_of.get(tr["tid"], ("?", None))
        ctx.violation(clause, classify(tr, line, clause), describe(tr, line),
                      {"layer": layer, "job": job, "line": line, "tier": ctx.tier, "trace": tr})


def replay(ctx):
    case = ctx.replay_case["case"]
    layer, job = case["layer"], case["job"]
    if layer == "exact":
        tr = drv.run_exact(tuple(job) if isinstance(job, list) else job)
        rej = ctx.validate("Trace_RdTokenizer", "Trace_RdTokenizer.cfg", [tr])
    elif layer == "fresh":
        U = ctx.generate("Gen_RdTextUniverse", ctx.cfg("gen_universe.cfg", GEN_CFG % ("FALSE" if case.get("tier", "quick") == "quick" else "TRUE")))[0]
        drv.set_universe(U)
        items = [it for it in drv.fresh_items(U, drv.vectors(U)) if it["ty"] == job["ty"]]
        trs = drv.run_fresh(job["order"], items, U)
        rej = ctx.validate("Trace_RdataText", "Trace_RdataText.cfg", trs)
    else:
        U = ctx.generate("Gen_RdTextUniverse", ctx.cfg("gen_universe.cfg", GEN_CFG % ("FALSE" if case.get("tier", "quick") == "quick" else "TRUE")))[0]
        drv.set_universe(U)
        tr = drv.run_wire(job) if layer == "wire" else drv.run_text(job)
        rej = ctx.validate("Trace_RdataText", "Trace_RdataText.cfg", [tr])
    ctx.evaluations = 1
    for tr, line, clause in rej:
        ctx.violation(clause, classify(tr, line, clause), describe(tr, line), dict(case, line=line, trace=tr))
