"""C06 - name comparison is the RFC 4034 canonical order, coherent with equality, hash,
relations, parent/split/relativize; RFC 4471 successor / predecessor."""
import concurrent.futures as cf
import json
import os
import random

from drivers import c06_order
from vlib import tlc

LEVEL = "model_checking"
META = {
    "text": "DnsName.tla states the canonical order (RFC 4034 6.1, RFC 4343 folding, relative-before-absolute), the "
            "relation / common-label count, subdomain, parent, split, relativize / derelativize and the RFC 4471 "
            "successor / predecessor as operators written from the RFCs and the dns.name documentation. TLC checks the "
            "order axioms and coherence laws on every pair of a 422-name universe around the case-folding range, "
            "transitivity on every triple of a sub-universe, the neighbour laws on names filled to 253..255 octets with "
            "1/62/63-octet labels, and - under shrunk limits - that Succ / Pred are THE least greater / greatest smaller "
            "name among all legal names of a zone. The driver evaluates fullcompare, the six rich comparisons, hash, "
            "is_subdomain / is_superdomain, parent, split, relativize / derelativize / choose_relativity, successor / "
            "predecessor, sorted / min / max and NameDict.get_deepest_match of the real code on the same universes "
            "(emitted by TLC) plus seeded random names over all 256 octets; Trace_DnsName recomputes every logged output "
            "with the specification's operators.",
    "note": "Exhaustive inside the universes of specs/NameUniverse.tla (U06: names of <=2 labels over 10 octets; V06; "
            "NeighbourCases); beyond them seeded random names (testing with the TLA+ oracle). Minimality of the real "
            "successor / predecessor is not demanded (property: strictly after / before or wrap), only counted as drift. "
            "Trusted: TLC, CommunityModules Json, the ~60-line projection in drivers/c06_order.py.",
    "technique": "TLA+ operators + TLC exhaustive law checking; TLC-emitted universes evaluated on the code; TLC trace validation",
    "design_ref": "DESIGN.md section 4, C06",
}

GEN_CFG = """INIT GInit
NEXT GNext
CONSTANTS
  MaxLabel = 63
  MaxWire = 255
  KLabel = 1
  KTwo = 1
  KText = 1
  KWire = 1
  VAlpha = {valpha}
  BigK = {bigk}
  BigFill = {bigfill}
  Kind = "{kind}"
INVARIANT Emit
CHECK_DEADLOCK FALSE
"""


def gen(ctx, kind, quick):
    cfg = ctx.cfg("gen_%s.cfg" % kind, GEN_CFG.format(
        kind=kind, valpha="{65, 91, 97}" if quick else "{0, 65, 91, 97}",
        bigk="{1, 62, 63}" if quick else "{1, 2, 61, 62, 63}", bigfill="{255, 90}" if quick else "{255, 97, 90}"))
    return [b[0] for b in ctx.generate("Gen_Names", cfg, count=False)]


# ------------------------------------------------------------------ seeded random names
LETTERS = b"AZaz@[`{\x00\xff.\\ mM"


def rnd_label(rng, maxlen=63):
    r = rng.random()
    n = 1 if r < 0.35 else 2 if r < 0.6 else rng.randint(3, 6) if r < 0.9 else rng.randint(7, max(7, maxlen))
    n = min(n, maxlen)
    if rng.random() < 0.5:
        return [rng.choice(LETTERS) for _ in range(n)]
    return [rng.randrange(256) for _ in range(n)]


def rnd_name(rng, absolute=None, maxlabels=5):
    while True:
        labels = [rnd_label(rng) for _ in range(rng.choice([0, 1, 1, 2, 2, 3, 4, maxlabels]))]
        if absolute is None:
            absolute = rng.random() < 0.6
        if absolute:
            labels.append([])
        if sum(len(x) + 1 for x in labels) <= 255:
            return labels


def flipcase(rng, labels):
    out = []
    for lab in labels:
        out.append([(c ^ 0x20) if (65 <= c <= 90 or 97 <= c <= 122) and rng.random() < 0.5 else c for c in lab])
    return out


def rnd_related(rng, a):
    """a second name with an interesting relation to a"""
    r = rng.random()
    if r < 0.15:
        return flipcase(rng, a)
    if r < 0.35 and a:
        k = rng.randrange(len(a) + 1)
        return flipcase(rng, a[k:])  # a superdomain (or the empty name)
    if r < 0.42 and a and a[0] and len(a[0]) < 60:
        # first label of b contains <length><first label of a>: equal on the wire suffix, not a subdomain
        k = rng.randrange(len(a)) if rng.random() < 0.3 else 0
        if a[k] and len(a[k]) <= 60 and sum(len(x) + 1 for x in a) <= 250:
            return a[:k] + [[rng.choice([97, 1, 200])] * rng.randint(0, 2) + [len(a[k])] + a[k]] + a[k + 1:]
    if r < 0.55:
        pre = [rnd_label(rng, 8) for _ in range(rng.randint(1, 2))]
        b = pre + flipcase(rng, a)
        return b if sum(len(x) + 1 for x in b) <= 255 else a
    if r < 0.8 and a and a[0]:
        b = [list(x) for x in a]
        i = rng.randrange(len(b))
        if b[i]:
            j = rng.randrange(len(b[i]))
            b[i][j] = rng.choice([b[i][j] ^ 0x20, (b[i][j] + 1) % 256, (b[i][j] - 1) % 256, rng.randrange(256)])
        return b
    return rnd_name(rng)


def swapcase(labels):
    return [[c ^ 0x20 if 65 <= c <= 90 or 97 <= c <= 122 else c for c in x] for x in labels]


def is_f6(n, o):
    """successor increments an upper-case 'Z' (no room to prefix or extend)"""
    full = n if (n and n[-1] == []) else n + o
    for lab in full:
        rest = [c for c in lab]
        while rest and rest[-1] == 255:
            rest.pop()
        if rest:
            return (rest[-1] == 0x5A) and ("ff-run" if len(rest) < len(lab) else "last")
    return False


def classify(tr, line, clause):
    ev = tr["ev"]
    e = ev[line - 1] if line and 0 < line <= len(ev) else {}
    op = e.get("op", "?")
    if op == "succ" and clause == "SuccGreater" and e.get("res", ["?"])[0] == "ok" and is_f6(e["n"], e["o"]):
        # (F6 as found had both shapes; a regression limited to the octet before a 0xFF run is told apart)
        return "F6:successor-increments-uppercase-Z:sorts-before" + (":before-ff-run" if is_f6(e["n"], e["o"]) == "ff-run" else "")
    if op == "rel" and clause in ("Relativize", "RelativizeRoundTrip") and e.get("o") == [] and e.get("n") \
            and e["n"][-1] != [] and e.get("rel") == ["ok", []]:
        return "F20:relativize-to-empty-origin:returns-empty-name"
    exc = ""
    for k in ("res", "derel", "parent"):
        v = e.get(k)
        if isinstance(v, list) and v and v[0] == "err":
            exc = v[1]
    how = ""
    if e.get("ca", "Name") != "Name" or e.get("cb", "Name") != "Name":
        cs = (e.get("ca", "Name"), e.get("cb", "Name"))
        how = ":operand-from=" + ("pickle" if any(c.startswith("pickle") for c in cs) else
                                  "deepcopy" if "deepcopy" in cs else "copy")
    return "%s:%s:%s%s" % (clause, op, exc, how)


def build_jobs(ctx, quick, u06, neigh, mimic=()):
    rng = random.Random(1000 + ctx.seed)
    jobs = []
    add = lambda kind, *args: jobs.append(("%s%d" % (kind[0], len(jobs)), kind, args))  # noqa: E731
    # every ordered pair of U06
    for a in u06:
        for b in u06:
            add("pair", a, b)
    # per name: parent, every split depth (and one beyond each end)
    names = list(u06) + [n for n, o in neigh[::7]]
    for n in names:
        add("name", n)
    # relativize / derelativize / choose_relativity against a sub-universe of origins
    origins = [n for n in u06 if all(len(x) <= 1 for x in n) and all(c in (65, 91, 97) for x in n for c in x)]
    for n in u06:
        for o in origins:
            add("rel", n, o)
    # the "mimic" universe (labels that contain <length><label> of other universe names): every
    # ordered pair, parent / split of every name, relativize against its plain-label members
    nstruct0 = len(jobs)
    for a in mimic:
        for b in mimic:
            add("pair", a, b)
    plain = ([97], [65], [1, 97])
    morigins = [n for n in mimic if all(x == [] or x in plain for x in n)]
    for n in mimic:
        add("name", n)
        for o in morigins:
            add("rel", n, o)
    nmimic = len(jobs) - nstruct0
    # the same names obtained through copy.copy / copy.deepcopy / pickle (every protocol): the derived
    # object against its original (both orders), against the case-swapped spelling, against its
    # parent-side suffix, and against a differently derived case-swapped object
    nder0 = len(jobs)
    ctors = c06_order.CTORS
    for i, n in enumerate(list(u06) + list(mimic)):
        sw = swapcase(n)
        for j, c in enumerate(ctors):
            add("derived", n, c, n, "Name")
            add("derived", n, "Name", n, c)
            add("derived", n, c, sw, "Name")
            add("derived", n[1:], "Name", n, c)
            add("derived", sw, ctors[(i + j) % len(ctors)], n, c)
    nmimic += len(jobs) - nder0
    # RFC 4471 neighbours: every case of NeighbourCases, prefix_ok both ways
    for n, o in neigh:
        for p in (True, False):
            add("neigh", "succ", n, o, p)
            add("neigh", "pred", n, o, p)
    ctx.extra["universe"] = {"U06": len(u06), "pairs": len(u06) ** 2, "rel_origins": len(origins),
                             "neighbour_cases": len(neigh), "UMimic": len(mimic), "mimic_pairs": len(mimic) ** 2,
                             "mimic_rel_origins": len(morigins),
                             "derived_constructors": len(c06_order.CTORS)}
    # seeded random names over all 256 octets
    nrand = 20000 if quick else 300000
    for _ in range(nrand):
        a = rnd_name(rng)
        b = rnd_related(rng, a)
        if rng.random() < 0.5:
            a, b = b, a
        add("pair", a, b)
    for _ in range(nrand // 5):
        a = rnd_name(rng)
        b = rnd_related(rng, a)
        ca, cb = rng.choice(c06_order.CTORS), rng.choice(["Name", "Name"] + c06_order.CTORS)
        add("derived", a, ca, b, cb)
        add("derived", b, cb, a, ca)
        add("derived", a, ca, a, "Name")
    for _ in range(nrand // 10):
        a = rnd_name(rng)
        add("name", a)
        b = rnd_related(rng, a)
        add("rel", *((a, b) if rng.random() < 0.5 else (b, a)))
    for _ in range(nrand // 10):
        o = rnd_name(rng, absolute=True, maxlabels=2)
        pre = rnd_name(rng, absolute=False, maxlabels=3)
        if rng.random() < 0.3 and pre:
            # push the name to the length limits
            room = 255 - sum(len(x) + 1 for x in pre + o)
            while room > 1 and rng.random() < 0.9:
                k = min(63, room - 1)
                pre = pre + [[rng.choice([255, 255, 90, 122, 64]) for _ in range(k)]]
                room -= k + 1
        if sum(len(x) + 1 for x in pre + o) > 255:
            continue
        n = pre if rng.random() < 0.5 else pre + o
        add("neigh", rng.choice(["succ", "pred"]), n, o, rng.random() < 0.5)
    for _ in range(300 if quick else 5000):
        k = rng.randint(0, 24)
        pool = [rng.choice(u06) for _ in range(k)] if rng.random() < 0.5 else [rnd_related(rng, rnd_name(rng)) for _ in range(k)]
        add("sorted", pool)
    for _ in range(400 if quick else 6000):
        q = rnd_name(rng) if rng.random() < 0.5 else rng.choice(u06)
        keys = [rnd_related(rng, q) for _ in range(rng.randint(0, 6))]
        if rng.random() < 0.7:
            keys.append([])
        dels = [k for k in keys if rng.random() < 0.25]
        add("deepest", keys, dels, q)
    ctx.extra["random_cases"] = len(jobs) - len(u06) ** 2 - len(names) - len(u06) * len(origins) - 4 * len(neigh) - nmimic
    return jobs


def nontrivial(job):
    tid, kind, args = job
    if kind == "pair":
        return args[0] != args[1]
    if kind == "sorted":
        return len(args[0]) > 1
    return True


def run(ctx):
    quick = ctx.tier == "quick"
    ctx.rule = ("universes emitted by TLC from specs/NameUniverse.tla (all ordered pairs of the 422-name universe U06, "
                "every name x a sub-universe of origins, every NeighbourCases entry x prefix_ok; all ordered pairs, parent/split and "
                "relativize of the 236-name mimic universe whose labels contain <length><label> of other names; the pair "
                "observations on copy / deepcopy / pickle (protocols 0..5) round trips of every universe name) plus seeded random names "
                "over all 256 octets (related pairs: case flips, suffixes, prefixes, single-octet changes); one event per "
                "evaluation; distinct = distinct (operation, arguments); non-trivial = the two names of a pair differ / a "
                "sorted sample has at least two names")
    ctx.assumptions += ["TLC and CommunityModules Json are correct", "driver projection (drivers/c06_order.py) is faithful",
                        "exhaustive only inside the universes of specs/NameUniverse.tla; beyond them seeded random names",
                        "minimality of successor / maximality of predecessor is not part of the property (drift only)"]
    if ctx.replay_case:
        job = ctx.replay_case["case"]["job"]
        jobs = [(job[0], job[1], job[2])]
        traces = [c06_order.run_job(jobs[0])]
        mc = []
    else:
        # quick: single-worker model runs (one TLC slot each: the machine-wide slot throttle starves
        # multi-worker requests when many checks run at once); they overlap with the validation
        ex = cf.ThreadPoolExecutor(max_workers=6)
        # quick: the modes of MC_DnsName_quick.cfg as three single-worker runs side by side
        base = open(os.path.join(tlc.SPECS, "MC_DnsName_quick.cfg")).read()
        allmodes = 'Modes = {"pair", "mimic", "triple", "neigh", "neigh2", "cons"}'
        assert allmodes in base
        split = [ctx.cfg("mc_%d.cfg" % i, base.replace(allmodes, "Modes = " + m))
                 for i, m in enumerate(('{"pair", "mimic"}', '{"triple", "cons"}', '{"neigh"}', '{"neigh2"}'))]
        if quick:
            mc = [ex.submit(ctx.model, "MC_DnsName", c, workers=1) for c in split]
        else:
            mc = [ex.submit(ctx.model, "MC_DnsName", "MC_DnsName_thorough.cfg", workers=12)]
        mc.append(ex.submit(ctx.model, "MC_DnsName", "MC_DnsName_zone.cfg" if quick else "MC_DnsName_zone_thorough.cfg",
                            workers=1 if quick else 4))
        u06 = gen(ctx, "u06", quick)
        neigh = gen(ctx, "neigh", quick)
        mimic = gen(ctx, "mimic", quick)
        jobs = build_jobs(ctx, quick, u06, neigh, mimic)
        ctx.log("%d evaluations to run on the implementation" % len(jobs))
        traces = ctx.pmap(c06_order.run_job, jobs, chunk=2000)
        for tr in traces[:2] + traces[len(u06) ** 2 + 5:len(u06) ** 2 + 6] + traces[-2:]:
            ctx.sample(tr["ev"][0])
    jobmap = {j[0]: j for j in jobs}
    ctx.distinct = set(json.dumps(j[1:], separators=(",", ":")) for j in jobs if nontrivial(j))
    ctx.evaluations = len(traces)
    # drift: the exact RFC 4471 neighbour (not demanded by the property), judged by the strict
    # configuration in a side thread while the hard clauses are validated
    neigh_traces = [tr for tr in traces if tr["ev"][0].get("op") in ("succ", "pred")]
    side = cf.ThreadPoolExecutor(max_workers=1)
    fut = side.submit(ctx.validate, "Trace_DnsName", "Trace_DnsName_strict.cfg", neigh_traces)
    try:
        rejects = ctx.validate("Trace_DnsName", "Trace_DnsName.cfg", traces)
    finally:
        drift = fut.result()
    rejected = {tr["tid"] for tr, _, _ in rejects}
    drift = [r for r in drift if r[0]["tid"] not in rejected]     # failing a hard clause is not drift
    neigh_traces = [tr for tr in neigh_traces if tr["tid"] not in rejected]
    ctx.traces = len(traces)
    ctx.drift = len(drift)
    ctx.extra["drift_detail"] = {"neighbour_not_exact": len(drift), "neighbour_cases": len(neigh_traces)}
    for f in mc:
        f.result()
    for tr, line, clause in rejects:
        sig = classify(tr, line, clause)
        e = tr["ev"][line - 1] if line else {}
        ctx.violation(clause, sig, "event %s" % json.dumps(e)[:400], {"job": jobmap.get(tr["tid"]), "line": line, "trace": tr})
