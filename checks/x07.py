"""X07 - the master-file lexer (dns.tokenizer.Tokenizer) matches the Lexer specification.
Growth of the specification beyond C01-C20 (DESIGN.md section 7); not in MANIFEST.json."""
import collections
import concurrent.futures as cf
import json
import os

from drivers import x07_lexer, x07_typed
from vlib.core import Machinery

LEVEL = "model_checking"
META = {
    "text": "Lexer.tla is a character-level automaton for the master-file lexical rules of RFC 1035 section 5.1 and the "
            "docstrings of dns.tokenizer (token kinds, parentheses depth, comments, quoting, backslash escapes, line numbers, "
            "get(want_leading, want_comment) / unget / skip_whitespace); what the texts leave open is a dialect chosen per "
            "trace. TLC checks the machine (depth never negative and moved only by parentheses, lines end only outside "
            "parentheses, token shapes, machine = function) and laws of the function (canonical text re-lexes to the same "
            "tokens, unget-get identity, options only add tokens, tabs = spaces, parentheses hide lines, balanced <=> "
            "accepted). TLC emits every input string up to a length x call policies plus seeded walks over fragments; the "
            "real Tokenizer is run on each (str / StringIO / read(1) object / bytes) and Trace_Lexer replays every call. "
            "LexerTyped.tla binds the typed helpers (get_int/uint8/16/32/48 with bases, get_string, get_identifier, "
            "get_name, get_ttl, get_eol, get_remaining, concatenate_remaining_identifiers) on a declared table of inputs.",
    "note": "Exhaustive only inside the declared universes (12-character alphabet, strings <= 4 quick / <= 5 thorough; helper "
            "tables); CR handling, newline inside quotes, backslash-newline, white space after a closing quote, the error "
            "subclass and one character of line look-ahead are free choices reported as drift counters.",
    "technique": "TLA+ automaton + TLC invariants and laws; TLC-generated inputs replayed on the code; TLC trace validation",
    "design_ref": "DESIGN.md section 7 (growth); RFC 1035 section 5.1",
}
GEN = """INIT GInit
NEXT GNext
CONSTANTS
  Mode = "{mode}"
  Alphabet <- FullAlphabet
  N = {n}
  Policies <- {pols}
  Fragments <- WalkFragments
  Steps = {steps}
INVARIANT Emit
CHECK_DEADLOCK FALSE
"""
GENT = 'INIT GInit\nNEXT GNext\nCONSTANTS\n  Part = "%s"\nINVARIANT Emit\nCHECK_DEADLOCK FALSE\n'
SRC = x07_lexer.SOURCES
NL, CR, DQ, BS = 10, 13, 34, 92


def show(cs):
    return "".join(chr(c) if 32 < c < 127 else "\\x%02x" % c for c in cs)


def classify_lex(tr, line, clause):
    e = tr["ev"][line - 1] if line and 0 < line <= len(tr["ev"]) else {}
    return "%s:%s:%s" % (clause, e.get("op", "?"), e.get("exc", e.get("k", "")))


def classify_typed(tr, line, clause):
    e = tr["ev"][line - 1] if line and 0 < line <= len(tr["ev"]) else {}
    h = e.get("h", "?")
    if e.get("arg") == 0:
        if clause == "Refused_get_string_zero" and e["res"] == "ok" and len(e["val"]) > 0:
            return "X07-F1:get_string:max_length-0-ignored"
        if h == "get_remaining" and ((clause == "Remaining_zero" and e["res"] == "ok" and len(e["toks"]) > 0)
                                     or (clause == "Accepted_get_remaining_zero" and e["res"] == "err")):
            return "X07-F1:get_remaining:max_tokens-0-ignored"
    return "%s:%s:%s" % (clause, h, e.get("exc", "ok"))


def lex_batch(ctx, name, behs, nsrc, stats, drift):
    """drive + validate one generated part; returns nothing (violations are recorded)"""
    jobs = []
    for i, b in enumerate(behs):
        for k in range(nsrc):
            jobs.append({"tid": "%s.%d.%s" % (name, i, SRC[(i + k) % 4]), "s": b["s"], "pol": b["pol"], "src": SRC[(i + k) % 4]})
    jobmap = {j["tid"]: j for j in jobs}
    traces = ctx.pmap(x07_lexer.run_job, jobs)
    ctx.sample({"tid": traces[len(traces) // 2]["tid"], "s": traces[len(traces) // 2]["s"], "ev": traces[len(traces) // 2]["ev"][:3]})
    for tr in traces:
        stats["events"] += len(tr["ev"])
        for e in tr["ev"]:
            if e["op"] == "get":
                stats["tok_" + e.get("k", "error")] += 1
        if sum(1 for e in tr["ev"] if e["op"] == "get" and e.get("k") in ("IDENTIFIER", "QUOTED_STRING", "COMMENT")) >= 2:
            ctx.note_distinct(show(tr["s"]))
    for tr, line, clause in ctx.validate("Trace_Lexer", "Trace_Lexer.cfg", traces):
        e = tr["ev"][line - 1] if line else {}
        ctx.violation(clause, classify_lex(tr, line, clause), "input %r (%s) event %s: %s" % (show(tr["s"]), tr["src"], line, json.dumps(e)[:300]),
                      {"part": "lex", "job": jobmap[tr["tid"]], "line": line, "trace": tr})
    if drift:
        before = ctx.traces
        sel = {"rfc": [tr for tr in traces if NL in tr["s"] and (DQ in tr["s"] or BS in tr["s"])],
               "cr": [tr for tr in traces if CR in tr["s"]], "line": [tr for tr in traces if NL in tr["s"]]}
        for key, part in sel.items():
            if not part:
                continue
            bad = ctx.validate("Trace_Lexer", "Trace_Lexer_%s.cfg" % key, part)
            stats["drift_%s_judged" % key] += len(part)
            stats["drift_%s" % key] += len(bad)
        ctx.traces = before
    return len(traces)


def part_lexer(ctx, quick, stats):
    if ctx.replay_case:
        job = ctx.replay_case["case"]["job"]
        tr = x07_lexer.run_job(job)
        for tr, line, clause in ctx.validate("Trace_Lexer", "Trace_Lexer.cfg", [tr]):
            ctx.violation(clause, classify_lex(tr, line, clause), "replayed input %r event %s" % (show(tr["s"]), line),
                          {"part": "lex", "job": job, "line": line, "trace": tr})
        return
    plan = [(n, "AllPolicies", 4 if n <= 2 else 1) for n in range(0, 4 if quick else 5)]
    plan.append((4, "CorePolicies", 1) if quick else (5, "TwoPolicies", 1))
    if os.environ.get("X07_MAXN"):   # development / mutation harness convenience: a smaller universe
        plan = [p for p in plan if p[0] <= int(os.environ["X07_MAXN"])]
    for n, pols, nsrc in plan:
        behs = ctx.generate("Gen_Lexer", ctx.cfg("gl%d.cfg" % n, GEN.format(mode="all", n=n, pols=pols, steps=0)), deadlock=False)
        stats["lex_inputs_len%d" % n] = len({tuple(b["s"]) for b in behs})
        stats["lex_traces"] += lex_batch(ctx, "n%d" % n, behs, nsrc, stats, drift=n <= 3)
    num, steps = (1500, 5) if quick else (8000, 7)
    behs = ctx.generate("Gen_Lexer", ctx.cfg("glw.cfg", GEN.format(mode="walk", n=0, pols="TwoPolicies", steps=steps)), deadlock=False,
                        simulate="num=%d" % num, depth=steps + 2, seed=ctx.seed + 7, limit=4 * num)
    stats["lex_walks"] = len(behs)
    stats["lex_traces"] += lex_batch(ctx, "w", behs, 1, stats, drift=True)


def part_typed(ctx, stats):
    if ctx.replay_case:
        jobs = [ctx.replay_case["case"]["job"]]
    else:
        jobs = []
        for part in ("int", "str", "line"):
            for b in ctx.generate("Gen_LexerTyped", ctx.cfg("gt_%s.cfg" % part, GENT % part), deadlock=False):
                jobs.append({"tid": "%s%d" % (part, len(jobs)), "s": b["s"], "calls": b["calls"], "src": SRC[len(jobs) % 4]})
    jobmap = {j["tid"]: j for j in jobs}
    traces = [x07_typed.run_job(j) for j in jobs]
    ctx.sample(traces[len(traces) // 3])
    for tr in traces:
        stats["helper_calls"] += len(tr["ev"])
        ctx.note_distinct("typed:" + tr["tid"] if len(tr["ev"]) >= 2 else "typed-short")
    rejects = ctx.validate("Trace_LexerTyped", "Trace_LexerTyped.cfg", traces)
    # traces that only trip X07-F1 are judged again with the zero limit read as "not specified"
    again = [tr for tr, line, clause in rejects if classify_typed(tr, line, clause).startswith("X07-F1:")]
    rejects += ctx.validate("Trace_LexerTyped", "Trace_LexerTyped_zero.cfg", again)
    stats["typed_traces"] = len(traces)
    stats["typed_traces_rejected_for_zero_limit_only"] = len(again)
    for tr, line, clause in rejects:
        e = tr["ev"][line - 1] if line else {}
        ctx.violation(clause, classify_typed(tr, line, clause), "helper script on %r event %s: %s" % (show(tr["s"]), line, json.dumps(e)[:300]),
                      {"part": "typed", "job": jobmap[tr["tid"]], "line": line, "trace": tr})


def run(ctx):
    quick = ctx.tier == "quick"
    ctx.rule = ("behaviours = (input string, call policy) pairs emitted by TLC from Gen_Lexer (every string up to the declared length "
                "x policies, plus seeded walks over fragments) and helper scripts from Gen_LexerTyped; distinct non-trivial = distinct "
                "input with >= 2 text tokens, or helper script of >= 2 calls; evaluations = calls of the real Tokenizer that were judged")
    ctx.assumptions += ["TLC and CommunityModules Json are correct", "driver projections (drivers/x07_*.py) are faithful",
                        "exhaustive only inside the declared universes; beyond them seeded walks",
                        "free choices (dialect knobs, error subclass, line look-ahead) are not judged, only counted as drift"]
    stats = collections.Counter()
    part = ctx.replay_case["case"]["part"] if ctx.replay_case else (os.environ.get("X07_PART") or None)
    models = []
    if not ctx.replay_case and not os.environ.get("X07_MAXN"):
        tier = "quick" if quick else "thorough"
        runs = [("MC_Lexer", "MC_Lexer_%s.cfg" % tier, 1 if quick else 8), ("MC_LexerLaws", "MC_LexerLaws_%s.cfg" % tier, 1 if quick else 4),
                ("MC_LexerLaws", "MC_LexerLaws_%s2.cfg" % tier, 1)]
        pool = cf.ThreadPoolExecutor(max_workers=3)
        models = [pool.submit(ctx.model, mod, cfg, workers=w) for mod, cfg, w in runs]
    if part in (None, "typed"):
        part_typed(ctx, stats)
    if part in (None, "lex"):
        part_lexer(ctx, quick, stats)
    for f in models:
        r = f.result()
        if r.distinct < 1000:
            raise Machinery("model run explored only %d states" % r.distinct)
    ctx.evaluations = stats["events"] + stats["helper_calls"]
    ctx.drift = stats["drift_rfc"] + stats["drift_cr"] + stats["drift_line"]
    ctx.extra.update({k: v for k, v in sorted(stats.items())})
