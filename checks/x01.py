"""X01 (growth) - address and special-name codecs: dns.ipv4 / dns.ipv6 (RFC 4291 text forms,
RFC 5952 canonical text), dns.inet classifiers, dns.reversename, dns.e164."""
import concurrent.futures as cf
import hashlib
import json
import os
import random
import re

from drivers import x01_addr
from vlib import tlc
from vlib.core import Machinery

LEVEL = "model_checking"
META = {
    "text": "AddrCodec.tla: Aton4 (strict dotted quad), Aton6 (the three RFC 4291 2.2 text forms, scope ids per the "
            "dns.ipv6.inet_aton docstring), Hex5952 (RFC 5952 section 4 constructor) and IsCanonical5952 (section 4 as a "
            "predicate on texts), Canon6 (mixed notation for the RFC 4291 2.5.5 embedded kinds as a free choice); "
            "AddrNames.tla: in-addr.arpa / ip6.arpa names (RFC 1035 3.5, RFC 3596 2.5), ENUM names, dns.inet classifiers. TLC "
            "checks on AddrUniverse.tla (every zero / non-zero pattern of the 8 groups x value schemes, embedded IPv4, boundary "
            "octets^4): Aton(Ntoa(a)) = a, every RFC 4291 spelling denotes its address, exactly one pure-hex spelling is "
            "canonical and it is the constructor's, Ntoa(Aton(t)) is canonical for every single-fault text that still parses, "
            "reverse-name and ENUM round trips, faulted reverse names are refused or are the reverse name of what they denote. "
            "The same universe (emitted by TLC: spellings, single-fault texts, faulted names) plus seeded random inputs is run "
            "on the real functions, one single-event trace per call group; Trace_AddrCodec recomputes every outcome.",
    "note": "Growth check beyond C01-C20 (DESIGN.md section 7); not in MANIFEST.json. Free: the exception class where none is "
            "documented, dotted-quad octets with leading zeros, empty / repeated scope ids, the spelling (hex or mixed) of an "
            "embedded address, the reverse name (ip6.arpa or in-addr.arpa) of an IPv4-mapped address, label case. "
            "dns.e164.query, named scopes (if_nametoindex) and non-ASCII decimal digits are out of scope.",
    "technique": "TLA+ functional specification + TLC exhaustive laws; TLC-emitted universe run on the code; TLC trace validation",
    "design_ref": "DESIGN.md section 7 (address codecs, reversename, e164); notes/X01.md",
}

UNIVERSE = """  Schemes = {schemes}
  QuadOctets = {quads}
  V4Octets = {{0, 1, 9, 10, 99, 100, 255}}
  E164Alphabet = {{48, 49, 57, 43, 32, 45, 46, 40, 97}}
  E164Len = {elen}
"""
GEN_CFG = """INIT GInit
NEXT GNext
CONSTANTS
""" + UNIVERSE + """  Kinds = {{"a6", "emb", "a4", "e164"}}
  SpellSchemes = {spell}
  FaultSchemes = {fault}
  WideSchemes = {wide}
  NameSchemes = {names}
  FaultOctets = {foct}
  FaultMod = {fmod}
  FaultRem = {frem}
  NameMod = {nmod}
  WideMod = {wmod}
INVARIANT Emit
CHECK_DEADLOCK FALSE
"""
VAC = ["Vac_TieFirst", "Vac_SingleZero", "Vac_Mixed", "Vac_FaultAccepted", "Vac_Free4", "Vac_E164"]

IN_ADDR = [list(b"in-addr"), list(b"arpa"), []]
IP6 = [list(b"ip6"), list(b"arpa"), []]
ALT4 = [list(b"v4"), list(b"ex"), []]
ALT6 = [list(b"v6"), list(b"ex"), []]
E164 = [list(b"e164"), list(b"arpa"), []]
ALTE = [list(b"enum"), list(b"ex"), []]
NONE = ["none"]


def bounds(quick):
    if quick:
        return dict(schemes="{1, 2, 3}", quads="{0, 1, 255}", elen=3, spell="{1}", fault="{1}", wide="{}",
                    names="{2}", foct="{0, 255}", fmod=8, nmod=16, wmod=8)
    return dict(schemes="{1, 2, 3, 4, 5}", quads="{0, 1, 10, 100, 255}", elen=4, spell="{1, 2, 3, 4, 5}",
                fault="{1, 2}", wide="{3}", names="{2, 3}", foct="{0, 10, 255}", fmod=1, nmod=1, wmod=4)


# ------------------------------------------------------------------ jobs
class Jobs:
    def __init__(self):
        self.jobs = []
        self.seen = set()

    def add(self, op, *args):
        key = json.dumps([op, args], separators=(",", ":"))
        if key in self.seen:
            return
        self.seen.add(key)
        self.jobs.append(("%s%d" % (op, len(self.jobs)), op, args))

    def text(self, cs):
        """the four call groups every text goes through"""
        self.add("aton", cs)
        self.add("canon", cs)
        self.add("inet", cs, 53)
        self.add("fromaddr", cs, ALT4, ALT6)

    def revname(self, n, o_def, o_alt, alt=True):
        self.add("toaddr", n, IN_ADDR, IP6, True)
        if alt and len(n) >= 3 and [bytes(x).lower() for x in n[-3:]] == [bytes(x) for x in o_def]:
            self.add("toaddr", n[:-3] + o_alt, ALT4, ALT6, False)       # the same name below custom origins
            self.add("toaddr", n, ALT4, ALT6, False)                    # ... and a name outside them

    def enum(self, n):
        for origin in (["some", E164], NONE, ["some", ALTE]):
            for plus in (True, False):
                self.add("e164t", n, origin, plus)


def build_jobs(ctx, quick, behs, rng):
    J = Jobs()
    cnt = {"a6": 0, "a4": 0, "e164": 0, "texts": 0, "names": 0}
    for b in behs:
        k = b["k"]
        cnt[k] += 1
        if k == "a6":
            a = b["a"]
            J.add("ntoa6", a)
            if cnt[k] % 64 == 1:
                for bad in (a[:15], a + [0], [], a[:4]):
                    J.add("ntoa6", bad)
            for cs in b["sp"] + b["fl"]:
                J.text(cs)
            for n in b["nm"]:
                J.revname(n, IP6, ALT6, not quick or cnt[k] % 8 == 1)
            for n in b["nf"]:
                J.revname(n, IP6, ALT6)
        elif k == "a4":
            a = b["a"]
            J.add("ntoa4", a)
            if cnt[k] % 64 == 1:
                for bad in (a[:3], a + [1], []):
                    J.add("ntoa4", bad)
            for cs in b["tx"] + b["fl"]:
                J.text(cs)
            for n in b["nm"]:
                J.revname(n, IN_ADDR, ALT4, not quick or cnt[k] % 8 == 1)
            for n in b["nf"]:
                J.revname(n, IN_ADDR, ALT4)
        elif k == "e164":
            cs = b["text"]
            J.add("e164f", cs, ["some", E164], True)
            for origin in (["some", E164], ["some", ALTE], NONE):
                J.add("e164f", cs, origin, False)
            for n in b["nm"] + b["nf"]:
                J.enum(n)
    for bad in (0, 12345, -1):
        J.add("family", bad)
    n_universe = len(J.jobs)
    random_jobs(J, quick, rng)
    ctx.extra["universe"] = {"addresses_v6": cnt["a6"], "addresses_v4": cnt["a4"], "e164_texts": cnt["e164"],
                             "texts": sum(1 for j in J.jobs[:n_universe] if j[1] == "aton"),
                             "reverse_names": sum(1 for j in J.jobs[:n_universe] if j[1] == "toaddr"),
                             "enum_names": len({json.dumps(j[2][0]) for j in J.jobs[:n_universe] if j[1] == "e164t"}),
                             "universe_jobs": n_universe}
    ctx.extra["random_cases"] = len(J.jobs) - n_universe
    return J.jobs


PIECES = ["0", "1", "00ff", "FFFF", "abcd", "AbC", "12345", "g", "", "0000", "fe80", "ffff", "10", "1.2.3.4",
          "255.255.255.255", "256.1.1.1", "01.1.1.1", "1.2.3", "0.0.0.0", "1.2.3.4.5", "7f", "dead", "beef"]
TAILS = ["", "", "", "%1", "%eth0", "%", "\n", " ", "/64", "::", ":"]


def random_jobs(J, quick, rng):
    n = 1500 if quick else 30000
    for _ in range(n):                                  # addresses over all octets, dense and sparse
        if rng.random() < 0.5:
            a = [rng.randrange(256) for _ in range(16)]
        else:
            a = []
            for _g in range(8):
                a += [0, 0] if rng.random() < 0.55 else [rng.choice([0, 0, 255, rng.randrange(256)]), rng.randrange(256)]
        J.add("ntoa6", a)
        J.add("ntoa4", a[:4])
    for _ in range(n):                                  # texts from a grammar of pieces
        k = rng.randint(1, 9)
        ps = [rng.choice(PIECES) for _ in range(k)]
        s = ":".join(ps)
        if rng.random() < 0.6:
            i = rng.randint(0, len(s))
            s = s[:i] + "::" + s[i:]
        s += rng.choice(TAILS)
        J.text([ord(c) for c in s])
    hexl = [[c] for c in b"0123456789abcdefABCDEF"]
    for _ in range(n // 3):                             # reverse names around the legal shapes
        if rng.random() < 0.5:
            labels = [rng.choice(hexl) for _ in range(rng.choice([32, 32, 31, 33, 30, 29, 16, 1]))]
            if rng.random() < 0.3 and labels:
                labels[rng.randrange(len(labels))] = rng.choice([list(b"ab"), [58], list(b"g"), list(b"10")])
            n_ = labels + rng.choice([IP6, IP6, ALT6, IN_ADDR])
        else:
            labels = [list(str(rng.choice([0, 1, 9, 10, 99, 100, 255, 256, 300])).encode()) for _ in range(rng.choice([4, 4, 4, 3, 5]))]
            if rng.random() < 0.3:
                labels[rng.randrange(len(labels))] = rng.choice([list(b"1.2"), list(b"01"), list(b"1a"), list(b"+1")])
            n_ = labels + rng.choice([IN_ADDR, IN_ADDR, ALT4, IP6])
        J.add("toaddr", n_, IN_ADDR, IP6, True)
        J.add("toaddr", n_, ALT4, ALT6, False)
    alpha = "0123456789+-. ()abx/é"
    for _ in range(n // 3):                             # longer E.164 texts
        s = "".join(rng.choice(alpha) for _ in range(rng.randint(0, 18)))
        J.add("e164f", [ord(c) for c in s], rng.choice([["some", E164], ["some", ALTE], NONE]), False)
        labels = [[rng.choice(b"0123456789")] for _ in range(rng.randint(0, 15))]
        if rng.random() < 0.3 and labels:
            labels[rng.randrange(len(labels))] = rng.choice([list(b"12"), list(b"a"), [0xb2], list(b"+")])
        J.enum(labels + rng.choice([E164, E164, ALTE, [], [[]]]))


# ------------------------------------------------------------------ triage
V4TAIL = re.compile(r"(^|:)\d+\.\d+\.\d+\.\d+\n$")


# the clauses that fail when a text the specification refuses is ACCEPTED by the call
ACCEPTS = {"Aton6", "Aton6Bytes", "Aton6IgnoreScope", "Pton6", "Canon6", "CanonInet", "AfForAddress", "IsAddress",
           "IsMulticast", "LowLevelTuple", "FromAddress", "FromAddressOrigins"}


def shape(cs):
    """abstract spelling of a text: digit runs -> #, other hex-digit runs -> h, the rest literal"""
    out = []
    run = ""
    for c in list(cs) + [-1]:
        ch = chr(c) if c >= 0 else ""
        if ch and ch in "0123456789abcdefABCDEF":
            run += ch
            continue
        if run:
            out.append("#" if run.isdigit() else "h")
            run = ""
        if c >= 0:
            out.append(ch if 32 < c < 127 else "\\x%02x" % c if c < 256 else "\\u%04x" % c)
    return "".join(out)[:60]


def classify(tr, line, clause):
    """Case signature.  The defects documented in notes/X01.md get SPECIFIC signatures; any
    other rejected trace gets a generic clause:op:shape signature and is reported as new."""
    e = tr["ev"][line - 1] if line else tr["ev"][0]
    op = e.get("op", "?")
    if "text" in e and op in ("aton", "canon", "inet", "fromaddr"):
        s = "".join(chr(c) for c in e["text"])
        head = s.split("%")[0] if op == "inet" or clause in ("Aton6IgnoreScope", "Pton6") else s
        if V4TAIL.search(head) and ":" in head and clause in ACCEPTS:
            # X01-F1: "<ipv6 text ending in a dotted quad>\n" is accepted ('$' matches before a final newline)
            return "%s:%s:newline-after-embedded-ipv4" % (clause, op)
        return "%s:%s:%s" % (clause, op, shape(e["text"]))
    if op == "toaddr" and clause == "ToAddressRefuses" and e["res"][0] == "ok":
        n, o4, o6 = e["n"], e["o4"], e["o6"]
        low = [bytes(x).lower() for x in n]
        for fam, o in (("v4", o4), ("v6", o6)):
            k = len(o)
            if len(n) >= k and low[len(n) - k:] == [bytes(x).lower() for x in o]:
                rel = n[:len(n) - k]
                if fam == "v4" and any(46 in x for x in rel):
                    # X01-F2a: a label containing '.' is split into several octets
                    return "%s:toaddr:v4-label-containing-dot" % clause
                if fam == "v6" and (len(rel) != 32 or any(len(x) != 1 for x in rel)):
                    # X01-F2b: labels are concatenated in fours, whatever their number and length
                    return "%s:toaddr:v6-not-32-one-nibble-labels" % clause
                return "%s:toaddr:%s:%d-labels" % (clause, fam, len(rel))
        return "%s:toaddr:elsewhere" % clause
    if op == "toaddr":
        return "%s:toaddr:%d-labels:%s" % (clause, len(e["n"]), e["res"][0])
    if op in ("e164f", "e164t"):
        return "%s:%s:%s" % (clause, op, shape(e.get("text", [])) if op == "e164f" else "%d-labels" % len(e["n"]))
    if op in ("ntoa6", "ntoa4"):
        return "%s:%s:len%d:%s" % (clause, op, len(e["a"]), "".join("%02x" % x for x in e["a"])[:32])
    return "%s:%s" % (clause, op)


def nontrivial(job):
    return job[1] not in ("ntoa4",)


RULE = ("universe emitted by TLC from specs/AddrUniverse.tla via Gen_AddrCodec (every zero/non-zero pattern of the 8 "
        "groups x value schemes, ::/96 and ::ffff:0:0/96 over boundary octets, addresses around ff00::/8, "
        "{0,1,9,10,99,100,255}^4 with first octets around 224/4; for each address all RFC 4291 spellings, single-fault texts, "
        "its reverse names and single-fault reverse names; every E.164 text over a 9-character alphabet up to the tier's "
        "length) plus seeded random addresses / texts / names; one single-event trace per (input, call group); "
        "distinct = distinct (call group, arguments)")
ASSUME = ["TLC and CommunityModules Json are correct", "driver projection (drivers/x01_addr.py) is faithful",
          "exhaustive only inside the universes of specs/AddrUniverse.tla; beyond them seeded random inputs",
          "texts reach the functions as str (and as bytes when ASCII); lone surrogates are not exercised",
          "named scope ids (socket.if_nametoindex) and dns.e164.query are outside the specification"]
BATCH = 250000


def digest(tr):
    return hashlib.md5(json.dumps(tr, sort_keys=True, separators=(",", ":")).encode()).hexdigest()[:16]


def start_models(ctx, quick, ex):
    """the laws (sliced into single-worker TLC runs) and the vacuity witnesses, as futures"""
    b = bounds(quick)
    base = "SPECIFICATION Spec\nCONSTANTS\n" + UNIVERSE.format(**b)
    invs = [ln for ln in open(os.path.join(tlc.SPECS, "MC_AddrCodec_quick.cfg")).read().splitlines() if ln.startswith("INVARIANT")]
    na6 = 8
    runs = [('{"a6"}', "%d..%d" % (i * 256 // na6, (i + 1) * 256 // na6 - 1), 1) for i in range(na6)]
    runs += [('{"e164"}', "0..255", 1), ('{"emb"}', "0..255", 1 if quick else 4),
             ('{"a4"}', "{0, 1, 9, 223}", 1), ('{"a4"}', "{10, 99, 224, 239}", 1), ('{"a4"}', "{100, 240, 255}", 1)]
    mc, vac = [], []
    for i, (modes, keys, w) in enumerate(runs):
        cfg = ctx.cfg("mc_%d.cfg" % i, base + "  Modes = %s\n  KeySel <- Sel\n  WideFaults = %s\n" % (modes, "FALSE" if quick else "TRUE")
                      + "\n".join(invs) + "\nCHECK_DEADLOCK FALSE\n")
        mod = ctx.cfg("MCX01_%d.tla" % i, "---- MODULE MCX01_%d ----\nEXTENDS MC_AddrCodec\nSel == %s\n====\n" % (i, keys))
        mc.append(ex.submit(ctx.model, mod, cfg, workers=w))
    for v in VAC:
        cfg = ctx.cfg("vac_%s.cfg" % v, base.replace(b["schemes"], "{1, 2, 3}").replace(b["quads"], "{0, 1, 255}")
                      + '  Modes = {"a6", "emb", "a4", "e164"}\n  KeySel <- AllKeys\n  WideFaults = FALSE\nINVARIANT %s\nCHECK_DEADLOCK FALSE\n' % v)
        vac.append((v, ex.submit(ctx.model, "MC_AddrCodec", cfg, workers=1, expect_ok=False, count=False)))
    return mc, vac


def run(ctx):
    quick = ctx.tier == "quick"
    rng = random.Random(ctx.seed * 7919 + 11)
    ctx.rule = RULE
    ctx.assumptions += ASSUME
    # Mutation support (notes/X01_mutants.py): with VERIF_X01_DIFF=<dir> the first run stores the generated universe and a
    # digest + verdict of every trace; later runs (other trees) validate only the traces that differ - a verdict is a
    # function of the trace.  The TLC laws do not depend on the tree and are skipped in that mode.
    diff = os.environ.get("VERIF_X01_DIFF")
    base = None
    mc, vac = [], []
    if ctx.replay_case:
        job = ctx.replay_case["case"]["job"]
        jobs = [(job[0], job[1], tuple(job[2]))]
    else:
        ex = cf.ThreadPoolExecutor(max_workers=24)
        if not diff:
            mc, vac = start_models(ctx, quick, ex)
        cache = os.path.join(diff, "behs_%s_%d.json" % (ctx.tier, ctx.seed)) if diff else None
        if cache and os.path.exists(cache):
            behs = json.load(open(cache))
            base = json.load(open(cache.replace("behs_", "base_")))
        else:
            gcfg = ctx.cfg("gen.cfg", GEN_CFG.format(frem=1 + ctx.seed, **bounds(quick)))
            behs = ctx.generate("Gen_AddrCodec", gcfg, count=False, heap="4g")
            if cache:
                json.dump(behs, open(cache, "w"))
        jobs = build_jobs(ctx, quick, behs, rng)
        del behs
        ctx.log("%d call groups to run on the implementation" % len(jobs))
    ctx.distinct = set(hashlib.md5(json.dumps(j[1:], separators=(",", ":")).encode()).digest()[:8] for j in jobs if nontrivial(j))
    ctx.evaluations = len(jobs)
    jobmap = {j[0]: j for j in jobs}
    rejects, digests, skipped = [], {}, 0
    for lo in range(0, len(jobs), BATCH):
        traces = ctx.pmap(x01_addr.run_job, jobs[lo:lo + BATCH], chunk=1000)
        if lo == 0:
            for tr in traces[:1] + traces[len(traces) // 2:len(traces) // 2 + 2] + traces[-2:]:
                ctx.sample(json.dumps(tr["ev"][0])[:300])
        if diff:
            for tr in traces:
                digests[tr["tid"]] = digest(tr)
        if base is not None:
            same = [tr for tr in traces if base["digest"].get(tr["tid"]) == digests[tr["tid"]]]
            skipped += len(same)
            rejects += [(tr, 1, base["rejected"][tr["tid"]]) for tr in same if tr["tid"] in base["rejected"]]
            traces = [tr for tr in traces if base["digest"].get(tr["tid"]) != digests[tr["tid"]]]
        rejects += ctx.validate("Trace_AddrCodec", "Trace_AddrCodec.cfg", traces)
        del traces
    if diff and base is None and not ctx.replay_case:
        json.dump({"digest": digests, "rejected": {tr["tid"]: clause for tr, _, clause in rejects}},
                  open(cache.replace("behs_", "base_"), "w"))
    if base is not None:
        ctx.extra["unchanged_traces_not_revalidated"] = skipped
    for f in mc:
        f.result()
    for v, f in vac:
        r = f.result()
        if r.violated != v:
            raise Machinery("vacuity witness %s not reached (violated=%s errors=%s)" % (v, r.violated, r.errors[:2]))
    if vac:
        ctx.extra["vacuity_witnesses"] = VAC
    by_sig = {}
    for tr, line, clause in rejects:
        sig = classify(tr, line, clause)
        by_sig[sig] = by_sig.get(sig, 0) + 1
        e = tr["ev"][line - 1] if line else tr["ev"][0]
        ctx.violation(clause, sig, "event %s" % json.dumps(e)[:400], {"job": jobmap.get(tr["tid"]), "line": line, "trace": tr})
    ctx.extra["rejected_by_signature"] = dict(sorted(by_sig.items()))


# ------------------------------------------------------------------ selftest: corrupted logs must be rejected
def selftest(ctx):
    """./check X01 --selftest: good traces of every call group are accepted; each of them with ONE logged field
    corrupted is rejected (prints the matrix; exit 0 iff all corruptions are rejected and all originals accepted)."""
    import copy
    a6 = [0x20, 0x01, 0x0d, 0xb8] + [0] * 11 + [1]
    t6 = [ord(c) for c in "2001:db8::1"]
    n6 = [[c] for c in b"1000000000000000000000008bd01002"] + IP6
    good = [x01_addr.run_job(j) for j in [
        ("g0", "ntoa6", (a6,)), ("g1", "ntoa4", ([192, 0, 2, 1],)), ("g2", "aton", (t6,)), ("g3", "canon", (t6,)),
        ("g4", "inet", ([ord(c) for c in "ff02::1%3"], 53)), ("g5", "fromaddr", (t6, ALT4, ALT6)),
        ("g6", "toaddr", (n6, IN_ADDR, IP6, True)), ("g7", "e164f", ([ord(c) for c in "+1 650"], ["some", E164], True)),
        ("g8", "e164t", ([[48], [53], [54]] + E164, ["some", E164], True))]]

    def mut(i, path, fn):
        tr = copy.deepcopy(good[i])
        tr["tid"] = "c%d_%s" % (i, "_".join(map(str, path)))
        obj = tr["ev"][0]
        for k in path[:-1]:
            obj = obj[k]
        obj[path[-1]] = fn(obj[path[-1]])
        return tr

    bump = lambda v: v + 1  # noqa: E731
    flip = lambda v: not v  # noqa: E731
    bad = [mut(0, ["res", 1, 0], bump), mut(0, ["res", 1], lambda v: v[:5] + [48] + v[5:]), mut(0, ["mapped"], flip),
           mut(0, ["ntop", 1, 2], bump), mut(1, ["res", 1, 0], bump), mut(2, ["r6", 1, 15], bump), mut(2, ["r4"], lambda v: ["ok", [1, 2, 3, 4]]),
           mut(2, ["p6", 1, 0], bump), mut(2, ["r6b"], lambda v: ["err", True, False, "SyntaxError"]),
           mut(3, ["c6", 1], lambda v: [ord(c) for c in "2001:DB8::1"]), mut(3, ["c4", 1], flip), mut(3, ["ci"], lambda v: ["err", False, True, "ValueError"]),
           mut(4, ["af", 1], lambda v: 4), mut(4, ["mc", 1], flip), mut(4, ["isaddr", 1], flip), mut(4, ["ll", 1, 1, 2], bump),
           mut(5, ["res", 1, 0, 0], bump), mut(5, ["alt", 1, 33], lambda v: [120]), mut(6, ["res", 1, 0], bump),
           mut(6, ["res"], lambda v: ["err", True, False, "SyntaxError"]), mut(7, ["res", 1, 0, 0], bump), mut(8, ["res", 1, 1], bump),
           mut(8, ["res"], lambda v: ["err", True, False, "SyntaxError"])]
    rej = ctx.validate("Trace_AddrCodec", "Trace_AddrCodec.cfg", good + bad)
    rejected = {tr["tid"]: clause for tr, _, clause in rej}
    ok = True
    for tr in good:
        print("original  %-24s %s" % (tr["tid"], "REJECTED (%s)" % rejected[tr["tid"]] if tr["tid"] in rejected else "accepted"))
        ok &= tr["tid"] not in rejected
    for tr in bad:
        print("corrupted %-24s %s" % (tr["tid"], "rejected by %s" % rejected[tr["tid"]] if tr["tid"] in rejected else "ACCEPTED"))
        ok &= tr["tid"] in rejected
    return 0 if ok else 2
